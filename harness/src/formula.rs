//! Formula-level generators (C01, C06, C09, and the language part of C05): a type-directed
//! random syntax tree is built first, printed with random spellings / whitespace /
//! comments, handed to the real parser and evaluator, and both trees plus the result are
//! sent to the driver.
use crate::util::*;
use rsbdd::bdd::BDD;
use rsbdd::parser::*;
use rsbdd::NamedSymbol;
use std::collections::HashMap;
use std::io::Write;
use std::panic::AssertUnwindSafe;
use std::rc::Rc;

#[derive(Clone, Debug, PartialEq)]
pub enum GF {
    False,
    True,
    Var(String),
    Not(Box<GF>),
    Quant(bool, Vec<String>, Box<GF>), // true = exists
    CntC(u8, Vec<GF>, u64),            // op: 0 <=, 1 <, 2 >=, 3 >, 4 =
    CntV(u8, Vec<GF>, Vec<GF>),
    Fix(String, bool, Box<GF>), // true = gfp
    Ite(Box<GF>, Box<GF>, Box<GF>),
    Bin(u8, Box<GF>, Box<GF>), // 0 and 1 or 2 xor 3 nor 4 nand 5 implies 6 impliesinv 7 iff
}

pub const BIN_NAMES: [&str; 8] = ["and", "or", "xor", "nor", "nand", "imp", "impinv", "iff"];
pub const CNT_NAMES: [&str; 5] = ["le", "lt", "ge", "gt", "eq"];

pub const NAME_POOL: [&str; 14] = ["a", "b", "c", "d", "e", "x1", "y'", "_z", "q_0", "V", "nott", "a1", "'q", "v"];

pub struct Gen<'a> {
    pub rng: &'a mut Rng,
    pub names: Vec<String>,
    pub allow_fix: bool,
    pub big_consts: bool,
    pub max_list: usize,
}

type Pol = HashMap<String, i8>;

fn flip(p: &Pol) -> Pol { p.iter().map(|(k, v)| (k.clone(), -*v)).collect() }
fn kill(p: &Pol) -> Pol { p.iter().map(|(k, _)| (k.clone(), 0)).collect() }

thread_local! {
    /// when set, fixed-point names may occur at any polarity (bodies need not be monotone)
    pub static ANY_POLARITY: std::cell::Cell<bool> = std::cell::Cell::new(false);
}

impl<'a> Gen<'a> {
    fn name(&mut self) -> String { self.rng.pick(&self.names).clone() }

    fn var(&mut self, pol: &Pol) -> GF {
        if ANY_POLARITY.with(|c| c.get()) { return GF::Var(self.name()); }
        // a fixed-point name may only be used where its polarity is positive
        for _ in 0..20 {
            let n = self.name();
            match pol.get(&n) {
                Some(p) if *p <= 0 => continue,
                _ => return GF::Var(n),
            }
        }
        if self.rng.chance(1, 2) { GF::True } else { GF::False }
    }

    fn list(&mut self, depth: u32, pol: &Pol) -> Vec<GF> {
        let n = self.rng.below(self.max_list as u64 + 1) as usize;
        (0..n).map(|_| self.gen(depth, pol)).collect()
    }

    pub fn gen(&mut self, depth: u32, pol: &Pol) -> GF {
        if depth == 0 {
            return match self.rng.below(10) {
                0 => GF::True,
                1 => GF::False,
                _ => self.var(pol),
            };
        }
        let d = depth - 1;
        match self.rng.below(if self.allow_fix { 13 } else { 11 }) {
            0 | 1 => self.var(pol),
            2 => GF::Not(Box::new(self.gen(d, &flip(pol)))),
            3 | 4 | 5 => {
                let op = self.rng.below(8) as u8;
                let (pl, pr) = match op {
                    0 | 1 => (pol.clone(), pol.clone()),
                    5 => (flip(pol), pol.clone()),
                    6 => (pol.clone(), flip(pol)),
                    3 | 4 => (flip(pol), flip(pol)),
                    _ => (kill(pol), kill(pol)),
                };
                GF::Bin(op, Box::new(self.gen(d, &pl)), Box::new(self.gen(d, &pr)))
            }
            6 => {
                let c = self.gen(d, &kill(pol));
                GF::Ite(Box::new(c), Box::new(self.gen(d, pol)), Box::new(self.gen(d, pol)))
            }
            7 | 8 => {
                let k = self.rng.below(4) as usize;
                let mut vs: Vec<String> = (0..k).map(|_| self.name()).collect();
                if k >= 2 && self.rng.chance(1, 5) { vs[1] = vs[0].clone(); }
                let mut p = pol.clone();
                for v in &vs { p.remove(v); }
                GF::Quant(self.rng.chance(1, 2), vs, Box::new(self.gen(d, &p)))
            }
            9 => {
                let op = self.rng.below(5) as u8;
                let p = match op { 2 | 3 => pol.clone(), 0 | 1 => flip(pol), _ => kill(pol) };
                let fs = self.list(d, &p);
                let len = fs.len() as u64;
                let k = if self.big_consts && self.rng.chance(1, 6) {
                    *self.rng.pick(&[1u64 << 31, (1u64 << 63) - 1, 1u64 << 63, u64::MAX, (1u64 << 63) + 1, u64::MAX - 1])
                } else {
                    self.rng.below(len + 3)
                };
                GF::CntC(op, fs, k)
            }
            10 => {
                let op = self.rng.below(5) as u8;
                let (pl, pr) = match op { 2 | 3 => (pol.clone(), flip(pol)), 0 | 1 => (flip(pol), pol.clone()), _ => (kill(pol), kill(pol)) };
                let l = self.list(d, &pl);
                let r = self.list(d, &pr);
                GF::CntV(op, l, r)
            }
            _ => {
                let x = self.name();
                let mut p = pol.clone();
                p.insert(x.clone(), 1);
                GF::Fix(x, self.rng.chance(1, 2), Box::new(self.gen(d, &p)))
            }
        }
    }
}

fn is_open(f: &GF) -> bool {
    match f {
        GF::Quant(..) | GF::Fix(..) | GF::Ite(..) => true,
        GF::Not(g) => is_open(g),
        _ => false,
    }
}

/// Print a tree as text of the language, choosing spellings at random.
pub struct Printer<'a> {
    pub rng: &'a mut Rng,
    pub noise: bool,
}

impl<'a> Printer<'a> {
    fn sp(&mut self) -> String {
        if !self.noise { return " ".to_string(); }
        match self.rng.below(12) {
            0 => "\n".to_string(),
            1 => "  ".to_string(),
            2 => "\t".to_string(),
            3 => " \"a comment & [ ) lfp\" ".to_string(),
            4 => " $ ".to_string(),   // a character outside the alphabet acts as a separator
            5 => " \"\" ".to_string(),
            // line endings as the only separator between two tokens: CR LF, a lone CR
            6 => "\r\n".to_string(),
            7 => "\r".to_string(),
            _ => " ".to_string(),
        }
    }
    fn pick(&mut self, xs: &[&str]) -> String { self.rng.pick(xs).to_string() }

    pub fn print(&mut self, f: &GF) -> String {
        match f {
            GF::False => "false".to_string(),
            GF::True => "true".to_string(),
            // with noise, now and then between stray braces that do not hug the name: only `{name}` is a reference,
            // any other brace is a character outside the alphabet
            GF::Var(n) => if self.noise && self.rng.chance(1, 12) {
                match self.rng.below(4) { 0 => format!("{{ {} }}", n), 1 => format!("{{{} }}", n), 2 => format!("{{ {}}}", n), _ => format!("{{\n {}\n}}", n) }
            } else { n.clone() },
            GF::Not(g) => {
                let neg = self.pick(&["-", "!", "not "]);
                let inner = self.print(g);
                if matches!(**g, GF::Bin(..)) { format!("{}({})", neg, inner) }
                else if self.rng.chance(1, 6) { format!("{}({})", neg, inner) }
                else { format!("{}{}", neg, inner) }
            }
            GF::Quant(ex, vs, g) => {
                let q = if *ex { self.pick(&["exists", "any"]) } else { self.pick(&["forall", "all"]) };
                let mut s = format!("{} ", q);
                for (i, v) in vs.iter().enumerate() {
                    if i > 0 { s.push_str(","); s.push_str(&self.sp()); }
                    s.push_str(v);
                }
                if !vs.is_empty() && self.rng.chance(1, 4) { s.push(','); }
                format!("{}{}#{}{}", s, self.sp(), self.sp(), self.print(g))
            }
            GF::CntC(op, fs, k) => {
                let l = self.print_list(fs);
                format!("{}{}{}{}{}", l, self.sp(), self.cnt_op(*op), self.sp(), k)
            }
            GF::CntV(op, l, r) => {
                let a = self.print_list(l);
                let b = self.print_list(r);
                format!("{}{}{}{}{}", a, self.sp(), self.cnt_op(*op), self.sp(), b)
            }
            GF::Fix(x, g, body) => {
                let kw = if *g { self.pick(&["gfp", "nu"]) } else { self.pick(&["lfp", "mu"]) };
                format!("{} {}{}#{}{}", kw, x, self.sp(), self.sp(), self.print(body))
            }
            GF::Ite(c, t, e) => {
                format!("if {}{}then {}{}else {}", self.print(c), self.sp(), self.print(t), self.sp(), self.print(e))
            }
            GF::Bin(op, l, r) => {
                let ls = self.print(l);
                let ls = if matches!(**l, GF::Bin(..)) || is_open(l) || self.rng.chance(1, 8) { format!("({})", ls) } else { ls };
                let rs = self.print(r);
                let rs = if self.rng.chance(1, 8) { format!("({})", rs) } else { rs };
                let o = match op {
                    0 => self.pick(&["&", "*", "and"]),
                    1 => self.pick(&["|", "+", "or"]),
                    2 => self.pick(&["^", "xor"]),
                    3 => "nor".to_string(),
                    4 => "nand".to_string(),
                    5 => self.pick(&["=>", "implies", "in"]),
                    6 => "<=".to_string(),
                    _ => self.pick(&["<=>", "iff", "eq"]),
                };
                format!("{}{}{}{}{}", ls, self.sp(), o, self.sp(), rs)
            }
        }
    }
    fn cnt_op(&mut self, op: u8) -> &'static str {
        match op { 0 => "<=", 1 => "<", 2 => ">=", 3 => ">", _ => "=" }
    }
    fn print_list(&mut self, fs: &[GF]) -> String {
        let mut s = "[".to_string();
        for (i, f) in fs.iter().enumerate() {
            if i > 0 { s.push(','); s.push_str(&self.sp()); }
            s.push_str(&self.print(f));
        }
        if !fs.is_empty() && self.rng.chance(1, 4) { s.push(','); }
        s.push(']');
        s
    }
}

pub fn ser_gf(f: &GF, ids: &HashMap<String, usize>) -> String {
    let id = |n: &String| ids.get(n).copied().unwrap_or(99999);
    match f {
        GF::False => "F".into(),
        GF::True => "T".into(),
        GF::Var(n) => format!("v{}", id(n)),
        GF::Not(g) => format!("! {}", ser_gf(g, ids)),
        GF::Quant(ex, vs, g) => format!("{} {} {}{}", if *ex { "E" } else { "A" }, vs.len(),
            vs.iter().map(|v| format!("{} ", id(v))).collect::<String>(), ser_gf(g, ids)),
        GF::CntC(op, fs, k) => format!("CC {} {} {}{}", CNT_NAMES[*op as usize], fs.len(),
            fs.iter().map(|g| format!("{} ", ser_gf(g, ids))).collect::<String>(), k),
        GF::CntV(op, l, r) => format!("CV {} {} {}{} {}", CNT_NAMES[*op as usize], l.len(),
            l.iter().map(|g| format!("{} ", ser_gf(g, ids))).collect::<String>(), r.len(),
            r.iter().map(|g| format!("{} ", ser_gf(g, ids))).collect::<String>().trim_end()),
        GF::Fix(x, g, b) => format!("FX {} {} {}", id(x), *g as u8, ser_gf(b, ids)),
        GF::Ite(c, t, e) => format!("I {} {} {}", ser_gf(c, ids), ser_gf(t, ids), ser_gf(e, ids)),
        GF::Bin(op, l, r) => format!("B {} {} {}", BIN_NAMES[*op as usize], ser_gf(l, ids), ser_gf(r, ids)),
    }
}

pub fn ser_real(f: &SymbolicBDD) -> String {
    match f {
        SymbolicBDD::False => "F".into(),
        SymbolicBDD::True => "T".into(),
        SymbolicBDD::Var(v) => format!("v{}", v.id),
        SymbolicBDD::Not(g) => format!("! {}", ser_real(g)),
        SymbolicBDD::Quantifier(q, vs, g) => format!("{} {} {}{}",
            if *q == QuantifierType::Exists { "E" } else { "A" }, vs.len(),
            vs.iter().map(|v| format!("{} ", v.id)).collect::<String>(), ser_real(g)),
        SymbolicBDD::CountableConst(op, fs, k) => format!("CC {} {} {}{}", cnt_name(*op), fs.len(),
            fs.iter().map(|g| format!("{} ", ser_real(g))).collect::<String>(), k),
        SymbolicBDD::CountableVariable(op, l, r) => format!("CV {} {} {}{} {}", cnt_name(*op), l.len(),
            l.iter().map(|g| format!("{} ", ser_real(g))).collect::<String>(), r.len(),
            r.iter().map(|g| format!("{} ", ser_real(g))).collect::<String>().trim_end()),
        SymbolicBDD::FixedPoint(x, g, b) => format!("FX {} {} {}", x.id, *g as u8, ser_real(b)),
        SymbolicBDD::Ite(c, t, e) => format!("I {} {} {}", ser_real(c), ser_real(t), ser_real(e)),
        SymbolicBDD::BinaryOp(op, l, r) => format!("B {} {} {}", bin_name(*op), ser_real(l), ser_real(r)),
        SymbolicBDD::Subtree(_) => "SUBTREE".into(),
        SymbolicBDD::Reference(n) => format!("R {}", hex(n.as_bytes())),
    }
}

pub fn cnt_name_pub(op: CountableOperator) -> &'static str { cnt_name(op) }
pub fn bin_name_pub(op: BinaryOperator) -> &'static str { bin_name(op) }
fn cnt_name(op: CountableOperator) -> &'static str {
    match op {
        CountableOperator::AtMost => "le",
        CountableOperator::LessThan => "lt",
        CountableOperator::AtLeast => "ge",
        CountableOperator::MoreThan => "gt",
        CountableOperator::Exactly => "eq",
    }
}
fn bin_name(op: BinaryOperator) -> &'static str {
    match op {
        BinaryOperator::And => "and",
        BinaryOperator::Or => "or",
        BinaryOperator::Xor => "xor",
        BinaryOperator::Nor => "nor",
        BinaryOperator::Nand => "nand",
        BinaryOperator::Implies => "imp",
        BinaryOperator::ImpliesInv => "impinv",
        BinaryOperator::Iff => "iff",
    }
}

pub fn show_ns(b: &BDD<NamedSymbol>) -> String {
    let mut s = String::new();
    fn go(b: &BDD<NamedSymbol>, s: &mut String) {
        match b {
            BDD::True => s.push('T'),
            BDD::False => s.push('F'),
            BDD::Choice(t, v, f) => {
                s.push('n');
                s.push_str(&v.id.to_string());
                s.push(' ');
                go(t, s);
                s.push(' ');
                go(f, s);
            }
        }
    }
    go(b, &mut s);
    s
}

pub enum Parsed {
    Ok(ParsedFormula),
    Err(String),
    Panic(String),
}

pub fn parse_text(text: &[u8], ordering: Option<Vec<NamedSymbol>>) -> Parsed {
    let r = guarded(AssertUnwindSafe(|| {
        let mut rd: &[u8] = text;
        ParsedFormula::new(&mut rd, ordering)
    }));
    match r {
        Ok(Ok(pf)) => Parsed::Ok(pf),
        Ok(Err(e)) => Parsed::Err(e.to_string()),
        Err(p) => Parsed::Panic(p),
    }
}

pub fn eval_guarded(pf: &ParsedFormula) -> Result<Rc<BDD<NamedSymbol>>, String> {
    guarded(AssertUnwindSafe(|| pf.eval()))
}

pub fn id_table(pf: &ParsedFormula) -> HashMap<String, usize> {
    pf.vars.iter().map(|v| (v.name.as_ref().clone(), v.id)).collect()
}

fn gen_names(rng: &mut Rng) -> Vec<String> {
    let k = 1 + rng.below(6) as usize;
    let mut names: Vec<String> = Vec::new();
    while names.len() < k {
        let n = rng.pick(&NAME_POOL).to_string();
        if !names.contains(&n) { names.push(n); }
    }
    names
}

/// the variable names a generated formula mentions (bound ones included)
pub fn names_of(f: &GF) -> Vec<String> {
    fn go(f: &GF, acc: &mut Vec<String>) {
        match f {
            GF::Var(x) => { if !acc.contains(x) { acc.push(x.clone()); } }
            GF::Not(g) => go(g, acc),
            GF::Quant(_, vs, g) => { for v in vs { if !acc.contains(v) { acc.push(v.clone()); } } go(g, acc) }
            GF::Fix(x, _, g) => { if !acc.contains(x) { acc.push(x.clone()); } go(g, acc) }
            GF::Bin(_, a, b) => { go(a, acc); go(b, acc); }
            GF::Ite(a, b, c) => { go(a, acc); go(b, acc); go(c, acc); }
            GF::CntC(_, fs, _) => { for g in fs { go(g, acc); } }
            GF::CntV(_, l, r) => { for g in l.iter().chain(r.iter()) { go(g, acc); } }
            _ => {}
        }
    }
    let mut acc = Vec::new();
    go(f, &mut acc);
    acc
}

/// two different names of the text that the tokenizer gave the same variable id (under `ordering`), if any
pub fn token_id_clash(text: &str, ordering: &Option<Vec<NamedSymbol>>) -> Option<(String, String, usize)> {
    let toks = guarded(AssertUnwindSafe(|| { let mut rd: &[u8] = text.as_bytes(); rsbdd::parser::SymbolicBDD::tokenize(&mut rd, ordering.clone()) })).ok()?.ok()?;
    let mut seen: Vec<(String, usize)> = Vec::new();
    for t in toks {
        if let rsbdd::parser::SymbolicBDDToken::Var(v) = t {
            if let Some((n, _)) = seen.iter().find(|(n, i)| *i == v.id && n != v.name.as_ref()) { return Some((n.clone(), v.name.as_ref().clone(), v.id)); }
            if !seen.iter().any(|(n, _)| n == v.name.as_ref()) { seen.push((v.name.as_ref().clone(), v.id)); }
        }
    }
    None
}

/// an ordering as the API accepts it: some of the names (and two unused ones), distinct ids with gaps, the vector
/// not sorted by id
pub fn api_ordering(rng: &mut Rng, names: &[String]) -> Vec<NamedSymbol> {
    let mut pool: Vec<String> = names.to_vec();
    pool.push("unused1".to_string());
    pool.push("unused2".to_string());
    let mut ord = Vec::new();
    let mut next_id = 0usize;
    let cnt = 1 + rng.below(pool.len() as u64) as usize;
    for _ in 0..cnt {
        let idx = rng.below(pool.len() as u64) as usize;
        let nm = pool.remove(idx);
        next_id += rng.below(3) as usize;
        ord.push(NamedSymbol { name: Rc::new(nm), id: next_id });
        next_id += 1;
    }
    for k in (1..ord.len()).rev() { let j = rng.below(k as u64 + 1) as usize; ord.swap(k, j); }
    // every sixth ordering: ids beyond 32 bits (a row in the high word, a column in the low one), chosen so that the
    // order of the low words differs from the order of the ids and two ids share their low word
    if rng.chance(1, 6) {
        let wide: [usize; 8] = [(1 << 32) | 5, (2 << 32) | 5, (3 << 32) | 1, 7, u32::MAX as usize, 1 << 32, (1 << 33) | 2, (5 << 40) | 3];
        let mut picks: Vec<usize> = wide.to_vec();
        for k in (1..picks.len()).rev() { let j = rng.below(k as u64 + 1) as usize; picks.swap(k, j); }
        for (i, o) in ord.iter_mut().enumerate() { o.id = picks[i % picks.len()] + (i / picks.len()) * 1000; }
    }
    ord
}

/// one `…|eval|gen|real|result` line
pub fn has_fix(g: &GF) -> bool {
    match g {
        GF::False | GF::True | GF::Var(_) => false,
        GF::Not(a) | GF::Quant(_, _, a) => has_fix(a),
        GF::CntC(_, fs, _) => fs.iter().any(has_fix),
        GF::CntV(_, a, b) => a.iter().any(has_fix) || b.iter().any(has_fix),
        GF::Fix(..) => true,
        GF::Ite(a, b, c) => has_fix(a) || has_fix(b) || has_fix(c),
        GF::Bin(_, a, b) => has_fix(a) || has_fix(b),
    }
}

static EVAL_COUNT: std::sync::atomic::AtomicUsize = std::sync::atomic::AtomicUsize::new(0);

pub fn eval_line(tag: &str, gf: &GF, text: &str, st: &mut Stats) -> String { eval_line_ord(tag, gf, text, None, st) }

/// … under an ordering given through the API
pub fn eval_line_ord(tag: &str, gf: &GF, text: &str, ordering: Option<Vec<NamedSymbol>>, st: &mut Stats) -> String {
    if let Some((a, b, id)) = token_id_clash(text, &ordering) {
        st.hit("id-clash");
        return format!("{}|idclash|{}|{}|{}", tag, hex(a.as_bytes()), hex(b.as_bytes()), id);
    }
    crate::watchdog::enter(text);
    let line = match parse_text(text.as_bytes(), ordering) {
        Parsed::Err(_) => { st.hit("parse.err"); format!("{}|eval|{}|ERR|-", tag, ser_gf(gf, &HashMap::new())) }
        Parsed::Panic(_) => { st.hit("parse.panic"); format!("{}|eval|{}|PANIC|-", tag, ser_gf(gf, &HashMap::new())) }
        Parsed::Ok(pf) => {
            let ids = id_table(&pf);
            crate::watchdog::enter_div(text, format!("{}|eval|{}|{}|DIVERGE", tag, ser_gf(gf, &ids), ser_real(&pf.bdd)));
            let mut res = match eval_guarded(&pf) {
                Ok(b) => { st.hit(if b.is_const() { "result.const" } else { "result.choice" }); show_ns(&b) }
                Err(_) => { st.hit("eval.panic"); "PANIC".to_string() }
            };
            // every formula with a fixed point, and every third of the others, is evaluated a second time by the same ParsedFormula (its environment now holds every
            // node of the first evaluation), and it is the second answer that is judged
            let nth = EVAL_COUNT.fetch_add(1, std::sync::atomic::Ordering::Relaxed);
            if (nth % 3 == 2 || has_fix(gf)) && res != "PANIC" {
                st.hit("evaluated.twice");
                res = match eval_guarded(&pf) { Ok(b) => show_ns(&b), Err(_) => "PANIC".to_string() };
            }
            format!("{}|eval|{}|{}|{}", tag, ser_gf(gf, &ids), ser_real(&pf.bdd), res)
        }
    };
    crate::watchdog::leave();
    line
}

/// An independent truth-table evaluation of a generated formula over at most 6 names: bit `m` of the result is
/// the value under the assignment whose bit `j` is the value of `names[j]`.  Fixed points are computed as the
/// README describes them — apply the transformer repeatedly, from false (lfp) or true (gfp), until the value
/// is stable; `None` when that iteration runs into a cycle (no stable value), or there are too many names.
pub fn ref_tt(gf: &GF, names: &[String]) -> Option<u64> {
    let n = names.len();
    if n > 6 { return None; }
    let rows = 1usize << n;
    let full: u64 = if rows == 64 { u64::MAX } else { (1u64 << rows) - 1 };
    fn idx(names: &[String], x: &str) -> Option<usize> { names.iter().position(|y| y == x) }
    fn go(f: &GF, names: &[String], rows: usize, full: u64, env: &HashMap<String, u64>) -> Option<u64> {
        Some(match f {
            GF::True => full,
            GF::False => 0,
            GF::Var(x) => match env.get(x) {
                Some(t) => *t,
                None => { let j = idx(names, x)?; let mut t = 0u64; for m in 0..rows { if (m >> j) & 1 == 1 { t |= 1 << m; } } t }
            },
            GF::Not(g) => !go(g, names, rows, full, env)? & full,
            GF::Bin(op, l, r) => {
                let (a, b) = (go(l, names, rows, full, env)?, go(r, names, rows, full, env)?);
                (match op { 0 => a & b, 1 => a | b, 2 => a ^ b, 3 => !(a | b), 4 => !(a & b), 5 => !a | b, 6 => a | !b, _ => !(a ^ b) }) & full
            }
            GF::Ite(c, t, e) => {
                let (c, t, e) = (go(c, names, rows, full, env)?, go(t, names, rows, full, env)?, go(e, names, rows, full, env)?);
                ((c & t) | (!c & e)) & full
            }
            GF::Quant(ex, vs, body) => {
                // a quantified name hides a fixed-point name of the same spelling
                let mut env2 = env.clone();
                for v in vs { env2.remove(v); }
                let mut t = go(body, names, rows, full, &env2)?;
                for v in vs {
                    let j = idx(names, v)?;
                    let mut r = 0u64;
                    for m in 0..rows {
                        let (lo, hi) = ((t >> (m & !(1 << j))) & 1, (t >> (m | (1 << j))) & 1);
                        if (if *ex { lo | hi } else { lo & hi }) == 1 { r |= 1 << m; }
                    }
                    t = r;
                }
                t
            }
            GF::CntC(op, fs, k) => {
                let ts: Option<Vec<u64>> = fs.iter().map(|g| go(g, names, rows, full, env)).collect();
                let ts = ts?;
                let mut r = 0u64;
                for m in 0..rows {
                    let c = ts.iter().filter(|t| (*t >> m) & 1 == 1).count() as u64;
                    if match op { 0 => c <= *k, 1 => c < *k, 2 => c >= *k, 3 => c > *k, _ => c == *k } { r |= 1 << m; }
                }
                r
            }
            GF::CntV(op, l, rr) => {
                let tl: Option<Vec<u64>> = l.iter().map(|g| go(g, names, rows, full, env)).collect();
                let tr: Option<Vec<u64>> = rr.iter().map(|g| go(g, names, rows, full, env)).collect();
                let (tl, tr) = (tl?, tr?);
                let mut r = 0u64;
                for m in 0..rows {
                    let a = tl.iter().filter(|t| (*t >> m) & 1 == 1).count();
                    let b = tr.iter().filter(|t| (*t >> m) & 1 == 1).count();
                    if match op { 0 => a <= b, 1 => a < b, 2 => a >= b, 3 => a > b, _ => a == b } { r |= 1 << m; }
                }
                r
            }
            GF::Fix(x, gfp, body) => {
                let mut cur: u64 = if *gfp { full } else { 0 };
                let mut seen: Vec<u64> = vec![cur];
                loop {
                    let mut env2 = env.clone();
                    env2.insert(x.clone(), cur);
                    let next = go(body, names, rows, full, &env2)?;
                    if next == cur { break cur; }
                    if seen.contains(&next) || seen.len() > 300 { return None; }
                    seen.push(next);
                    cur = next;
                }
            }
        })
    }
    go(gf, names, rows, full, &HashMap::new())
}

/// fixed points whose bodies need NOT be monotone but whose iteration is stable (decided by `ref_tt`, so a
/// formula that would make the implementation loop forever is never evaluated)
pub fn convergent_any_polarity(tag: &str, out: &mut dyn Write, tier: &str, rng: &mut Rng, st: &mut Stats) {
    let n = if tier == "thorough" { 150000 } else { 1500 };
    let mut emitted = 0;
    let mut tries = 0;
    while emitted < n && tries < 20 * n {
        tries += 1;
        let k = 2 + rng.below(3) as usize;
        let mut names: Vec<String> = Vec::new();
        while names.len() < k { let nm = rng.pick(&NAME_POOL[..6]).to_string(); if !names.contains(&nm) { names.push(nm); } }
        let x = names[0].clone();
        ANY_POLARITY.with(|c| c.set(true));
        let body = { let mut g = Gen { rng, names: names.clone(), allow_fix: tries % 3 == 0, big_consts: false, max_list: 3 }; let d = 1 + g.rng.below(3) as u32; g.gen(d, &Pol::new()) };
        ANY_POLARITY.with(|c| c.set(false));
        let fix = GF::Fix(x, rng.chance(1, 2), Box::new(body));
        let gf = match tries % 4 { 0 => GF::Bin(rng.below(8) as u8, Box::new(fix), Box::new(GF::Var(names[1].clone()))), _ => fix };
        if ref_tt(&gf, &names).is_none() { st.hit("anypol.skipped-not-convergent"); continue; }
        count_kinds(&gf, st);
        let text = Printer { rng, noise: false }.print(&gf);
        let line = eval_line(tag, &gf, &text, st);
        writeln!(out, "{}", line).unwrap();
        st.hit("anypol.convergent");
        emitted += 1;
    }
}

fn count_kinds(f: &GF, st: &mut Stats) {
    match f {
        GF::False | GF::True => st.hit("node.const"),
        GF::Var(_) => st.hit("node.var"),
        GF::Not(g) => { st.hit("node.not"); count_kinds(g, st) }
        GF::Quant(e, vs, g) => { st.hit(if *e { "node.exists" } else { "node.forall" }); st.hit(&format!("quant.len{}", vs.len().min(3))); count_kinds(g, st) }
        GF::CntC(op, fs, _) => { st.hit(&format!("node.cntconst.{}", CNT_NAMES[*op as usize])); for g in fs { count_kinds(g, st) } }
        GF::CntV(op, l, r) => { st.hit(&format!("node.cntvar.{}", CNT_NAMES[*op as usize])); for g in l.iter().chain(r.iter()) { count_kinds(g, st) } }
        GF::Fix(_, g, b) => { st.hit(if *g { "node.gfp" } else { "node.lfp" }); count_kinds(b, st) }
        GF::Ite(c, t, e) => { st.hit("node.ite"); count_kinds(c, st); count_kinds(t, st); count_kinds(e, st) }
        GF::Bin(op, l, r) => { st.hit(&format!("node.bin.{}", BIN_NAMES[*op as usize])); count_kinds(l, st); count_kinds(r, st) }
    }
}

pub fn corpus_lines(tag: &str) -> Vec<String> {
    let dir = std::env::var("VERIF_CORPUS").unwrap_or_default();
    let path = format!("{}/{}.txt", dir, tag);
    std::fs::read_to_string(path).map(|s| s.lines().filter(|l| !l.trim().is_empty() && !l.starts_with('#')).map(|l| l.to_string()).collect()).unwrap_or_default()
}

/// corpus texts: the parser's own tree stands in for the generator's tree
pub fn corpus_eval(tag: &str, file: &str, out: &mut dyn Write, st: &mut Stats) {
    for text in corpus_lines(file) {
        crate::watchdog::enter(&text);
        let line = match parse_text(text.as_bytes(), None) {
            Parsed::Ok(pf) => {
                let res = match eval_guarded(&pf) { Ok(b) => show_ns(&b), Err(_) => "PANIC".to_string() };
                let t = ser_real(&pf.bdd);
                format!("{}|eval|{}|{}|{}", tag, t, t, res)
            }
            Parsed::Err(_) => format!("{}|eval|T|ERR|-", tag),
            Parsed::Panic(_) => format!("{}|eval|T|PANIC|-", tag),
        };
        crate::watchdog::leave();
        writeln!(out, "{}", line).unwrap();
        st.hit("corpus");
    }
}

/// the language forms of the counting comparisons: `[f1,…] op k` and `[..] op [..]`
pub fn c05_lang(out: &mut dyn Write, tier: &str, rng: &mut Rng, st: &mut Stats) {
    corpus_eval("C05", "C01", out, st);
    let n = if tier == "thorough" { 200000 } else { 2500 };
    for _ in 0..n {
        let names = gen_names(rng);
        let gf = {
            let mut g = Gen { rng, names, allow_fix: false, big_consts: true, max_list: 5 };
            let op = g.rng.below(5) as u8;
            let l = g.list(1, &Pol::new());
            if g.rng.chance(1, 3) {
                let r = g.list(1, &Pol::new());
                GF::CntV(op, l, r)
            } else {
                let len = l.len() as u64;
                let k = match g.rng.below(8) {
                    0 => *g.rng.pick(&[1u64 << 31, (1u64 << 63) - 1, 1u64 << 63, u64::MAX, (1u64 << 63) + 1, u64::MAX - 1]),
                    _ => g.rng.below(len + 3),
                };
                GF::CntC(op, l, k)
            }
        };
        count_kinds(&gf, st);
        let text = Printer { rng, noise: false }.print(&gf);
        let line = eval_line("C05", &gf, &text, st);
        writeln!(out, "{}", line).unwrap();
        // every fourth comparison also stands under a fixed point (whose evaluation substitutes into the body and
        // rebuilds both lists): with the bound name absent from it, or as one more operand on the side on which the
        // comparison is monotone in it
        if rng.chance(1, 4) {
            let x = "Xfix".to_string();
            let body = match (&gf, rng.below(2)) {
                (GF::CntV(op, l, r), 1) if *op != 4 => {
                    let (mut l2, mut r2) = (l.clone(), r.clone());
                    if *op >= 2 { l2.insert(rng.below(l2.len() as u64 + 1) as usize, GF::Var(x.clone())); }
                    else { r2.insert(rng.below(r2.len() as u64 + 1) as usize, GF::Var(x.clone())); }
                    GF::CntV(*op, l2, r2)
                }
                _ => gf.clone(),
            };
            let fx = GF::Fix(x, rng.chance(1, 2), Box::new(body));
            let text = Printer { rng, noise: false }.print(&fx);
            let line = eval_line("C05", &fx, &text, st);
            writeln!(out, "{}", line).unwrap();
            st.hit("lang.comparison-under-a-fixed-point");
        }
        // the same comparison with its constant spelled in digits of another script: if the syntax accepts
        // it at all, it must be read as that number (rejecting it is fine)
        if let GF::CntC(_, _, k) = &gf {
            if *k < 100000 && rng.chance(1, 4) {
                let zero = *rng.pick(&[0x660u32, 0x966, 0xe50, 0xff10, 0x1d7ce]);
                let spelled: String = k.to_string().chars().map(|c| char::from_u32(zero + c.to_digit(10).unwrap()).unwrap()).collect();
                let ascii = format!(" {}", k);
                if let Some(pos) = text.rfind(&ascii) {
                    let mut t2 = text.clone();
                    t2.replace_range(pos + 1..pos + ascii.len(), &spelled);
                    let line = eval_line("C05", &gf, &t2, st);
                    writeln!(out, "{}", line.replacen("C05|eval|", "C05|evalx|", 1)).unwrap();
                    st.hit("lang.other-script-digits");
                }
            }
        }
    }
}

/// the language forms of the quantifiers: `exists/forall v, … # body` at the root and nested, with
/// listed variables that are repeated, absent from the body, bound again inside, or that reach the
/// body only through the iterate of an enclosing fixed point
pub fn c04_lang(out: &mut dyn Write, tier: &str, rng: &mut Rng, st: &mut Stats) {
    let n = if tier == "thorough" { 200000 } else { 2500 };
    for i in 0..n {
        let k = 2 + rng.below(3) as usize;
        let mut names: Vec<String> = Vec::new();
        while names.len() < k { let n = rng.pick(&NAME_POOL[..6]).to_string(); if !names.contains(&n) { names.push(n); } }
        let gf = if i % 3 == 0 {
            // fix X # base op (Q vs # (X op' side)): the listed variables occur in the body only inside the iterate
            let x = names[0].clone();
            let v = names[1].clone();
            let w = names[names.len() - 1].clone();
            let mut g = Gen { rng, names: names.clone(), allow_fix: false, big_consts: false, max_list: 2 };
            let mut p = Pol::new();
            p.insert(x.clone(), 1);
            let mut pq = p.clone();
            pq.remove(&v);
            let side = if g.rng.chance(1, 2) { GF::Var(w.clone()) } else { g.gen(1, &pq) };
            let inner = if g.rng.chance(1, 3) { GF::Var(x.clone()) } else { GF::Bin(g.rng.below(2) as u8, Box::new(GF::Var(x.clone())), Box::new(side)) };
            let mut vs = vec![v.clone()];
            if g.rng.chance(1, 3) { vs.insert(0, w.clone()); }
            if g.rng.chance(1, 4) { vs.push(v.clone()); }
            let q = GF::Quant(g.rng.chance(1, 2), vs, Box::new(inner));
            let base = if g.rng.chance(1, 2) { GF::Bin(g.rng.below(2) as u8, Box::new(GF::Var(v.clone())), Box::new(GF::Var(w.clone()))) } else { g.gen(1, &p) };
            let body = GF::Bin(g.rng.below(2) as u8, Box::new(base), Box::new(q));
            st.hit("lang.quant-over-iterate");
            GF::Fix(x, g.rng.chance(1, 2), Box::new(body))
        } else {
            let depth = 1 + rng.below(3) as u32;
            let mut g = Gen { rng, names: names.clone(), allow_fix: i % 5 == 0, big_consts: false, max_list: 3 };
            let body = g.gen(depth, &Pol::new());
            // the list: any names of the pool, in any order, with repeats and names the body does not mention
            let m = 1 + g.rng.below(3) as usize;
            let vs: Vec<String> = (0..m).map(|_| if g.rng.chance(1, 5) { g.rng.pick(&NAME_POOL[..8]).to_string() } else { g.rng.pick(&names[..]).clone() }).collect();
            let q = GF::Quant(g.rng.chance(1, 2), vs, Box::new(body));
            st.hit("lang.quant-root");
            if g.rng.chance(1, 3) { GF::Bin(g.rng.below(8) as u8, Box::new(GF::Var(names[0].clone())), Box::new(q)) } else { q }
        };
        count_kinds(&gf, st);
        let text = Printer { rng, noise: false }.print(&gf);
        let line = eval_line("C04", &gf, &text, st);
        writeln!(out, "{}", line).unwrap();
    }
}

/// C02 for diagrams over named variables (what the parser and the binary produce): the variable order is the
/// order of the ids, whatever the names look like — names whose alphabetical order disagrees with it (b before a,
/// x10 after x9) included; the diagram returned must be ordered by id and reduced
/// the same tree with one name replaced everywhere (binders included)
pub fn rename_gf(g: &GF, from: &str, to: &str) -> GF {
    let rn = |s: &String| if s == from { to.to_string() } else { s.clone() };
    match g {
        GF::False => GF::False,
        GF::True => GF::True,
        GF::Var(v) => GF::Var(rn(v)),
        GF::Not(a) => GF::Not(Box::new(rename_gf(a, from, to))),
        GF::Quant(q, vs, a) => GF::Quant(*q, vs.iter().map(rn).collect(), Box::new(rename_gf(a, from, to))),
        GF::CntC(op, fs, k) => GF::CntC(*op, fs.iter().map(|f| rename_gf(f, from, to)).collect(), *k),
        GF::CntV(op, a, b) => GF::CntV(*op, a.iter().map(|f| rename_gf(f, from, to)).collect(), b.iter().map(|f| rename_gf(f, from, to)).collect()),
        GF::Fix(x, i, a) => GF::Fix(rn(x), *i, Box::new(rename_gf(a, from, to))),
        GF::Ite(a, b, c) => GF::Ite(Box::new(rename_gf(a, from, to)), Box::new(rename_gf(b, from, to)), Box::new(rename_gf(c, from, to))),
        GF::Bin(op, a, b) => GF::Bin(*op, Box::new(rename_gf(a, from, to)), Box::new(rename_gf(b, from, to))),
    }
}

pub fn c02_lang(out: &mut dyn Write, tier: &str, rng: &mut Rng, st: &mut Stats) {
    let n = if tier == "thorough" { 60000 } else { 1500 };
    let pool = ["z", "y", "b", "a", "x9", "x10", "B", "_a", "a'"];
    for i in 0..n {
        let k = 2 + rng.below(4) as usize;
        let mut names: Vec<String> = Vec::new();
        while names.len() < k { let nm = rng.pick(&pool[..]).to_string(); if !names.contains(&nm) { names.push(nm); } }
        let depth = 1 + rng.below(4) as u32;
        let gf = { let mut g = Gen { rng, names, allow_fix: i % 7 == 0, big_consts: false, max_list: 3 }; g.gen(depth, &Pol::new()) };
        let text = Printer { rng, noise: false }.print(&gf);
        // every fourth formula under an ordering handed over through the API (sparse, unsorted, sometimes beyond 32 bits)
        let ord = if i % 4 == 3 { st.hit("lang.api-ordering"); Some(api_ordering(rng, &names_of(&gf))) } else { None };
        let line = eval_line_ord("C02", &gf, &text, ord, st);
        writeln!(out, "{}", line).unwrap();
        st.hit("lang.named");
        // every fifth formula: the same formula with one name replaced by a name that occurs nowhere else, parsed on its
        // own — same ids, another name: the two answers must compare equal AND hash equal
        if i % 5 == 2 && !has_fix(&gf) {
            let ns = names_of(&gf);
            if let Some(from) = ns.first() {
                let gf2 = rename_gf(&gf, from, "renamed_q'");
                let t1 = Printer { rng, noise: false }.print(&gf);
                let t2 = Printer { rng, noise: false }.print(&gf2);
                if let (Parsed::Ok(p1), Parsed::Ok(p2)) = (parse_text(t1.as_bytes(), None), parse_text(t2.as_bytes(), None)) {
                    if let (Ok(r1), Ok(r2)) = (eval_guarded(&p1), eval_guarded(&p2)) {
                        // only when the two parses number their names alike (the printer may order list entries differently)
                        let ids1: Vec<usize> = p1.vars.iter().map(|v| v.id).collect();
                        let ids2: Vec<usize> = p2.vars.iter().map(|v| v.id).collect();
                        let names_match = p1.vars.iter().zip(p2.vars.iter()).all(|(a, b)| a.id == b.id && (a.name == b.name || (a.name.as_str() == from.as_str() && b.name.as_str() == "renamed_q'")));
                        if ids1 == ids2 && names_match {
                            writeln!(out, "C02|canon|renamed|{}|{}|{}|{}|{}|{}", show_ns(&r1), show_ns(&r2), (r1 == r2) as u8,
                                (r1.get_hash() == r2.get_hash()) as u8, r2.is_true() as u8, r2.is_false() as u8).unwrap();
                            st.hit("lang.renamed-pair");
                        }
                    }
                }
            }
        }
    }
}

pub fn c01(out: &mut dyn Write, tier: &str, rng: &mut Rng, st: &mut Stats) {
    corpus_eval("C01", "C01", out, st);
    convergent_any_polarity("C01", out, tier, rng, st);
    let n = if tier == "thorough" { 400000 } else { 3000 };
    for i in 0..n {
        let names = gen_names(rng);
        let depth = 1 + rng.below(if tier == "thorough" { 6 } else { 5 }) as u32;
        let gf = {
            let mut g = Gen { rng, names, allow_fix: i % 3 == 0, big_consts: i % 5 == 0, max_list: 4 };
            g.gen(depth, &Pol::new())
        };
        count_kinds(&gf, st);
        let text = Printer { rng, noise: i % 2 == 0 }.print(&gf);
        // every sixth formula is evaluated under an ordering handed over through the API
        let ord = if i % 6 == 5 { st.hit("ordering.api"); Some(api_ordering(rng, &names_of(&gf))) } else { None };
        let line = eval_line_ord("C01", &gf, &text, ord, st);
        writeln!(out, "{}", line).unwrap();
    }
}

/// a fixed point at the root with a body that is monotone in its bound name: random positive bodies, and
/// the template in which a quantified variable reaches the body only through the iterate (several rounds)
pub fn c06_formula(rng: &mut Rng, i: usize, st: &mut Stats) -> GF {
        // few other variables so that the exhaustive fixed-point oracle applies often
        let k = 1 + rng.below(if i % 3 == 0 { 4 } else { 3 }) as usize;
        let mut names: Vec<String> = Vec::new();
        while names.len() < k { let n = rng.pick(&NAME_POOL[..6]).to_string(); if !names.contains(&n) { names.push(n); } }
        let depth = 1 + rng.below(4) as u32;
        let x = names[0].clone();
        let gf = if i % 4 == 1 && names.len() >= 2 {
            // the bound name under a quantifier whose variable reaches the body only through
            // the current iterate:  fix X # base(v, w) op (Q v # (X op' g))
            let v = names[1].clone();
            let w = names[names.len() - 1].clone();
            let mut g = Gen { rng, names: names.clone(), allow_fix: false, big_consts: false, max_list: 2 };
            let mut p = Pol::new();
            p.insert(x.clone(), 1);
            let mut pq = p.clone();
            pq.remove(&v);
            let side = if g.rng.chance(1, 2) { GF::Var(w.clone()) } else { g.gen(1, &pq) };
            let inner_op = if g.rng.chance(1, 2) { 0 } else { 1 };
            let inner = if g.rng.chance(1, 3) { GF::Var(x.clone()) } else { GF::Bin(inner_op, Box::new(GF::Var(x.clone())), Box::new(side)) };
            let mut vs = vec![v.clone()];
            if g.rng.chance(1, 3) { vs.insert(0, w.clone()); }
            let q = GF::Quant(g.rng.chance(1, 2), vs, Box::new(inner));
            let base = if g.rng.chance(1, 2) { GF::Var(v.clone()) } else { g.gen(1, &p) };
            let other = GF::Var(w);
            let body = match g.rng.below(3) {
                0 => GF::Bin(1, Box::new(base), Box::new(GF::Bin(0, Box::new(q), Box::new(other)))),
                1 => GF::Bin(0, Box::new(base), Box::new(GF::Bin(1, Box::new(q), Box::new(other)))),
                _ => GF::Bin(g.rng.below(2) as u8, Box::new(q), Box::new(base)),
            };
            st.hit("template.quant-over-iterate");
            GF::Fix(x, g.rng.chance(1, 2), Box::new(body))
        } else if i % 8 == 3 && names.len() >= 2 {
            // an inner fixed point on ANOTHER name carries the outer name across a quantifier:
            //   lfp X # (base | lfp Y # (X | exists v # (Y & side)))   and the dual with gfp / & / forall / |
            // (the outer name itself never stands below the quantifier, the inner one does)
            let v = names[1].clone();
            let w = names[names.len() - 1].clone();
            let y = "Yin".to_string();
            let greatest = rng.chance(1, 2);
            let mut g = Gen { rng, names: names.clone(), allow_fix: false, big_consts: false, max_list: 2 };
            let mut p = Pol::new();
            p.insert(x.clone(), 1);
            let base = if g.rng.chance(1, 2) { GF::Bin(0, Box::new(GF::Var(v.clone())), Box::new(GF::Var(w.clone()))) } else { g.gen(1, &p) };
            let mut pq = Pol::new();
            let side = if g.rng.chance(1, 2) { GF::Var(w.clone()) } else { g.gen(1, &pq.clone()) };
            pq.clear();
            let (outer_op, inner_op, ex) = if greatest { (0u8, 1u8, false) } else { (1u8, 0u8, true) };
            let q = GF::Quant(ex, vec![v.clone()], Box::new(GF::Bin(inner_op, Box::new(GF::Var(y.clone())), Box::new(side))));
            let inner = GF::Fix(y, greatest, Box::new(GF::Bin(outer_op, Box::new(GF::Var(x.clone())), Box::new(q))));
            st.hit("template.inner-fixed-point-carries-the-outer-name-across-a-quantifier");
            GF::Fix(x, greatest, Box::new(GF::Bin(outer_op, Box::new(base), Box::new(inner))))
        } else {
            let mut g = Gen { rng, names, allow_fix: true, big_consts: false, max_list: 3 };
            let mut p = Pol::new();
            p.insert(x.clone(), 1);
            let body = g.gen(depth, &p);
            GF::Fix(x, g.rng.chance(1, 2), Box::new(body))
        };
        gf
}

pub fn c06(out: &mut dyn Write, tier: &str, rng: &mut Rng, st: &mut Stats) {
    let n = if tier == "thorough" { 100000 } else { 1500 };
    for i in 0..n {
        let gf = c06_formula(rng, i, st);
        // every fifth: the fixed point sits under quantifiers that bind (some of) the variables its body uses,
        // so the whole formula has fewer free variables than the iteration ranges over
        let gf = if i % 5 == 4 {
            let mut vs: Vec<String> = Vec::new();
            fn names_of(f: &GF, acc: &mut Vec<String>) {
                match f {
                    GF::Var(x) => { if !acc.contains(x) { acc.push(x.clone()); } }
                    GF::Not(g) | GF::Quant(_, _, g) | GF::Fix(_, _, g) => names_of(g, acc),
                    GF::Bin(_, a, b) => { names_of(a, acc); names_of(b, acc); }
                    GF::Ite(a, b, c) => { names_of(a, acc); names_of(b, acc); names_of(c, acc); }
                    GF::CntC(_, fs, _) => { for g in fs { names_of(g, acc); } }
                    GF::CntV(_, l, r) => { for g in l.iter().chain(r.iter()) { names_of(g, acc); } }
                    _ => {}
                }
            }
            names_of(&gf, &mut vs);
            if let GF::Fix(x, _, _) = &gf { vs.retain(|v| v != x); }
            let mut wrapped = gf;
            for v in vs { if rng.chance(2, 3) { wrapped = GF::Quant(rng.chance(1, 2), vec![v], Box::new(wrapped)); } }
            st.hit("fix-under-quantifiers");
            wrapped
        } else { gf };
        count_kinds(&gf, st);
        let text = Printer { rng, noise: false }.print(&gf);
        // every fourth formula under an ordering handed over through the API (sparse ids; the bound name is often not listed)
        let ord = if i % 4 == 1 { st.hit("ordering.api"); Some(api_ordering(rng, &names_of(&gf))) } else { None };
        let line = eval_line_ord("C06", &gf, &text, ord, st);
        writeln!(out, "{}", line).unwrap();
    }
    // the library iterator with monotone closures
    let env: rsbdd::bdd::BDDEnv<usize> = rsbdd::bdd::BDDEnv::new();
    let m = if tier == "thorough" { 100000 } else { 2000 };
    for _ in 0..m {
        let vars = crate::bddprops::rand_vars(rng, 3, 6);
        let a = from_tt(rng.below(256), &vars);
        let g = from_tt(rng.below(256), &crate::bddprops::rand_vars(rng, 3, 6));
        if rng.chance(1, 2) {
            let r = env.fp(Rc::clone(&a), |x| env.or(x, Rc::clone(&g)));
            writeln!(out, "C06|lib|fpor|{}|{}|{}", show(&a), show(&g), show(&r)).unwrap();
        } else {
            let r = env.fp(Rc::clone(&a), |x| env.and(x, Rc::clone(&g)));
            writeln!(out, "C06|lib|fpand|{}|{}|{}", show(&a), show(&g), show(&r)).unwrap();
        }
        st.hit("lib.fp");
    }
    // transformers that are not monotone: a chain of distinct diagrams d0 -> d1 -> ... -> dk -> dk (constants
    // may occur in the middle); `fp` must return dk, the first element the transformer maps to itself
    let m2 = if tier == "thorough" { 100000 } else { 1500 };
    for _ in 0..m2 {
        let vars = crate::bddprops::rand_vars(rng, 3, 6);
        let k = 1 + rng.below(5) as usize;
        let mut chain: Vec<B> = Vec::new();
        while chain.len() < k + 1 {
            let d = match rng.below(6) { 0 => from_tt(0, &[]), 1 => from_tt(1, &[]), _ => from_tt(rng.below(256), &vars) };
            let d = crate::env::intern(&env, &d);
            if !chain.iter().any(|c| **c == *d) { chain.push(d); }
        }
        let ch = chain.clone();
        let r = env.fp(Rc::clone(&chain[0]), move |x| {
            match ch.iter().position(|c| **c == *x) { Some(i) => Rc::clone(&ch[(i + 1).min(ch.len() - 1)]), None => x }
        });
        writeln!(out, "C06|lib|fpchain|{}|{}", show_list(&chain), show(&r)).unwrap();
        st.hit("lib.fpchain");
    }
    // consecutive iterates that are different diagrams with the same 64-bit hash (util::colliding): convergence is
    // equality of diagrams, not of hashes
    if hash_model_ok() {
        let m3 = if tier == "thorough" { 3000 } else { 200 };
        for i in 0..m3 {
            if i % 2 == 0 {
                // x0  ->  x0 | xz  with hash(x0 | xz) = hash(x0)
                let a = from_tt(2, &[0]);
                if let Some((z, _)) = colliding(&a, 0, 0) {
                    let g = from_tt(2, &[z]);
                    let (a, g) = (crate::env::intern(&env, &a), crate::env::intern(&env, &g));
                    let r = env.fp(Rc::clone(&a), |x| env.or(x, Rc::clone(&g)));
                    writeln!(out, "C06|lib|fpor|{}|{}|{}", show(&a), show(&g), show(&r)).unwrap();
                    st.hit("lib.fp.collision");
                }
            } else {
                let a = from_tt(1 + rng.below(254), &[1, 4, 9]);
                if a.is_const() { continue; }
                if let Some((_, b)) = colliding(&a, rng.below(3), 2 + rng.below(6) as usize) {
                    let c = from_tt(1 + rng.below(254), &[2, 3, 5]);
                    let chain: Vec<B> = if rng.chance(1, 2) { vec![a, b, c] } else { vec![c, a, b] };
                    let chain: Vec<B> = chain.iter().map(|d| crate::env::intern(&env, d)).collect();
                    if chain[0] == chain[1] || chain[1] == chain[2] || chain[0] == chain[2] { continue; }
                    let ch = chain.clone();
                    let r = env.fp(Rc::clone(&chain[0]), move |x| {
                        match ch.iter().position(|c| **c == *x) { Some(i) => Rc::clone(&ch[(i + 1).min(ch.len() - 1)]), None => x }
                    });
                    writeln!(out, "C06|lib|fpchain|{}|{}", show_list(&chain), show(&r)).unwrap();
                    st.hit("lib.fpchain.collision");
                }
            }
        }
    }
}

pub fn c09(out: &mut dyn Write, tier: &str, rng: &mut Rng, st: &mut Stats) {
    let n = if tier == "thorough" { 300000 } else { 2500 };
    for i in 0..n {
        // small name pools so that names are reused as bound and free
        let k = 1 + rng.below(4) as usize;
        let mut names: Vec<String> = Vec::new();
        // (the small pool, and a name that begins with an apostrophe next to the name it would become without it)
        let pool9: [&str; 9] = ["a", "b", "c", "d", "e", "x1", "y'", "'a", "'y'"];
        while names.len() < k { let n = rng.pick(&pool9).to_string(); if !names.contains(&n) { names.push(n); } }
        let depth = 1 + rng.below(5) as u32;
        let gf = {
            let mut g = Gen { rng, names: names.clone(), allow_fix: i % 2 == 0, big_consts: false, max_list: 3 };
            g.gen(depth, &Pol::new())
        };
        // every twentieth case: a fixed point whose bound name stands BELOW a negation, at positive polarity all the same
        // (`!(X => !t)`, `!!(X | t)`, `!(!X nand t)` …): substitution has to pass through the negation
        let gf = if i % 20 == 4 {
            let x = "Xneg".to_string();
            let t = Box::new(gf);
            let vx = || Box::new(GF::Var("Xneg".to_string()));
            let body = match (i / 20) % 4 {
                0 => GF::Not(Box::new(GF::Bin(5, vx(), Box::new(GF::Not(t))))),
                1 => GF::Not(Box::new(GF::Not(Box::new(GF::Bin(1, vx(), t))))),
                2 => GF::Bin(0, Box::new(GF::Not(Box::new(GF::Not(vx())))), t),
                _ => GF::Not(Box::new(GF::Bin(3, vx(), Box::new(GF::Not(t))))),
            };
            st.hit("fix.bound-name-below-a-negation");
            GF::Fix(x, (i / 80) % 2 == 0, Box::new(body))
        } else { gf };
        // every tenth case: 62 to 66 further variables in front (a conjunction), so that the names of the formula
        // proper are numbered around and beyond 64 under the default numbering
        let gf = if i % 10 == 7 {
            let extra = 62 + rng.below(5) as usize;
            let mut g = gf;
            for j in (0..extra).rev() { g = GF::Bin(0, Box::new(GF::Var(format!("p{}", j))), Box::new(g)); }
            st.hit("prefix.many-variables");
            g
        } else { gf };
        count_kinds(&gf, st);
        let text = Printer { rng, noise: false }.print(&gf);
        // every third case: an explicit ordering (API form, distinct ids) that may mention
        // names the formula does not use, or leave gaps between ids
        let ordering: Option<Vec<NamedSymbol>> = if i % 3 == 2 {
            let mut pool: Vec<String> = names.clone();
            pool.push("unused1".to_string());
            pool.push("unused2".to_string());
            let mut ord = Vec::new();
            let mut next_id = 0usize;
            let cnt = 1 + rng.below(pool.len() as u64) as usize;
            for _ in 0..cnt {
                let idx = rng.below(pool.len() as u64) as usize;
                let nm = pool.remove(idx);
                next_id += rng.below(3) as usize; // gaps
                if i % 12 == 5 { next_id += 30 + rng.below(70) as usize; } // large gaps: ids beyond 64, 128
                ord.push(NamedSymbol { name: Rc::new(nm), id: next_id });
                next_id += 1;
            }
            // the vector need not be sorted by id
            if rng.chance(1, 2) { for k in (1..ord.len()).rev() { let j = rng.below(k as u64 + 1) as usize; ord.swap(k, j); } }
            st.hit("ordering.some");
            Some(ord)
        } else { st.hit("ordering.none"); None };
        if let Some((a, b, id)) = token_id_clash(&text, &ordering) {
            writeln!(out, "C09|idclash|{}|{}|{}", hex(a.as_bytes()), hex(b.as_bytes()), id).unwrap();
            continue;
        }
        crate::watchdog::enter(&text);
        match parse_text(text.as_bytes(), ordering) {
            Parsed::Ok(pf) => {
                let ids = id_table(&pf);
                // every generated fixed point converges: an evaluation that does not return is reported with its input
                crate::watchdog::enter_div(&text, format!("C09|eval|{}|{}|DIVERGE", ser_gf(&gf, &ids), ser_real(&pf.bdd)));
                let res = match eval_guarded(&pf) { Ok(b) => show_ns(&b), Err(_) => "PANIC".to_string() };
                let vars: Vec<usize> = pf.vars.iter().map(|v| v.id).collect();
                let free: Vec<usize> = pf.free_vars.iter().map(|v| v.id).collect();
                // the column of every free variable as the printing code obtains it
                let r2f: Vec<String> = pf.free_vars.iter().map(|v| {
                    match guarded(AssertUnwindSafe(|| pf.to_free_index(v))) {
                        Ok(c) => format!("{}={}", v.id, c),
                        Err(_) => format!("{}=PANIC", v.id),
                    }
                }).collect();
                writeln!(out, "C09|free|{}|{}|{}|{}|{}|{}", ser_gf(&gf, &ids), ser_real(&pf.bdd), show_nats(&vars), show_nats(&free), r2f.join(","), res).unwrap();
                st.hit(if free.len() < vars.len() { "some-bound" } else { "all-free" });
                // the public free-variable test itself, asked about every variable of the text
                let vf: Vec<String> = pf.vars.iter().map(|v| match guarded(AssertUnwindSafe(|| pf.var_is_free(&pf.bdd, v))) {
                    Ok(true) => format!("{}=1", v.id), Ok(false) => format!("{}=0", v.id), Err(_) => format!("{}=PANIC", v.id) }).collect();
                writeln!(out, "C09|vfree|{}|{}", ser_gf(&gf, &ids), vf.join(",")).unwrap();
            }
            Parsed::Err(_) => { writeln!(out, "C09|free|{}|ERR|||-|-", ser_gf(&gf, &HashMap::new())).unwrap(); }
            Parsed::Panic(_) => { writeln!(out, "C09|free|{}|PANIC|||-|-", ser_gf(&gf, &HashMap::new())).unwrap(); }
        }
        crate::watchdog::leave();
    }
}
