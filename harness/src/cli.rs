//! Tool-level generators: C10 (truth table, -v, -m, filters, channels, -b) and C11 (orderings),
//! through the real `rsbdd` binary and the library API.
use crate::formula::*;
use crate::parse::*;
use crate::util::*;
use rsbdd::NamedSymbol;
use std::collections::HashMap;
use std::io::Write;
use std::rc::Rc;

pub struct Parsed {
    pub header: Option<Vec<String>>,
    pub rows: Vec<String>,
    pub vlines: Vec<Vec<String>>,
    pub rlines: Vec<String>,
}

/// read the tool's stdout back into header / rows / -v lines / -r lines
pub fn read_stdout(out: &[u8]) -> Option<Parsed> {
    let text = String::from_utf8_lossy(out);
    let mut p = Parsed { header: None, rows: vec![], vlines: vec![], rlines: vec![] };
    let mut table_lines = 0;
    for line in text.lines() {
        if line.starts_with('|') {
            let cells: Vec<&str> = line.trim_end_matches('|').trim_start_matches('|').split('|').map(|c| c.trim()).collect();
            table_lines += 1;
            if table_lines == 1 { p.header = Some(cells.iter().map(|s| s.to_string()).collect()); continue; }
            // a rule (`|-----|-----|`) is not a row, wherever it stands below the header: no cell of a row is made of dashes
            if table_lines >= 2 && cells.iter().all(|c| !c.is_empty() && c.chars().all(|ch| ch == '-')) { continue; }
            let mut s = String::new();
            let n = cells.len();
            for (i, c) in cells.iter().enumerate() {
                let ch = match *c { "True" => 'T', "False" => 'F', "Any" => 'A', _ => return None };
                if i + 1 == n { s.push('='); }
                s.push(ch);
            }
            p.rows.push(s);
        } else if line.ends_with(';') {
            let body = &line[..line.len() - 1];
            p.vlines.push(if body.is_empty() { vec![] } else { body.split(", ").map(|s| s.to_string()).collect() });
        } else if !line.is_empty() {
            p.rlines.push(line.to_string());
        }
    }
    Some(p)
}

fn hex_names(ns: &[String]) -> String { ns.iter().map(|n| hex(n.as_bytes())).collect::<Vec<_>>().join(",") }

pub struct Run { pub class: &'static str, pub stdout: Vec<u8> }

pub fn run_tool(text: &[u8], channel: u64, ordering: Option<&[u8]>, extra: &[String], tag: &str) -> Run {
    let bin = format!("{}/rsbdd", std::env::var("VERIF_BIN_DIR").unwrap_or_default());
    let scratch = std::env::var("VERIF_SCRATCH").unwrap_or_else(|_| ".".to_string());
    let mut args: Vec<String> = Vec::new();
    let mut stdin_data: Vec<u8> = Vec::new();
    let fpath = format!("{}/{}_formula.txt", scratch, tag);
    match channel {
        0 => args.push(format!("--evaluate={}", String::from_utf8_lossy(text))),
        1 => { std::fs::write(&fpath, text).unwrap(); args.push(fpath); }
        _ => stdin_data = text.to_vec(),
    }
    if let Some(o) = ordering {
        let opath = format!("{}/{}_ordering.txt", scratch, tag);
        std::fs::write(&opath, o).unwrap();
        args.push("-o".into());
        args.push(opath);
    }
    args.extend(extra.iter().cloned());
    let (class, out, _err) = run_capture(&bin, &args, &stdin_data, 20);
    Run { class, stdout: out }
}

fn gen_formula(rng: &mut Rng, allow_fix: bool, maxnames: u64) -> (GF, String, Vec<String>) {
    let k = 1 + rng.below(maxnames) as usize;
    let mut names: Vec<String> = Vec::new();
    // every fourth formula: names longer than the minimal column width, and names whose length in bytes differs from
    // their length in characters (the width of a column is computed from the former, the padding from the latter)
    let wide = rng.chance(1, 4);
    while names.len() < k {
        let n = if wide { rng.pick(&WIDE_POOL).to_string() } else { rng.pick(&NAME_POOL).to_string() };
        if !names.contains(&n) { names.push(n); }
    }
    let depth = 1 + rng.below(4) as u32;
    let gf = { let mut g = Gen { rng, names: names.clone(), allow_fix, big_consts: false, max_list: 3 }; g.gen(depth, &HashMap::new()) };
    // every third formula is printed with varied separators (line feeds, tabs, CR LF, a lone CR, comments, stray characters)
    let noisy = rng.chance(1, 3);
    let text = Printer { rng, noise: noisy }.print(&gf);
    (gf, text, names)
}

const WIDE_POOL: [&str; 10] = ["a_rather_long_variable_name_of_41_chars__", "abcdefg", "\u{e9}", "\u{fc}n\u{ef}c\u{f6}d\u{e9}", "x_long_name_0", "\u{65e5}\u{672c}", "\u{3a9}mega'", "a", "b", "sixsix"];

const FILTER_SPELLINGS: [&str; 15] = ["true", "True", "t", "T", "1", "false", "False", "f", "F", "0", "any", "Any", "a", "A", "*"];

fn gen_ordering(rng: &mut Rng, names: &[String]) -> Option<Vec<u8>> {
    let mut pool: Vec<String> = names.to_vec();
    match rng.below(6) {
        0 => None,
        1 => { // permutation
            let mut v = pool.clone();
            for i in (1..v.len()).rev() { let j = rng.below(i as u64 + 1) as usize; v.swap(i, j); }
            // one name per line: LF, CR LF, a lone CR, with or without a final line ending, or only a comment after it
            let sep = *rng.pick(&["\n", "\n", "\r\n", "\r"]);
            let mut t = v.join(sep);
            match rng.below(4) { 0 => t.push_str(sep), 1 => t.push_str("\n\"the order\""), _ => {} }
            Some(t.into_bytes())
        }
        2 => { // strict subset
            let mut v = pool.clone();
            for i in (1..v.len()).rev() { let j = rng.below(i as u64 + 1) as usize; v.swap(i, j); }
            v.truncate(1 + rng.below(v.len() as u64) as usize / 2);
            Some(v.join(" ").into_bytes())
        }
        3 => { // superset: unused names before / between / after
            pool.push("zz_unused".into()); pool.push("u2".into()); pool.push("aa_first".into());
            for i in (1..pool.len()).rev() { let j = rng.below(i as u64 + 1) as usize; pool.swap(i, j); }
            Some(pool.join(", ").into_bytes())
        }
        4 => { // duplicates, stray punctuation, keywords and numbers
            let mut v = pool.clone();
            v.push(pool[0].clone());
            v.insert(0, "and".into()); v.push("12".into()); v.push("( ] #".into()); v.push("\"a comment\"".into());
            if !pool.is_empty() { v.push(pool[pool.len() - 1].clone()); }
            Some(v.join(" ; ").into_bytes())
        }
        _ => Some(b"".to_vec()),
    }
}

pub fn c10(out: &mut dyn Write, tier: &str, rng: &mut Rng, st: &mut Stats) { runs(out, tier, rng, st, "C10") }

/// C20 through the binary: `-c` with every value of `-f` (the two options are independent: `-c` picks the
/// direction in which forced choices are dropped, `-f` the rows that are shown)
pub fn c20_cli(out: &mut dyn Write, tier: &str, rng: &mut Rng, st: &mut Stats) { runs(out, tier, rng, st, "C20") }

/// `-m -t` through the binary, alone and together with `-c`, `-f`, `-v`, `-r`, `-b`
pub fn c07_cli(out: &mut dyn Write, tier: &str, rng: &mut Rng, st: &mut Stats) { runs(out, tier, rng, st, "C07") }

fn runs(out: &mut dyn Write, tier: &str, rng: &mut Rng, st: &mut Stats, tag: &str) {
    let c20 = tag == "C20";
    let c07 = tag == "C07";
    let n = if c20 { if tier == "thorough" { 6000 } else { 500 } } else if c07 { if tier == "thorough" { 3000 } else { 200 } } else if tier == "thorough" { 8000 } else { 450 };
    for i in 0..n {
        let (gf, text, names) = gen_formula(rng, i % 5 == 0, 5);
        let ordering = gen_ordering(rng, &names);
        let mut flags = String::new();
        let mut extra: Vec<String> = Vec::new();
        // -t in most runs; -v, -m, -r sometimes
        if rng.chance(5, 6) { extra.push("-t".into()); flags.push('t'); }
        if rng.chance(1, 3) { extra.push("-v".into()); flags.push('v'); }
        if c07 || rng.chance(1, 4) { extra.push("-m".into()); flags.push('m'); }
        if rng.chance(1, 4) { extra.push("-r".into()); flags.push('r'); }
        let f = if rng.chance(1, 2) { *rng.pick(&FILTER_SPELLINGS[..]) } else { "any" };
        if f != "any" || rng.chance(1, 4) { extra.push("-f".into()); extra.push(f.to_string()); }
        let c = if c20 { *rng.pick(&FILTER_SPELLINGS[..10]) } else if c07 && rng.chance(1, 2) { *rng.pick(&FILTER_SPELLINGS[..10]) } else if rng.chance(1, 6) { *rng.pick(&FILTER_SPELLINGS[..]) } else { "any" };
        if c != "any" { extra.push("-c".into()); extra.push(c.to_string()); }
        // C20 always looks at the table; C07 at the table or, now and then, at the -v lines alone (-m must reach them too)
        if (c20 || (c07 && !(flags.contains('v') && i % 2 == 0))) && !flags.contains('t') { extra.push("-t".into()); flags.push('t'); }
        if c07 && i % 8 == 5 && !flags.contains('v') { extra.retain(|a| a != "-t"); flags.retain(|ch| ch != 't'); extra.push("-v".into()); flags.push('v'); }
        // half of the C20 runs: the filter of the rows is the opposite of the direction of -c
        let f = if c20 && i % 2 == 0 && !extra.contains(&"-f".to_string()) {
            let opp = if FILTER_SPELLINGS[..5].contains(&c) { FILTER_SPELLINGS[5 + (i / 2) % 5] } else { FILTER_SPELLINGS[(i / 2) % 5] };
            extra.push("-f".into()); extra.push(opp.to_string()); opp
        } else { f };
        let b: Option<u64> = if rng.chance(1, 5) { Some(1 + rng.below(3)) } else { None };
        if let Some(bn) = b { extra.push("-b".into()); extra.push(bn.to_string()); }
        let channel = rng.below(3);
        let r = run_tool(text.as_bytes(), channel, ordering.as_deref(), &extra, "c10");
        // the same request through the other channels and another repetition count
        let mut same = "-";
        if i % 3 == 0 && r.class == "ok" {
            same = "1";
            for ch in 0..3 {
                if ch == channel { continue; }
                let r2 = run_tool(text.as_bytes(), ch, ordering.as_deref(), &extra, "c10b");
                if r2.class != r.class || r2.stdout != r.stdout { same = "0"; }
            }
            let mut extra_b: Vec<String> = Vec::new();
            let mut skip = false;
            for e in &extra { if skip { skip = false; continue; } if e == "-b" { skip = true; continue; } extra_b.push(e.clone()); }
            extra_b.push("-b".into());
            extra_b.push((1 + rng.below(3)).to_string());
            let r3 = run_tool(text.as_bytes(), channel, ordering.as_deref(), &extra_b, "c10b");
            if r3.class != r.class || r3.stdout != r.stdout { same = "0"; }
        }
        let (header, rows, vlines, rlines) = match read_stdout(&r.stdout) {
            Some(p) => (
                p.header.map(|h| hex_names(&h)).unwrap_or_else(|| "-".to_string()),
                p.rows.join(";"),
                p.vlines.iter().map(|l| hex_names(l)).collect::<Vec<_>>().join(";"),
                hex_names(&p.rlines),
            ),
            None => ("UNREADABLE".to_string(), String::new(), String::new(), String::new()),
        };
        // the generator's tree with the ids the real tokenizer assigns under this ordering
        let gen_ast = {
            let ord_syms: Option<Vec<NamedSymbol>> = ordering.as_ref().map(|o| {
                let mut rd: &[u8] = o;
                rsbdd::parser::SymbolicBDD::tokenize(&mut rd, None).map(|ts| rsbdd::parser::ParsedFormula::extract_vars(&ts)).unwrap_or_default()
            });
            // … followed by the real tokenizer's variable table (name:id): "the variable order" of the properties is the
            // order of these ids, whichever ids an ordering leaves open
            match parse_text(text.as_bytes(), ord_syms) { crate::formula::Parsed::Ok(pf) => format!("{}@{}", ser_gf(&gf, &id_table(&pf)), show_vars(&pf)), _ => "-".to_string() }
        };
        let (otext, ocl) = match &ordering {
            Some(o) => (hex(o), std::str::from_utf8(o).map(classes_of).unwrap_or_default()),
            None => ("-".to_string(), String::new()),
        };
        writeln!(out, "{}|run|{}|{}|{}|{}|{};f={};c={};b={}|{}|{}|{}|{}|{}|{}|{}|{}", tag,
            hex(text.as_bytes()), classes_of(&text), otext, ocl, flags, f, c,
            b.map(|x| x.to_string()).unwrap_or_else(|| "-".to_string()),
            r.class, header, rows, vlines, rlines, same, gen_ast, hex(&r.stdout)).unwrap();
        st.hit(&format!("exit.{}", r.class));
        st.hit(&format!("flags.{}", if flags.is_empty() { "none" } else { &flags }));
        st.hit(if ordering.is_some() { "ordering.file" } else { "ordering.none" });
    }
}

fn show_free(pf: &rsbdd::parser::ParsedFormula) -> String {
    pf.free_vars.iter().map(|v| hex(v.name.as_bytes())).collect::<Vec<_>>().join(",")
}

fn show_vars(pf: &rsbdd::parser::ParsedFormula) -> String {
    pf.vars.iter().map(|v| format!("{}:{}", hex(v.name.as_bytes()), v.id)).collect::<Vec<_>>().join(",")
}

pub fn c11(out: &mut dyn Write, tier: &str, rng: &mut Rng, st: &mut Stats) {
    let n = if tier == "thorough" { 6000 } else { 500 };
    for i in 0..n {
        let (_gf, text, names) = gen_formula(rng, i % 4 == 0, 5);
        crate::watchdog::enter(&text);
        let default = match parse_text(text.as_bytes(), None) {
            crate::formula::Parsed::Ok(pf) => pf,
            _ => continue,
        };
        let res_d = match eval_guarded(&default) { Ok(b) => show_ns(&b), Err(_) => "PANIC".to_string() };
        let vars_d = show_vars(&default);
        let free_d = show_free(&default);
        if i % 2 == 0 {
            // API form: NamedSymbol vector with distinct ids (permutation / sparse ids / extra names)
            let mut pool: Vec<String> = names.clone();
            if rng.chance(1, 2) { pool.push("extra_x".into()); pool.push("extra_y".into()); }
            // unused names may also be words of the language: as names of the ordering they mean nothing
            if rng.chance(1, 3) { pool.push(rng.pick(&["true", "or", "in", "and", "false", "not", "all"][..]).to_string()); }
            for k in (1..pool.len()).rev() { let j = rng.below(k as u64 + 1) as usize; pool.swap(k, j); }
            pool.truncate(1 + rng.below(pool.len() as u64) as usize);
            let mut next = 0usize;
            let mut ord: Vec<NamedSymbol> = Vec::new();
            for nm in &pool { next += rng.below(3) as usize; ord.push(NamedSymbol { name: Rc::new(nm.clone()), id: next }); next += 1; }
            // the ids are distinct; the vector need not be sorted by them (the last element is then not the largest id)
            if rng.chance(1, 2) { for k in (1..ord.len()).rev() { let j = rng.below(k as u64 + 1) as usize; ord.swap(k, j); } st.hit("api.unsorted-ids"); }
            let ord_field = ord.iter().map(|v| format!("{}:{}", hex(v.name.as_bytes()), v.id)).collect::<Vec<_>>().join(",");
            let (vars_o, res_o, free_o) = match parse_text(text.as_bytes(), Some(ord)) {
                crate::formula::Parsed::Ok(pf) => (show_vars(&pf), match eval_guarded(&pf) { Ok(b) => show_ns(&b), Err(_) => "PANIC".to_string() }, show_free(&pf)),
                crate::formula::Parsed::Err(_) => (String::new(), "ERR".to_string(), "ERR".to_string()),
                crate::formula::Parsed::Panic(_) => (String::new(), "PANIC".to_string(), "ERR".to_string()),
            };
            writeln!(out, "C11|order|{}|{}|{}||{}|{}|{}|{}|-|{}|{}", hex(text.as_bytes()), classes_of(&text), if ord_field.is_empty() { "-".to_string() } else { ord_field }, vars_d, res_d, vars_o, res_o, free_d, free_o).unwrap();
            st.hit("api");
        } else {
            // CLI form: ordering file
            let ordering = match gen_ordering(rng, &names) { Some(o) => o, None => names.join(" ").into_bytes() };
            let ord_syms: Vec<NamedSymbol> = {
                let mut rd: &[u8] = &ordering;
                rsbdd::parser::SymbolicBDD::tokenize(&mut rd, None).map(|ts| rsbdd::parser::ParsedFormula::extract_vars(&ts)).unwrap_or_default()
            };
            let (vars_o, res_o, free_o) = match parse_text(text.as_bytes(), Some(ord_syms)) {
                crate::formula::Parsed::Ok(pf) => (show_vars(&pf), match eval_guarded(&pf) { Ok(b) => show_ns(&b), Err(_) => "PANIC".to_string() }, show_free(&pf)),
                crate::formula::Parsed::Err(_) => (String::new(), "ERR".to_string(), "ERR".to_string()),
                crate::formula::Parsed::Panic(_) => (String::new(), "PANIC".to_string(), "ERR".to_string()),
            };
            // -r / -o round trip through the real binary; the formula through --evaluate, a file or standard input in turn
            let ch = (i as u64 / 2) % 3;
            let t_args: Vec<String> = vec!["-t".into()];
            let r1 = run_tool(text.as_bytes(), ch, Some(&ordering), &t_args, "c11");
            let r_args: Vec<String> = vec!["-r".into()];
            let exported = run_tool(text.as_bytes(), ch, Some(&ordering), &r_args, "c11");
            let r2 = run_tool(text.as_bytes(), ch, Some(&exported.stdout), &t_args, "c11");
            let roundtrip = if r1.class == "ok" && exported.class == "ok" { if r2.class == "ok" && r1.stdout == r2.stdout { "1" } else { "0" } } else { "-" };
            // the printed table under the ordering file against the printed table under the default order: the same
            // function of the same named variables (and the tool must not crash under an ordering it accepts)
            let r0 = run_tool(text.as_bytes(), ch, None, &t_args, "c11");
            let tab = |r: &Run| -> String { match read_stdout(&r.stdout) {
                Some(p) => format!("{}|{}", p.header.map(|h| hex_names(&h)).unwrap_or_else(|| "-".to_string()), p.rows.join(";")),
                None => "UNREADABLE|".to_string() } };
            // … and its columns must stand in the order of the file (the free variables as the library orders them under it)
            writeln!(out, "C11|tables|{}|{}|{}|{}|{}", r0.class, tab(&r0), r1.class, tab(&r1), if free_o == "ERR" { "-".to_string() } else { free_o.clone() }).unwrap();
            // every other case: the ordering option given twice (two files that list the names differently).  The tool
            // refuses that; if it ever accepts it, what it prints must still be the formula's table
            if i % 4 == 3 {
                let scratch = std::env::var("VERIF_SCRATCH").unwrap_or_else(|_| ".".to_string());
                let second = format!("{}/c11_second_ordering.txt", scratch);
                let mut rev: Vec<String> = names.clone(); rev.reverse();
                if rev.len() > 1 && rng.chance(1, 2) { rev.truncate(rev.len() - 1); }
                let _ = std::fs::write(&second, rev.join("\n"));
                let spelled: Vec<String> = match (i / 4) % 3 { 0 => vec!["-t".into(), "-o".into(), second.clone()], 1 => vec!["-t".into(), format!("--ordering={}", second)], _ => vec![format!("--ordering={}", second), "-t".into()] };
                let r3 = run_tool(text.as_bytes(), ch, Some(&ordering), &spelled, "c11");
                writeln!(out, "C11|tables|{}|{}|{}|{}", r0.class, tab(&r0), r3.class, tab(&r3)).unwrap();
                st.hit(&format!("ordering-given-twice.{}", r3.class));
            }
            writeln!(out, "C11|order|{}|{}|T:{}|{}|{}|{}|{}|{}|{}|{}|{}", hex(text.as_bytes()), classes_of(&text), hex(&ordering),
                std::str::from_utf8(&ordering).map(classes_of).unwrap_or_default(), vars_d, res_d, vars_o, res_o, roundtrip, free_d, free_o).unwrap();
            st.hit("cli");
            st.hit(&format!("roundtrip.{}", roundtrip));
        }
        crate::watchdog::leave();
    }
}
