//! C13: random histories of public operations on one long-lived `BDDEnv<usize>`; after every
//! step the result is dumped as a pointer-annotated unfolding (addresses renumbered by first
//! appearance), the table is inspected, older handles are re-inspected, and the same
//! operation is replayed in a fresh environment on structural copies.
use crate::util::*;
use rsbdd::bdd::{BDDEnv, BDD};
use rsbdd::TruthTableEntry;
use std::collections::HashMap;
use std::io::Write;
use std::rc::Rc;

struct Names { map: HashMap<usize, usize> }
impl Names {
    fn id(&mut self, b: &B) -> usize {
        let a = Rc::as_ptr(b) as usize;
        let n = self.map.len();
        *self.map.entry(a).or_insert(n)
    }
}

fn dump(names: &mut Names, b: &B, out: &mut String) {
    let id = names.id(b);
    match b.as_ref() {
        BDD::True => out.push_str(&format!("T@{}", id)),
        BDD::False => out.push_str(&format!("F@{}", id)),
        BDD::Choice(t, v, f) => {
            out.push_str(&format!("N@{} {} ", id, v));
            dump(names, t, out);
            out.push(' ');
            dump(names, f, out);
        }
    }
}

/// every node reachable from `b` is the table's shared node for its structure; both leaves are present
fn ptr_ok(env: &BDDEnv<usize>, b: &B) -> bool {
    let nodes = env.nodes.borrow();
    if !nodes.contains_key(&BDD::True) || !nodes.contains_key(&BDD::False) { return false; }
    fn go(nodes: &rustc_hash_map::Map, b: &B) -> bool {
        match nodes.get(b.as_ref()) {
            Some(stored) if Rc::ptr_eq(stored, b) => {}
            _ => return false,
        }
        match b.as_ref() {
            BDD::Choice(t, _, f) => go(nodes, t) && go(nodes, f),
            _ => true,
        }
    }
    go(&nodes, b)
}

mod rustc_hash_map {
    pub type Map = std::collections::HashMap<rsbdd::bdd::BDD<usize>, std::rc::Rc<rsbdd::bdd::BDD<usize>>, std::hash::BuildHasherDefault<rustc_hash::FxHasher>>;
}

/// the same structure rebuilt node by node in another environment
pub fn intern(env: &BDDEnv<usize>, b: &BDD<usize>) -> B {
    match b {
        BDD::True => env.mk_const(true),
        BDD::False => env.mk_const(false),
        BDD::Choice(t, v, f) => { let t = intern(env, t); let f = intern(env, f); env.mk_choice(t, *v, f) }
    }
}

enum Res { D(B), P(bool, bool) }

fn apply(env: &BDDEnv<usize>, op: &str, a: &[B], vs: &[usize], n: i64, la: &[B], lb: &[B]) -> Res {
    use Res::*;
    let g = |i: usize| Rc::clone(&a[i]);
    match op {
        "c0" => D(env.mk_const(false)),
        "c1" => D(env.mk_const(true)),
        "var" => D(env.var(vs[0])),
        "not" => D(env.not(g(0))),
        "and" => D(env.and(g(0), g(1))),
        "or" => D(env.or(g(0), g(1))),
        "xor" => D(env.xor(g(0), g(1))),
        "imp" => D(env.implies(g(0), g(1))),
        "eq" => D(env.eq(g(0), g(1))),
        "nor" => D(env.nor(g(0), g(1))),
        "nand" => D(env.nand(g(0), g(1))),
        "ite" => D(env.ite(g(0), g(1), g(2))),
        "ex" => D(env.exists(vs.to_vec(), g(0))),
        "all" => D(env.all(vs.to_vec(), g(0))),
        "aln" => D(env.aln(la, n)),
        "amn" => D(env.amn(la, n)),
        "exn" => D(env.exn(la, n)),
        "leq" => D(env.count_leq(la, lb)),
        "lt" => D(env.count_lt(la, lb)),
        "geq" => D(env.count_geq(la, lb)),
        "gt" => D(env.count_gt(la, lb)),
        "ceq" => D(env.count_eq(la, lb)),
        "fpor" => { let y = g(1); D(env.fp(g(0), |x| env.or(x, Rc::clone(&y)))) }
        "fpand" => { let y = g(1); D(env.fp(g(0), |x| env.and(x, Rc::clone(&y)))) }
        "model" => D(env.model(g(0))),
        "infer" => { let (p, q) = env.infer(g(0), vs[0]); P(p, q) }
        "rett" => D(env.retain_choice_bottom_up(g(0), TruthTableEntry::True)),
        "retf" => D(env.retain_choice_bottom_up(g(0), TruthTableEntry::False)),
        "reta" => D(env.retain_choice_bottom_up(g(0), TruthTableEntry::Any)),
        "clean" => D(env.clean(g(0))),
        // `clean` on a structurally equal diagram in allocations of its own (as built in another environment): what comes
        // back must be the table's node all the same
        "cleanf" => {
            fn copy(b: &BDD<usize>) -> B { match b { BDD::Choice(t, v, f) => Rc::new(BDD::Choice(copy(t), *v, copy(f))), BDD::True => Rc::new(BDD::True), BDD::False => Rc::new(BDD::False) } }
            D(env.clean(copy(a[0].as_ref())))
        }
        _ => unreachable!(),
    }
}

const OPS: [&str; 30] = ["c0", "c1", "var", "var", "var", "not", "and", "and", "or", "or", "xor", "imp", "eq", "nor", "nand",
    "ite", "ex", "all", "aln", "amn", "exn", "leq", "lt", "geq", "gt", "ceq", "fpor", "fpand", "model", "infer"];
const OPS2: [&str; 4] = ["rett", "retf", "reta", "clean"];

/// every node reachable from a result (the leaves included) must be THE node the environment's table holds for
/// its structure; `None`: it is
fn off_table(env: &BDDEnv<rsbdd::NamedSymbol>, b: &Rc<BDD<rsbdd::NamedSymbol>>) -> Option<String> {
    fn walk(env: &BDDEnv<rsbdd::NamedSymbol>, b: &Rc<BDD<rsbdd::NamedSymbol>>, seen: &mut std::collections::HashSet<usize>) -> Option<String> {
        if !seen.insert(Rc::as_ptr(b) as usize) { return None; }
        let held = env.nodes.borrow().get(b.as_ref()).map(|n| Rc::ptr_eq(n, b));
        match held {
            Some(true) => {}
            Some(false) => return Some(format!("{} (another allocation than the table's)", crate::formula::show_ns(b))),
            None => return Some(format!("{} (not in the table)", crate::formula::show_ns(b))),
        }
        if let BDD::Choice(t, _, f) = b.as_ref() { if let Some(k) = walk(env, t, seen) { return Some(k); } return walk(env, f, seen); }
        None
    }
    walk(env, b, &mut std::collections::HashSet::new())
}

/// formula evaluations that share one `ParsedFormula` (one environment, one definition table):
/// `{references}` are defined, evaluated, redefined and evaluated again; every evaluation is compared
/// with the evaluation of a freshly parsed formula carrying the same definitions
fn c13_defs(out: &mut dyn Write, tier: &str, rng: &mut Rng, st: &mut Stats) {
    use crate::formula::*;
    use rsbdd::parser::{ParsedFormula, ReferenceContents};
    use rsbdd::NamedSymbol;
    let pool = ["a", "b", "c", "d", "x1"];
    let ordering: Vec<NamedSymbol> = pool.iter().enumerate().map(|(i, n)| NamedSymbol { name: Rc::new(n.to_string()), id: i }).collect();
    let parse = |text: &str| -> Option<ParsedFormula> {
        match parse_text(text.as_bytes(), Some(ordering.clone())) { Parsed::Ok(pf) => Some(pf), _ => None }
    };
    let hists = if tier == "thorough" { 20000 } else { 150 };
    for h in 0..hists {
        let mut term = |rng: &mut Rng, with_ref: Option<&str>| -> String {
            let names: Vec<String> = pool[..4].iter().map(|s| s.to_string()).collect();
            let gf = { let mut g = Gen { rng, names, allow_fix: false, big_consts: false, max_list: 3 }; let d = 1 + g.rng.below(2) as u32; g.gen(d, &std::collections::HashMap::new()) };
            let t = Printer { rng, noise: false }.print(&gf);
            match with_ref { Some(r) => format!("({{{}}} {} ({}))", r, rng.pick(&["&", "|", "^", "=>"]), t), None => format!("({})", t) }
        };
        let t1 = term(rng, None);
        // shapes 11-13: a definition that mentions the name a fixed point binds (x1), used inside that fixed point AND
        // evaluated outside it first (to its left, or under a quantifier that binds x1 inside the body)
        let fixref = h % 14 >= 11;
        let main_text = if fixref { match h % 14 {
            11 => format!("{{r0}} {} ({} x1 # {{r0}})", rng.pick(&["&", "|"]), rng.pick(&["lfp", "gfp"])),
            12 => format!("lfp x1 # ((forall x1 # {{r0}}) | {{r0}})"),
            _ => format!("({{r0}} ^ {}) | (gfp x1 # ({{r0}} & {}))", t1, t1),
        } } else { match h % 11 {
            // a reference that reaches the result without passing through a connective that rebuilds it
            9 => "{r0}".to_string(),
            10 => format!("{{r0}} {} {{r1}}", rng.pick(&["|", "&", "^"])),
            // shapes whose result collapses onto the referenced diagram itself (a redundant test over it)
            6 => format!("(a & {{r0}}) | (-a & {{r0}})"),
            7 => format!("({} | {{r0}}) & {{r0}}", t1),
            8 => format!("if {} then {{r0}} else {{r0}}", t1),
            0 => format!("{{r0}} {} {}", rng.pick(&["&", "|", "^", "=>", "<=>"]), t1),
            1 => format!("{} {} ({{r0}} {} {{r1}})", t1, rng.pick(&["&", "|", "^"]), rng.pick(&["&", "|", "=>"])),
            2 => format!("{} a # ({{r0}} {} {})", rng.pick(&["exists", "forall"]), rng.pick(&["&", "|"]), t1),
            3 => format!("a & (({} x1 # ({{r0}} | (x1 & {}))) & {{r0}})", rng.pick(&["lfp", "gfp"]), t1),
            4 => format!("[{{r0}}, {}, {{r1}}] >= {}", t1, 1 + rng.below(2)),
            _ => format!("if {{r1}} then {{r0}} else {}", t1),
        } };
        let pf = match parse(&main_text) { Some(p) => p, None => continue };
        let mut defs: Vec<(String, String)> = Vec::new(); // current definitions: name -> text
        let mut foreign: Vec<String> = Vec::new(); // names currently defined by a diagram of ANOTHER environment
        let mut ever_foreign = false;
        let steps = 3 + rng.below(5);
        for _ in 0..steps {
            if rng.chance(1, 2) {
                // (re)define r0 or r1; r0 may refer to r1, never the other way round
                let which = if rng.chance(2, 3) { "r0" } else { "r1" };
                let text = if which == "r0" && rng.chance(1, 3) { term(rng, Some("r1")) } else { term(rng, None) };
                // under the fixed-point shapes r0 is monotone in x1: x1 joined to a term without it
                let text = if fixref && which == "r0" { st.hit("defs.mentions-the-bound-name"); format!("x1 {} {}", rng.pick(&["|", "&"]), text) } else { text };
                if let Some(d) = parse(&text) {
                    // every third definition is given as the evaluated diagram of the other formula (nodes of another
                    // environment), the others as its syntax
                    // (not under a fixed point: substituting into a referenced diagram is `unimplemented!` by design)
                    let as_bdd = !fixref && h % 11 != 3 && (rng.chance(1, 3) || (h % 11 >= 6 && h % 11 <= 8)) && !text.contains('{');
                    let given = if as_bdd { match eval_guarded(&d) { Ok(b) => Some(ReferenceContents::BDD(b)), Err(_) => None } } else { None };
                    foreign.retain(|n| n != which);
                    // (once a diagram of another environment has been handed in, its nodes may sit below nodes of this
                    // environment's table for good: the table check is off for the rest of this history)
                    match given { Some(g) => { pf.define(which, g); foreign.push(which.to_string()); ever_foreign = true; st.hit("defs.define.bdd"); } None => pf.define(which, ReferenceContents::Syntax(d.bdd.clone())) }
                    defs.retain(|(n, _)| n != which);
                    defs.push((which.to_string(), text));
                    st.hit("defs.define");
                }
                continue;
            }
            crate::watchdog::enter(&main_text);
            let res = match eval_guarded(&pf) {
                Ok(b) => {
                    // sharing: unless a diagram of another environment is among the definitions, everything reachable
                    // from the result is the table's own node (an undefined reference is the shared false leaf)
                    if foreign.is_empty() && !ever_foreign { st.hit("defs.table"); if let Some(k) = off_table(&pf.env, &b) { writeln!(out, "C13|table|{}", k).unwrap(); } }
                    show_ns(&b)
                }
                Err(_) => "PANIC".to_string(),
            };
            // the same formula and definitions, parsed afresh
            let fresh = match parse(&main_text) {
                Some(fp) => {
                    let mut ok = true;
                    for (n, t) in &defs { match parse(t) { Some(d) => fp.define(n, ReferenceContents::Syntax(d.bdd.clone())), None => ok = false } }
                    if ok { match eval_guarded(&fp) { Ok(b) => show_ns(&b), Err(_) => "PANIC".to_string() } } else { "PANIC".to_string() }
                }
                None => "PANIC".to_string(),
            };
            crate::watchdog::leave();
            let defs_field = defs.iter().map(|(n, t)| format!("{}={}", hex(n.as_bytes()), parse(t).map(|d| ser_real(&d.bdd)).unwrap_or_default())).collect::<Vec<_>>().join(",");
            writeln!(out, "C13|defs|{}|{}|{}|{}", ser_real(&pf.bdd), defs_field, res, fresh).unwrap();
            st.hit("defs.eval");
        }
    }
}

/// one formula with fixed points that need several rounds, evaluated repeatedly in its own long-lived
/// environment (what `rsbdd -b N` does): every evaluation must be the evaluation in a fresh environment
fn c13_twice(out: &mut dyn Write, tier: &str, rng: &mut Rng, st: &mut Stats) {
    use crate::formula::*;
    let n = if tier == "thorough" { 40000 } else { 300 };
    for i in 0..n {
        let gf = c06_formula(rng, if i % 2 == 0 { 1 } else { i }, st);
        let gf = if i % 3 == 0 { GF::Bin(7, Box::new(gf.clone()), Box::new(gf)) } else { gf }; // the same fixed point twice in one formula
        let text = Printer { rng, noise: false }.print(&gf);
        let pf = match parse_text(text.as_bytes(), None) { Parsed::Ok(p) => p, _ => continue };
        let fresh = match parse_text(text.as_bytes(), None) { Parsed::Ok(p) => match eval_guarded(&p) { Ok(b) => show_ns(&b), Err(_) => "PANIC".to_string() }, _ => continue };
        for round in 0..3 {
            crate::watchdog::enter(&text);
            let res = match eval_guarded(&pf) { Ok(b) => { if let Some(k) = off_table(&pf.env, &b) { writeln!(out, "C13|table|{}", k).unwrap(); } show_ns(&b) } Err(_) => "PANIC".to_string() };
            crate::watchdog::leave();
            writeln!(out, "C13|defs|{}||{}|{}", ser_real(&pf.bdd), res, fresh).unwrap();
            st.hit(&format!("twice.round{}", round));
        }
    }
}

/// several formulas, each with its own variable names, evaluated one after the other in ONE shared environment
/// (`ParsedFormula::new_with_env`): every result must be the result in a fresh environment, and structurally
/// equal sub-diagrams of all results so far must be one shared node
fn c13_shared(out: &mut dyn Write, tier: &str, rng: &mut Rng, st: &mut Stats) {
    use crate::formula::*;
    use rsbdd::parser::ParsedFormula;
    use rsbdd::NamedSymbol;
    let n = if tier == "thorough" { 4000 } else { 200 };
    for _ in 0..n {
        // an environment is made by `new()` or, every third time, by `Default` (the two must be the same environment)
        let env: Rc<BDDEnv<NamedSymbol>> = if rng.chance(1, 3) { st.hit("shared.env-by-default"); Rc::default() } else { Rc::new(BDDEnv::new()) };
        let mut seen: HashMap<String, usize> = HashMap::new(); // structure (ids only) -> address
        let steps = 2 + rng.below(4);
        for _ in 0..steps {
            // names in a random order, so that the same index carries different names in different formulas
            let mut pool: Vec<String> = NAME_POOL[..6].iter().map(|s| s.to_string()).collect();
            for i in (1..pool.len()).rev() { let j = rng.below(i as u64 + 1) as usize; pool.swap(i, j); }
            let k = 2 + rng.below(3) as usize;
            let names: Vec<String> = pool[..k].to_vec();
            let gf = { let mut g = Gen { rng, names, allow_fix: false, big_consts: false, max_list: 3 }; let d = 1 + g.rng.below(3) as u32; g.gen(d, &HashMap::new()) };
            let text = Printer { rng, noise: false }.print(&gf);
            // every other formula comes with an explicit ordering of (some of) its names: the environment is shared all the same
            let ordering: Option<Vec<NamedSymbol>> = if rng.chance(1, 2) {
                let cnt = 1 + rng.below(pool.len() as u64) as usize;
                Some(pool.iter().rev().take(cnt).enumerate().map(|(i, n)| NamedSymbol { name: Rc::new(n.clone()), id: i }).collect())
            } else { None };
            let pf = { let mut rd: &[u8] = text.as_bytes(); match ParsedFormula::new_with_env(Rc::clone(&env), &mut rd, ordering.clone()) { Ok(p) => p, Err(_) => continue } };
            if !Rc::ptr_eq(&pf.env, &env) { writeln!(out, "C13|share|the formula does not hold the environment it was given").unwrap(); }
            let fresh = match parse_text(text.as_bytes(), ordering) { Parsed::Ok(p) => match eval_guarded(&p) { Ok(b) => show_ns(&b), Err(_) => "PANIC".to_string() }, _ => continue };
            crate::watchdog::enter(&text);
            let res = eval_guarded(&pf);
            crate::watchdog::leave();
            match res {
                Ok(b) => {
                    writeln!(out, "C13|defs|{}||{}|{}", ser_real(&pf.bdd), show_ns(&b), fresh).unwrap();
                    // sharing across everything handed out so far
                    fn walk(b: &Rc<BDD<NamedSymbol>>, seen: &mut HashMap<String, usize>, bad: &mut Option<String>) {
                        let key = show_ns(b);
                        let addr = Rc::as_ptr(b) as usize;
                        match seen.get(&key) {
                            Some(a) if *a != addr => { if bad.is_none() { *bad = Some(key.clone()); } }
                            Some(_) => return,
                            None => { seen.insert(key, addr); }
                        }
                        if let BDD::Choice(t, _, f) = b.as_ref() { walk(t, seen, bad); walk(f, seen, bad); }
                    }
                    let mut bad = None;
                    walk(&b, &mut seen, &mut bad);
                    if let Some(k) = bad { writeln!(out, "C13|share|{}", k).unwrap(); }
                    if let Some(k) = off_table(&env, &b) { writeln!(out, "C13|table|{}", k).unwrap(); }
                }
                Err(_) => { writeln!(out, "C13|defs|{}||PANIC|{}", ser_real(&pf.bdd), fresh).unwrap(); }
            }
            st.hit("shared.eval");
        }
    }
}

pub fn c13(out: &mut dyn Write, tier: &str, rng: &mut Rng, st: &mut Stats) {
    c13_defs(out, tier, rng, st);
    c13_twice(out, tier, rng, st);
    c13_shared(out, tier, rng, st);
    let hists = if tier == "thorough" { 12000 } else { 60 };
    for h in 0..hists {
        let env: BDDEnv<usize> = if h % 3 == 2 { st.hit("history.env-by-default"); BDDEnv::default() } else { BDDEnv::new() };
        let mut names = Names { map: HashMap::new() };
        let mut regs: Vec<B> = Vec::new();
        // every fifth history starts with a bulk of small diagrams over 40 variables (each variable, and the conjunction
        // and disjunction of neighbours): the environment then holds well over 128 nodes while every diagram stays
        // small — thresholds on the size of the node table, on the number of results, on ids
        let bulk = h % 5 == 4;
        let len = 50 + rng.below(if tier == "thorough" { 350 } else { 150 }) as usize + if bulk { 120 } else { 0 };
        let nvars = if bulk { 40 } else { 3 + (h % 4) as u64 }; // 3..6 variables keep the unfoldings small
        let mut steps: Vec<String> = Vec::new();
        let mut force_clean = 0;
        let mut dead = false;
        // every third history starts by building two different diagrams with the same 64-bit hash (util::colliding)
        // out of ordinary operations: `var k` and `not (var z)`, or `var k` and `var v | var z`
        let mut forced: Vec<(&str, Vec<usize>)> = Vec::new();
        if h % 3 == 1 && hash_model_ok() {
            let k = rng.below(nvars) as usize;
            let a = from_tt(2, &[k]);
            if h % 2 == 1 {
                if let Some((z, _)) = colliding(&a, 2, 0) { forced = vec![("var", vec![k]), ("var", vec![z]), ("not", vec![1]), ("not", vec![0]), ("not", vec![2]), ("not", vec![4])]; }
            } else {
                let v = nvars as usize + 1;
                if let Some((z, _)) = colliding(&a, 0, v) { forced = vec![("var", vec![k]), ("var", vec![v]), ("var", vec![z]), ("or", vec![1, 2]), ("not", vec![0]), ("not", vec![3]), ("and", vec![0, 3])]; }
            }
            if !forced.is_empty() { st.hit("history.hash-collision"); }
            forced.reverse();
        }
        if bulk {
            forced.clear();
            for v in 0..40usize { forced.push(("var", vec![v])); }
            for i in 0..39usize { forced.push(("and", vec![i, i + 1])); }
            for i in 0..39usize { forced.push(("or", vec![i, i + 1])); }
            st.hit("history.bulk");
            forced.reverse();
        }
        for _ in 0..len {
            if dead { break; }
            let fnow = forced.pop();
            let op: &str = if let Some((o, _)) = &fnow { o }
                else if regs.len() < 3 { *rng.pick(&["c0", "c1", "var", "var"][..]) }
                else if force_clean > 0 { force_clean -= 1; "clean" }
                else if rng.chance(1, 40) { "keepone" }
                else if rng.chance(1, 8) { *rng.pick(&OPS2[..]) } else { *rng.pick(&OPS[..]) };
            let pickr = |rng: &mut Rng, regs: &Vec<B>| rng.below(regs.len() as u64) as usize;
            let mut ai: Vec<usize> = Vec::new();
            let mut vs: Vec<usize> = Vec::new();
            let mut n: i64 = 0;
            let mut lai: Vec<usize> = Vec::new();
            let mut lbi: Vec<usize> = Vec::new();
            let lhs: String = match op {
                "c0" | "c1" => op.to_string(),
                "var" => { vs.push(match &fnow { Some((_, v)) => v[0], None => rng.below(nvars) as usize }); format!("var {}", vs[0]) }
                "not" if fnow.is_some() => { ai.push(fnow.as_ref().unwrap().1[0]); format!("not r{}", ai[0]) }
                "or" | "and" if fnow.is_some() => { let v = &fnow.as_ref().unwrap().1; ai.push(v[0]); ai.push(v[1]); format!("{} r{} r{}", op, ai[0], ai[1]) }
                "not" | "model" | "clean" => { ai.push(pickr(rng, &regs)); format!("{} r{}", op, ai[0]) }
                "keepone" => {
                    // every handle but one is given up: prefer a constant so that nothing alive refers to the other leaf
                    let consts: Vec<usize> = (0..regs.len()).filter(|i| regs[*i].is_const()).collect();
                    let k = if !consts.is_empty() && rng.chance(2, 3) { *rng.pick(&consts[..]) } else { pickr(rng, &regs) };
                    ai.push(k);
                    force_clean = 2 + rng.below(2);
                    format!("keepone r{}", k)
                }
                "rett" | "retf" | "reta" => { ai.push(pickr(rng, &regs)); format!("ret {} r{}", &op[3..], ai[0]) }
                "ite" => { for _ in 0..3 { ai.push(pickr(rng, &regs)); } format!("ite r{} r{} r{}", ai[0], ai[1], ai[2]) }
                "ex" | "all" => {
                    let k = rng.below(4) as usize;
                    for _ in 0..k { vs.push(rng.below(nvars + 1) as usize); }
                    ai.push(pickr(rng, &regs));
                    format!("{} {} r{}", op, if vs.is_empty() { "".to_string() } else { show_nats(&vs) }, ai[0])
                }
                "aln" | "amn" | "exn" => {
                    let k = rng.below(4) as usize;
                    for _ in 0..k { lai.push(pickr(rng, &regs)); }
                    n = rng.range(-1, k as i64 + 1);
                    format!("{} {} {}", op, n, if lai.is_empty() { "-".to_string() } else { lai.iter().map(|i| format!("r{}", i)).collect::<Vec<_>>().join(",") })
                }
                "leq" | "lt" | "geq" | "gt" | "ceq" => {
                    for _ in 0..rng.below(3) { lai.push(pickr(rng, &regs)); }
                    for _ in 0..rng.below(3) { lbi.push(pickr(rng, &regs)); }
                    let f = |l: &Vec<usize>| if l.is_empty() { "-".to_string() } else { l.iter().map(|i| format!("r{}", i)).collect::<Vec<_>>().join(",") };
                    format!("{} {} {}", op, f(&lai), f(&lbi))
                }
                "infer" => { ai.push(pickr(rng, &regs)); vs.push(rng.below(nvars + 1) as usize); format!("infer r{} {}", ai[0], vs[0]) }
                _ => { ai.push(pickr(rng, &regs)); ai.push(pickr(rng, &regs)); format!("{} r{} r{}", op, ai[0], ai[1]) }
            };
            // `ex`/`all` with an empty list: the line protocol needs a placeholder
            let lhs = lhs.replace("ex  r", "ex - r").replace("all  r", "all - r");
            let a: Vec<B> = ai.iter().map(|i| Rc::clone(&regs[*i])).collect();
            let la: Vec<B> = lai.iter().map(|i| Rc::clone(&regs[*i])).collect();
            let lb: Vec<B> = lbi.iter().map(|i| Rc::clone(&regs[*i])).collect();
            if op == "keepone" {
                let keep = Rc::clone(&regs[ai[0]]);
                for r in regs.iter_mut() { *r = Rc::clone(&keep); }
            }
            let foreign_copy = op == "clean" && rng.chance(1, 2);
            if foreign_copy { st.hit("op.clean.of-a-foreign-copy"); }
            let res = match guarded(std::panic::AssertUnwindSafe(|| apply(&env, if op == "keepone" { "reta" } else if foreign_copy { "cleanf" } else { op }, &a, &vs, n, &la, &lb))) {
                Ok(r) => r,
                Err(msg) => {
                    steps.push(format!("{} => PANIC {} # 0 # 1 # 1", lhs, msg.replace(';', ",").replace('#', " ").replace('|', " ")));
                    st.hit("op.PANIC");
                    dead = true;
                    continue;
                }
            };
            // the same operation in a fresh environment on structural copies (rebuilt there)
            let fresh_env: BDDEnv<usize> = BDDEnv::new();
            let ca: Vec<B> = a.iter().map(|b| intern(&fresh_env, b)).collect();
            let cla: Vec<B> = la.iter().map(|b| intern(&fresh_env, b)).collect();
            let clb: Vec<B> = lb.iter().map(|b| intern(&fresh_env, b)).collect();
            let fres = apply(&fresh_env, if op == "keepone" { "reta" } else { op }, &ca, &vs, n, &cla, &clb);
            let (d, ok, fresh_eq, newreg) = match (&res, &fres) {
                (Res::D(b), Res::D(fb)) => {
                    let mut s = String::new();
                    dump(&mut names, b, &mut s);
                    (s, ptr_ok(&env, b), b == fb, Rc::clone(b))
                }
                (Res::P(p, q), Res::P(fp, fq)) => (format!("{}{}", *p as u8, *q as u8), true, p == fp && q == fq, env.mk_const(false)),
                _ => ("?".to_string(), false, false, env.mk_const(false)),
            };
            regs.push(newreg);
            let mut obs = format!("{} => {} # {} # {} # {}", lhs, d, env.size(), ok as u8, fresh_eq as u8);
            // re-inspect two older handles
            for _ in 0..2 {
                if regs.len() > 1 {
                    let j = rng.below(regs.len() as u64 - 1) as usize;
                    let mut s = String::new();
                    dump(&mut names, &regs[j], &mut s);
                    obs.push_str(&format!(" # chk r{} {}", j, s));
                }
            }
            steps.push(obs);
            st.hit(&format!("op.{}", op));
        }
        writeln!(out, "C13|hist|{}", steps.join(";")).unwrap();
        st.add("steps", len as u64);
    }
}
