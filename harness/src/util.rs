//! Shared helpers: PRNG, independent diagram construction, printing.
use rsbdd::bdd::BDD;
use std::rc::Rc;

/// splitmix64 — every random choice of the harness derives from one state.
pub struct Rng(pub u64);
impl Rng {
    pub fn new(seed: u64) -> Self {
        Rng(seed.wrapping_mul(0x9E37_79B9_7F4A_7C15) ^ 0xD1B5_4A32_D192_ED03)
    }
    pub fn next(&mut self) -> u64 {
        self.0 = self.0.wrapping_add(0x9E37_79B9_7F4A_7C15);
        let mut z = self.0;
        z = (z ^ (z >> 30)).wrapping_mul(0xBF58_476D_1CE4_E5B9);
        z = (z ^ (z >> 27)).wrapping_mul(0x94D0_49BB_1331_11EB);
        z ^ (z >> 31)
    }
    pub fn below(&mut self, n: u64) -> u64 {
        if n == 0 { 0 } else { self.next() % n }
    }
    pub fn range(&mut self, lo: i64, hi: i64) -> i64 {
        lo + self.below((hi - lo + 1) as u64) as i64
    }
    pub fn chance(&mut self, num: u64, den: u64) -> bool {
        self.below(den) < num
    }
    pub fn pick<'a, T>(&mut self, xs: &'a [T]) -> &'a T {
        &xs[self.below(xs.len() as u64) as usize]
    }
}

pub type B = Rc<BDD<usize>>;

/// Reduced ordered diagram of the truth table `tt` over the ascending variable list
/// `vars`, built by Shannon expansion into plain enum values — no `BDDEnv` involved.
/// Bit `i` of `tt` is the value under the assignment whose bit `j` (of `i`) is the value
/// of `vars[j]`.
pub fn from_tt(tt: u64, vars: &[usize]) -> B {
    fn go(tt: u64, vars: &[usize], level: usize, fixed: u64) -> B {
        if level == vars.len() {
            return Rc::new(if (tt >> fixed) & 1 == 1 { BDD::True } else { BDD::False });
        }
        let t = go(tt, vars, level + 1, fixed | (1 << level));
        let f = go(tt, vars, level + 1, fixed);
        if t == f { t } else { Rc::new(BDD::Choice(t, vars[level], f)) }
    }
    go(tt, vars, 0, 0)
}

pub fn eval(b: &BDD<usize>, asg: &dyn Fn(usize) -> bool) -> bool {
    match b {
        BDD::True => true,
        BDD::False => false,
        BDD::Choice(t, v, f) => if asg(*v) { eval(t, asg) } else { eval(f, asg) },
    }
}

pub fn show(b: &BDD<usize>) -> String {
    let mut s = String::new();
    fn go(b: &BDD<usize>, s: &mut String) {
        match b {
            BDD::True => s.push('T'),
            BDD::False => s.push('F'),
            BDD::Choice(t, v, f) => {
                s.push('n');
                s.push_str(&v.to_string());
                s.push(' ');
                go(t, s);
                s.push(' ');
                go(f, s);
            }
        }
    }
    go(b, &mut s);
    s
}

pub fn show_list(bs: &[B]) -> String {
    bs.iter().map(|b| show(b)).collect::<Vec<_>>().join(";")
}

pub fn show_nats(vs: &[usize]) -> String {
    vs.iter().map(|v| v.to_string()).collect::<Vec<_>>().join(",")
}

pub fn hex(s: &[u8]) -> String {
    let mut o = String::with_capacity(s.len() * 2);
    for b in s { o.push_str(&format!("{:02x}", b)); }
    o
}

/// run `f`, mapping a panic to `Err(message)`
pub fn guarded<T>(f: impl FnOnce() -> T + std::panic::UnwindSafe) -> Result<T, String> {
    std::panic::catch_unwind(f).map_err(|e| {
        if let Some(s) = e.downcast_ref::<&str>() { s.to_string() }
        else if let Some(s) = e.downcast_ref::<String>() { s.clone() }
        else { "panic".to_string() }
    })
}

pub struct Stats {
    pub map: std::collections::BTreeMap<String, u64>,
}
impl Stats {
    pub fn new() -> Self { Stats { map: Default::default() } }
    pub fn hit(&mut self, k: &str) { *self.map.entry(k.to_string()).or_insert(0) += 1; }
    pub fn add(&mut self, k: &str, n: u64) { *self.map.entry(k.to_string()).or_insert(0) += n; }
    pub fn dump(&self) {
        let body = self.map.iter().map(|(k, v)| format!("\"{}\":{}", k, v)).collect::<Vec<_>>().join(",");
        eprintln!("HARNESS_STATS {{{}}}", body);
    }
}

// ---- diagrams with equal 64-bit hashes -------------------------------------------------------
// `BDD::get_hash` is FxHasher over the words the derived `Hash` feeds (discriminant, children, symbol).
// FxHasher's step is invertible, and variable ids are whole machine words, so for any diagram a second,
// different one with the same hash can be computed.  The word model below is checked against the real
// `get_hash` before it is used (`hash_model_ok`); code that takes a hash for an identity is then exposed.

const FX_K: u64 = 0x517cc1b727220a95;
fn fx_step(h: u64, w: u64) -> u64 { (h.rotate_left(5) ^ w).wrapping_mul(FX_K) }
fn fx_words(ws: &[u64]) -> u64 { ws.iter().fold(0u64, |h, w| fx_step(h, *w)) }
fn fx_kinv() -> u64 { let mut x: u64 = 1; for _ in 0..7 { x = x.wrapping_mul(2u64.wrapping_sub(FX_K.wrapping_mul(x))); } x }

fn hash_words(b: &BDD<usize>, out: &mut Vec<u64>) {
    match b {
        BDD::False => out.push(0),
        BDD::True => out.push(1),
        BDD::Choice(t, s, f) => { out.push(2); hash_words(t, out); out.push(*s as u64); hash_words(f, out); }
    }
}

pub fn hash_model_ok() -> bool {
    let samples: Vec<B> = vec![from_tt(0, &[]), from_tt(1, &[]), from_tt(2, &[7]), from_tt(0x96, &[1, 4, 9]), from_tt(0xE8, &[0, 2, 3])];
    samples.iter().all(|b| { let mut w = Vec::new(); hash_words(b, &mut w); fx_words(&w) == b.get_hash() })
}

/// a diagram `or(var v, var z)`, `var z` or `not (var z)` (by `shape` 0/1/2) with the same hash as `a`,
/// as the pair (v, z); `None` if the solved id does not give an ordered diagram different from `a`
pub fn colliding(a: &BDD<usize>, shape: u64, v: usize) -> Option<(usize, B)> {
    let target = a.get_hash();
    let (prefix, suffix): (Vec<u64>, Vec<u64>) = match shape {
        0 => (vec![2, 1, v as u64, 2, 1], vec![0]),   // Choice(T, v, Choice(T, z, F))
        1 => (vec![2, 1], vec![0]),                   // Choice(T, z, F)
        _ => (vec![2, 0], vec![1]),                   // Choice(F, z, T)
    };
    let kinv = fx_kinv();
    let mut h = target;
    for w in suffix.iter().rev() { h = (h.wrapping_mul(kinv) ^ w).rotate_right(5); }
    let z = (fx_words(&prefix).rotate_left(5) ^ h.wrapping_mul(kinv)) as usize;
    let leaf = |t: bool| -> B { Rc::new(if t { BDD::True } else { BDD::False }) };
    let b: B = match shape {
        0 => { if z <= v { return None; } Rc::new(BDD::Choice(leaf(true), v, Rc::new(BDD::Choice(leaf(true), z, leaf(false))))) }
        1 => Rc::new(BDD::Choice(leaf(true), z, leaf(false))),
        _ => Rc::new(BDD::Choice(leaf(false), z, leaf(true))),
    };
    if b.get_hash() != target || b.as_ref() == a { return None; }
    Some((z, b))
}
