//! Shared helpers: PRNG, independent diagram construction, printing.
use rsbdd::bdd::BDD;
use std::rc::Rc;

/// splitmix64 — every random choice of the harness derives from one state.
pub struct Rng(pub u64);
impl Rng {
    pub fn new(seed: u64) -> Self {
        Rng(seed.wrapping_mul(0x9E37_79B9_7F4A_7C15) ^ 0xD1B5_4A32_D192_ED03)
    }
    pub fn next(&mut self) -> u64 {
        self.0 = self.0.wrapping_add(0x9E37_79B9_7F4A_7C15);
        let mut z = self.0;
        z = (z ^ (z >> 30)).wrapping_mul(0xBF58_476D_1CE4_E5B9);
        z = (z ^ (z >> 27)).wrapping_mul(0x94D0_49BB_1331_11EB);
        z ^ (z >> 31)
    }
    pub fn below(&mut self, n: u64) -> u64 {
        if n == 0 { 0 } else { self.next() % n }
    }
    pub fn range(&mut self, lo: i64, hi: i64) -> i64 {
        lo + self.below((hi - lo + 1) as u64) as i64
    }
    pub fn chance(&mut self, num: u64, den: u64) -> bool {
        self.below(den) < num
    }
    pub fn pick<'a, T>(&mut self, xs: &'a [T]) -> &'a T {
        &xs[self.below(xs.len() as u64) as usize]
    }
}

pub type B = Rc<BDD<usize>>;

/// Reduced ordered diagram of the truth table `tt` over the ascending variable list
/// `vars`, built by Shannon expansion into plain enum values — no `BDDEnv` involved.
/// Bit `i` of `tt` is the value under the assignment whose bit `j` (of `i`) is the value
/// of `vars[j]`.
pub fn from_tt(tt: u64, vars: &[usize]) -> B {
    fn go(tt: u64, vars: &[usize], level: usize, fixed: u64) -> B {
        if level == vars.len() {
            return Rc::new(if (tt >> fixed) & 1 == 1 { BDD::True } else { BDD::False });
        }
        let t = go(tt, vars, level + 1, fixed | (1 << level));
        let f = go(tt, vars, level + 1, fixed);
        if t == f { t } else { Rc::new(BDD::Choice(t, vars[level], f)) }
    }
    go(tt, vars, 0, 0)
}

pub fn eval(b: &BDD<usize>, asg: &dyn Fn(usize) -> bool) -> bool {
    match b {
        BDD::True => true,
        BDD::False => false,
        BDD::Choice(t, v, f) => if asg(*v) { eval(t, asg) } else { eval(f, asg) },
    }
}

pub fn show(b: &BDD<usize>) -> String {
    let mut s = String::new();
    fn go(b: &BDD<usize>, s: &mut String) {
        match b {
            BDD::True => s.push('T'),
            BDD::False => s.push('F'),
            BDD::Choice(t, v, f) => {
                s.push('n');
                s.push_str(&v.to_string());
                s.push(' ');
                go(t, s);
                s.push(' ');
                go(f, s);
            }
        }
    }
    go(b, &mut s);
    s
}

pub fn show_list(bs: &[B]) -> String {
    bs.iter().map(|b| show(b)).collect::<Vec<_>>().join(";")
}

pub fn show_nats(vs: &[usize]) -> String {
    vs.iter().map(|v| v.to_string()).collect::<Vec<_>>().join(",")
}

pub fn hex(s: &[u8]) -> String {
    let mut o = String::with_capacity(s.len() * 2);
    for b in s { o.push_str(&format!("{:02x}", b)); }
    o
}

/// run `f`, mapping a panic to `Err(message)`
pub fn guarded<T>(f: impl FnOnce() -> T + std::panic::UnwindSafe) -> Result<T, String> {
    std::panic::catch_unwind(f).map_err(|e| {
        if let Some(s) = e.downcast_ref::<&str>() { s.to_string() }
        else if let Some(s) = e.downcast_ref::<String>() { s.clone() }
        else { "panic".to_string() }
    })
}

pub struct Stats {
    pub map: std::collections::BTreeMap<String, u64>,
}
impl Stats {
    pub fn new() -> Self { Stats { map: Default::default() } }
    pub fn hit(&mut self, k: &str) { *self.map.entry(k.to_string()).or_insert(0) += 1; }
    pub fn add(&mut self, k: &str, n: u64) { *self.map.entry(k.to_string()).or_insert(0) += n; }
    pub fn dump(&self) {
        let body = self.map.iter().map(|(k, v)| format!("\"{}\":{}", k, v)).collect::<Vec<_>>().join(",");
        eprintln!("HARNESS_STATS {{{}}}", body);
    }
}
