//! Case generators for the library-level properties C02–C07, C20.
//! Operands are built independently of `BDDEnv` (Shannon expansion of a truth table), the
//! real operation is called, and one line per call is printed for the Lean driver.
use crate::util::*;
use rsbdd::bdd::{BDDEnv, BDD};
use rsbdd::TruthTableEntry;
use std::io::Write;
use std::rc::Rc;

pub const BIN_OPS: [&str; 7] = ["and", "or", "implies", "eq", "xor", "nor", "nand"];

pub fn bin(env: &BDDEnv<usize>, op: &str, a: B, b: B) -> B {
    match op {
        "and" => env.and(a, b),
        "or" => env.or(a, b),
        "implies" => env.implies(a, b),
        "eq" => env.eq(a, b),
        "xor" => env.xor(a, b),
        "nor" => env.nor(a, b),
        "nand" => env.nand(a, b),
        _ => unreachable!(),
    }
}

/// operand variable embeddings: (vars of a, vars of b)
pub fn embeddings() -> Vec<(Vec<usize>, Vec<usize>)> {
    vec![
        (vec![0, 1, 2], vec![0, 1, 2]),       // common support
        (vec![1, 4, 9], vec![1, 4, 9]),       // non-adjacent ids
        (vec![0, 2, 4], vec![1, 2, 3]),       // interleaved: every arm of the three-way split recurses
        (vec![0, 1, 2], vec![5, 6, 7]),       // disjoint, a above b
        (vec![5, 6, 7], vec![0, 1, 2]),       // disjoint, b above a
        (vec![2, 3, 8], vec![3, 8, 9]),       // overlapping, nested tails
    ]
}

fn intern_fresh(env: &BDDEnv<usize>, b: &BDD<usize>) -> B {
    match b { BDD::True => env.mk_const(true), BDD::False => env.mk_const(false), BDD::Choice(t, v, f) => { let t = intern_fresh(env, t); let f = intern_fresh(env, f); env.mk_choice(t, *v, f) } }
}

pub fn c03(out: &mut dyn Write, tier: &str, rng: &mut Rng, st: &mut Stats) {
    // an environment obtained through `Default` must behave like one from `new()`
    {
        let denv: BDDEnv<usize> = Default::default();
        for (va, vb) in embeddings().iter().take(3) {
            for _ in 0..60 {
                let a = from_tt(rng.below(256), va);
                let b = from_tt(rng.below(256), vb);
                let op = *rng.pick(&BIN_OPS);
                let r = bin(&denv, op, Rc::clone(&a), Rc::clone(&b));
                writeln!(out, "C03|bin|{}|{}|{}|{}|{};{}", op, show(&a), show(&b), show(&r), show(&a), show(&b)).unwrap();
                let r = denv.not(Rc::clone(&a));
                writeln!(out, "C03|not|{}|{}|{}", show(&a), show(&r), show(&a)).unwrap();
                st.hit("op.default-env");
            }
        }
        for s in [0usize, 3] { let r = denv.var(s); writeln!(out, "C03|var|{}|{}|", s, show(&r)).unwrap(); }
        for v in [false, true] { let r = denv.mk_const(v); writeln!(out, "C03|const|{}|{}|", v as u8, show(&r)).unwrap(); }
    }
    // a bare variable (and its negation) against every function of three variables, in both operand orders: shortcuts
    // for "one operand is a single variable" meet an operand with the same top variable, an earlier and a later one
    {
        let env: BDDEnv<usize> = BDDEnv::new();
        for v in 0..3usize {
            for tt in 0..256u64 {
                let f = intern_fresh(&env, &from_tt(tt, &[0, 1, 2]));
                let lit = if tt % 2 == 0 { env.var(v) } else { env.not(env.var(v)) };
                let op = BIN_OPS[((tt / 2) as usize + v) % BIN_OPS.len()];
                for (a, b) in [(Rc::clone(&lit), Rc::clone(&f)), (Rc::clone(&f), Rc::clone(&lit))] {
                    let r = bin(&env, op, Rc::clone(&a), Rc::clone(&b));
                    writeln!(out, "C03|bin|{}|{}|{}|{}|{};{}", op, show(&a), show(&b), show(&r), show(&a), show(&b)).unwrap();
                    st.hit("op.literal-against-function");
                }
            }
        }
    }
    // every function of three variables against its own complement and against itself, under every connective
    {
        let env: BDDEnv<usize> = BDDEnv::new();
        for tt in 0..256u64 {
            let f = intern_fresh(&env, &from_tt(tt, &[0, 1, 2]));
            let nf = env.not(Rc::clone(&f));
            for op in BIN_OPS.iter() {
                for (a, b) in [(Rc::clone(&f), Rc::clone(&nf)), (Rc::clone(&nf), Rc::clone(&f)), (Rc::clone(&f), Rc::clone(&f))] {
                    let r = bin(&env, op, Rc::clone(&a), Rc::clone(&b));
                    writeln!(out, "C03|bin|{}|{}|{}|{}|{};{}", op, show(&a), show(&b), show(&r), show(&a), show(&b)).unwrap();
                    st.hit("op.function-against-its-complement");
                }
            }
        }
    }
    // an environment over NAMED symbols in which different symbols print alike (the same name with different ids) and
    // one symbol has several spellings: var and the connectives go by the id alone
    {
        use rsbdd::NamedSymbol;
        let nenv: BDDEnv<NamedSymbol> = BDDEnv::new();
        let sym = |n: &str, id: usize| NamedSymbol { name: Rc::new(n.to_string()), id };
        let syms = [sym("p", 0), sym("p", 7), sym("pp", 3), sym("q", 7), sym("p", 3), sym("", 5)];
        let vars: Vec<Rc<BDD<NamedSymbol>>> = syms.iter().map(|s| nenv.var(s.clone())).collect();
        for (s, v) in syms.iter().zip(vars.iter()) {
            writeln!(out, "C03|var|{}|{}|", s.id, crate::formula::show_ns(v)).unwrap();
            st.hit("op.named-env");
        }
        for i in 0..vars.len() { for j in 0..vars.len() {
            let op = BIN_OPS[(i * 7 + j) % BIN_OPS.len()];
            let (a, b) = (Rc::clone(&vars[i]), Rc::clone(&vars[j]));
            let r = match op { "and" => nenv.and(Rc::clone(&a), Rc::clone(&b)), "or" => nenv.or(Rc::clone(&a), Rc::clone(&b)), "xor" => nenv.xor(Rc::clone(&a), Rc::clone(&b)),
                "nor" => nenv.nor(Rc::clone(&a), Rc::clone(&b)), "nand" => nenv.nand(Rc::clone(&a), Rc::clone(&b)), "implies" => nenv.implies(Rc::clone(&a), Rc::clone(&b)),
                "eq" => nenv.eq(Rc::clone(&a), Rc::clone(&b)), _ => nenv.and(Rc::clone(&a), nenv.not(Rc::clone(&b))) };
            let opn = if ["and", "or", "xor", "nor", "nand", "implies", "eq"].contains(&op) { op } else { "andnot" };
            if opn != "andnot" {
                writeln!(out, "C03|bin|{}|{}|{}|{}|{};{}", opn, crate::formula::show_ns(&a), crate::formula::show_ns(&b), crate::formula::show_ns(&r), crate::formula::show_ns(&a), crate::formula::show_ns(&b)).unwrap();
            }
        } }
    }
    // deep functions (60 to 130 variables, small diagrams): the connectives on pairs of them, and the negation
    {
        let denv: BDDEnv<usize> = BDDEnv::new();
        let fs = deep_functions(tier, rng);
        let pairs = if tier == "thorough" { 300 } else { 24 };
        for i in 0..pairs {
            let a = Rc::clone(&fs[(i * 7) % fs.len()]);
            let b = Rc::clone(&fs[(i * 11 + 3) % fs.len()]);
            let op = BIN_OPS[i % BIN_OPS.len()];
            let r = bin(&denv, op, Rc::clone(&a), Rc::clone(&b));
            writeln!(out, "C03|bin|{}|{}|{}|{}|{};{}", op, show(&a), show(&b), show(&r), show(&a), show(&b)).unwrap();
            let r = denv.not(Rc::clone(&a));
            writeln!(out, "C03|not|{}|{}|{}", show(&a), show(&r), show(&a)).unwrap();
            st.hit("op.deep");
        }
    }
    let env: BDDEnv<usize> = BDDEnv::new();
    let embs = embeddings();
    let exhaustive = tier == "thorough";
    for (ei, (va, vb)) in embs.iter().enumerate() {
        for op in BIN_OPS.iter() {
            let mut emit = |ta: u64, tb: u64, st: &mut Stats| {
                let a = from_tt(ta, va);
                let b = from_tt(tb, vb);
                let (a0, b0) = (show(&a), show(&b));
                let r = bin(&env, op, Rc::clone(&a), Rc::clone(&b));
                writeln!(out, "C03|bin|{}|{}|{}|{}|{};{}", op, a0, b0, show(&r), show(&a), show(&b)).unwrap();
                st.hit(&format!("op.{}", op));
                st.hit(if r.is_const() { "result.const" } else { "result.choice" });
            };
            if exhaustive && ei < 3 {
                for ta in 0..256u64 { for tb in 0..256u64 { emit(ta, tb, st); } }
            } else {
                let n = if exhaustive { 20000 } else { 1200 };
                for _ in 0..n { emit(rng.below(256), rng.below(256), st); }
            }
        }
        // unary
        for ta in 0..256u64 {
            let a = from_tt(ta, va);
            let a0 = show(&a);
            let r = env.not(Rc::clone(&a));
            writeln!(out, "C03|not|{}|{}|{}", a0, show(&r), show(&a)).unwrap();
            st.hit("op.not");
        }
        // ite over random triples, third operand over b's variables
        let n = if exhaustive { 60000 } else { 3000 };
        for _ in 0..n {
            let a = from_tt(rng.below(256), va);
            let b = from_tt(rng.below(256), vb);
            let c = from_tt(rng.below(256), if rng.chance(1, 2) { va } else { vb });
            let r = env.ite(Rc::clone(&a), Rc::clone(&b), Rc::clone(&c));
            writeln!(out, "C03|ite|{}|{}|{}|{}|{};{};{}", show(&a), show(&b), show(&c), show(&r), show(&a), show(&b), show(&c)).unwrap();
            st.hit("op.ite");
        }
    }
    // operands that live in the environment (hash-consed), where one operand IS a sub-diagram of the other
    // (the same shared node), is reached twice, or is the other operand itself: pointer-identity short-cuts
    let ni = if exhaustive { 60000 } else { 4000 };
    for i in 0..ni {
        let (va, _) = &embs[i % embs.len()];
        let a = crate::env::intern(&env, &from_tt(rng.below(256), va));
        let sub = |x: &B, rng: &mut Rng| -> B {
            // a random descendant of x (possibly x itself)
            let mut cur = Rc::clone(x);
            loop {
                let next = match cur.as_ref() { BDD::Choice(t, _, f) if rng.chance(2, 3) => if rng.chance(1, 2) { Rc::clone(t) } else { Rc::clone(f) }, _ => break };
                cur = next;
            }
            cur
        };
        let b = match rng.below(4) { 0 => Rc::clone(&a), 1 | 2 => sub(&a, rng), _ => crate::env::intern(&env, &from_tt(rng.below(256), va)) };
        let op = *rng.pick(&BIN_OPS);
        let (x, y) = if rng.chance(1, 2) { (Rc::clone(&a), Rc::clone(&b)) } else { (Rc::clone(&b), Rc::clone(&a)) };
        let r = bin(&env, op, Rc::clone(&x), Rc::clone(&y));
        writeln!(out, "C03|bin|{}|{}|{}|{}|{};{}", op, show(&x), show(&y), show(&r), show(&x), show(&y)).unwrap();
        st.hit("op.shared");
        if i % 4 == 0 {
            let c = sub(&a, rng);
            let r = env.ite(Rc::clone(&x), Rc::clone(&y), Rc::clone(&c));
            writeln!(out, "C03|ite|{}|{}|{}|{}|{};{};{}", show(&x), show(&y), show(&c), show(&r), show(&x), show(&y), show(&c)).unwrap();
            st.hit("op.ite.shared");
        }
    }
    // larger random operands: 5 variables each over ids 0..11
    let n = if exhaustive { 40000 } else { 2000 };
    for _ in 0..n {
        let va = rand_vars(rng, 5, 12);
        let vb = rand_vars(rng, 5, 12);
        let a = from_tt(rng.next() & 0xFFFF_FFFF, &va);
        let b = from_tt(rng.next() & 0xFFFF_FFFF, &vb);
        let op = *rng.pick(&BIN_OPS);
        let r = bin(&env, op, Rc::clone(&a), Rc::clone(&b));
        writeln!(out, "C03|bin|{}|{}|{}|{}|{};{}", op, show(&a), show(&b), show(&r), show(&a), show(&b)).unwrap();
        st.hit("op.big");
    }
    // pairs of different diagrams with the same 64-bit hash (computed, see util::colliding): an operation that
    // takes a hash for an identity (a memo keyed by hash, a reduction test on hashes) answers for the wrong one
    if hash_model_ok() {
        let nh = if exhaustive { 6000 } else { 400 };
        let x0 = env.var(0);
        for i in 0..nh {
            let a = from_tt(1 + rng.below(254), &[1, 4, 9]);
            if a.is_const() { continue; }
            let (_, b) = match colliding(&a, (i % 3) as u64, 2 + rng.below(6) as usize) { Some(p) => p, None => { st.hit("collision.none"); continue; } };
            st.hit("collision.pair");
            let (a, b) = if i % 2 == 0 { (crate::env::intern(&env, &a), crate::env::intern(&env, &b)) } else { (a, b) };
            for (x, y) in [(&a, &b), (&b, &a)] {
                let r = env.ite(Rc::clone(&x0), Rc::clone(x), Rc::clone(y));
                writeln!(out, "C03|ite|{}|{}|{}|{}|{};{};{}", show(&x0), show(x), show(y), show(&r), show(&x0), show(x), show(y)).unwrap();
                let op = *rng.pick(&BIN_OPS);
                let r = bin(&env, op, Rc::clone(x), Rc::clone(y));
                writeln!(out, "C03|bin|{}|{}|{}|{}|{};{}", op, show(x), show(y), show(&r), show(x), show(y)).unwrap();
                let r = env.not(Rc::clone(x));
                writeln!(out, "C03|not|{}|{}|{}", show(x), show(&r), show(x)).unwrap();
            }
        }
    } else { st.hit("collision.hash-model-differs"); }
    for s in [0usize, 1, 2, 7, 100, 65535] {
        let r = env.var(s);
        writeln!(out, "C03|var|{}|{}|", s, show(&r)).unwrap();
    }
    for v in [false, true] {
        let r = env.mk_const(v);
        writeln!(out, "C03|const|{}|{}|", v as u8, show(&r)).unwrap();
    }
}

pub fn rand_vars(rng: &mut Rng, k: usize, universe: usize) -> Vec<usize> {
    let mut vs: Vec<usize> = Vec::new();
    while vs.len() < k {
        let v = rng.below(universe as u64) as usize;
        if !vs.contains(&v) { vs.push(v); }
    }
    vs.sort();
    vs
}

/// An environment wrapper that logs every public operation as a `C02|step|…` line.
pub struct LogEnv<'a> {
    pub env: BDDEnv<usize>,
    pub out: std::cell::RefCell<&'a mut dyn Write>,
    pub tag: &'static str,
    pub steps: std::cell::Cell<u64>,
}

impl<'a> LogEnv<'a> {
    pub fn new(out: &'a mut dyn Write, tag: &'static str) -> Self {
        LogEnv { env: BDDEnv::new(), out: std::cell::RefCell::new(out), tag, steps: std::cell::Cell::new(0) }
    }
    fn log(&self, s: String) {
        self.steps.set(self.steps.get() + 1);
        writeln!(self.out.borrow_mut(), "{}|step|{}", self.tag, s).unwrap();
    }
    pub fn raw(&self, s: String) {
        writeln!(self.out.borrow_mut(), "{}", s).unwrap();
    }
    pub fn bin(&self, op: &str, a: &B, b: &B) -> B {
        let r = bin(&self.env, op, Rc::clone(a), Rc::clone(b));
        self.log(format!("bin|{}|{}|{}|{}", op, show(a), show(b), show(&r)));
        r
    }
    pub fn and(&self, a: &B, b: &B) -> B { self.bin("and", a, b) }
    pub fn or(&self, a: &B, b: &B) -> B { self.bin("or", a, b) }
    pub fn xor(&self, a: &B, b: &B) -> B { self.bin("xor", a, b) }
    pub fn not(&self, a: &B) -> B {
        let r = self.env.not(Rc::clone(a));
        self.log(format!("not|{}|{}", show(a), show(&r)));
        r
    }
    pub fn ite(&self, a: &B, b: &B, c: &B) -> B {
        let r = self.env.ite(Rc::clone(a), Rc::clone(b), Rc::clone(c));
        self.log(format!("ite|{}|{}|{}|{}", show(a), show(b), show(c), show(&r)));
        r
    }
    pub fn var(&self, s: usize) -> B {
        let r = self.env.var(s);
        self.log(format!("var|{}|{}", s, show(&r)));
        r
    }
    pub fn konst(&self, v: bool) -> B {
        let r = self.env.mk_const(v);
        self.log(format!("const|{}|{}", v as u8, show(&r)));
        r
    }
    pub fn exists(&self, vs: &[usize], f: &B) -> B {
        let r = self.env.exists(vs.to_vec(), Rc::clone(f));
        self.log(format!("exists|{}|{}|{}", show_nats(vs), show(f), show(&r)));
        r
    }
    pub fn all(&self, vs: &[usize], f: &B) -> B {
        let r = self.env.all(vs.to_vec(), Rc::clone(f));
        self.log(format!("all|{}|{}|{}", show_nats(vs), show(f), show(&r)));
        r
    }
    pub fn cnt(&self, op: &str, bs: &[B], n: i64) -> B {
        let r = match op {
            "aln" => self.env.aln(bs, n),
            "amn" => self.env.amn(bs, n),
            _ => self.env.exn(bs, n),
        };
        self.log(format!("cnt|{}|{}|{}|{}", op, n, show_list(bs), show(&r)));
        r
    }
    pub fn cntcmp(&self, op: &str, a: &[B], b: &[B]) -> B {
        let r = cntcmp(&self.env, op, a, b);
        self.log(format!("cntcmp|{}|{}|{}|{}", op, show_list(a), show_list(b), show(&r)));
        r
    }
    pub fn model(&self, f: &B) -> B {
        let r = self.env.model(Rc::clone(f));
        self.log(format!("model|{}|{}", show(f), show(&r)));
        r
    }
    pub fn retain(&self, f: &B, flt: TruthTableEntry) -> B {
        let r = self.env.retain_choice_bottom_up(Rc::clone(f), flt);
        self.log(format!("retain|{}|{}|{}", flt_name(flt), show(f), show(&r)));
        r
    }
    pub fn fp_or(&self, a: &B, g: &B) -> B {
        let r = self.env.fp(Rc::clone(a), |x| self.env.or(x, Rc::clone(g)));
        self.log(format!("fpor|{}|{}|{}", show(a), show(g), show(&r)));
        r
    }
    pub fn fp_and(&self, a: &B, g: &B) -> B {
        let r = self.env.fp(Rc::clone(a), |x| self.env.and(x, Rc::clone(g)));
        self.log(format!("fpand|{}|{}|{}", show(a), show(g), show(&r)));
        r
    }
}

pub fn cntcmp(env: &BDDEnv<usize>, op: &str, a: &[B], b: &[B]) -> B {
    match op {
        "leq" => env.count_leq(a, b),
        "lt" => env.count_lt(a, b),
        "geq" => env.count_geq(a, b),
        "gt" => env.count_gt(a, b),
        _ => env.count_eq(a, b),
    }
}

pub fn flt_name(f: TruthTableEntry) -> &'static str {
    match f { TruthTableEntry::True => "t", TruthTableEntry::False => "f", TruthTableEntry::Any => "a" }
}

fn bit(tt: u64, i: u64) -> bool { (tt >> i) & 1 == 1 }

/// Construction routes to the function `tt` over `vars` through the public API.
pub fn route(le: &LogEnv, name: &str, tt: u64, vars: &[usize], rng: &mut Rng) -> B {
    let k = vars.len();
    let rows = 1u64 << k;
    let lit = |j: usize, pos: bool| -> B { let v = le.var(vars[j]); if pos { v } else { le.not(&v) } };
    match name {
        "dnf" => {
            let mut r = le.konst(false);
            for i in 0..rows {
                if bit(tt, i) {
                    let mut m = le.konst(true);
                    for j in 0..k { m = le.and(&m, &lit(j, bit(i, j as u64))); }
                    r = le.or(&r, &m);
                }
            }
            r
        }
        "cnf" => {
            let mut r = le.konst(true);
            // reversed row order, operands flipped
            for i in (0..rows).rev() {
                if !bit(tt, i) {
                    let mut c = le.konst(false);
                    for j in (0..k).rev() { c = le.or(&lit(j, !bit(i, j as u64)), &c); }
                    r = le.and(&c, &r);
                }
            }
            r
        }
        "ite" => {
            fn go(le: &LogEnv, tt: u64, vars: &[usize], level: usize, fixed: u64) -> B {
                if level == vars.len() { return le.konst((tt >> fixed) & 1 == 1); }
                // bottom variable first: builds from the wrong end on purpose
                let hi = go(le, tt, vars, level + 1, fixed | (1 << level));
                let lo = go(le, tt, vars, level + 1, fixed);
                let v = le.var(vars[level]);
                le.ite(&v, &hi, &lo)
            }
            go(le, tt, vars, 0, 0)
        }
        "anf" => {
            // algebraic normal form: xor of monomials (Moebius transform of the table)
            let mut c: Vec<bool> = (0..rows).map(|i| bit(tt, i)).collect();
            for j in 0..k {
                for i in 0..rows as usize { if i & (1 << j) != 0 { c[i] ^= c[i ^ (1 << j)]; } }
            }
            let mut r = le.konst(false);
            for i in 0..rows as usize {
                if c[i] {
                    let mut m = le.konst(true);
                    for j in 0..k { if i & (1 << j) != 0 { m = le.and(&lit(j, true), &m); } }
                    r = le.xor(&r, &m);
                }
            }
            r
        }
        "exists-detour" => {
            // f = exists z # (z & f) | (!z & f)   and   f = forall z # (z => f) with z fresh, placed at a random depth
            let f = route(le, "dnf", tt, vars, rng);
            let z = loop { let z = rng.below(12) as usize; if !vars.contains(&z) { break z; } };
            let zv = le.var(z);
            let nz = le.not(&zv);
            let g = le.or(&le.and(&zv, &f), &le.and(&nz, &f));
            let e = le.exists(&[z], &g);
            let h = le.bin("implies", &zv, &e);
            let a = le.all(&[z, z], &h);
            a
        }
        "models-or" => {
            // f = OR of successive models of what is left
            let f = route(le, "ite", tt, vars, rng);
            let mut r = le.konst(false);
            let mut rest = Rc::clone(&f);
            let mut guard = 0;
            while !rest.is_false() && guard < 64 {
                let m = le.model(&rest);
                r = le.or(&r, &m);
                rest = le.and(&rest, &le.not(&m));
                guard += 1;
            }
            r
        }
        "count" => {
            // f = exactly-one of [f]; then at-least-1 of [f, false, f]; then [f] >= [true] (count compare)
            let f = route(le, "cnf", tt, vars, rng);
            let a = le.cnt("exn", &[Rc::clone(&f)], 1);
            let b = le.cnt("aln", &[Rc::clone(&a), le.konst(false), Rc::clone(&a)], 1);
            le.cntcmp("geq", &[b], &[le.konst(true)])
        }
        "fp" => {
            // least fixed point of x -> x | f from false; greatest of x -> x & f from true; retain Any
            let f = route(le, "anf", tt, vars, rng);
            let l = le.fp_or(&le.konst(false), &f);
            let g = le.fp_and(&le.konst(true), &l);
            le.retain(&g, TruthTableEntry::Any)
        }
        _ => unreachable!(),
    }
}

pub const ROUTES: [&str; 8] = ["dnf", "cnf", "ite", "anf", "exists-detour", "models-or", "count", "fp"];

pub fn c02(out: &mut dyn Write, tier: &str, rng: &mut Rng, st: &mut Stats) {
    let embs: Vec<Vec<usize>> = vec![vec![0, 1, 2], vec![1, 4, 9], vec![3, 5, 6]];
    let mut le = LogEnv::new(out, "C02");
    let other_env: BDDEnv<usize> = BDDEnv::new();
    let emit_canon = |le: &LogEnv, name: &str, c: &B, r: &B| {
        le.raw(format!(
            "C02|canon|{}|{}|{}|{}|{}|{}|{}",
            name, show(c), show(r), (r == c) as u8, (r.get_hash() == c.get_hash()) as u8,
            r.is_true() as u8, r.is_false() as u8
        ));
    };
    let thorough = tier == "thorough";
    // all 256 three-variable functions
    for vars in &embs {
        for tt in 0..256u64 {
            let c = from_tt(tt, vars);
            let routes: Vec<&str> = if thorough { ROUTES.to_vec() } else {
                // quick: four routes per function, rotating so that every route is used
                (0..4).map(|i| ROUTES[((tt as usize) + i * 3) % ROUTES.len()]).collect()
            };
            let mut results: Vec<B> = Vec::new();
            for name in routes {
                let r = route(&le, name, tt, vars, rng);
                emit_canon(&le, name, &c, &r);
                st.hit(&format!("route.{}", name));
                results.push(r);
            }
            // a different function reached in the same environment must compare unequal
            let tt2 = (tt + 1 + rng.below(254)) % 256;
            let d = from_tt(tt2, vars);
            emit_canon(&le, "other-function", &d, &results[0]);
            // the same function in a different environment
            let o = {
                let v: Vec<B> = vars.iter().map(|v| other_env.var(*v)).collect();
                let mut r = other_env.mk_const(false);
                for i in 0..8u64 {
                    if bit(tt, i) {
                        let mut m = other_env.mk_const(true);
                        for j in 0..3 {
                            let l = if bit(i, j as u64) { Rc::clone(&v[j]) } else { other_env.not(Rc::clone(&v[j])) };
                            m = other_env.and(m, l);
                        }
                        r = other_env.or(r, m);
                    }
                }
                r
            };
            emit_canon(&le, "other-env", &o, &results[0]);
        }
    }
    // operands that were not built by this environment (plain `Rc` values, as they come out of another
    // environment, a `{reference}` to another formula's diagram or a symbol conversion): equal
    // sub-diagrams are then different allocations, and the result must be canonical all the same
    let nforeign = if thorough { 60000 } else { 3000 };
    for i in 0..nforeign {
        let vars = &embs[i % embs.len()];
        let (ta, tb) = (rng.below(256), rng.below(256));
        let op = BIN_OPS[(i / 3) % BIN_OPS.len()];
        let tr = match op {
            "and" => ta & tb, "or" => ta | tb, "implies" => !ta | tb, "eq" => !(ta ^ tb),
            "xor" => ta ^ tb, "nor" => !(ta | tb), _ => !(ta & tb),
        } & 0xFF;
        let a = if i % 2 == 0 { from_tt(ta, vars) } else {
            // built by the other environment
            let v: Vec<B> = vars.iter().map(|v| other_env.var(*v)).collect();
            let mut r = other_env.mk_const(false);
            for k in 0..8u64 { if bit(ta, k) {
                let mut m = other_env.mk_const(true);
                for j in 0..3 { let l = if bit(k, j as u64) { Rc::clone(&v[j]) } else { other_env.not(Rc::clone(&v[j])) }; m = other_env.and(m, l); }
                r = other_env.or(r, m);
            } }
            r
        };
        let b = from_tt(tb, vars);
        let r = le.bin(op, &a, &b);
        emit_canon(&le, "foreign-operands", &from_tt(tr, vars), &r);
        st.hit("route.foreign");
        if i % 5 == 0 {
            let c = from_tt(rng.below(256), vars);
            let r = le.ite(&a, &b, &c);
            let tc = { let mut t = 0u64; for k in 0..8u64 { let av = bit(ta, k); if (av && bit(tb, k)) || (!av && eval(&c, &|x| bit(k, vars.iter().position(|y| *y == x).unwrap() as u64))) { t |= 1 << k; } } t };
            emit_canon(&le, "foreign-ite", &from_tt(tc, vars), &r);
        }
    }
    // foreign operands in a FRESH environment (its table knows none of their nodes), in shapes whose result
    // collapses onto the foreign operand itself or one of its sub-diagrams: (z & f) | (!z & f), z ? f : f,
    // f & f, exists z # z & f, true & f, f | false; afterwards the environment must still hand out
    // canonical diagrams for ordinary requests (state left behind by the first call)
    let nfresh = if thorough { 20000 } else { 1800 };
    for i in 0..nfresh {
        le.env = BDDEnv::new();
        let vars = &embs[i % embs.len()];
        let tf = rng.below(256);
        let f = if i % 2 == 0 { from_tt(tf, vars) } else { crate::env::intern(&other_env, &from_tt(tf, vars)) };
        let z = loop { let z = rng.below(12) as usize; if !vars.contains(&z) { break z; } };
        let zv = le.var(z);
        let nz = le.not(&zv);
        let r = match (i / 2) % 6 {
            0 => le.or(&le.and(&zv, &f), &le.and(&nz, &f)),
            1 => le.ite(&zv, &f, &f),
            2 => le.and(&f, &f),
            3 => le.exists(&[z], &le.and(&zv, &f)),
            4 => le.and(&le.bin("eq", &zv, &zv), &f),
            _ => le.or(&f, &le.konst(false)),
        };
        emit_canon(&le, "fresh-env-collapse", &from_tt(tf, vars), &r);
        for (j, v) in vars.iter().enumerate() {
            let x = le.var(*v);
            let ttv = (0..8u64).filter(|k| bit(*k, j as u64)).fold(0u64, |a, k| a | (1 << k));
            emit_canon(&le, "fresh-env-var-after", &from_tt(ttv, vars), &x);
            let t = le.or(&x, &le.not(&x));
            emit_canon(&le, "fresh-env-taut-after", &le.env.mk_const(true), &t);
        }
        let g = le.and(&r, &f);
        emit_canon(&le, "fresh-env-reuse", &from_tt(tf, vars), &g);
        st.hit("route.fresh-env");
    }
    // every other public operation on shared nodes of the environment: the result must be ordered and reduced
    // (retain, model, the quantifiers, the counting operators, the iterator, ite, not)
    let nops = if thorough { 40000 } else { 3000 };
    for i in 0..nops {
        let vars = &embs[i % embs.len()];
        let f = crate::env::intern(&le.env, &from_tt(rng.below(256), vars));
        let g = crate::env::intern(&le.env, &from_tt(rng.below(256), vars));
        match i % 9 {
            0 => { le.retain(&f, TruthTableEntry::True); }
            1 => { le.retain(&f, TruthTableEntry::False); }
            2 => { le.retain(&f, TruthTableEntry::Any); le.model(&f); }
            3 => { let vs: Vec<usize> = (0..rng.below(3)).map(|_| vars[rng.below(3) as usize]).collect(); le.exists(&vs, &f); le.all(&vs, &g); }
            4 => { let n = rng.range(-1, 4); le.cnt(*rng.pick(&["aln", "amn", "exn"]), &[Rc::clone(&f), Rc::clone(&g), Rc::clone(&f)], n); }
            5 => { le.cntcmp(*rng.pick(&["leq", "lt", "geq", "gt", "eq"]), &[Rc::clone(&f)], &[Rc::clone(&g), Rc::clone(&f)]); }
            6 => { le.fp_or(&f, &g); le.fp_and(&f, &g); }
            7 => { let h = le.not(&f); le.ite(&h, &g, &f); }
            _ => { let r = le.retain(&f, TruthTableEntry::True); le.retain(&r, TruthTableEntry::False); }
        }
        st.hit("ops.closure");
    }
    // four-variable functions
    let vars4 = vec![0usize, 2, 3, 7];
    let n4: Vec<u64> = if thorough { (0..65536u64).collect() } else { (0..400).map(|_| rng.below(65536)).collect() };
    for tt in n4 {
        let c = from_tt(tt, &vars4);
        for name in [*rng.pick(&ROUTES), *rng.pick(&ROUTES[..4])] {
            let r = route(&le, name, tt, &vars4, rng);
            emit_canon(&le, name, &c, &r);
            st.hit(&format!("route.{}", name));
        }
    }
    // random 5–6-variable functions
    let nbig = if thorough { 3000 } else { 60 };
    for _ in 0..nbig {
        let k = 5 + rng.below(2) as usize;
        let vars = rand_vars(rng, k, 12);
        let tt = if k == 6 { rng.next() } else { rng.next() & 0xFFFF_FFFF };
        let c = from_tt(tt, &vars);
        let name = *rng.pick(&ROUTES[..4]);
        let r = route(&le, name, tt, &vars, rng);
        emit_canon(&le, name, &c, &r);
        st.hit("route.big");
    }
    st.add("steps", le.steps.get());
    // deep functions (60 to 130 variables): every operation returns the model's diagram, ordered and reduced, and two
    // routes to one function meet in one diagram
    {
        let fs = deep_functions(tier, rng);
        let pairs = if thorough { 200 } else { 18 };
        for i in 0..pairs {
            let a = Rc::clone(&fs[(i * 5) % fs.len()]);
            let b = Rc::clone(&fs[(i * 13 + 1) % fs.len()]);
            let ab = le.and(&a, &b);
            let ba = le.and(&b, &a);
            emit_canon(&le, "deep.and-commutes", &ab, &ba);
            let dm = { let na = le.not(&a); let nb = le.not(&b); let o = le.or(&na, &nb); le.not(&o) };
            emit_canon(&le, "deep.de-morgan", &ab, &dm);
            let x = le.xor(&a, &b);
            let x2 = { let na = le.not(&a); let l = le.and(&na, &b); let nb = le.not(&b); let r = le.and(&a, &nb); le.or(&l, &r) };
            emit_canon(&le, "deep.xor-unfolded", &x, &x2);
            let e = le.exists(&[64, 1], &ab);
            let e2 = { let e1 = le.exists(&[1], &ab); le.exists(&[64], &e1) };
            emit_canon(&le, "deep.exists-split", &e, &e2);
            st.hit("route.deep");
        }
    }
}

pub fn c04(out: &mut dyn Write, tier: &str, rng: &mut Rng, st: &mut Stats) {
    let env: BDDEnv<usize> = BDDEnv::new();
    let fvars = vec![1usize, 3, 5];
    // every variable list of length <= 3 over 0..=6 (above / inside / below / outside the support, repeats)
    let mut lists: Vec<Vec<usize>> = vec![vec![]];
    for a in 0..7 { lists.push(vec![a]); }
    for a in 0..7 { for b in 0..7 { lists.push(vec![a, b]); } }
    for a in 0..7 { for b in 0..7 { for c in 0..7 { lists.push(vec![a, b, c]); } } }
    let thorough = tier == "thorough";
    // operands alternate between plain values (not built by the environment) and the environment's own shared nodes
    let mut flip = false;
    let mut emit = |tt: u64, vs: &Vec<usize>, q: &str, st: &mut Stats| {
        flip = !flip;
        let f = if flip { from_tt(tt, &fvars) } else { crate::env::intern(&env, &from_tt(tt, &fvars)) };
        let r = if q == "exists" { env.exists(vs.clone(), Rc::clone(&f)) } else { env.all(vs.clone(), Rc::clone(&f)) };
        writeln!(out, "C04|{}|{}|{}|{}", q, show_nats(vs), show(&f), show(&r)).unwrap();
        st.hit(&format!("q.{}.len{}", q, vs.len()));
        st.hit(if r.is_const() { "result.const" } else { "result.choice" });
    };
    if thorough {
        for tt in 0..256u64 { for vs in &lists { emit(tt, vs, "exists", st); emit(tt, vs, "all", st); } }
    } else {
        for _ in 0..10000 {
            let tt = rng.below(256);
            let vs = rng.pick(&lists).clone();
            emit(tt, &vs, if rng.chance(1, 2) { "exists" } else { "all" }, st);
        }
        // the short lists exhaustively
        for tt in 0..256u64 { for vs in lists.iter().take(8) { emit(tt, vs, "exists", st); emit(tt, vs, "all", st); } }
    }
    // functions containing two different sub-diagrams with the same 64-bit hash, quantified over each of their variables
    for f in collision_functions(rng, if thorough { 3000 } else { 200 }) {
        let sup = { let mut v: Vec<usize> = Vec::new(); fn go(b: &BDD<usize>, v: &mut Vec<usize>) { if let BDD::Choice(t, s, f) = b { if !v.contains(s) { v.push(*s); } go(t, v); go(f, v); } } go(&f, &mut v); v };
        let mut lists: Vec<Vec<usize>> = sup.iter().map(|v| vec![*v]).collect();
        lists.push(vec![7]);
        if sup.len() >= 2 { lists.push(vec![sup[0], sup[sup.len() - 1]]); }
        for vs in lists {
            for q in ["exists", "all"] {
                let r = if q == "exists" { env.exists(vs.clone(), Rc::clone(&f)) } else { env.all(vs.clone(), Rc::clone(&f)) };
                writeln!(out, "C04|{}|{}|{}|{}", q, show_nats(&vs), show(&f), show(&r)).unwrap();
                st.hit("q.collision");
            }
        }
    }
    // long lists (9 to 20 entries, beyond any block size): variables with repetition, in any order
    let nlong = if thorough { 3000 } else { 120 };
    for i in 0..nlong {
        let len = [9usize, 10, 15, 16, 17, 18, 20, 8][i % 8];
        let vars = rand_vars(rng, 4, 7);
        let f = from_tt(rng.below(65536), &vars);
        let vs: Vec<usize> = (0..len).map(|_| rng.below(8) as usize).collect();
        for q in ["exists", "all"] {
            let r = if q == "exists" { env.exists(vs.clone(), Rc::clone(&f)) } else { env.all(vs.clone(), Rc::clone(&f)) };
            writeln!(out, "C04|{}|{}|{}|{}", q, show_nats(&vs), show(&f), show(&r)).unwrap();
            st.hit("q.long-list");
        }
    }
    // deep functions: lists that reach across the 64th and the 128th variable
    for (i, f) in deep_functions(tier, rng).into_iter().enumerate() {
        if !thorough && i >= 24 { break; }
        let lists: [Vec<usize>; 6] = [vec![0], vec![63], vec![64, 1], vec![65, 66, 2], vec![0, 64, 128], vec![(i * 5) % 130, (i * 5 + 64) % 130]];
        let vs = lists[i % 6].clone();
        for q in ["exists", "all"] {
            let r = if q == "exists" { env.exists(vs.clone(), Rc::clone(&f)) } else { env.all(vs.clone(), Rc::clone(&f)) };
            writeln!(out, "C04|{}|{}|{}|{}", q, show_nats(&vs), show(&f), show(&r)).unwrap();
            st.hit("q.deep");
        }
    }
    // exists_impl directly, and larger functions
    let n = if thorough { 20000 } else { 1500 };
    for _ in 0..n {
        let vars = rand_vars(rng, 5, 10);
        let f = from_tt(rng.next() & 0xFFFF_FFFF, &vars);
        let f = if rng.chance(1, 2) { crate::env::intern(&env, &f) } else { f };
        let v = rng.below(11) as usize;
        let r = env.exists_impl(&v, Rc::clone(&f));
        writeln!(out, "C04|existsimpl|{}|{}|{}", v, show(&f), show(&r)).unwrap();
        let len = rng.below(5) as usize;
        let vs: Vec<usize> = (0..len).map(|_| rng.below(11) as usize).collect();
        let q = if rng.chance(1, 2) { "exists" } else { "all" };
        let r = if q == "exists" { env.exists(vs.clone(), Rc::clone(&f)) } else { env.all(vs.clone(), Rc::clone(&f)) };
        writeln!(out, "C04|{}|{}|{}|{}", q, show_nats(&vs), show(&f), show(&r)).unwrap();
        st.hit("q.big");
    }
}

pub fn c05(out: &mut dyn Write, tier: &str, rng: &mut Rng, st: &mut Stats) {
    let env: BDDEnv<usize> = BDDEnv::new();
    let thorough = tier == "thorough";
    let n = if thorough { 150000 } else { 8000 };
    let pools: Vec<Vec<usize>> = vec![vec![0, 1, 2], vec![1, 4, 9], vec![0, 2, 4], vec![1, 2, 3]];
    let operand = |rng: &mut Rng| -> B {
        let b = match rng.below(10) {
            0 => from_tt(0, &[]),
            1 => from_tt(1, &[]),
            2 => { let v = rng.below(5) as usize; from_tt(2, &[v]) }
            _ => { let p = rng.pick(&pools).clone(); from_tt(rng.below(256), &p) }
        };
        // half of the operands are the environment's own shared nodes
        if rng.chance(1, 2) { crate::env::intern(&env, &b) } else { b }
    };
    for _ in 0..n {
        let len = rng.below(6) as usize;
        let mut bs: Vec<B> = (0..len).map(|_| operand(rng)).collect();
        if len >= 2 && rng.chance(1, 4) { bs[1] = Rc::clone(&bs[0]); } // repeated operand
        let bound: i64 = match rng.below(12) {
            0 => i64::MIN + len as i64,
            1 => i64::MAX - len as i64,
            2 => 1 << 31,
            3 => -(1 << 31),
            4 => 1 << 62,
            5 => -(1 << 62),
            _ => rng.range(-3, len as i64 + 3),
        };
        let op = *rng.pick(&["aln", "amn", "exn"]);
        let r = match op { "aln" => env.aln(&bs, bound), "amn" => env.amn(&bs, bound), _ => env.exn(&bs, bound) };
        writeln!(out, "C05|cnt|{}|{}|{}|{}", op, bound, show_list(&bs), show(&r)).unwrap();
        st.hit(&format!("cnt.{}.len{}", op, len));
        st.hit(if r.is_const() { "result.const" } else { "result.choice" });
    }
    for _ in 0..n / 2 {
        let la = rng.below(4) as usize;
        let lb = rng.below(4) as usize;
        let a: Vec<B> = (0..la).map(|_| operand(rng)).collect();
        let mut b: Vec<B> = (0..lb).map(|_| operand(rng)).collect();
        if la >= 1 && lb >= 1 && rng.chance(1, 4) { b[0] = Rc::clone(&a[0]); } // overlapping lists
        let op = *rng.pick(&["leq", "lt", "geq", "gt", "eq"]);
        let r = cntcmp(&env, op, &a, &b);
        writeln!(out, "C05|cntcmp|{}|{}|{}|{}", op, show_list(&a), show_list(&b), show(&r)).unwrap();
        st.hit(&format!("cntcmp.{}.{}x{}", op, la, lb));
        st.hit(if r.is_const() { "result.const" } else { "result.choice" });
    }
    // the two lists as windows of ONE vector of operands: the same start and different lengths (one of them possibly empty),
    // overlapping windows, the whole vector against a part of it
    for i in 0..(if thorough { 4000 } else { 200 }) {
        let len = 2 + rng.below(4) as usize;
        let xs: Vec<B> = (0..len).map(|_| operand(rng)).collect();
        let (s1, e1, s2, e2) = match i % 4 {
            0 => { let j = rng.below(len as u64 + 1) as usize; let l = rng.below(len as u64 + 1) as usize; (0, j, 0, l) }
            1 => { let st = rng.below(len as u64) as usize; let j = st + rng.below((len - st) as u64 + 1) as usize; let l = st + rng.below((len - st) as u64 + 1) as usize; (st, j, st, l) }
            2 => (0, len, rng.below(len as u64) as usize, len),
            _ => { let a = rng.below(len as u64) as usize; let b = rng.below(len as u64) as usize; (a.min(b), len, 0, a.max(b)) }
        };
        let op = *rng.pick(&["leq", "lt", "geq", "gt", "eq"]);
        let r = cntcmp(&env, op, &xs[s1..e1], &xs[s2..e2]);
        writeln!(out, "C05|cntcmp|{}|{}|{}|{}", op, show_list(&xs[s1..e1]), show_list(&xs[s2..e2]), show(&r)).unwrap();
        st.hit("cntcmp.windows-of-one-vector");
    }
    // long lists (16 to 20 operands, beyond any fixed-size shortcut): constants, literals and small functions of
    // three variables, so that every assignment can still be tried
    let nlong = if thorough { 600 } else { 36 };
    for i in 0..nlong {
        let len = [16usize, 17, 17, 18, 19, 20][i % 6];
        let vars = [0usize, 1, 2];
        let mut bs: Vec<B> = (0..len).map(|j| match rng.below(8) {
            0 | 1 | 2 => from_tt(1, &[]),
            3 => from_tt(0, &[]),
            4 | 5 => from_tt(2, &[vars[j % 3]]),
            6 => from_tt(1, &[vars[j % 3]]),
            _ => from_tt(rng.below(256), &vars),
        }).collect();
        // sometimes every operand of the first half, or of the whole list, is the constant true
        if i % 4 == 1 { for b in bs.iter_mut().take(len / 2) { *b = from_tt(1, &[]); } }
        if i % 8 == 3 { for b in bs.iter_mut().take(len - 1) { *b = from_tt(1, &[]); } }
        let bound: i64 = match rng.below(6) { 0 => len as i64, 1 => len as i64 - 1, 2 => len as i64 + 1, 3 => (len / 2) as i64, _ => rng.range(0, len as i64 + 2) };
        if i % 3 != 2 {
            let op = *rng.pick(&["aln", "amn", "exn"]);
            let r = match op { "aln" => env.aln(&bs, bound), "amn" => env.amn(&bs, bound), _ => env.exn(&bs, bound) };
            writeln!(out, "C05|cnt|{}|{}|{}|{}", op, bound, show_list(&bs), show(&r)).unwrap();
            st.hit(&format!("cnt.long.{}.len{}", op, len));
        } else {
            let a: Vec<B> = (0..rng.below(4) as usize).map(|_| operand(rng)).collect();
            let op = *rng.pick(&["leq", "lt", "geq", "gt", "eq"]);
            let r = cntcmp(&env, op, &a, &bs);
            writeln!(out, "C05|cntcmp|{}|{}|{}|{}", op, show_list(&a), show_list(&bs), show(&r)).unwrap();
            st.hit(&format!("cntcmp.long.{}.{}x{}", op, a.len(), len));
        }
    }
    // the two lists drawn from one small pool of operands, with repetitions: equal as sets, permutations of
    // each other, or differing only in how often an operand occurs
    for i in 0..n / 4 {
        let k = 1 + rng.below(3) as usize;
        let pool: Vec<B> = (0..k).map(|_| operand(rng)).collect();
        let la = rng.below(5) as usize;
        let lb = if i % 2 == 0 { la } else { rng.below(5) as usize };
        let a: Vec<B> = (0..la).map(|_| Rc::clone(rng.pick(&pool[..]))).collect();
        let b: Vec<B> = (0..lb).map(|_| Rc::clone(rng.pick(&pool[..]))).collect();
        let op = *rng.pick(&["leq", "lt", "geq", "gt", "eq", "eq"]);
        let r = cntcmp(&env, op, &a, &b);
        writeln!(out, "C05|cntcmp|{}|{}|{}|{}", op, show_list(&a), show_list(&b), show(&r)).unwrap();
        st.hit("cntcmp.same-pool");
    }
}

/// functions whose diagrams contain two different sub-diagrams with the same 64-bit hash (util::colliding):
/// `x0 ? A : B`, `x0 ? A : !B`, `(x0 | A) & B`, `A ^ B` — a traversal that memoises by hash confuses A and B
pub fn collision_functions(rng: &mut Rng, count: usize) -> Vec<B> {
    let mut fs: Vec<B> = Vec::new();
    if !hash_model_ok() { return fs; }
    let env: BDDEnv<usize> = BDDEnv::new();
    let x0 = env.var(0);
    let mut tries = 0;
    while fs.len() < count && tries < 4 * count + 16 {
        tries += 1;
        let a = from_tt(1 + rng.below(254), &[1, 4, 9]);
        if a.is_const() { continue; }
        let (_, b) = match colliding(&a, rng.below(3), 2 + rng.below(6) as usize) { Some(p) => p, None => continue };
        let f = match rng.below(4) {
            0 => env.ite(Rc::clone(&x0), Rc::clone(&a), Rc::clone(&b)),
            1 => env.ite(Rc::clone(&x0), Rc::clone(&a), env.not(Rc::clone(&b))),
            2 => env.and(env.or(Rc::clone(&x0), Rc::clone(&a)), Rc::clone(&b)),
            _ => env.xor(Rc::clone(&a), Rc::clone(&b)),
        };
        fs.push(f);
    }
    fs
}

fn unary_functions(tier: &str, rng: &mut Rng) -> Vec<B> {
    let mut fs: Vec<B> = collision_functions(rng, if tier == "thorough" { 2000 } else { 150 });
    for vars in [vec![0usize, 1, 2], vec![1, 4, 9], vec![3, 5, 6]] {
        for tt in 0..256u64 { fs.push(from_tt(tt, &vars)); }
    }
    let vars4 = vec![0usize, 2, 3, 7];
    if tier == "thorough" {
        for tt in 0..65536u64 { fs.push(from_tt(tt, &vars4)); }
    } else {
        for _ in 0..1500 { fs.push(from_tt(rng.below(65536), &vars4)); }
    }
    let nbig = if tier == "thorough" { 200000 } else { 800 };
    for _ in 0..nbig {
        let k = 5 + rng.below(2) as usize;
        let vars = rand_vars(rng, k, 12);
        fs.push(from_tt(if k == 6 { rng.next() } else { rng.next() & 0xFFFF_FFFF }, &vars));
    }
    fs
}

/// functions of many variables with small diagrams: 60 to 130 guard literals (either polarity) in a chain of
/// conjunctions or disjunctions around a small function of a few further variables, placed before, after or in
/// the middle of the chain — paths of more than 64 tests, variable ids beyond 64, depths beyond any machine word
pub fn deep_functions(tier: &str, rng: &mut Rng) -> Vec<B> {
    let env: BDDEnv<usize> = BDDEnv::new();
    let mut fs: Vec<B> = Vec::new();
    let lens: [usize; 12] = [60, 62, 63, 64, 65, 66, 67, 70, 96, 127, 128, 130];
    let n = if tier == "thorough" { 1200 } else { 72 };
    for i in 0..n {
        let k = lens[i % lens.len()];
        let place = (i / lens.len()) % 3; // small function after / before / in the middle of the guards
        let base = match place { 0 => 0usize, 1 => 3, _ => 0 };
        let small_at = match place { 0 => k, 1 => 0, _ => k / 2 };
        let guard_id = |j: usize| -> usize { if place == 2 && j >= k / 2 { j + 3 } else { base + j } };
        let tail_vars = [small_at, small_at + 1, small_at + 2];
        let tail = from_tt(1 + rng.below(254), &tail_vars);
        let conj = rng.chance(2, 3);
        let mut acc: B = tail;
        // guards are added from the last to the first, so that every intermediate diagram stays a chain
        let mut ids: Vec<usize> = (0..k).map(guard_id).collect();
        ids.reverse();
        for id in ids {
            let lit = if rng.chance(3, 4) { env.var(id) } else { env.not(env.var(id)) };
            acc = if conj { env.and(lit, acc) } else { env.or(lit, acc) };
        }
        fs.push(acc);
    }
    fs
}

pub fn c07(out: &mut dyn Write, tier: &str, rng: &mut Rng, st: &mut Stats) {
    let env: BDDEnv<usize> = BDDEnv::new();
    for f in deep_functions(tier, rng) {
        let r = env.model(Rc::clone(&f));
        writeln!(out, "C07|model|{}|{}", show(&f), show(&r)).unwrap();
        st.hit(if r.is_false() { "deep.model.false" } else { "deep.model.cube" });
        for v in [0usize, 63, 64, 65, 200] {
            let (a, b) = env.infer(Rc::clone(&r), v);
            writeln!(out, "C07|infer|{}|{}|{}{}", show(&r), v, a as u8, b as u8).unwrap();
            st.hit("deep.infer");
        }
    }
    for (i, f) in unary_functions(tier, rng).into_iter().enumerate() {
        // two of three functions meet an environment of their own, which has seen nothing yet (no literal of any variable
        // is in its table); the third the long-lived one, which by now has seen every variable
        let own: BDDEnv<usize> = BDDEnv::new();
        let env: &BDDEnv<usize> = if i % 3 == 0 { &env } else { st.hit("model.fresh-environment"); &own };
        // every other operand is the environment's own shared node instead of a plain value
        let f = if i % 2 == 1 { crate::env::intern(env, &f) } else { f };
        let r = env.model(Rc::clone(&f));
        writeln!(out, "C07|model|{}|{}", show(&f), show(&r)).unwrap();
        st.hit(if r.is_false() { "model.false" } else { "model.cube" });
        // infer on the model and on f itself, for variables inside and outside the support
        let v = rng.below(11) as usize;
        for (m, tag) in [(&r, "infer.on-model"), (&f, "infer.on-f")] {
            let (a, b) = env.infer(Rc::clone(m), v);
            writeln!(out, "C07|infer|{}|{}|{}{}", show(m), v, a as u8, b as u8).unwrap();
            st.hit(tag);
            st.hit(&format!("infer.answer.{}{}", a as u8, b as u8));
        }
    }
}

/// an ordered diagram written directly through the public enum: tests may be redundant (both outcomes the
/// same diagram) and inner nodes may be unsatisfiable or valid — legal inputs that `mk_choice` never produces
fn raw_ordered(rng: &mut Rng, vars: &[usize], from: usize) -> B {
    if from >= vars.len() || rng.chance(1, 5) { return Rc::new(if rng.chance(1, 2) { BDD::True } else { BDD::False }); }
    if rng.chance(1, 5) { return raw_ordered(rng, vars, from + 1); }
    let t = raw_ordered(rng, vars, from + 1);
    let f = if rng.chance(1, 4) { Rc::clone(&t) } else { raw_ordered(rng, vars, from + 1) };
    Rc::new(BDD::Choice(t, vars[from], f))
}

pub fn c07_raw(out: &mut dyn Write, tier: &str, rng: &mut Rng, st: &mut Stats) {
    let env: BDDEnv<usize> = BDDEnv::new();
    let n = if tier == "thorough" { 200000 } else { 6000 };
    for i in 0..n {
        let vars: Vec<usize> = if i % 2 == 0 { vec![0, 1, 2, 3] } else { vec![1, 4, 9] };
        let f = raw_ordered(rng, &vars, 0);
        let r = env.model(Rc::clone(&f));
        writeln!(out, "C07|model|{}|{}", show(&f), show(&r)).unwrap();
        st.hit(if r.is_false() { "raw.model.false" } else { "raw.model.cube" });
    }
}

pub fn c20(out: &mut dyn Write, tier: &str, rng: &mut Rng, st: &mut Stats) {
    let env: BDDEnv<usize> = BDDEnv::new();
    for f in deep_functions(tier, rng) {
        for flt in [TruthTableEntry::True, TruthTableEntry::False, TruthTableEntry::Any] {
            let r = env.retain_choice_bottom_up(Rc::clone(&f), flt);
            writeln!(out, "C20|retain|{}|{}|{}", flt_name(flt), show(&f), show(&r)).unwrap();
            st.hit(&format!("deep.retain.{}.{}", flt_name(flt), if r == f { "unchanged" } else { "changed" }));
        }
    }
    for (i, f) in unary_functions(tier, rng).into_iter().enumerate() {
        let f = if i % 2 == 1 { crate::env::intern(&env, &f) } else { f };
        for flt in [TruthTableEntry::True, TruthTableEntry::False, TruthTableEntry::Any] {
            let r = env.retain_choice_bottom_up(Rc::clone(&f), flt);
            writeln!(out, "C20|retain|{}|{}|{}", flt_name(flt), show(&f), show(&r)).unwrap();
            st.hit(&format!("retain.{}.{}", flt_name(flt), if r == f { "unchanged" } else { "changed" }));
        }
    }
}

#[allow(dead_code)]
pub fn unused(_: &BDD<usize>) {}
