//! C14: the DOT text written for a diagram / a parse tree is read back into an abstract graph
//! (node ids, labels, labelled edges) and sent to the driver together with the diagram's
//! pointer-annotated unfolding / the syntax tree.
use crate::formula::*;
use crate::util::*;
use rsbdd::bdd::BDD;
use rsbdd::bdd_io::BDDGraph;
use rsbdd::parser_io::SymbolicParseTree;
use rsbdd::{NamedSymbol, TruthTableEntry};
use std::collections::HashMap;
use std::io::Write;
use std::rc::Rc;

/// undo `char::escape_default`
pub fn unescape(s: &str) -> String {
    let mut out = String::new();
    let cs: Vec<char> = s.chars().collect();
    let mut i = 0;
    while i < cs.len() {
        if cs[i] == '\\' && i + 1 < cs.len() {
            match cs[i + 1] {
                'n' => { out.push('\n'); i += 2; }
                't' => { out.push('\t'); i += 2; }
                'r' => { out.push('\r'); i += 2; }
                'u' => {
                    // \u{hex}
                    let mut j = i + 3;
                    let mut h = String::new();
                    while j < cs.len() && cs[j] != '}' { h.push(cs[j]); j += 1; }
                    if let Some(c) = u32::from_str_radix(&h, 16).ok().and_then(char::from_u32) { out.push(c); }
                    i = j + 1;
                }
                c => { out.push(c); i += 2; }
            }
        } else { out.push(cs[i]); i += 1; }
    }
    out
}

pub struct Dot { pub nodes: Vec<(String, String)>, pub edges: Vec<(String, String, String)> }

/// the attribute lists that follow the head of a statement: `[k="v"][k2="v2" k3=v3]…`, values quoted (with `\"`
/// escapes) or bare; `None` when the text is not of that form
fn read_attrs(mut rest: &str) -> Option<Vec<(String, String)>> {
    let mut attrs = Vec::new();
    loop {
        rest = rest.trim_start();
        if rest.is_empty() { return Some(attrs); }
        rest = rest.strip_prefix('[')?;
        loop {
            rest = rest.trim_start_matches(|c: char| c == ' ' || c == '\t' || c == ',' || c == ';');
            if let Some(r) = rest.strip_prefix(']') { rest = r; break; }
            let eq = rest.find('=')?;
            let key = rest[..eq].trim().to_string();
            if key.is_empty() || key.contains(|c: char| c == '[' || c == ']' || c == '"') { return None; }
            rest = rest[eq + 1..].trim_start();
            if let Some(r) = rest.strip_prefix('"') {
                // up to the first quote that is not escaped
                let bytes = r.as_bytes();
                let mut i = 0;
                loop {
                    if i >= bytes.len() { return None; }
                    if bytes[i] == b'\\' { i += 2; continue; }
                    if bytes[i] == b'"' { break; }
                    i += 1;
                }
                attrs.push((key, unescape(r.get(..i)?)));
                rest = &r[i + 1..];
            } else {
                let end = rest.find(|c: char| c == ' ' || c == ',' || c == ';' || c == ']')?;
                attrs.push((key, rest[..end].to_string()));
                rest = &rest[end..];
            }
        }
    }
}

/// a reader of the statements the `dot` crate writes: `    id[label="…"];` and `    a -> b[label="…"];`, with any
/// further attribute lists (`[shape="box"]`, `[style=…]`) — what is read is the label
pub fn read_dot(text: &str) -> Option<Dot> {
    let mut d = Dot { nodes: vec![], edges: vec![] };
    let mut closed = false;
    for line in text.lines() {
        let l = line.trim();
        if l.is_empty() { continue; }
        // nothing may follow the closing brace
        if closed { return None; }
        if l == "}" { closed = true; continue; }
        if l.starts_with("digraph") { continue; }
        let lb = l.find('[')?;
        let head = &l[..lb];
        let body = l[lb..].strip_suffix(';').unwrap_or(&l[lb..]);
        let attrs = read_attrs(body)?;
        let label = attrs.iter().find(|(k, _)| k == "label")?.1.clone();
        if let Some(arrow) = head.find(" -> ") {
            d.edges.push((head[..arrow].trim().to_string(), head[arrow + 4..].trim().to_string(), label));
        } else {
            d.nodes.push((head.trim().to_string(), label));
        }
    }
    Some(d)
}

struct PNames { map: HashMap<usize, usize> }

fn pdump(names: &mut PNames, b: &Rc<BDD<NamedSymbol>>, out: &mut String) {
    let a = Rc::as_ptr(b) as usize;
    let n = names.map.len();
    let id = *names.map.entry(a).or_insert(n);
    match b.as_ref() {
        BDD::True => out.push_str(&format!("T@{}", id)),
        BDD::False => out.push_str(&format!("F@{}", id)),
        BDD::Choice(t, v, f) => {
            out.push_str(&format!("N@{} {} ", id, v.id));
            pdump(names, t, out);
            out.push(' ');
            pdump(names, f, out);
        }
    }
}

/// node ids of the real export renamed to the dump's numbering (`t`, `f`, or the pointer's number)
fn rename_id(id: &str, names: &PNames) -> String {
    if id == "n_true" { return "t".into(); }
    if id == "n_false" { return "f".into(); }
    if let Some(hexpart) = id.strip_prefix("n_0x") {
        if let Ok(a) = usize::from_str_radix(hexpart, 16) {
            if let Some(n) = names.map.get(&a) { return n.to_string(); }
        }
    }
    format!("UNKNOWN_{}", id)
}

pub fn c14(out: &mut dyn Write, tier: &str, rng: &mut Rng, st: &mut Stats) {
    let n = if tier == "thorough" { 200000 } else { 1500 };
    for i in 0..n {
        // names needing escaping: ' and non-ASCII letters
        // … and, in every fifth case, names longer than any fixed label width (33 and 40 characters, two of them
        // sharing their first 32)
        let pool_short = ["a", "b", "c'", "é", "x_1", "y''", "ñandú", "d"];
        let pool_long = ["a", "session_is_authenticated_and_request_ok", "session_is_authenticated_and_requested", "c'",
            "abcdefghijklmnopqrstuvwxyz0123456", "é", "abcdefghijklmnopqrstuvwxyz012345", "d"];
        let pool = if i % 5 == 3 { pool_long } else { pool_short };
        let k = 1 + rng.below(5) as usize;
        let mut names: Vec<String> = Vec::new();
        while names.len() < k { let nm = rng.pick(&pool[..]).to_string(); if !names.contains(&nm) { names.push(nm); } }
        let depth = 1 + rng.below(4) as u32;
        let gf = { let mut g = Gen { rng, names, allow_fix: i % 6 == 0, big_consts: i % 4 == 1, max_list: 3 }; g.gen(depth, &HashMap::new()) };
        let text = Printer { rng, noise: false }.print(&gf);
        crate::watchdog::enter(&text);
        let pf = match parse_text(text.as_bytes(), None) { Parsed::Ok(pf) => pf, _ => { crate::watchdog::leave(); continue; } };
        let names_field = pf.vars.iter().map(|v| format!("{}:{}", hex(v.name.as_bytes()), v.id)).collect::<Vec<_>>().join(",");
        // --- the syntax tree
        {
            let tree = SymbolicParseTree::new(&pf.bdd);
            if i % 3 == 2 { let mut first: Vec<u8> = Vec::new(); let _ = guarded(std::panic::AssertUnwindSafe(|| tree.render_dot(&mut first))); }
            let mut buf: Vec<u8> = Vec::new();
            let ok = guarded(std::panic::AssertUnwindSafe(|| tree.render_dot(&mut buf))).is_ok();
            let rendered = String::from_utf8_lossy(&buf).to_string();
            match (ok, read_dot(&rendered)) {
                (true, Some(d)) => {
                    let strip = |id: &str| id.strip_prefix("n_").unwrap_or(id).to_string();
                    let ns = d.nodes.iter().map(|(id, l)| format!("{}={}", strip(id), hex(l.as_bytes()))).collect::<Vec<_>>().join(",");
                    let es = d.edges.iter().map(|(a, b, l)| format!("{}>{}:{}", strip(a), strip(b), hex(l.as_bytes()))).collect::<Vec<_>>().join(",");
                    writeln!(out, "C14|tree|{}|{}|{}|{}|{}", ser_real(&pf.bdd), names_field, ns, es, hex(&buf)).unwrap();
                }
                _ => { writeln!(out, "C14|tree|{}|{}|PANIC-OR-UNREADABLE|", ser_real(&pf.bdd), names_field).unwrap(); }
            }
            st.hit("tree");
        }
        // --- the diagram, with the three filters
        // every third diagram gets variable names only the API can produce: backslashes, quotes, control characters
        let exotic = i % 3 == 2;
        let rename = |n: &str| -> String { if !exotic { n.to_string() } else {
            let k = n.bytes().map(|b| b as usize).sum::<usize>() % 6;
            match k { 0 => format!("{}\\t{}", n, n), 1 => format!("\\{}", n), 2 => format!("{}\"q\"", n), 3 => format!("dir\\{}\n", n), 4 => format!("{} \t{{}}", n), _ => format!("{}\\\\", n) } } };
        let names_field = pf.vars.iter().map(|v| format!("{}:{}", hex(rename(v.name.as_ref()).as_bytes()), v.id)).collect::<Vec<_>>().join(",");
        if let Ok(bdd0) = eval_guarded(&pf) {
            // every fourth diagram is what `-c` leaves of the answer (retain_choice_bottom_up in the formula's own
            // environment): what is exported must still be one node per distinct sub-diagram
            // every twentieth diagram is the model of the answer (what `-m` makes of it): the binary is then run with -m
            // as well, and what it exports must be the model, not the whole answer
            let with_model = !exotic && i % 20 == 10;
            let bdd0 = if with_model { st.hit("bdd.model-of-the-answer"); pf.env.model(bdd0) } else { bdd0 };
            let bdd0 = if i % 4 == 1 {
                st.hit("bdd.retained");
                pf.env.retain_choice_bottom_up(bdd0, if i % 8 == 1 { TruthTableEntry::True } else { TruthTableEntry::False })
            } else { bdd0 };
            // the same diagram over the renamed symbols, in an environment of its own
            let env2: rsbdd::bdd::BDDEnv<rsbdd::NamedSymbol> = rsbdd::bdd::BDDEnv::new();
            fn copy(env: &rsbdd::bdd::BDDEnv<rsbdd::NamedSymbol>, b: &BDD<rsbdd::NamedSymbol>, rn: &dyn Fn(&str) -> String) -> Rc<BDD<rsbdd::NamedSymbol>> {
                match b {
                    BDD::True => env.mk_const(true),
                    BDD::False => env.mk_const(false),
                    BDD::Choice(t, v, f) => { let t = copy(env, t, rn); let f = copy(env, f, rn); env.mk_choice(t, rsbdd::NamedSymbol { name: Rc::new(rn(v.name.as_ref())), id: v.id }, f) }
                }
            }
            let bdd = if exotic { copy(&env2, &bdd0, &rename) } else { bdd0 };
            // every seventh diagram: the same structure with every LEAF in an allocation of its own (what a conversion
            // between symbol types, or a diagram written by hand, looks like); decision nodes stay one allocation each
            let bdd = if i % 7 == 5 {
                fn fresh(b: &Rc<BDD<rsbdd::NamedSymbol>>, memo: &mut HashMap<usize, Rc<BDD<rsbdd::NamedSymbol>>>) -> Rc<BDD<rsbdd::NamedSymbol>> {
                    match b.as_ref() {
                        BDD::True => Rc::new(BDD::True),
                        BDD::False => Rc::new(BDD::False),
                        BDD::Choice(t, v, f) => {
                            let key = Rc::as_ptr(b) as usize;
                            if let Some(r) = memo.get(&key) { return Rc::clone(r); }
                            let r = Rc::new(BDD::Choice(fresh(t, memo), v.clone(), fresh(f, memo)));
                            memo.insert(key, Rc::clone(&r));
                            r
                        }
                    }
                }
                st.hit("bdd.leaves-in-separate-allocations");
                fresh(&bdd, &mut HashMap::new())
            } else { bdd };
            // every eleventh diagram: two DIFFERENT decision nodes with the same 64-bit hash below one test
            // (`x ? a : !b` or `x ? a : b` with b's id solved for, util::colliding) — what an export that told nodes
            // apart by their hash would merge
            let (bdd, names_field) = if i % 11 == 7 && hash_model_ok() {
                let k = 1 + rng.below(5) as usize;
                let shape = if (i / 11) % 2 == 0 { 2 } else { 1 };
                match colliding(&BDD::Choice(Rc::new(BDD::True), k, Rc::new(BDD::False)), shape, 0) {
                    Some((z, _)) if z > k => {
                        let env3: rsbdd::bdd::BDDEnv<NamedSymbol> = rsbdd::bdd::BDDEnv::new();
                        let sym = |n: &str, id: usize| NamedSymbol { name: Rc::new(n.to_string()), id };
                        let a = env3.var(sym("a", k));
                        let b = env3.var(sym("b", z));
                        let b = if shape == 2 { env3.not(b) } else { b };
                        if a.get_hash() == b.get_hash() && a != b {
                            st.hit("bdd.two-nodes-one-hash");
                            let root = env3.mk_choice(a, sym("x", 0), b);
                            (root, format!("{}:0,{}:{},{}:{}", hex(b"x"), hex(b"a"), k, hex(b"b"), z))
                        } else { (bdd, names_field) }
                    }
                    _ => (bdd, names_field),
                }
            } else { (bdd, names_field) };
            let mut pn = PNames { map: HashMap::new() };
            let mut dump = String::new();
            pdump(&mut pn, &bdd, &mut dump);
            let root = rename_id(&match bdd.as_ref() {
                BDD::True => "n_true".to_string(),
                BDD::False => "n_false".to_string(),
                _ => format!("n_{:p}", Rc::as_ptr(&bdd)),
            }, &pn);
            let mut fields: Vec<String> = Vec::new();
            let mut raws: Vec<String> = Vec::new();
            let mut bad = false;
            for flt in [TruthTableEntry::Any, TruthTableEntry::True, TruthTableEntry::False] {
                let g = BDDGraph::new(&bdd, flt);
                // every third diagram: what is looked at is the SECOND rendering of the same graph value (an export keeps
                // nothing from one walk to the next)
                if i % 3 == 1 { let mut first: Vec<u8> = Vec::new(); let _ = guarded(std::panic::AssertUnwindSafe(|| g.render_dot(&mut first))); st.hit("bdd.second-rendering-of-one-graph"); }
                let mut buf: Vec<u8> = Vec::new();
                let ok = guarded(std::panic::AssertUnwindSafe(|| g.render_dot(&mut buf))).is_ok();
                let rendered = String::from_utf8_lossy(&buf).to_string();
                raws.push(hex(&buf));
                match (ok, read_dot(&rendered)) {
                    (true, Some(d)) => {
                        fields.push(d.nodes.iter().map(|(id, l)| format!("{}={}", rename_id(id, &pn), hex(l.as_bytes()))).collect::<Vec<_>>().join(","));
                        fields.push(d.edges.iter().map(|(a, b, l)| format!("{}>{}:{}", rename_id(a, &pn), rename_id(b, &pn), hex(l.as_bytes()))).collect::<Vec<_>>().join(","));
                    }
                    _ => { bad = true; fields.push("PANIC".into()); fields.push(String::new()); }
                }
            }
            let _ = bad;
            // the raw text of the three exports and the address behind each number of the dump: the Lean side renders its
            // own text (Model/DotBdd.lean) and reads the real one with the reader of Thm/C14D
            let mut addrs: Vec<(usize, usize)> = pn.map.iter().map(|(a, n)| (*n, *a)).collect();
            addrs.sort();
            let addrs_field = addrs.iter().map(|(n, a)| format!("{}:{:x}", n, a)).collect::<Vec<_>>().join(",");
            writeln!(out, "C14|bdd|{}|{}|{}|{}|{}|{}", dump, root, names_field, fields.join("|"), addrs_field, raws.join("|")).unwrap();
            // the same exports written by the binary (-d FILE with one filter, -p FILE), into files that already
            // exist and usually hold a longer earlier export: the file must then hold exactly the new graph
            if !exotic && i % 10 == 0 && i % 11 != 7 {
                let scratch = std::env::var("VERIF_SCRATCH").unwrap_or_else(|_| ".".to_string());
                let dpath = format!("{}/c14_cli.dot", scratch);
                let tpath = format!("{}/c14_cli_tree.dot", scratch);
                if (i / 10) % 3 == 0 {
                    let stale = "digraph g {\n    n_0[label=\"Xor\"];\n    n_1[label=\"stale\"];\n    n_0 -> n_1[label=\"L\"];\n".repeat(40) + "}\n";
                    let _ = std::fs::write(&dpath, &stale);
                    let _ = std::fs::write(&tpath, &stale);
                }
                let which = (i / 10) % 3;
                let (flt, fname) = [(TruthTableEntry::Any, "any"), (TruthTableEntry::True, "true"), (TruthTableEntry::False, "false")][which];
                let bin = format!("{}/rsbdd", std::env::var("VERIF_BIN_DIR").unwrap_or_default());
                let mut args: Vec<String> = vec![format!("--evaluate={}", text), "-d".into(), dpath.clone(), "-p".into(), tpath.clone(), "-f".into(), fname.into()];
                if with_model { args.push("-m".into()); }
                let (class, _so, _se) = crate::parse::run_capture(&bin, &args, &[], 20);
                st.hit(&format!("cli.exit.{}", class));
                if class == "ok" {
                    // -p
                    let tree_text = std::fs::read_to_string(&tpath).unwrap_or_default();
                    let names_plain = pf.vars.iter().map(|v| format!("{}:{}", hex(v.name.as_bytes()), v.id)).collect::<Vec<_>>().join(",");
                    match read_dot(&tree_text) {
                        Some(d) => {
                            let strip = |id: &str| id.strip_prefix("n_").unwrap_or(id).to_string();
                            let ns = d.nodes.iter().map(|(id, l)| format!("{}={}", strip(id), hex(l.as_bytes()))).collect::<Vec<_>>().join(",");
                            let es = d.edges.iter().map(|(a, b, l)| format!("{}>{}:{}", strip(a), strip(b), hex(l.as_bytes()))).collect::<Vec<_>>().join(",");
                            writeln!(out, "C14|tree|{}|{}|{}|{}", ser_real(&pf.bdd), names_plain, ns, es).unwrap();
                        }
                        None => { writeln!(out, "C14|tree|{}|{}|PANIC-OR-UNREADABLE|", ser_real(&pf.bdd), names_plain).unwrap(); }
                    }
                    // -d: the file's graph, its node ids mapped to the in-process ones by structure
                    let file_text = std::fs::read_to_string(&dpath).unwrap_or_default();
                    let inproc = { let g = BDDGraph::new(&bdd, flt); let mut buf: Vec<u8> = Vec::new(); let _ = g.render_dot(&mut buf); read_dot(&String::from_utf8_lossy(&buf)) };
                    fn skey(d: &Dot, id: &str, depth: usize) -> String {
                        if depth > 64 { return "DEEP".into(); }
                        let lab = d.nodes.iter().find(|n| n.0 == id).map(|n| n.1.clone()).unwrap_or_else(|| "?".into());
                        let kids: Vec<String> = ["T", "F"].iter().map(|w| d.edges.iter().find(|e| e.0 == id && e.2 == *w).map(|e| skey(d, &e.1, depth + 1)).unwrap_or_else(|| "-".into())).collect();
                        format!("{}({},{})", lab, kids[0], kids[1])
                    }
                    let mut cli_fields = fields.clone();
                    match (read_dot(&file_text), inproc) {
                        (Some(fd), Some(id)) => {
                            let keymap: HashMap<String, String> = id.nodes.iter().map(|n| (skey(&id, &n.0, 0), n.0.clone())).collect();
                            let tr = |x: &str| -> String { keymap.get(&skey(&fd, x, 0)).map(|y| rename_id(y, &pn)).unwrap_or_else(|| format!("UNKNOWN_{}", x)) };
                            cli_fields[2 * which] = fd.nodes.iter().map(|(x, l)| format!("{}={}", tr(x), hex(l.as_bytes()))).collect::<Vec<_>>().join(",");
                            cli_fields[2 * which + 1] = fd.edges.iter().map(|(a, b, l)| format!("{}>{}:{}", tr(a), tr(b), hex(l.as_bytes()))).collect::<Vec<_>>().join(",");
                        }
                        _ => { cli_fields[2 * which] = "PANIC".into(); cli_fields[2 * which + 1] = String::new(); }
                    }
                    writeln!(out, "C14|bdd|{}|{}|{}|{}", dump, root, names_field, cli_fields.join("|")).unwrap();
                    st.hit("cli.export");
                } else {
                    writeln!(out, "C14|tree|{}|{}|PANIC-OR-UNREADABLE|", ser_real(&pf.bdd), names_field).unwrap();
                }
            }
            st.hit(if bdd.is_const() { "bdd.const" } else { "bdd.choice" });
        }
        crate::watchdog::leave();
    }
}
