mod util;
mod bddprops;
mod formula;
mod parse;
mod cli;
mod env;
mod dot;
mod sets;
mod gen;
mod watchdog;

use std::io::Write;
use util::{Rng, Stats};

fn main() {
    let args: Vec<String> = std::env::args().collect();
    if args.len() < 3 {
        eprintln!("usage: h <property> <quick|thorough> [seed]");
        std::process::exit(2);
    }
    let prop = args[1].as_str();
    let tier = args[2].as_str();
    let seed: u64 = args.get(3).and_then(|s| s.parse().ok()).unwrap_or(1);
    let mut rng = Rng::new(seed);
    let mut st = Stats::new();
    let stdout = std::io::stdout();
    // formula- and tool-level generators can meet an evaluation that does not return: their
    // output is flushed line by line so that everything before the hang is still checked
    let line_buffered = matches!(prop, "C01" | "C04" | "C05" | "C06" | "C09" | "C10" | "C11" | "C12" | "C13" | "C14" | "C15" | "C16" | "C17" | "C18");
    let mut out: Box<dyn Write> = if line_buffered {
        Box::new(std::io::LineWriter::new(stdout.lock()))
    } else {
        Box::new(std::io::BufWriter::with_capacity(1 << 20, stdout.lock()))
    };
    // panics are data for several properties; keep the default hook quiet
    if std::env::var("VERIF_PANIC_VERBOSE").is_err() { std::panic::set_hook(Box::new(|_| {})); }
    watchdog::start(150);
    match prop {
        "C01" => formula::c01(&mut out, tier, &mut rng, &mut st),
        "C06" => formula::c06(&mut out, tier, &mut rng, &mut st),
        "C09" => formula::c09(&mut out, tier, &mut rng, &mut st),
        "C08" => parse::c08(&mut out, tier, &mut rng, &mut st),
        "C12" => parse::c12(&mut out, tier, &mut rng, &mut st),
        "C10" => cli::c10(&mut out, tier, &mut rng, &mut st),
        "C11" => cli::c11(&mut out, tier, &mut rng, &mut st),
        "C13" => env::c13(&mut out, tier, &mut rng, &mut st),
        "C14" => dot::c14(&mut out, tier, &mut rng, &mut st),
        "C19" => sets::c19(&mut out, tier, &mut rng, &mut st),
        "C15" => gen::c15(&mut out, tier, &mut rng, &mut st),
        "C16" => gen::c16(&mut out, tier, &mut rng, &mut st),
        "C17" => gen::c17(&mut out, tier, &mut rng, &mut st),
        "C18" => gen::c18(&mut out, tier, &mut rng, &mut st),
        "C02" => { bddprops::c02(&mut out, tier, &mut rng, &mut st); formula::c02_lang(&mut out, tier, &mut rng, &mut st) }
        "C03" => bddprops::c03(&mut out, tier, &mut rng, &mut st),
        "C04" => { bddprops::c04(&mut out, tier, &mut rng, &mut st); formula::c04_lang(&mut out, tier, &mut rng, &mut st) }
        "C05" => { bddprops::c05(&mut out, tier, &mut rng, &mut st); formula::c05_lang(&mut out, tier, &mut rng, &mut st) }
        "C07" => { bddprops::c07(&mut out, tier, &mut rng, &mut st); bddprops::c07_raw(&mut out, tier, &mut rng, &mut st); cli::c07_cli(&mut out, tier, &mut rng, &mut st) }
        "C20" => { bddprops::c20(&mut out, tier, &mut rng, &mut st); cli::c20_cli(&mut out, tier, &mut rng, &mut st) }
        _ => { eprintln!("unknown property {}", prop); std::process::exit(2); }
    }
    out.flush().unwrap();
    st.dump();
}
