//! C19: `BDDSet` under every short history (exhaustive) and random longer ones; sets share one
//! environment; membership is read through the diagram so that the query itself cannot
//! disturb the comparison.
use crate::util::*;
use rsbdd::bdd::{BDDEnv, BDD};
use rsbdd::set::BDDSet;
use std::io::Write;
use std::panic::AssertUnwindSafe;
use std::rc::Rc;

fn mask_of(set: &BDDSet, bits: usize) -> u64 {
    let b: Rc<BDD<usize>> = set.bdd.borrow().clone();
    let mut m = 0u64;
    for e in 0..(1usize << bits) {
        if eval(&b, &|c: usize| (e >> c) & 1 == 0) { m |= 1 << e; }
    }
    m
}

#[derive(Clone, Copy)]
enum Op { Ins(usize, usize), Uni(usize, usize), Int(usize, usize), Cmp(usize, usize), Emp(usize), Unv(usize), Has(usize, usize),
          New, FromElem(usize), Clone(usize), FromBdd(usize), Eq(usize, usize) }

fn show_op(op: &Op) -> String {
    match op {
        Op::Ins(i, e) => format!("ins {} {}", i, e),
        Op::Uni(i, j) => format!("uni {} {}", i, j),
        Op::Int(i, j) => format!("int {} {}", i, j),
        Op::Cmp(i, j) => format!("cmp {} {}", i, j),
        Op::Emp(i) => format!("emp {}", i),
        Op::Unv(i) => format!("unv {}", i),
        Op::Has(i, e) => format!("has {} {}", i, e),
        Op::New => "new".to_string(),
        Op::FromElem(e) => format!("fe {}", e),
        Op::Clone(i) | Op::FromBdd(i) => format!("cl {}", i),
        Op::Eq(i, j) => format!("eq {} {}", i, j),
    }
}

fn all_ops(nsets: usize, bits: usize) -> Vec<Op> {
    let mut v = Vec::new();
    for i in 0..nsets {
        for e in 0..(1 << bits) { v.push(Op::Ins(i, e)); v.push(Op::Has(i, e)); }
        for j in 0..nsets { v.push(Op::Uni(i, j)); v.push(Op::Int(i, j)); v.push(Op::Cmp(i, j)); }
        v.push(Op::Emp(i));
        v.push(Op::Unv(i));
    }
    v
}

/// membership of each candidate, read through the diagram
fn members_of(set: &BDDSet, cands: &[usize]) -> String {
    let b: Rc<BDD<usize>> = set.bdd.borrow().clone();
    cands.iter().map(|e| if eval(&b, &|c: usize| c >= usize::BITS as usize || (*e >> c) & 1 == 0) { '1' } else { '0' }).collect()
}

fn run_seq(ops: &[Op], nsets: usize, bits: usize) -> String { run_seq_on(ops, nsets, bits, None) }

/// `cands`: observe the membership of these elements only (sets too wide to enumerate)
fn run_seq_on(ops: &[Op], nsets: usize, bits: usize, cands: Option<&[usize]>) -> String {
    let mask_of = |s: &BDDSet, bits: usize| -> String { match cands { Some(c) => members_of(s, c), None => mask_of(s, bits).to_string() } };
    let env = Rc::new(BDDEnv::new());
    let mut sets: Vec<BDDSet> = (0..nsets).map(|_| BDDSet::with_env(bits, &env)).collect();
    let mut obs: Vec<String> = Vec::new();
    for op in ops {
        // constructors add an object
        let made: Option<Result<BDDSet, ()>> = match *op {
            Op::New => Some(guarded(AssertUnwindSafe(|| BDDSet::with_env(bits, &env))).map_err(|_| ())),
            Op::FromElem(e) => Some(guarded(AssertUnwindSafe(|| BDDSet::from_element(e, bits, &env))).map_err(|_| ())),
            Op::Clone(i) => Some(guarded(AssertUnwindSafe(|| sets[i].clone())).map_err(|_| ())),
            Op::FromBdd(i) => Some(guarded(AssertUnwindSafe(|| { let b = sets[i].bdd.borrow().clone(); BDDSet::from_bdd(&b, bits, &env) })).map_err(|_| ())),
            _ => None,
        };
        if let Some(m) = made {
            match m {
                Err(()) => { obs.push("PANIC".to_string()); break; }
                Ok(s) => { sets.push(s); obs.push(sets.iter().map(|s| mask_of(s, bits).to_string()).collect::<Vec<_>>().join(",")); }
            }
            continue;
        }
        let r = guarded(AssertUnwindSafe(|| -> Option<bool> {
            match *op {
                Op::Eq(i, j) => Some(sets[i] == sets[j]),
                Op::New | Op::FromElem(_) | Op::Clone(_) | Op::FromBdd(_) => None,
                Op::Ins(i, e) => { sets[i].insert(e); None }
                Op::Uni(i, j) => { sets[i].union(&sets[j]); None }
                Op::Int(i, j) => { sets[i].intersect(&sets[j]); None }
                Op::Cmp(i, j) => { sets[i].complement(&sets[j]); None }
                Op::Emp(i) => { sets[i].empty(); None }
                Op::Unv(i) => { sets[i].universe(); None }
                Op::Has(i, e) => Some(sets[i].contains(e)),
            }
        }));
        match r {
            Err(_) => { obs.push("PANIC".to_string()); break; }
            Ok(ans) => {
                let mut parts: Vec<String> = sets.iter().map(|s| mask_of(s, bits).to_string()).collect();
                if let Some(a) = ans { parts.push((a as u8).to_string()); }
                obs.push(parts.join(","));
            }
        }
    }
    match cands {
        None => format!("C19|seq|{}|{}|{}|{}", bits, nsets, ops.iter().map(show_op).collect::<Vec<_>>().join(";"), obs.join(";")),
        Some(c) => format!("C19|wide|{}|{}|{}|{}|{}", bits, nsets, c.iter().map(|e| e.to_string()).collect::<Vec<_>>().join(","),
            ops.iter().map(show_op).collect::<Vec<_>>().join(";"), obs.join(";")),
    }
}

pub fn c19(out: &mut dyn Write, tier: &str, rng: &mut Rng, st: &mut Stats) {
    // every sequence of operations up to depth 3 (thorough: 4) over two 2-bit sets
    let mut ops = all_ops(2, 2);
    // … and the constructors and the equality test on the two objects
    ops.push(Op::New);
    for e in 0..4 { ops.push(Op::FromElem(e)); }
    ops.extend([Op::Clone(0), Op::Clone(1), Op::FromBdd(1), Op::Eq(0, 1), Op::Eq(1, 0), Op::Eq(0, 0)]);
    let depth = if tier == "thorough" { 4 } else { 3 };
    let n = ops.len();
    let mut idx = vec![0usize; depth];
    loop {
        let seq: Vec<Op> = idx.iter().map(|i| ops[*i]).collect();
        writeln!(out, "{}", run_seq(&seq, 2, 2)).unwrap();
        st.hit("exhaustive");
        let mut k = depth;
        let mut done = true;
        while k > 0 {
            k -= 1;
            idx[k] += 1;
            if idx[k] < n { done = false; break; }
            idx[k] = 0;
        }
        if done { break; }
    }
    // random histories of length 30 over two (and three) 4-bit sets, and one 6-bit set
    let m = if tier == "thorough" { 20000 } else { 1500 };
    for i in 0..m {
        let (nsets, bits) = match i % 3 { 0 => (2, 4), 1 => (3, 3), _ => (1, 6) };
        // the number of objects grows with the constructors; elements are mostly b-bit, sometimes any machine integer
        let mut cur = nsets;
        let mut seq: Vec<Op> = Vec::new();
        for _ in 0..30 {
            let elem = |rng: &mut Rng| -> usize {
                let e = rng.below(1 << bits) as usize;
                match rng.below(12) { 0 => e + (1 << bits) * (1 + rng.below(5) as usize), 1 => usize::MAX - e, _ => e }
            };
            let i = rng.below(cur as u64) as usize;
            let j = rng.below(cur as u64) as usize;
            let op = match rng.below(16) {
                0 if cur < 6 => { cur += 1; match rng.below(4) { 0 => Op::New, 1 => Op::FromElem(elem(rng)), 2 => Op::Clone(i), _ => Op::FromBdd(i) } }
                1 | 2 => Op::Eq(i, j),
                3..=6 => Op::Ins(i, elem(rng)),
                7..=9 => Op::Has(i, elem(rng)),
                10 | 11 => Op::Uni(i, j),
                12 => Op::Int(i, j),
                13 => Op::Cmp(i, j),
                14 => if rng.chance(1, 2) { Op::Emp(i) } else { Op::Unv(i) },
                _ => Op::Has(i, elem(rng)),
            };
            st.hit(match op { Op::New | Op::FromElem(_) | Op::Clone(_) | Op::FromBdd(_) => "op.constructor", Op::Eq(..) => "op.eq", Op::Has(..) => "op.contains", _ => "op.update" });
            seq.push(op);
        }
        writeln!(out, "{}", run_seq(&seq, nsets, bits)).unwrap();
        st.hit("random");
    }
    // sets wider than a 32-bit word (33, 34, 40, 63 and 64 bits): the universe cannot be enumerated, so membership is
    // observed for every element that occurs in the history (reduced to the width) and for two elements that never do
    let mw = if tier == "thorough" { 6000 } else { 300 };
    for i in 0..mw {
        let bits = [33usize, 34, 40, 63, 64][i % 5];
        let top: usize = if bits == 64 { usize::MAX } else { (1usize << bits) - 1 };
        let hi = 1usize << (bits - 1);
        let mut pool: Vec<usize> = vec![0, 1, 3, (1 << 31) + 3, 1 << 32, (1 << 32) + 3, (1 << 32) + 1, hi, hi + 3, top, top - 1];
        if bits > 33 { pool.push((1 << 33) + 3); pool.push(1 << 33); }
        let generic: [usize; 2] = [6, (1usize << 32) + 6];
        let mut cands = pool.clone();
        cands.extend(generic);
        let mut cur = 2usize;
        let mut seq: Vec<Op> = Vec::new();
        for _ in 0..24 {
            let elem = |rng: &mut Rng| -> usize {
                let e = *rng.pick(&pool[..]);
                // sometimes a value beyond the width: the same element once reduced
                if bits < 63 && rng.chance(1, 10) { e + (1usize << bits) } else { e }
            };
            let a = rng.below(cur as u64) as usize;
            let b = rng.below(cur as u64) as usize;
            let op = match rng.below(16) {
                0 if cur < 5 => { cur += 1; match rng.below(4) { 0 => Op::New, 1 => Op::FromElem(elem(rng)), 2 => Op::Clone(a), _ => Op::FromBdd(a) } }
                1 | 2 => Op::Eq(a, b),
                3..=7 => Op::Ins(a, elem(rng)),
                8..=10 => Op::Has(a, elem(rng)),
                11 => Op::Uni(a, b),
                12 => Op::Int(a, b),
                13 => Op::Cmp(a, b),
                14 => if rng.chance(1, 2) { Op::Emp(a) } else { Op::Unv(a) },
                _ => Op::Has(a, elem(rng)),
            };
            seq.push(op);
        }
        writeln!(out, "{}", run_seq_on(&seq, 2, bits, Some(&cands))).unwrap();
        st.hit(&format!("wide.bits{}", bits));
    }
    // sets of DIFFERENT widths in one environment, combined with each other: a narrower operand says nothing about the
    // upper bits (its diagram does not mention them).  Observed after every step: the diagram of every set itself
    // (ordered? reduced? the function the reference gives?) — membership queries alone would not see an unordered one
    let nm = if tier == "thorough" { 4000 } else { 300 };
    for i in 0..nm {
        let widths: Vec<usize> = match i % 5 { 0 => vec![4, 2], 1 => vec![2, 4], 2 => vec![3, 1, 4], 3 => vec![5, 3], _ => vec![1, 3, 2] };
        let env = Rc::new(BDDEnv::<usize>::new());
        let sets: Vec<BDDSet> = widths.iter().map(|w| BDDSet::with_env(*w, &env)).collect();
        let mut seq: Vec<Op> = Vec::new();
        let mut obs: Vec<String> = Vec::new();
        for _ in 0..14 {
            let a = rng.below(sets.len() as u64) as usize;
            let b = rng.below(sets.len() as u64) as usize;
            let op = match rng.below(10) {
                0..=3 => Op::Ins(a, rng.below(1 << widths[a]) as usize),
                4 | 5 => Op::Uni(a, b),
                6 => Op::Int(a, b),
                7 => Op::Cmp(a, b),
                8 => Op::Unv(a),
                _ => Op::Emp(a),
            };
            let r = guarded(AssertUnwindSafe(|| { match op {
                Op::Ins(i, e) => { sets[i].insert(e); }
                Op::Uni(i, j) => { sets[i].union(&sets[j]); }
                Op::Int(i, j) => { sets[i].intersect(&sets[j]); }
                Op::Cmp(i, j) => { sets[i].complement(&sets[j]); }
                Op::Unv(i) => { sets[i].universe(); }
                Op::Emp(i) => { sets[i].empty(); }
                _ => {}
            } }));
            seq.push(op);
            if r.is_err() { obs.push("PANIC".to_string()); break; }
            obs.push(sets.iter().map(|s| show(&s.bdd.borrow())).collect::<Vec<_>>().join(","));
        }
        writeln!(out, "C19|mixed|{}|{}|{}", widths.iter().map(|w| w.to_string()).collect::<Vec<_>>().join(","),
            seq.iter().map(show_op).collect::<Vec<_>>().join(";"), obs.join(";")).unwrap();
        st.hit("mixed-widths");
    }
}
