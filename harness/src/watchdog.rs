//! A watchdog for evaluations that do not return: the current case is published before the
//! call; if it stays current for too long the process reports it and exits with status 3.
use std::sync::atomic::{AtomicU64, Ordering};
use std::sync::Mutex;

static SERIAL: AtomicU64 = AtomicU64::new(0);
static ACTIVE: AtomicU64 = AtomicU64::new(0);
static CURRENT: Mutex<String> = Mutex::new(String::new());

pub fn start(limit_s: u64) {
    std::thread::spawn(move || {
        let mut last = 0u64;
        let mut since = std::time::Instant::now();
        loop {
            std::thread::sleep(std::time::Duration::from_millis(500));
            let a = ACTIVE.load(Ordering::SeqCst);
            if a == 0 || a != last { last = a; since = std::time::Instant::now(); continue; }
            if since.elapsed().as_secs() >= limit_s {
                let cur = CURRENT.lock().map(|s| s.clone()).unwrap_or_default();
                eprintln!("HARNESS_HANG {}", crate::util::hex(cur.as_bytes()));
                std::process::exit(3);
            }
        }
    });
}

pub fn enter(what: &str) {
    if let Ok(mut c) = CURRENT.lock() { *c = what.to_string(); }
    let s = SERIAL.fetch_add(1, Ordering::SeqCst) + 1;
    ACTIVE.store(s, Ordering::SeqCst);
}

pub fn leave() { ACTIVE.store(0, Ordering::SeqCst); }
