//! A watchdog for evaluations that do not return: the current case is published before the
//! call; if it stays current for too long the process reports it and exits with status 3.
use std::sync::atomic::{AtomicU64, Ordering};
use std::sync::Mutex;

static SERIAL: AtomicU64 = AtomicU64::new(0);
static ACTIVE: AtomicU64 = AtomicU64::new(0);
static CURRENT: Mutex<String> = Mutex::new(String::new());
/// the case line to put on the case stream if the current evaluation never returns
static DIVERGE_LINE: Mutex<String> = Mutex::new(String::new());

pub fn start(limit_s: u64) {
    std::thread::spawn(move || {
        let mut last = 0u64;
        let mut since = std::time::Instant::now();
        loop {
            std::thread::sleep(std::time::Duration::from_millis(500));
            let a = ACTIVE.load(Ordering::SeqCst);
            if a == 0 || a != last { last = a; since = std::time::Instant::now(); continue; }
            if since.elapsed().as_secs() >= limit_s {
                let cur = CURRENT.lock().map(|s| s.clone()).unwrap_or_default();
                let dl = DIVERGE_LINE.lock().map(|s| s.clone()).unwrap_or_default();
                if !dl.is_empty() {
                    // the main thread is stuck inside the evaluation and writes whole lines only
                    // (stdout itself is locked by the main thread for the whole run: write through the descriptor)
                    use std::io::Write;
                    if let Ok(mut f) = std::fs::OpenOptions::new().append(true).open("/proc/self/fd/1") {
                        let _ = writeln!(f, "{}", dl);
                        let _ = f.flush();
                    }
                }
                eprintln!("HARNESS_HANG {}", crate::util::hex(cur.as_bytes()));
                std::process::exit(3);
            }
        }
    });
}

pub fn enter(what: &str) {
    if let Ok(mut c) = CURRENT.lock() { *c = what.to_string(); }
    let s = SERIAL.fetch_add(1, Ordering::SeqCst) + 1;
    ACTIVE.store(s, Ordering::SeqCst);
}

/// like `enter`, and if the evaluation does not return, `line` is emitted as its case line
pub fn enter_div(what: &str, line: String) {
    if let Ok(mut d) = DIVERGE_LINE.lock() { *d = line; }
    enter(what);
}

pub fn leave() {
    ACTIVE.store(0, Ordering::SeqCst);
    if let Ok(mut d) = DIVERGE_LINE.lock() { d.clear(); }
}
