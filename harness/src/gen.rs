//! C15–C18: the four generator binaries are run for real; their output is parsed by the real
//! parser (in-process) and sent to the driver.
use crate::cli::read_stdout;
use crate::formula::*;
use crate::parse::run_capture;
use crate::util::*;
use rsbdd::parser::*;
use std::collections::HashMap;
use std::io::Write;

fn bin(name: &str) -> String { format!("{}/{}", std::env::var("VERIF_BIN_DIR").unwrap_or_default(), name) }
fn scratch() -> String { std::env::var("VERIF_SCRATCH").unwrap_or_else(|_| ".".to_string()) }

/// the tree with every variable id replaced through `rename` (name -> number)
pub fn ser_real_renamed(f: &SymbolicBDD, rename: &dyn Fn(&str) -> Option<usize>) -> Option<String> {
    let r = |v: &rsbdd::NamedSymbol| rename(v.name.as_str());
    Some(match f {
        SymbolicBDD::False => "F".into(),
        SymbolicBDD::True => "T".into(),
        SymbolicBDD::Var(v) => format!("v{}", r(v)?),
        SymbolicBDD::Not(g) => format!("! {}", ser_real_renamed(g, rename)?),
        SymbolicBDD::Quantifier(q, vs, g) => {
            let mut s = format!("{} {} ", if *q == QuantifierType::Exists { "E" } else { "A" }, vs.len());
            for v in vs { s.push_str(&format!("{} ", r(v)?)); }
            s + &ser_real_renamed(g, rename)?
        }
        SymbolicBDD::CountableConst(op, fs, k) => {
            let mut s = format!("CC {} {} ", cnt_name_pub(*op), fs.len());
            for g in fs { s.push_str(&ser_real_renamed(g, rename)?); s.push(' '); }
            s + &k.to_string()
        }
        SymbolicBDD::CountableVariable(op, l, rr) => {
            let mut s = format!("CV {} {} ", cnt_name_pub(*op), l.len());
            for g in l { s.push_str(&ser_real_renamed(g, rename)?); s.push(' '); }
            s.push_str(&format!("{}", rr.len()));
            for g in rr { s.push(' '); s.push_str(&ser_real_renamed(g, rename)?); }
            s
        }
        SymbolicBDD::FixedPoint(x, g, b) => format!("FX {} {} {}", r(x)?, *g as u8, ser_real_renamed(b, rename)?),
        SymbolicBDD::Ite(c, t, e) => format!("I {} {} {}", ser_real_renamed(c, rename)?, ser_real_renamed(t, rename)?, ser_real_renamed(e, rename)?),
        SymbolicBDD::BinaryOp(op, l, rr) => format!("B {} {} {}", bin_name_pub(*op), ser_real_renamed(l, rename)?, ser_real_renamed(rr, rename)?),
        SymbolicBDD::Subtree(_) => return None,
        SymbolicBDD::Reference(_) => return None,
    })
}

/// run `rsbdd -t -ft` on a formula text and return, per satisfying row, the sorted list of
/// column names that are True (a row with an Any cell is reported as `ANY`)
fn solver_true_sets(text: &[u8]) -> Option<Vec<Vec<String>>> {
    let path = format!("{}/gen_formula.txt", scratch());
    std::fs::write(&path, text).ok()?;
    let (class, out, _) = run_capture(&bin("rsbdd"), &[path, "-t".into(), "-f".into(), "true".into()], &[], 120);
    if class != "ok" { return None; }
    let p = read_stdout(&out)?;
    let header = p.header?;
    let mut res = Vec::new();
    for row in p.rows {
        let cells: Vec<char> = row.chars().take_while(|c| *c != '=').collect();
        let mut names: Vec<String> = Vec::new();
        for (i, c) in cells.iter().enumerate() {
            match c { 'T' => names.push(header[i].clone()), 'A' => names.push("ANY".into()), _ => {} }
        }
        res.push(names);
    }
    Some(res)
}

thread_local! { static TOOL_CALLS: std::cell::Cell<u64> = std::cell::Cell::new(0); }

/// how a tool takes an output path: as the last positional argument, after an input path, or with `-o`
#[derive(Clone, Copy)]
enum OutArg { Positional, AfterInput, DashO }

/// run a generator; every third call writes to one and the same output FILE instead of stdout (the file
/// keeps whatever an earlier, possibly longer, run left in it) and the file's content stands for the output
fn run_tool(tool: &str, args: &[String], stdin_data: &[u8], how: OutArg, timeout_s: u64, st: &mut Stats) -> (&'static str, Vec<u8>, Vec<u8>) {
    let k = TOOL_CALLS.with(|c| { let v = c.get(); c.set(v + 1); v });
    if k % 3 != 2 { return run_capture(&bin(tool), args, stdin_data, timeout_s); }
    let dir = scratch();
    // the file name itself may contain characters that mean something inside the generated text
    // … or begin with a number (a size, a count) that has nothing to do with the request
    let outp = if k % 5 == 2 { format!("{}/{}_{}.txt", dir, 3 + k % 9, tool) }
        else if k % 2 == 0 { format!("{}/out_{}.txt", dir, tool) } else { format!("{}/out \"{}\" & [x].txt", dir, tool) };
    if k % 9 == 2 || !std::path::Path::new(&outp).exists() {
        // a long earlier content
        let _ = std::fs::write(&outp, "\"stale\" v_0 & ".repeat(4000));
    }
    let mut a: Vec<String> = args.to_vec();
    let mut input: Vec<u8> = stdin_data.to_vec();
    match how {
        OutArg::Positional => a.push(outp.clone()),
        OutArg::DashO => { a.push("-o".into()); a.push(outp.clone()); }
        OutArg::AfterInput => {
            let inp = format!("{}/in_{}.txt", dir, tool);
            let _ = std::fs::write(&inp, &input);
            input.clear();
            // positional INPUT OUTPUT come first
            a.insert(0, outp.clone());
            a.insert(0, inp);
        }
    }
    let (class, so, se) = run_capture(&bin(tool), &a, &input, timeout_s);
    st.hit(&format!("{}.to-file", tool));
    // a run that fails may never have opened the file: then what it printed is its output
    if class != "ok" { return (class, so, se); }
    let content = std::fs::read(&outp).unwrap_or_default();
    (class, content, se)
}

/// an OUTPUT that cannot be created (inside a directory that does not exist; a directory itself): the tool must not report
/// success.  One line per way: `<tag>|unwritable|<which>|<exit class>|<anything on standard output 0/1>`
fn unwritable(out: &mut dyn Write, tag: &str, tool: &str, args: &[String], stdin_data: &[u8], how: &OutArg, st: &mut Stats) {
    let dir = scratch();
    for (which, outp) in [("missing-directory", format!("{}/no_such_directory/out_{}.txt", dir, tool)), ("is-a-directory", dir.clone())] {
        let mut a: Vec<String> = args.to_vec();
        let mut input: Vec<u8> = stdin_data.to_vec();
        match how {
            OutArg::Positional => a.push(outp.clone()),
            OutArg::DashO => { a.push("-o".into()); a.push(outp.clone()); }
            OutArg::AfterInput => {
                let inp = format!("{}/in_{}.txt", dir, tool);
                let _ = std::fs::write(&inp, &input);
                input.clear();
                a.insert(0, outp.clone());
                a.insert(0, inp);
            }
        }
        let (class, so, _) = run_capture(&bin(tool), &a, &input, 60);
        writeln!(out, "{}|unwritable|{}|{}|{}", tag, which, class, !so.is_empty() as u8).unwrap();
        st.hit(&format!("unwritable.{}.{}", which, class));
    }
}

/// `CARGO_PKG_VERSION` of a workspace member, read from its manifest in the tree under check
fn crate_version(member: &str) -> String {
    let dir = std::env::var("VERIF_REPO_DIR").unwrap_or_else(|_| "/repo".to_string());
    let text = std::fs::read_to_string(format!("{}/{}/Cargo.toml", dir, member)).unwrap_or_default();
    for line in text.lines() {
        let l = line.trim();
        if let Some(rest) = l.strip_prefix("version") {
            let rest = rest.trim_start();
            if let Some(v) = rest.strip_prefix('=') { return v.trim().trim_matches('"').to_string(); }
        }
    }
    String::new()
}

/// the first `want` constraint lines a generator writes (those that start with `[`), read from its standard output while it
/// runs; the process is then stopped.  For board sizes whose whole output nobody can wait for.
fn first_lists(tool: &str, args: &[String], want: usize, timeout_s: u64) -> (&'static str, Vec<String>) {
    use std::io::BufRead;
    use std::process::{Command, Stdio};
    use std::sync::{Arc, Mutex, atomic::{AtomicBool, Ordering}};
    let child = match Command::new(bin(tool)).args(args).stdin(Stdio::null()).stdout(Stdio::piped()).stderr(Stdio::null()).spawn() {
        Ok(c) => c, Err(_) => return ("spawnfail", vec![]) };
    let child = Arc::new(Mutex::new(child));
    let so = child.lock().unwrap().stdout.take().unwrap();
    let done = Arc::new(AtomicBool::new(false));
    { let (child, done) = (Arc::clone(&child), Arc::clone(&done));
      std::thread::spawn(move || { let t0 = std::time::Instant::now();
          while !done.load(Ordering::SeqCst) { if t0.elapsed().as_secs() >= timeout_s { let _ = child.lock().unwrap().kill(); break; } std::thread::sleep(std::time::Duration::from_millis(20)); } }); }
    let mut rd = std::io::BufReader::with_capacity(1 << 20, so);
    let t_start = std::time::Instant::now();
    let mut lists: Vec<String> = Vec::new();
    let mut line: Vec<u8> = Vec::new();
    while lists.len() < want {
        line.clear();
        match rd.read_until(b'\n', &mut line) { Ok(0) | Err(_) => break, Ok(_) => {} }
        // a constraint line: a list, possibly after a connective (`& [..] <= 1`, `and [..] <= 1`); comments start with a quote
        if line.first() != Some(&b'"') {
            if let Some(at) = line.iter().position(|b| *b == b'[') {
                let before = String::from_utf8_lossy(&line[..at]).trim().to_string();
                if before.is_empty() || before == "&" || before == "and" { lists.push(String::from_utf8_lossy(&line[at..]).trim_end().to_string()); }
            }
        }
    }
    let complete = lists.len() == want;
    done.store(true, Ordering::SeqCst);
    let mut c = child.lock().unwrap();
    if complete { let _ = c.kill(); }
    let status = c.wait().ok();
    // stopped by the watchdog above without three lines this reader recognises: nothing is known ("unread"), which is
    // not the same as a generator that failed by itself
    let timed_out = !complete && t_start.elapsed().as_secs() >= timeout_s;
    let class = if complete { "ok" } else { match status.and_then(|s| s.code()) { Some(0) => "ok", Some(101) => "panic", Some(_) => "err", None => if timed_out { "unread" } else { "signal" } } };
    (class, lists)
}

pub fn c15(out: &mut dyn Write, tier: &str, _rng: &mut Rng, st: &mut Stats) {
    // the largest board sizes the command line accepts: only the first lists are waited for (direction 1, the diagonals that
    // start in the first cells of the top row)
    for n in [65535usize, 65534, 40000] {
        let (class, lists) = first_lists("n_queens_gen", &["-n".into(), n.to_string()], 3, 60);
        let cells: Vec<String> = lists.iter().map(|l| {
            let inner = l.trim_start_matches('[').split(']').next().unwrap_or("");
            inner.split(',').filter(|t| !t.trim().is_empty()).map(|t| t.trim().trim_start_matches("v_").to_string()).collect::<Vec<_>>().join(" ")
        }).collect();
        let tails: Vec<String> = lists.iter().map(|l| l.split(']').nth(1).unwrap_or("").trim().to_string()).collect();
        writeln!(out, "C15|head|{}|{}|{}|{}", n, class, cells.join(";"), tails.join(";")).unwrap();
        st.hit(&format!("head.{}", class));
    }
    unwritable(out, "C15", "n_queens_gen", &["-n".into(), "4".into()], &[], &OutArg::Positional, st);
    let mut ns: Vec<usize> = (1..=12).collect();
    ns.extend_from_slice(&[16, 20, 31, 32, 40, 255, 256, 300, 317]);
    if tier == "thorough" { ns.extend(13..=40); ns.extend_from_slice(&[64, 100, 128, 254, 257, 400, 1000]); }
    // … then smaller boards written into the file that holds a larger board whose size begins with the same digits
    // (10 then 1, 12 then 1, 20 then 2, 40 then 4), and the same size twice
    let mut plan: Vec<(usize, Option<String>)> = ns.iter().map(|n| (*n, None)).collect();
    let revisit = format!("{}/queens_revisit.txt", scratch());
    let _ = std::fs::remove_file(&revisit);
    for n in [10usize, 1, 12, 1, 20, 2, 40, 4, 4, 3] { plan.push((n, Some(revisit.clone()))); }
    // … and output files whose names begin with another board size than the one asked for (the default 4 given explicitly)
    for (n, name) in [(4usize, "5_queens.txt"), (4, "4_queens.txt"), (5, "4_board.txt"), (4, "6_x.txt"), (3, "queens_7.txt")] {
        let p = format!("{}/{}", scratch(), name);
        let _ = std::fs::remove_file(&p);
        plan.push((n, Some(p)));
    }
    for (n, to_file) in plan {
        let (class, stdout, _) = if let Some(revisit) = to_file {
            let (class, so, se) = run_capture(&bin("n_queens_gen"), &["-n".into(), n.to_string(), revisit.clone()], &[], 300);
            st.hit("n_queens_gen.revisit-file");
            if class == "ok" { (class, std::fs::read(&revisit).unwrap_or_default(), se) } else { (class, so, se) }
        } else { run_tool("n_queens_gen", &["-n".into(), n.to_string()], &[], OutArg::Positional, 300, st) };
        st.hit(&format!("exit.{}", class));
        if class != "ok" { writeln!(out, "C15|queens|{}|{}|-|-", n, class).unwrap(); continue; }
        // the bytes themselves, for the text model of the generator (recorded tie, see Thm/C15T.lean)
        if n <= 24 { writeln!(out, "C15|text|{}|{}|{}", n, hex(crate_version("n_queens_gen").as_bytes()), hex(&stdout)).unwrap(); }
        let ast_field = match parse_text(&stdout, None) {
            Parsed::Ok(pf) => {
                let rename = |name: &str| name.strip_prefix("v_").and_then(|k| k.parse::<usize>().ok());
                if n <= 40 {
                    ser_real_renamed(&pf.bdd, &rename).unwrap_or_else(|| "ERR".to_string())
                } else {
                    // large instance: summary only
                    let mut cnt = 0usize; let mut maxv = 0usize; let mut ok = true;
                    // what the property needs of a large instance, whatever the number and order of its constraints: every
                    // constraint holds for every placement (at most one on cells of one line; exactly one only on a whole
                    // row or column), every row and column is under an exactly-one, and every diagonal of two or more
                    // cells is, whole, under some constraint (so every attacking pair is)
                    let mut sound = true;
                    let mut rows_e: std::collections::HashSet<usize> = Default::default();
                    let mut cols_e: std::collections::HashSet<usize> = Default::default();
                    let mut diag_dn: std::collections::HashSet<i64> = Default::default();
                    let mut diag_up: std::collections::HashSet<i64> = Default::default();
                    let mut cur = &pf.bdd;
                    loop {
                        match cur {
                            SymbolicBDD::BinaryOp(BinaryOperator::And, l, r) => {
                                cnt += 1;
                                if let SymbolicBDD::CountableConst(op, fs, k) = l.as_ref() {
                                    let listed: Vec<usize> = fs.iter().filter_map(|f| if let SymbolicBDD::Var(v) = f { rename(v.name.as_str()) } else { None }).collect();
                                    // `<= 1`, `= 1` and `< 2` say the same about two cells
                                    let at_most_one = matches!((op, *k), (CountableOperator::AtMost, 1) | (CountableOperator::Exactly, 1) | (CountableOperator::LessThan, 2));
                                    // a list of something else than cells, or another kind of count: a shape this summary does not
                                    // judge (a difference from the model, `ok`), not by itself a constraint that fails
                                    if listed.len() != fs.len() || !at_most_one { ok = false; cur = r; continue; }
                                    for c in &listed { maxv = maxv.max(*c); }
                                    // the order in which a list names its cells says nothing about the placements it allows
                                    let mut cells = listed.clone();
                                    cells.sort();
                                    // the line this list lies on, and whether it is the whole of it
                                    let ni = n as i64;
                                    let on = |r: i64, c: i64| r >= 0 && c >= 0 && r < ni && c < ni;
                                    if let (Some(first), Some(last)) = (cells.first().copied(), cells.last().copied()) {
                                        let (r0, c0) = ((first / n) as i64, (first % n) as i64);
                                        let (r1, c1) = ((last / n) as i64, (last % n) as i64);
                                        let (dr, dc) = if cells.len() == 1 { (0, 0) } else { ((r1 - r0).signum(), (c1 - c0).signum()) };
                                        // all on one line (row, column or diagonal), wherever on it; contiguous: no cell of the line between
                                        // the first and the last is left out
                                        cells.dedup();
                                        let rc: Vec<(i64, i64)> = cells.iter().map(|c| ((*c / n) as i64, (*c % n) as i64)).collect();
                                        let one_line = rc.iter().all(|(r, _)| *r == r0) || rc.iter().all(|(_, c)| *c == c0)
                                            || rc.iter().all(|(r, c)| r - c == r0 - c0) || rc.iter().all(|(r, c)| r + c == r0 + c0);
                                        if !one_line || cells.iter().any(|c| *c >= n * n) { sound = false; }
                                        let geometric = one_line && cells.iter().enumerate().all(|(k, c)| on(r0 + dr * k as i64, c0 + dc * k as i64) && *c as i64 == (r0 + dr * k as i64) * ni + c0 + dc * k as i64);
                                        let whole = cells.len() >= 2 && geometric && !on(r0 - dr, c0 - dc) && !on(r1 + dr, c1 + dc);
                                        let exactly = matches!(op, CountableOperator::Exactly);
                                        if exactly && !(whole && (dr == 0 || dc == 0)) && !(n == 1) { sound = false; }
                                        if whole && exactly && dr == 0 { rows_e.insert(r0 as usize); }
                                        if whole && exactly && dc == 0 { cols_e.insert(c0 as usize); }
                                        if whole && dr != 0 && dc != 0 { if dr == dc { diag_dn.insert(r0 - c0); } else { diag_up.insert(r0 + c0); } }
                                    }
                                } else { ok = false; }
                                cur = r;
                            }
                            SymbolicBDD::True => break,
                            _ => { ok = false; break; }
                        }
                    }
                    format!("BIG {} {} {} {} {} {} {} {}", cnt, maxv, ok as u8, sound as u8, rows_e.len(), cols_e.len(), diag_dn.len(), diag_up.len())
                }
            }
            _ => "ERR".to_string(),
        };
        let solver = if n <= 6 {
            match solver_true_sets(&stdout) {
                Some(rows) => rows.iter().map(|r| {
                    let mut ks: Vec<usize> = r.iter().map(|nm| nm.strip_prefix("v_").and_then(|k| k.parse().ok()).unwrap_or(999999)).collect();
                    ks.sort();
                    ks.iter().map(|k| k.to_string()).collect::<Vec<_>>().join(".")
                }).collect::<Vec<_>>().join(";"),
                None => "SOLVER-FAILED".to_string(),
            }
        } else { "-".to_string() };
        writeln!(out, "C15|queens|{}|{}|{}|{}", n, class, ast_field, if solver.is_empty() { ";".to_string() } else { solver }).unwrap();
    }
    let _: HashMap<u8, u8> = HashMap::new();
}

fn names_table(pf: &ParsedFormula) -> String {
    pf.vars.iter().map(|v| format!("{}:{}", hex(v.name.as_bytes()), v.id)).collect::<Vec<_>>().join(",")
}

pub fn c16(out: &mut dyn Write, tier: &str, rng: &mut Rng, st: &mut Stats) {
    unwritable(out, "C16", "max_clique_gen", &["-u".into()], b"a,b\nb,c\n", &OutArg::AfterInput, st);
    // vertex names: plain identifiers, and ones that look like the generator's own copies
    let pool = ["a", "b", "c", "d", "v_a", "v_b", "x1", "v_v_a", "v__a", "v___a", "v__b"];
    // names whose concatenations coincide (with and without a `_` between them): x + y_z = x_y + z, a + bc = ab + c
    let pool_join = ["x", "y", "z", "x_y", "y_z", "z_x", "x_y_z", "x_", "_y"];
    let pool_cat = ["a", "b", "c", "ab", "bc", "abc", "ca"];
    let mut cases: Vec<(Vec<(String, String)>, bool, bool)> = Vec::new();
    // hand-written corner cases first
    let fixed: Vec<Vec<(&str, &str)>> = vec![
        vec![("a", "b")], vec![("a", "b"), ("b", "a")], vec![("a", "a")], vec![("a", "b"), ("a", "b")],
        vec![("a", "b"), ("b", "c"), ("c", "a")], vec![("a", "b"), ("b", "c")], vec![("a", "v_a")],
        vec![("a", "b"), ("v_a", "b")], vec![("a", "b"), ("b", "a"), ("b", "c"), ("c", "b"), ("a", "c"), ("c", "a")],
        vec![("a", "b"), ("c", "d")], vec![("v_a", "v_v_a"), ("a", "v_a")],
        // names that clash with the copy prefix at two and three lengths (v_, v__, v___)
        vec![("a", "v_a"), ("v_a", "a"), ("v_a", "v__a"), ("v__a", "v_a")],
        vec![("a", "v_a"), ("v_a", "v__a"), ("v__a", "v___a")],
        vec![("x", "y_z"), ("y_z", "x"), ("x", "x_y"), ("x_y", "x"), ("x", "z"), ("z", "x")],
        vec![("x", "y_z"), ("z_x", "y"), ("x_y", "z")], vec![("a", "bc"), ("ab", "c")], vec![("a", "bc"), ("bc", "a"), ("ab", "c")],
    ];
    for f in &fixed { for u in [false, true] { for a in [false, true] {
        cases.push((f.iter().map(|(x, y)| (x.to_string(), y.to_string())).collect(), u, a));
    } } }
    let n = if tier == "thorough" { 12000 } else { 500 };
    for _ in 0..n {
        let k = 2 + rng.below(3) as usize; // 2..4 distinct names in play
        let mut names: Vec<String> = Vec::new();
        let which = rng.below(5);
        // names that differ only in letter case are different vertices
        let pool_case = ["a", "A", "b", "B", "ab", "Ab", "aB"];
        let pl: &[&str] = if which == 0 { &pool_join[..] } else if which == 1 { &pool_cat[..] } else if which == 4 { &pool_case[..] } else { &pool[..] };
        let k = if which < 2 || which == 4 { 3 + rng.below(3) as usize } else { k };
        while names.len() < k { let nm = rng.pick(pl).to_string(); if !names.contains(&nm) { names.push(nm); } }
        let m = 1 + rng.below(if which < 2 || which == 4 { 9 } else { 6 }) as usize;
        let edges: Vec<(String, String)> = (0..m).map(|_| (rng.pick(&names[..]).clone(), rng.pick(&names[..]).clone())).collect();
        cases.push((edges, rng.chance(1, 2), rng.chance(1, 2)));
    }
    // graphs on 12 and 13 vertices, about half of the ordered pairs present, with --all (no copies: 12 or 13 variables)
    let nbig = if tier == "thorough" { 150 } else { 10 };
    for i in 0..nbig {
        let k = 12 + (i % 2);
        let names: Vec<String> = (0..k).map(|j| format!("w{}", j)).collect();
        let mut edges: Vec<(String, String)> = Vec::new();
        for x in 0..k { for y in 0..k { if x != y && rng.chance(1, 2) { edges.push((names[x].clone(), names[y].clone())); } } }
        // every vertex must occur
        for x in 0..k { if !edges.iter().any(|(p, q)| *p == names[x] || *q == names[x]) { edges.push((names[x].clone(), names[(x + 1) % k].clone())); } }
        for j in (1..edges.len()).rev() { let r = rng.below(j as u64 + 1) as usize; edges.swap(j, r); }
        st.hit("graph.twelve-or-more-vertices");
        cases.push((edges, rng.chance(1, 2), true));
    }
    for (ci, (edges, u, a)) in cases.into_iter().enumerate() {
        // the input: LF or CR LF line endings, with or without the final one
        let eol = if ci % 5 == 3 { "\r\n" } else { "\n" };
        let mut csv: String = edges.iter().map(|(x, y)| format!("{},{}{}", x, y, eol)).collect();
        if ci % 7 == 2 && csv.ends_with(eol) { csv.truncate(csv.len() - eol.len()); }
        let mut args: Vec<String> = Vec::new();
        if u { args.push("-u".into()); }
        if a { args.push("-a".into()); }
        let (class, stdout, _) = run_tool("max_clique_gen", &args, csv.as_bytes(), OutArg::AfterInput, 60, st);
        st.hit(&format!("exit.{}", class));
        st.hit(&format!("flags.u{}a{}", u as u8, a as u8));
        let edges_field = edges.iter().map(|(x, y)| format!("{}>{}", hex(x.as_bytes()), hex(y.as_bytes()))).collect::<Vec<_>>().join(",");
        if class != "ok" { writeln!(out, "C16|clique|{}|{}|{}|{}|-||-", u as u8, a as u8, edges_field, class).unwrap(); continue; }
        // the bytes themselves, for the text model of the generator (recorded tie)
        writeln!(out, "C16|text|{}|{}|{}|{}|{}", u as u8, a as u8, hex(crate_version("max_clique_gen").as_bytes()), edges_field, hex(&stdout)).unwrap();
        match parse_text(&stdout, None) {
            Parsed::Ok(pf) => {
                // what the real solver lists (vertex sets), when every row is fully determined
                let solver = match solver_true_sets(&stdout) {
                    Some(rows) if rows.iter().all(|r| !r.contains(&"ANY".to_string())) => {
                        let s = rows.iter().map(|r| {
                            let mut v: Vec<String> = r.iter().map(|nm| hex(nm.as_bytes())).collect();
                            v.sort();
                            // the empty vertex set is a set like any other
                            if v.is_empty() { "EMPTY".to_string() } else { v.join(".") }
                        }).collect::<Vec<_>>().join(";");
                        if s.is_empty() { ";".to_string() } else { s }
                    }
                    _ => "-".to_string(),
                };
                writeln!(out, "C16|clique|{}|{}|{}|ok|{}|{}|{}", u as u8, a as u8, edges_field, ser_real(&pf.bdd), names_table(&pf), solver).unwrap();
            }
            _ => { writeln!(out, "C16|clique|{}|{}|{}|ok|ERR||-", u as u8, a as u8, edges_field).unwrap(); }
        }
    }
}

fn sudoku_rename(name: &str) -> Option<usize> {
    // `_c_is_d` -> c * 1024 + d
    let rest = name.strip_prefix('_')?;
    let (c, d) = rest.split_once("_is_")?;
    Some(c.parse::<usize>().ok()? * 1024 + d.parse::<usize>().ok()?)
}

pub fn c17(out: &mut dyn Write, tier: &str, rng: &mut Rng, st: &mut Stats) {
    unwritable(out, "C17", "sudoku_gen", &["-r".into(), "1".into()], b"1", &OutArg::AfterInput, st);
    // the code points the standard library counts as white space (asked for every `char`): the model strips with a table
    // of its own (Sudoku.whitespaceTable), and the two must be the same list
    {
        let ws: Vec<String> = (0u32..=0x10FFFF).filter_map(char::from_u32).filter(|c| c.is_whitespace()).map(|c| (c as u32).to_string()).collect();
        writeln!(out, "C17|ws|{}", ws.join(",")).unwrap();
        st.hit("whitespace-table");
    }
    let mut cases: Vec<(usize, String)> = Vec::new();
    // root 1
    for p in ["1", ".", "", "  1\n", "x1"] { cases.push((1, p.to_string())); }
    // root 2: hand-written layouts, blank symbols, short input, contradictory givens
    for p in ["................", "1...............", "12..\n34..\n....\n....", "1 2 3 4\n3 4 1 2\n2 1 4 3\n4 3 2 1",
              "11..............", "1234", "", "_-_-x·x·_-_-x·x·", "1...\n.2..\n..3.\n...4\n", "....\n....\n....\n...\"", "1\"34............",
              "1.3.2...........", "4...............1", "\u{b7}3\u{b7}\u{b7}\u{b7}\u{b7}2\u{b7}\u{b7}\u{b7}\u{b7}\u{b7}\u{b7}\u{b7}\u{b7}4", "\u{25a1}\u{25a1}\u{25a1}\u{25a1}\u{25a1}\u{25a1}\u{25a1}\u{25a1}\u{25a1}\u{25a1}\u{25a1}\u{25a1}\u{25a1}\u{25a1}\u{25a1}1", "1234341221434321 trailing text 99"] {
        cases.push((2, p.to_string()));
    }
    let n2 = if tier == "thorough" { 3000 } else { 150 };
    for _ in 0..n2 {
        // a random solved grid (by permuting a base solution), with a random subset of givens shown
        let base = [1, 2, 3, 4, 3, 4, 1, 2, 2, 1, 4, 3, 4, 3, 2, 1];
        let mut perm = [1usize, 2, 3, 4];
        for i in (1..4).rev() { let j = rng.below(i as u64 + 1) as usize; perm.swap(i, j); }
        // multi-byte blanks (2, 3 and 4 bytes in UTF-8, and a non-ASCII digit): cells are counted in characters
        let blanks = ['.', '-', 'x', '_', ' ', '*', '\u{b7}', '\u{25a1}', '\u{1f7e6}', '\u{ff11}'];
        let mut blank = *rng.pick(&blanks[..]);
        // every other puzzle: any character of the planes in use (letters whose code point ends in the
        // byte of an ASCII digit, box drawing, full-width forms, mathematical digits, ...)
        if rng.chance(1, 2) {
            let (lo, hi) = *rng.pick(&[(0x100u32, 0x17fu32), (0x2000, 0x206f), (0x2500, 0x257f), (0xff00, 0xffef), (0x1d7ce, 0x1d7ff), (0x3000, 0x303f), (0x660, 0x669), (0x130, 0x139), (0x2030, 0x2039), (0x10130, 0x10139)][..]);
            if let Some(c) = char::from_u32(lo + rng.below((hi - lo + 1) as u64) as u32) { if !c.is_whitespace() && !c.is_ascii_digit() && !c.is_control() { blank = c; } }
        }
        let keep = rng.below(17);
        let mut s = String::new();
        for (i, d) in base.iter().enumerate() {
            let shown = rng.below(16) < keep;
            if shown {
                let mut dd = perm[*d - 1];
                if rng.chance(1, 40) { dd = 1 + rng.below(4) as usize; } // sometimes contradictory
                s.push_str(&dd.to_string());
            } else if blank == ' ' { s.push('.'); } else { s.push(blank); }
            if i % 4 == 3 && rng.chance(1, 2) { s.push(*rng.pick(&['\n', '\n', '\u{b}', '\u{2028}', '\u{85}'][..])); }
            // an empty line between two rows (or before the first cell): still only white space
            if i % 4 == 3 && rng.chance(1, 6) { s.push_str("\n\n"); }
            if i == 0 && rng.chance(1, 12) { s.insert_str(0, "\n\n"); }
            // any Unicode white space is ignored, not only the ASCII ones
            if rng.chance(1, 8) { s.push(*rng.pick(&[' ', ' ', '\t', '\u{a0}', '\u{3000}', '\u{2003}', '\u{c}'][..])); }
        }
        // short input: the text may stop anywhere, also in the middle of a row
        if rng.chance(1, 4) { let keep_chars = rng.below(s.chars().count() as u64 + 1) as usize; s = s.chars().take(keep_chars).collect(); }
        cases.push((2, s));
    }
    for p in ["12..\r\n34..\r\n....\r\n....\r\n", "1 2 3 4\r3 4 1 2\r2 1 4 3\r4 3 2 1", "1234\n34", "12343", "1", "12", "123412", "1234341221", ".2.4.1", "1...\u{b}..2.\u{b}.3..\u{b}...4", "1\u{a0}.\u{a0}.\u{a0}2", "\u{3000}12\u{2028}34", "12..\n....\n\n....\n..12\n", "\n1234\n\n\n3412"] { cases.push((2, p.to_string())); }
    // texts that begin with a character an editor may put there invisibly (byte-order mark, zero-width space, word joiner):
    // not a digit and not whitespace, so a blank in cell 0; several of them, so that some reach the tool as INPUT file
    for lead in ['\u{feff}', '\u{200b}', '\u{2060}', '\u{feff}', '\u{feff}', '\u{200b}'] {
        for p in ["1234341221434312", "12..34..........", ".2.4.1"] { cases.push((2, format!("{}{}", lead, p))); }
    }
    // root 3: a few puzzles (the formula has 729 variables; only structure and solution soundness)
    let solved9 = "534678912672195348198342567859761423426853791713924856961537284287419635345286179";
    // only one digit given (all nine 9s, all nine 1s, all nine 5s): the other eight digits may be permuted freely
    for keep_digit in ['9', '1', '5'] { cases.push((3, solved9.chars().map(|c| if c == keep_digit { c } else { '.' }).collect())); }
    let n3 = if tier == "thorough" { 50 } else { 4 };
    for _ in 0..n3 {
        let keep = 20 + rng.below(40);
        let blank9 = *rng.pick(&['.', '.', '\u{b7}', '\u{25a1}', '\u{2534}', '\u{131}', '\u{ff30}'][..]);
        let mut s: String = solved9.chars().map(|c| if rng.below(81) < keep { c } else { blank9 }).collect();
        if rng.chance(1, 3) { let keep_chars = rng.below(82) as usize; s = s.chars().take(keep_chars).collect(); }
        cases.push((3, s));
    }
    // root 4 (and 5 in the thorough tier): numbers of two digits; structure only (4096 variables)
    cases.push((4, String::new()));
    // root 4 with givens: puzzles cut out of the grid (row mod 4) * 4 + row / 4 + col (mod 16) + 1 — the cells that hold
    // a number of one digit, some of them kept
    for keep in [2u64, 5, 9] {
        let s: String = (0..256usize).map(|c| { let v = ((c / 16 % 4) * 4 + c / 16 / 4 + c % 16) % 16 + 1; if v <= 9 && rng.below(10) < keep { char::from_digit(v as u32, 10).unwrap() } else { '.' } }).collect();
        cases.push((4, s));
    }
    cases.push((4, "1..4...........G".to_string() + &".".repeat(230) + "7.3......9"));
    if tier == "thorough" { cases.push((5, "12345".to_string())); cases.push((4, "9".repeat(256))); }
    for (ci, (root, puzzle)) in cases.into_iter().enumerate() {
        // every seventh puzzle reaches the tool through INPUT = /dev/stdin fed by a pipe (a path whose length the file system
        // reports as 0): it is a way to name the input like any other
        let (class, stdout, _) = if ci % 7 == 3 {
            st.hit("input.dev-stdin-fed-by-a-pipe");
            run_capture(&bin("sudoku_gen"), &["-r".into(), root.to_string(), "/dev/stdin".into()], puzzle.as_bytes(), 120)
        } else { run_tool("sudoku_gen", &["-r".into(), root.to_string()], puzzle.as_bytes(), OutArg::AfterInput, 120, st) };
        // the puzzle text goes to the driver as it was given: the model removes the white space itself (Sudoku.strip)
        let stripped: &str = &puzzle;
        st.hit(&format!("root{}.exit.{}", root, class));
        if class != "ok" { writeln!(out, "C17|sudoku|{}|{}|{}|-|-", root, hex(stripped.as_bytes()), class).unwrap(); continue; }
        // the bytes themselves, for the text model of the generator (recorded tie, see Thm/C17T.lean)
        writeln!(out, "C17|text|{}|{}|{}|{}", root, hex(crate_version("sudoku_gen").as_bytes()), hex(stripped.as_bytes()), hex(&stdout)).unwrap();
        match parse_text(&stdout, None) {
            Parsed::Ok(pf) => {
                let ast = ser_real_renamed(&pf.bdd, &sudoku_rename).unwrap_or_else(|| "ERR".to_string());
                // the real solver is not used as an oracle here: without an operation cache rsbdd needs
                // more than 20 minutes for a 4x4 puzzle (measured), so the models are checked directly
                let solver = "-".to_string();
                writeln!(out, "C17|sudoku|{}|{}|ok|{}|{}", root, hex(stripped.as_bytes()), ast, solver).unwrap();
            }
            _ => { writeln!(out, "C17|sudoku|{}|{}|ok|ERR|-", root, hex(stripped.as_bytes())).unwrap(); }
        }
    }
}

/// edges of the tool's output: csv lines `a,b`, or dot lines `    a -> b` / `    a -- b`
fn read_edges(out: &[u8], dot: bool) -> Option<Vec<(String, String)>> {
    let text = String::from_utf8_lossy(out);
    let mut es = Vec::new();
    for line in text.lines() {
        let l = line.trim();
        if l.is_empty() { continue; }
        // a statement of a graphviz graph may end in a semicolon, and its indentation is free
        let l = if dot { l.trim_end_matches(';').trim_end() } else { l };
        if dot {
            if l.starts_with("digraph") || l.starts_with("graph") || l == "}" { continue; }
            let (a, b) = l.split_once(" -> ").or_else(|| l.split_once(" -- "))?;
            es.push((a.trim().to_string(), b.trim().to_string()));
        } else {
            let (a, b) = l.split_once(',')?;
            es.push((a.to_string(), b.to_string()));
        }
    }
    Some(es)
}

fn pairs_field(es: &[(String, String)]) -> String {
    es.iter().map(|(a, b)| format!("{}>{}", hex(a.as_bytes()), hex(b.as_bytes()))).collect::<Vec<_>>().join(",")
}

pub fn c18(out: &mut dyn Write, tier: &str, rng: &mut Rng, st: &mut Stats) {
    unwritable(out, "C18", "random_graph_gen", &["3".into(), "2".into()], &[], &OutArg::DashO, st);
    let reps = if tier == "thorough" { 20 } else { 2 };
    // every (V, E, -u, --complete, --dot) request with V <= 6, incl. infeasible ones
    for v in 0..=6usize {
        for u in [false, true] {
            let maxe = if u { v * v.saturating_sub(1) / 2 } else { v * v.saturating_sub(1) };
            let mut requests: Vec<(Option<usize>, bool)> = (0..=maxe + 2).map(|e| (Some(e), false)).collect();
            requests.push((None, true));
            // --complete together with an explicit EDGES count: all pairs all the same
            for e in [0usize, 1, maxe / 2, maxe + 1] { requests.push((Some(e), true)); }
            for (e, complete) in requests {
                for rep in 0..reps {
                    let dot = rep % 2 == 1;
                    let mut args: Vec<String> = Vec::new();
                    if complete { args.push("--complete".into()); args.push(v.to_string()); if let Some(e) = e { args.push(e.to_string()); } }
                    else { args.push(v.to_string()); args.push(e.unwrap().to_string()); }
                    if u { args.push("-u".into()); }
                    if dot { args.push("--dot".into()); }
                    let (class, stdout, _) = run_tool("random_graph_gen", &args, &[], OutArg::DashO, 60, st);
                    let edges = read_edges(&stdout, dot).map(|es| pairs_field(&es)).unwrap_or_else(|| "UNREADABLE".to_string());
                    writeln!(out, "C18|gen|{}|{}|{}|{}|{}|{}", v, e.map(|x| x.to_string()).unwrap_or_else(|| "-".into()), u as u8, complete as u8, class, edges).unwrap();
                    if class == "ok" && edges != "UNREADABLE" { writeln!(out, "C18|text|{}|{}|{}|{}|-", if dot { "dot" } else { "csv" }, u as u8, edges, hex(&stdout)).unwrap(); }
                    st.hit(&format!("gen.exit.{}", class));
                }
            }
        }
    }
    // generation together with --colors: whether a request can be met is decided by V, E and -u alone (what is printed
    // is then the colouring graph of a random graph, which only the exit class is looked at for)
    for v in 0..=5usize {
        for u in [false, true] {
            let maxe = if u { v * v.saturating_sub(1) / 2 } else { v * v.saturating_sub(1) };
            for e in [0usize, 1, maxe / 2, maxe / 2 + 1, maxe, maxe + 1] {
                for k in [1usize, 2, 3] {
                    let mut args: Vec<String> = vec![v.to_string(), e.to_string(), "--colors".into(), k.to_string()];
                    if u { args.push("-u".into()); }
                    let (class, _so, _) = run_tool("random_graph_gen", &args, &[], OutArg::DashO, 60, st);
                    writeln!(out, "C18|gencolors|{}|{}|{}|{}|{}", v, e, u as u8, k, class).unwrap();
                    st.hit(&format!("gencolors.{}", class));
                }
            }
        }
    }
    // --convert and --colors on random small edge lists
    let n = if tier == "thorough" { 3000 } else { 200 };
    let names_plain = ["a", "b", "c", "d", "e"];
    // names one of which is a prefix of another, followed by a character that sorts below `_` (v1 / v10, a / aB)
    let names_prefix = ["v1", "v10", "v2", "v1B", "v"];
    let path = format!("{}/c18_edges.csv", scratch());
    for i in 0..n {
        // every tenth colouring problem: ten to thirteen colours (two-digit colour numbers) on two or three vertices
        let many_colours = i % 20 == 11;
        let k = if many_colours { 2 + rng.below(2) as usize } else { 2 + rng.below(3) as usize };
        let m = if many_colours { 1 + rng.below(3) as usize } else { rng.below(7) as usize };
        // … and names whose concatenations coincide (1 + 12 = 11 + 2 = 112, a + bc = ab + c)
        let names_concat = ["1", "12", "11", "2", "112"];
        let names_concat2 = ["a", "bc", "ab", "c", "abc"];
        let names = if i % 10 == 5 { &names_concat } else if i % 10 == 9 { &names_concat2 } else if i % 4 >= 2 { &names_prefix } else { &names_plain };
        let k = if i % 10 == 5 || i % 10 == 9 { 4 + rng.below(2) as usize } else { k };
        let edges: Vec<(String, String)> = (0..m).map(|_| (names[rng.below(k as u64) as usize].to_string(), names[rng.below(k as u64) as usize].to_string())).collect();
        // the input file: LF or CR LF line endings, with or without the final one
        let eol = if i % 5 == 3 { "\r\n" } else { "\n" };
        let mut csv: String = edges.iter().map(|(a, b)| format!("{},{}{}", a, b, eol)).collect();
        if i % 7 == 2 && csv.ends_with(eol) { csv.truncate(csv.len() - eol.len()); }
        std::fs::write(&path, csv).unwrap();
        if i % 2 == 0 {
            let u = rng.chance(1, 2);
            let mut args = vec!["--convert".to_string(), path.clone()];
            if u { args.push("-u".into()); }
            // every other conversion is written as a graphviz graph (directed arrows keep their orientation)
            let dot = (i / 2) % 2 == 1;
            if dot { args.push("--dot".into()); st.hit("convert.dot"); }
            let (class, stdout, _) = if i % 8 == 0 {
                // in place: the converted list replaces the file it was read from
                let mut a = args.clone(); a.push("-o".into()); a.push(path.clone());
                let (class, so, se) = run_capture(&bin("random_graph_gen"), &a, &[], 60);
                st.hit("convert.in-place");
                if class == "ok" { (class, std::fs::read(&path).unwrap_or_default(), se) } else { (class, so, se) }
            } else { run_tool("random_graph_gen", &args, &[], OutArg::DashO, 60, st) };
            let outp = read_edges(&stdout, dot).map(|es| pairs_field(&es)).unwrap_or_else(|| "UNREADABLE".to_string());
            writeln!(out, "C18|convert|{}|{}|{}|{}", u as u8, pairs_field(&edges), class, outp).unwrap();
            // the bytes, for the text model (Thm/C18T): the expected list is the model's conversion of this input
            if class == "ok" && outp != "UNREADABLE" { writeln!(out, "C18|text|{}|{}|{}|{}|{}", if dot { "dot" } else { "csv" }, u as u8, outp, hex(&stdout), pairs_field(&edges)).unwrap(); }
            st.hit("convert");
        } else {
            // colouring problems are about simple graphs: no self-loops
            let simple: Vec<(String, String)> = edges.iter().filter(|(a, b)| a != b).cloned().collect();
            let csv: String = simple.iter().map(|(a, b)| format!("{},{}{}", a, b, eol)).collect();
            std::fs::write(&path, csv).unwrap();
            let kcol = if many_colours { st.hit("colors.ten-or-more"); 10 + rng.below(4) as usize } else { rng.below(4) as usize };
            let args = vec!["--convert".to_string(), path.clone(), "--colors".to_string(), kcol.to_string()];
            let (class, stdout, _) = run_tool("random_graph_gen", &args, &[], OutArg::DashO, 60, st);
            let outp = read_edges(&stdout, false).map(|es| pairs_field(&es)).unwrap_or_else(|| "UNREADABLE".to_string());
            writeln!(out, "C18|colors|{}|{}|{}|{}", kcol, pairs_field(&simple), class, outp).unwrap();
            if class == "ok" && outp != "UNREADABLE" { writeln!(out, "C18|text|csv|0|{}|{}|-", outp, hex(&stdout)).unwrap(); }
            st.hit("colors");
        }
    }
    // --convert as the observation of how the tools READ an edge list (the csv crate's reader): texts with all three
    // line endings mixed, blank lines, a missing final terminator, a byte-order mark, blanks inside fields, non-ASCII
    // names, and now and then a record with one or three fields.  The driver reads the same bytes with the model's
    // reader (Gen/CsvInput.lean, Thm/C16I) and compares what was printed with the text of that list.
    let nread = if tier == "thorough" { 4000 } else { 250 };
    let pool_read = ["a", "b", "c", "v_1", " c ", "x y", "é", "日本", "A", "a.b", "1", "-"];
    for i in 0..nread {
        let m = rng.below(6) as usize;
        let malformed = i % 10 == 7;
        let bad_at = if malformed && m > 0 { Some(rng.below(m as u64) as usize) } else { None };
        let mut text = String::new();
        if i % 8 == 5 { text.push('\u{FEFF}'); }
        for j in 0..m {
            if i % 6 == 4 && rng.chance(1, 4) { text.push_str(*rng.pick(&["\n", "\r\n", "\r"])); } // a blank line before the record
            let a = rng.pick(&pool_read[..]).to_string();
            let b = rng.pick(&pool_read[..]).to_string();
            if bad_at == Some(j) { if rng.chance(1, 2) { text.push_str(&a); } else { text.push_str(&format!("{},{},{}", a, b, a)); } }
            else { text.push_str(&format!("{},{}", a, b)); }
            let last = j + 1 == m;
            if !(last && i % 3 == 1) {
                text.push_str(*rng.pick(&["\n", "\r\n", "\r", "\n", "\n\n", "\r\n\r\n"]));
            }
        }
        std::fs::write(&path, text.as_bytes()).unwrap();
        let u = i % 4 == 3;
        let mut args = vec!["--convert".to_string(), path.clone()];
        if u { args.push("-u".into()); }
        let (class, stdout, _) = run_tool("random_graph_gen", &args, &[], OutArg::DashO, 60, st);
        writeln!(out, "C18|read|{}|{}|{}|{}", u as u8, hex(text.as_bytes()), class, hex(&stdout)).unwrap();
        st.hit(if malformed && m > 0 { "read.malformed" } else { "read.wellformed" });
        st.hit(&format!("read.exit.{}", class));
    }
}
