//! Text-level generators: C08 (tokenizer + parser) and C12 (no panic), in-process and
//! through the real `rsbdd` binary.
use crate::formula::*;
use crate::util::*;
use rsbdd::parser::*;
use std::collections::HashMap;
use std::io::Write;
use std::panic::AssertUnwindSafe;

thread_local! {
    static RE_D: regex::Regex = regex::Regex::new(r"^\d$").unwrap();
    static RE_W: regex::Regex = regex::Regex::new(r"^\w$").unwrap();
}

/// class of one character according to the regex crate: d = `\d`, w = `\w` only, o = neither
pub fn class_of(c: char) -> char {
    let s = c.to_string();
    if RE_D.with(|r| r.is_match(&s)) { 'd' } else if RE_W.with(|r| r.is_match(&s)) { 'w' } else { 'o' }
}

/// classes of the non-ASCII characters of a text, in order
pub fn classes_of(text: &str) -> String {
    text.chars().filter(|c| !c.is_ascii()).map(class_of).collect()
}

pub fn ser_token(t: &SymbolicBDDToken) -> String {
    use SymbolicBDDToken::*;
    match t {
        Var(v) => format!("V:{}:{}", hex(v.name.as_bytes()), v.id),
        Countable(n) => format!("N:{}", n),
        Reference(n) => format!("R:{}", hex(n.as_bytes())),
        And => "and".into(), Or => "or".into(), Not => "not".into(), Xor => "xor".into(),
        Nor => "nor".into(), Nand => "nand".into(), Implies => "imp".into(), ImpliesInv => "impinv".into(),
        Iff => "iff".into(), If => "if".into(), Then => "then".into(), Else => "else".into(),
        Exists => "exists".into(), Forall => "forall".into(), Eq => "eq".into(), Geq => "geq".into(),
        Gt => "gt".into(), Lt => "lt".into(), OpenParen => "lp".into(), CloseParen => "rp".into(),
        OpenSquare => "ls".into(), CloseSquare => "rs".into(), Comma => "comma".into(),
        False => "false".into(), True => "true".into(), LFP => "lfp".into(), GFP => "gfp".into(),
        Hash => "hash".into(), Eof => "eof".into(),
    }
}

pub fn tokenize_guarded(text: &[u8]) -> Result<Result<Vec<SymbolicBDDToken>, String>, String> {
    guarded(AssertUnwindSafe(|| {
        let mut rd: &[u8] = text;
        SymbolicBDD::tokenize(&mut rd, None).map_err(|e| e.to_string())
    }))
}

/// (real tokens, real tree) of a text, as line fields
pub fn real_fields(text: &[u8]) -> (String, String) {
    let toks = match tokenize_guarded(text) {
        Ok(Ok(ts)) => ts.iter().map(ser_token).collect::<Vec<_>>().join(" "),
        Ok(Err(_)) => "ERR".to_string(),
        Err(_) => "PANIC".to_string(),
    };
    let ast = match parse_text(text, None) {
        Parsed::Ok(pf) => ser_real(&pf.bdd),
        Parsed::Err(_) => "ERR".to_string(),
        Parsed::Panic(_) => "PANIC".to_string(),
    };
    (toks, ast)
}

pub fn parse_line(text: &[u8], gen_ast: &str, exp_toks: &str) -> String {
    let (toks, ast) = real_fields(text);
    let classes = std::str::from_utf8(text).map(classes_of).unwrap_or_default();
    format!("C08|parse|{}|{}|-|{}|{}|{}|{}", hex(text), classes, toks, ast, gen_ast, exp_toks)
}

/// canonical spelling and expected token (variables carry their name)
pub const ALPHABET: [(&str, &str); 32] = [
    ("a", "V:a"), ("b", "V:b"), ("7", "N:7"), ("{r}", "R:72"), ("&", "and"), ("|", "or"), ("-", "not"),
    ("^", "xor"), ("nor", "nor"), ("nand", "nand"), ("=>", "imp"), ("<=", "impinv"), ("<=>", "iff"),
    ("if", "if"), ("then", "then"), ("else", "else"), ("exists", "exists"), ("forall", "forall"),
    ("=", "eq"), (">=", "geq"), (">", "gt"), ("<", "lt"), ("(", "lp"), (")", "rp"), ("[", "ls"),
    ("]", "rs"), (",", "comma"), ("false", "false"), ("true", "true"), ("lfp", "lfp"), ("gfp", "gfp"),
    ("#", "hash"),
];

fn seq_line(seq: &[usize]) -> String {
    let text = seq.iter().map(|i| ALPHABET[*i].0).collect::<Vec<_>>().join(" ");
    // expected tokens: names numbered by first appearance
    let mut ids: HashMap<&str, usize> = HashMap::new();
    let mut exp: Vec<String> = Vec::new();
    for i in seq {
        let e = ALPHABET[*i].1;
        if let Some(name) = e.strip_prefix("V:") {
            let n = ids.len();
            let id = *ids.entry(name).or_insert(n);
            exp.push(format!("V:{}:{}", hex(name.as_bytes()), id));
        } else { exp.push(e.to_string()); }
    }
    exp.push("eof".to_string());
    parse_line(text.as_bytes(), "-", &exp.join(" "))
}

const ALIASES: [&str; 37] = ["*", "+", "!", "not", "and", "or", "xor", "implies", "in", "iff", "eq", "any", "all",
    "nu", "mu", "a'", "_x", "x_1", "1x", "007", "{a'b}", "{}", "{ }", "\"c\"", "\"", "$", "é", "٣", "x٣", "𝒳",
    "'a", "''", "'", "{'x}", "'1", "{1}", "a'b'"];

fn soup(rng: &mut Rng, len: usize) -> String {
    let mut s = String::new();
    for _ in 0..len {
        if rng.chance(1, 4) { s.push_str(*rng.pick(&ALIASES[..])); } else { s.push_str(ALPHABET[rng.below(32) as usize].0); }
        match rng.below(6) { 0 => {}, 1 => s.push('\n'), 2 => s.push_str("\t "), _ => s.push(' ') }
    }
    s
}

fn mutate(rng: &mut Rng, text: &str) -> String {
    let mut parts: Vec<String> = text.split(' ').map(|s| s.to_string()).collect();
    if parts.is_empty() { return text.to_string(); }
    for _ in 0..1 + rng.below(3) {
        let i = rng.below(parts.len() as u64) as usize;
        match rng.below(6) {
            0 => { parts.remove(i); if parts.is_empty() { parts.push(String::new()); } }
            1 => { let p = parts[i].clone(); parts.insert(i, p); }
            2 => { let j = rng.below(parts.len() as u64) as usize; parts.swap(i, j); }
            3 => parts[i] = rng.pick(&ALIASES[..]).to_string(),
            4 => parts[i] = ALPHABET[rng.below(32) as usize].0.to_string(),
            _ => { let c = *rng.pick(&['(', ')', '[', ']', '"', ',', '#']); parts[i].push(c); }
        }
    }
    parts.join(" ")
}

/// a random sentence of the grammar as a sequence of ALPHABET indices, using at most `budget` tokens
fn sentence(rng: &mut Rng, budget: usize, out: &mut Vec<usize>) {
    // indices: a0 b1 7=2 {r}3 &4 |5 -6 ^7 nor8 nand9 =>10 <=11 <=>12 if13 then14 else15 exists16 forall17
    //          =18 >=19 >20 <21 (22 )23 [24 ]25 ,26 false27 true28 lfp29 gfp30 #31
    fn list(rng: &mut Rng, budget: usize, out: &mut Vec<usize>) {
        // `[` items `]`, optional trailing comma; uses at most `budget` tokens (>= 2)
        out.push(24);
        let mut left = budget - 2;
        let mut first = true;
        while left >= 2 && rng.chance(2, 3) {
            if !first { out.push(26); left -= 1; }
            let b = 1 + rng.below(left.min(3) as u64) as usize;
            let before = out.len();
            sentence(rng, b, out);
            left -= out.len() - before;
            first = false;
            if left < 2 { break; }
        }
        if !first && left >= 1 && rng.chance(1, 4) { out.push(26); }
        out.push(25);
    }
    let simple_budget = if budget >= 3 && rng.chance(1, 3) { 1 + rng.below((budget - 2) as u64) as usize } else { budget };
    let before = out.len();
    // the simple term
    let choice = rng.below(12);
    match choice {
        0 | 1 if simple_budget >= 3 => { out.push(22); sentence(rng, simple_budget - 2, out); out.push(23); }
        2 if simple_budget >= 2 => { out.push(6); sentence(rng, 1, out); }
        3 | 4 if simple_budget >= 4 => { list(rng, simple_budget - 2, out); out.push(18 + rng.below(4) as usize); out.push(2); }
        5 if simple_budget >= 5 => { let lb = 2 + rng.below((simple_budget - 4) as u64) as usize; list(rng, lb, out); out.push(*rng.pick(&[18usize, 19, 20, 21, 11])); let used = out.len() - before; list(rng, (simple_budget - used).max(2), out); }
        6 if budget >= 4 => { out.push(16 + rng.below(2) as usize); out.push(rng.below(2) as usize); if budget >= 6 && rng.chance(1, 2) { out.push(26); out.push(rng.below(2) as usize); } out.push(31); let used = out.len() - before; sentence(rng, (budget - used).max(1), out); return; }
        7 if budget >= 4 => { out.push(29 + rng.below(2) as usize); out.push(rng.below(2) as usize); out.push(31); sentence(rng, budget - 3, out); return; }
        8 if budget >= 6 => { out.push(13); let cb = 1 + rng.below(((budget - 5).min(2)) as u64) as usize; sentence(rng, cb, out); out.push(14); sentence(rng, 1, out); out.push(15); let used = out.len() - before; sentence(rng, (budget - used).max(1), out); return; }
        _ => out.push(*rng.pick(&[0usize, 1, 0, 1, 3, 27, 28])),
    }
    let used = out.len() - before;
    if budget >= used + 2 && rng.chance(2, 3) {
        out.push(*rng.pick(&[4usize, 5, 7, 8, 9, 10, 11, 12]));
        sentence(rng, budget - used - 1, out);
    }
}

pub fn c08(out: &mut dyn Write, tier: &str, rng: &mut Rng, st: &mut Stats) {
    // pin: the classes the regex crate gives the 128 ASCII characters
    let ascii: String = (0u8..128).map(|b| class_of(b as char)).collect();
    writeln!(out, "C08|asciipin|{}", ascii).unwrap();
    for text in corpus_lines("C08") {
        writeln!(out, "{}", parse_line(text.as_bytes(), "-", "-")).unwrap();
        st.hit("corpus");
    }
    // every token sequence up to length 3 (thorough: 4)
    let maxlen = if tier == "thorough" { 4 } else { 3 };
    for len in 0..=maxlen {
        let mut seq = vec![0usize; len];
        loop {
            writeln!(out, "{}", seq_line(&seq)).unwrap();
            st.hit(&format!("exhaustive.len{}", len));
            let mut k = len;
            loop {
                if k == 0 { break; }
                k -= 1;
                seq[k] += 1;
                if seq[k] < 32 { k = usize::MAX; break; }
                seq[k] = 0;
            }
            if k != usize::MAX { break; }
        }
    }
    // random longer sequences over the same alphabet
    let n = if tier == "thorough" { 300000 } else { 25000 };
    for _ in 0..n {
        let len = (maxlen + 1) + rng.below(3) as usize;
        let seq: Vec<usize> = (0..len).map(|_| rng.below(32) as usize).collect();
        writeln!(out, "{}", seq_line(&seq)).unwrap();
        st.hit("random.seq");
    }
    // short sentences of the grammar (within the brute-force oracle's reach) and every kind of single-token
    // edit of them: a deleted comma / `then` / `#` / bracket, a doubled or swapped token, a foreign token
    let ne = if tier == "thorough" { 250000 } else { 12000 };
    for _ in 0..ne {
        let mut seq: Vec<usize> = Vec::new();
        let budget = 1 + rng.below(8) as usize;
        sentence(rng, budget, &mut seq);
        if seq.len() > 8 { continue; }
        writeln!(out, "{}", seq_line(&seq)).unwrap();
        st.hit("short.sentence");
        let mut m = seq.clone();
        let i = rng.below(m.len() as u64) as usize;
        match rng.below(5) {
            0 | 1 => { m.remove(i); }
            2 => { let t = m[i]; m.insert(i, t); }
            3 => { if i + 1 < m.len() { m.swap(i, i + 1); } else { m[i] = rng.below(32) as usize; } }
            _ => { m[i] = rng.below(32) as usize; }
        }
        if m.len() <= 8 {
            writeln!(out, "{}", seq_line(&m)).unwrap();
            st.hit("short.edited");
        }
    }
    // generated sentences with random spellings, whitespace, comments and stray characters
    let m = if tier == "thorough" { 100000 } else { 5000 };
    for i in 0..m {
        let k = 1 + rng.below(5) as usize;
        let mut names: Vec<String> = Vec::new();
        while names.len() < k { let n = rng.pick(&NAME_POOL).to_string(); if !names.contains(&n) { names.push(n); } }
        let depth = 1 + rng.below(5) as u32;
        let gf = { let mut g = Gen { rng, names, allow_fix: true, big_consts: false, max_list: 3 }; g.gen(depth, &HashMap::new()) };
        let text = Printer { rng, noise: i % 2 == 0 }.print(&gf);
        // the generator's tree with the ids the real tokenizer assigned
        let gen_ast = match parse_text(text.as_bytes(), None) {
            Parsed::Ok(pf) => ser_gf(&gf, &id_table(&pf)),
            _ => {
                // names numbered by first appearance in the text is what the language prescribes
                ser_gf(&gf, &HashMap::new())
            }
        };
        writeln!(out, "{}", parse_line(text.as_bytes(), &gen_ast, "-")).unwrap();
        st.hit("generated.valid");
        // and a mutation of it (no expectation from the generator; the grammar oracle decides when short)
        let mt = mutate(rng, &text);
        writeln!(out, "{}", parse_line(mt.as_bytes(), "-", "-")).unwrap();
        st.hit("generated.mutated");
    }
    // token soups
    let s = if tier == "thorough" { 100000 } else { 8000 };
    for _ in 0..s {
        let len = 1 + rng.below(8) as usize;
        let t = soup(rng, len);
        writeln!(out, "{}", parse_line(t.as_bytes(), "-", "-")).unwrap();
        st.hit("soup");
    }
}

fn class3(r: &Result<Result<(), ()>, String>) -> &'static str {
    match r { Ok(Ok(())) => "OK", Ok(Err(())) => "ERR", Err(_) => "PANIC" }
}

fn balanced(rng: &mut Rng, leaves: usize) -> String {
    if leaves <= 1 { return rng.pick(&["a", "b", "c", "-a", "true"]).to_string(); }
    let l = leaves / 2;
    format!("({} {} {})", balanced(rng, l), rng.pick(&["&", "|", "^", "=>", "<=>"]), balanced(rng, leaves - l))
}

pub fn malformed(rng: &mut Rng, kind: u64) -> Vec<u8> {
    match kind {
        0 => { let n = rng.below(64) as usize; (0..n).map(|_| rng.below(256) as u8).collect() }
        1 => { let l = 1 + rng.below(10) as usize; let mut v = soup(rng, l).into_bytes(); let i = rng.below(v.len() as u64 + 1) as usize; v.insert(i.min(v.len()), 0xC3); v } // invalid UTF-8
        2 => { let l = 1 + rng.below(12) as usize; soup(rng, l).into_bytes() }
        3 => {
            let n = if rng.chance(1, 2) {
                // digit runs of other scripts (2-, 3- and 4-byte digits), any length, optional ASCII prefix
                let script: &[char] = *rng.pick(&[&['٣', '٠', '٩'][..], &['३', '१'][..], &['๓', '๑'][..], &['３', '０'][..], &['𝟑', '𝟗'][..]]);
                let mut s = "1".repeat(rng.below(4) as usize);
                for _ in 0..1 + rng.below(40) { s.push(*rng.pick(script)); }
                if rng.chance(1, 3) { s.push_str(&"7".repeat(rng.below(30) as usize)); }
                s
            } else {
                rng.pick(&["99999999999999999999999", "18446744073709551616", "18446744073709551615", "٣", "1٣", "００７", "0000000000000000000000001", "9223372036854775808"]).to_string()
            };
            format!("[a, b] {} {}", rng.pick(&["=", "<=", ">=", "<", ">"]), n).into_bytes()
        }
        4 => { let d = 1 + rng.below(200) as usize; format!("{}a{}", "(".repeat(d), ")".repeat(d - rng.below(2) as usize)).into_bytes() }
        5 => { let d = 1 + rng.below(200) as usize; format!("{}a", rng.pick(&["-", "not ", "!"]).repeat(d)).into_bytes() }
        6 => { let d = 1 + rng.below(150) as usize; format!("{}a{}", "if a then b else ".repeat(d), "").into_bytes() }
        7 => { let d = 1 + rng.below(100) as usize; format!("{}a{}", "[".repeat(d), "] = 1".repeat(d)).into_bytes() }
        8 => { let d = 1 + rng.below(150) as usize; format!("{}a", "exists x, y # forall z # ".repeat(d)).into_bytes() }
        9 => { let l = 1usize << (6 + rng.below(6)); balanced(rng, l).into_bytes() }   // up to ~64 KiB, depth <= 12
        10 => format!("\"{}\" a", "x".repeat(60000)).into_bytes(),
        11 => format!("{} & a", "v".repeat(60000)).into_bytes(),
        12 => { let d = 1 + rng.below(180) as usize; format!("{}a", "a & ".repeat(d)).into_bytes() }
        13 => b"".to_vec(),
        14 => { let q = rng.below(5) as usize; format!("{}a & b{}", "\"".repeat(q), "\"".repeat(rng.below(3) as usize)).into_bytes() }
        _ => {
            let names: Vec<String> = vec!["a".into(), "b".into(), "c".into()];
            let gf = { let mut g = Gen { rng, names, allow_fix: false, big_consts: true, max_list: 4 }; g.gen(3, &HashMap::new()) };
            let text = Printer { rng, noise: true }.print(&gf);
            mutate(rng, &text).into_bytes()
        }
    }
}

fn has_fix_keyword(text: &[u8]) -> bool {
    let s = String::from_utf8_lossy(text);
    ["lfp", "gfp", "mu", "nu"].iter().any(|k| s.contains(k))
}

pub fn c12(out: &mut dyn Write, tier: &str, rng: &mut Rng, st: &mut Stats) {
    let mut texts: Vec<Vec<u8>> = corpus_lines("C12").into_iter().map(|s| s.into_bytes()).collect();
    texts.extend(corpus_lines("C08").into_iter().map(|s| s.into_bytes()));
    texts.extend(corpus_lines("C01").into_iter().map(|s| s.into_bytes()));
    // well-formed formulas whose evaluation fills the node table with several thousand nodes (growth of the table,
    // of its capacity, of any bookkeeping tied to its size): x1..xn pairwise tied to y1..yn, all x before all y
    for nn in if tier == "thorough" { vec![8usize, 9, 10, 11, 12] } else { vec![10usize, 11] } {
        let mut t = String::from("(");
        for j in 0..nn { t.push_str(&format!("x{} | ", j)); }
        t.push_str("true)");
        for j in 0..nn { t.push_str(&format!(" & (x{} <=> y{})", j, j)); }
        texts.push(t.into_bytes());
        st.hit("node-hungry");
    }
    // texts that are only comments, the last closing quote being the last byte; line endings of every kind; a byte-order mark
    for t in ["\"c\"", "\"only a comment\"", "\"a\"\"b\"", "\"\"", "\"c\"\n", "\"c\" ", "a\r\nb", "a &\r\nb", "a &\rb\r", "\u{feff}a & b", "a & b\u{feff}", "\t\r\n"] {
        texts.push(t.as_bytes().to_vec());
    }
    let n = if tier == "thorough" { 200000 } else { 4000 };
    for i in 0..n {
        let kind = if i < 64 { (i % 16) as u64 } else { rng.below(18) };
        texts.push(malformed(rng, kind));
        st.hit(&format!("malformed.kind{}", kind.min(15)));
    }
    for text in &texts {
        crate::watchdog::enter(&String::from_utf8_lossy(&text[..text.len().min(200)]));
        let tok = tokenize_guarded(text).map(|r| r.map(|_| ()).map_err(|_| ()));
        let (newc, evalc) = match parse_text(text, None) {
            Parsed::Ok(pf) => {
                let e = if has_fix_keyword(text) || text.len() > 20000 { "SKIP" } else {
                    match eval_guarded(&pf) { Ok(_) => "OK", Err(_) => "PANIC" }
                };
                ("OK", e)
            }
            Parsed::Err(_) => ("ERR", "-"),
            Parsed::Panic(_) => ("PANIC", "-"),
        };
        crate::watchdog::leave();
        let classes = std::str::from_utf8(text).map(classes_of).unwrap_or_default();
        writeln!(out, "C12|lib|{}|{}|{}|{}|{}", hex(text), classes, class3(&tok), newc, evalc).unwrap();
        st.hit(&format!("lib.new.{}", newc));
    }
    // the real binary
    let runs = if tier == "thorough" { 10000 } else { 400 };
    let bin = format!("{}/rsbdd", std::env::var("VERIF_BIN_DIR").unwrap_or_default());
    let scratch = std::env::var("VERIF_SCRATCH").unwrap_or_else(|_| ".".to_string());
    // fixed points nested in one another, the inner body mentioning the outer name (and its own, or not): all converge
    let nested: [&str; 8] = ["lfp X # (a | lfp Y # ((X & b) | Y))", "gfp X # (a & nu Y # (X | (Y & b)))", "mu X # (a | (b & nu Y # X))",
        "lfp X # (a | gfp Y # (X & b))", "nu X # (a & lfp Y # (b | (X & lfp Z # (X | Y | Z))))", "lfp X # lfp Y # (X | Y | a)",
        "gfp X # ((exists a # (X & a)) | lfp Y # (Y | (X & b)))", "lfp X # ([X, a, lfp Y # (Y | X)] >= 2)"];
    for i in 0..runs {
        let text: Vec<u8> = if i < nested.len() { st.hit("cli.nested-fixed-points"); nested[i].as_bytes().to_vec() } else if i % 3 == 0 {
            // plain names, and names that are legal in the language but not as graphviz identifiers
            let names: Vec<String> = if i % 2 == 0 { vec!["a".into(), "b".into(), "c".into(), "d".into()] }
                else { vec!["a'".into(), "\u{e9}".into(), "x_1".into(), "\u{3b1}\u{3b2}".into(), "b''".into()] };
            let gf = { let mut g = Gen { rng, names, allow_fix: i % 6 == 0, big_consts: true, max_list: 3 }; g.gen(3, &HashMap::new()) };
            Printer { rng, noise: true }.print(&gf).into_bytes()
        } else { let k = rng.below(18); malformed(rng, k) };
        if text.len() > 20000 && i % 8 != 0 { continue; }
        let ordering: Option<Vec<u8>> = match rng.below(4) {
            0 => { let l = 1 + rng.below(6) as usize; Some(soup(rng, l).into_bytes()) }
            1 => Some(rng.pick(&[&b"c b a unused"[..], b"\"no preference\"", b"\"a\"\"b\"", b"c\r\nb\r\na", b"\"c\" ", b"c\rb\ra\r", b"\xef\xbb\xbfa b"]).to_vec()),
            2 => { let k = rng.below(4); Some(malformed(rng, k)) }
            _ => None,
        };
        let mut args: Vec<String> = Vec::new();
        let channel = if std::str::from_utf8(&text).is_ok() && !text.contains(&0) && text.len() < 4000 && !text.starts_with(b"@") { rng.below(3) } else { 1 + rng.below(2) };
        let fpath = format!("{}/c12_formula.txt", scratch);
        let opath = format!("{}/c12_ordering.txt", scratch);
        let mut stdin_data: Vec<u8> = Vec::new();
        match channel {
            0 => args.push(format!("--evaluate={}", String::from_utf8_lossy(&text))),
            1 => { std::fs::write(&fpath, &text).unwrap(); args.push(fpath.clone()); }
            _ => stdin_data = text.clone(),
        }
        if let Some(o) = &ordering { std::fs::write(&opath, o).unwrap(); args.push("-o".into()); args.push(opath.clone()); }
        let mut flags = String::new();
        for (f, p) in [("-t", 2), ("-v", 3), ("-m", 3), ("-r", 3)] { if rng.chance(1, p) { args.push(f.into()); flags.push_str(f); } }
        if rng.chance(1, 3) { args.push("-f".into()); args.push(rng.pick(&["true", "F", "any", "1", "*", "T"]).to_string()); flags.push_str("-f"); }
        if rng.chance(1, 4) { args.push("-c".into()); args.push(rng.pick(&["t", "false", "a"]).to_string()); flags.push_str("-c"); }
        if rng.chance(1, 5) { args.push("-b".into()); args.push(rng.below(3).to_string()); flags.push_str("-b"); }
        if rng.chance(1, 3) { args.push("-d".into()); args.push(format!("{}/c12_out.dot", scratch)); flags.push_str("-d"); }
        if rng.chance(1, 3) { args.push("-p".into()); args.push(format!("{}/c12_tree.dot", scratch)); flags.push_str("-p"); }
        let class = run_class(&bin, &args, &stdin_data, 10);
        let tcl = std::str::from_utf8(&text).map(classes_of).unwrap_or_default();
        let (otext, ocl) = match &ordering {
            Some(o) => (hex(o), std::str::from_utf8(o).map(classes_of).unwrap_or_default()),
            None => ("-".to_string(), String::new()),
        };
        writeln!(out, "C12|cli|ch{}{}|{}|{}|{}|{}|{}", channel, flags, hex(&text), tcl, otext, ocl, class).unwrap();
        st.hit(&format!("cli.{}", class));
    }
    // names as long as the 64 KiB bound allows (a text that is one name of 65530 … 65536 bytes; a long name next to a short
    // one; a long non-ASCII name): the table's column widths are computed from them
    for (k, (len, tail)) in [(65530usize, ""), (65533, ""), (65534, ""), (65535, ""), (65536, ""), (65500, " | b"), (40000, " & zz")].iter().enumerate() {
        let unit = if k % 3 == 2 { "\u{e9}" } else { "a" };
        let mut text: String = unit.repeat(*len / unit.len());
        text.push_str(tail);
        for flags in [vec!["-t"], vec!["-v"], vec!["-t", "-v"], vec!["-m", "-t"], vec!["-t", "-f", "true"]] {
            let fpath = format!("{}/c12_long_name.txt", scratch);
            std::fs::write(&fpath, text.as_bytes()).unwrap();
            let mut args: Vec<String> = vec![fpath.clone()];
            args.extend(flags.iter().map(|s| s.to_string()));
            let class = run_class(&bin, &args, &[], 60);
            writeln!(out, "C12|cli|ch1{}|{}|{}|-||{}", flags.join(""), hex(text.as_bytes()), classes_of(&text), class).unwrap();
            st.hit(&format!("cli.long-name.{}", class));
        }
    }
    // values of -f / -c that are no spelling of a truth value (empty, non-ASCII first character, wrong case, too long) next
    // to the accepted ones, in every way of writing the option: refused with a usage error, never a panic
    let values = ["", "\u{e9}", "\u{2713}", "\u{e4}rgerlich", "x", "TRUE", "tr", "2", "**", "t", "True", "0", "A", "*", "any", " true", "true ", "t\u{301}",
        "tttttttttttttttttttttttttttttttttttttttttttttttttttttttttttttttttttttttttttttttt", "-", "--"];
    for v in values {
        for form in 0..4 {
            let args: Vec<String> = match form {
                0 => vec!["-e".into(), "a | b".into(), "-t".into(), "-f".into(), v.to_string()],
                1 => vec!["-e".into(), "a | b".into(), "-t".into(), format!("--filter={}", v)],
                2 => vec!["-e".into(), "a | b".into(), "-t".into(), "-c".into(), v.to_string()],
                _ => vec!["-e".into(), "a | b".into(), "-t".into(), format!("--retain-choices={}", v)],
            };
            // a value that starts with a dash after a separate option name is read as another option
            if (form == 0 || form == 2) && v.starts_with('-') { continue; }
            let class = run_class(&bin, &args, &[], 10);
            writeln!(out, "C12|optvalue|{}|{}|{}", form, hex(v.as_bytes()), class).unwrap();
            st.hit(&format!("optvalue.{}", class));
        }
    }
}

/// run a binary; exit class: ok / err / panic / signal / timeout
pub fn run_class(bin: &str, args: &[String], stdin_data: &[u8], timeout_s: u64) -> &'static str {
    run_capture(bin, args, stdin_data, timeout_s).0
}

pub fn run_capture(bin: &str, args: &[String], stdin_data: &[u8], timeout_s: u64) -> (&'static str, Vec<u8>, Vec<u8>) {
    use std::process::{Command, Stdio};
    let mut child = match Command::new(bin).args(args).stdin(Stdio::piped()).stdout(Stdio::piped()).stderr(Stdio::piped()).spawn() {
        Ok(c) => c,
        Err(_) => return ("spawnfail", vec![], vec![]),
    };
    {
        let mut si = child.stdin.take().unwrap();
        let data = stdin_data.to_vec();
        std::thread::spawn(move || { let _ = si.write_all(&data); });
    }
    let mut so = child.stdout.take().unwrap();
    let mut se = child.stderr.take().unwrap();
    let t1 = std::thread::spawn(move || { let mut b = Vec::new(); let _ = std::io::Read::read_to_end(&mut so, &mut b); b });
    let t2 = std::thread::spawn(move || { let mut b = Vec::new(); let _ = std::io::Read::read_to_end(&mut se, &mut b); b });
    let start = std::time::Instant::now();
    let status = loop {
        match child.try_wait() {
            Ok(Some(s)) => break Some(s),
            Ok(None) => {
                if start.elapsed().as_secs() >= timeout_s { let _ = child.kill(); let _ = child.wait(); break None; }
                std::thread::sleep(std::time::Duration::from_millis(2));
            }
            Err(_) => break None,
        }
    };
    let out = t1.join().unwrap_or_default();
    let err = t2.join().unwrap_or_default();
    let class = match status {
        None => "timeout",
        Some(s) => match s.code() { Some(0) => "ok", Some(101) => "panic", Some(_) => "err", None => "signal" },
    };
    (class, out, err)
}
