-- Root of the `Rsbdd` library: model, specifications, proofs and property theorems.
import Rsbdd.Model.Bdd
import Rsbdd.Spec.Robdd
import Rsbdd.Proofs.Eval
import Rsbdd.Proofs.Robdd
import Rsbdd.Proofs.Derived
import Rsbdd.Proofs.Quant
import Rsbdd.Proofs.ModelRetain
import Rsbdd.Thm.C02
import Rsbdd.Thm.C03
import Rsbdd.Thm.C04
import Rsbdd.Thm.C05
import Rsbdd.Thm.C07
import Rsbdd.Thm.C20
import Rsbdd.Driver.Main
import Rsbdd.Thm.C01
import Rsbdd.Thm.C06
import Rsbdd.Thm.C09
