import Rsbdd.Driver.Main
def main : IO UInt32 := Rsbdd.Driver.run
