/-
How `max_clique_gen` and `random_graph_gen --convert` read their edge list (`csv::ReaderBuilder::new()
.has_headers(false).from_reader(..)`, `records()`, `max_clique_gen/src/main.rs:42-57`,
`random_graph_gen/src/main.rs:118-136`), for texts without a double quote (quoted fields are outside this model: the
reader answers `none`).  The csv crate's default record terminator accepts a line feed, a carriage return and the two
together; records that are empty are skipped; fields are separated by commas and not trimmed; a leading byte-order mark
is dropped.  A record that does not have exactly two fields stops the tools (the crate's unequal-lengths error or the
`assert_eq!(edge.len(), 2)`): `none`.  Text is a list of characters.  Imports only the splitter of Model/CliText.
-/
import Rsbdd.Model.CliText

namespace Rsbdd
namespace Gen
namespace CsvInput
open Cli.Text (splitAcc allSome)

abbrev Edge := List Char × List Char

def isTerm (c : Char) : Bool := c == '\n' || c == '\r'

/-- the records of a text: maximal runs of characters other than LF and CR (empty records are skipped) -/
def records : List Char → List Char → List (List Char)
  | [], acc => if acc.isEmpty then [] else [acc.reverse]
  | c :: cs, acc =>
    if isTerm c then (if acc.isEmpty then records cs [] else acc.reverse :: records cs [])
    else records cs (c :: acc)

def edgeOfRecord (l : List Char) : Option Edge :=
  match splitAcc ',' l [] with
  | [a, b] => some (a, b)
  | _ => none

def dropBom : List Char → List Char
  | c :: cs => if c = Char.ofNat 0xFEFF then cs else c :: cs
  | [] => []

/-- the edge list the tools read from a text.  `none`: the text has a double quote (outside the model), or some record
does not have exactly two fields (the tools stop with an error or a failed assertion) -/
def readEdges (text : List Char) : Option (List Edge) :=
  if '"' ∈ text then none else
  allSome ((records (dropBom text) []).map edgeOfRecord)

/-- one record as a spreadsheet or an editor writes it, followed by its terminator -/
def line (e : Edge) (term : List Char) : List Char := e.1 ++ [','] ++ e.2 ++ term

def render (es : List (Edge × List Char)) : List Char := es.flatMap (fun p => line p.1 p.2)

end CsvInput
end Gen
end Rsbdd
