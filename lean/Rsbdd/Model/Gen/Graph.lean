/-
Model of `random_graph_gen` (`random_graph_gen/src/main.rs`).  Vertices `v0 … v(V-1)` are
their indices; the shuffle is a parameter (`perm`: the shuffled candidate list).
Import-free.
-/
namespace Rsbdd
namespace Gen
namespace Graph

/-- all candidate edges in generation order (`:143-163`) -/
def candidates (v : Nat) (undirected : Bool) : List (Nat × Nat) :=
  (List.range v).flatMap (fun i =>
    if undirected then ((List.range v).drop (i + 1)).map (fun j => (i, j))
    else ((List.range v).filter (fun j => i ≠ j)).map (fun j => (i, j)))

/-- `generate_graph`: the first `e` edges of the shuffled candidate list, or an error when there
are fewer than `e` candidates (`edges.get(0..num_edges)`) -/
def generate (shuffled : List (Nat × Nat)) (e : Nat) : Option (List (Nat × Nat)) :=
  if e ≤ shuffled.length then some (shuffled.take e) else none

/-- the number of edges of `--complete` (`:62-66`) -/
def completeEdges (v : Nat) (undirected : Bool) : Nat :=
  if undirected then (v * (v - 1)) / 2 else v * (v - 1)

/-- `read_graph` (`:118-134`): keep every edge, except — with `-u` — one whose reverse was already kept -/
def readGraph (edges : List (String × String)) (undirected : Bool) : List (String × String) :=
  edges.foldl (fun acc (a, b) => if undirected && acc.contains (b, a) then acc else acc ++ [(a, b)]) []

end Graph
end Gen
end Rsbdd
