/-
Model of `random_graph_gen` (`random_graph_gen/src/main.rs`).  Vertices `v0 … v(V-1)` are
their indices; the shuffle is a parameter (`perm`: the shuffled candidate list).
Import-free.
-/
namespace Rsbdd
namespace Gen
namespace Graph

/-- all candidate edges in generation order (`:143-163`) -/
def candidates (v : Nat) (undirected : Bool) : List (Nat × Nat) :=
  (List.range v).flatMap (fun i =>
    if undirected then ((List.range v).drop (i + 1)).map (fun j => (i, j))
    else ((List.range v).filter (fun j => i ≠ j)).map (fun j => (i, j)))

/-- `generate_graph`: the first `e` edges of the shuffled candidate list, or an error when there
are fewer than `e` candidates (`edges.get(0..num_edges)`) -/
def generate (shuffled : List (Nat × Nat)) (e : Nat) : Option (List (Nat × Nat)) :=
  if e ≤ shuffled.length then some (shuffled.take e) else none

/-- the number of edges of `--complete` (`:62-66`) -/
def completeEdges (v : Nat) (undirected : Bool) : Nat :=
  if undirected then (v * (v - 1)) / 2 else v * (v - 1)

/-- `read_graph` (`:118-134`): keep every edge, except — with `-u` — one whose reverse was already kept -/
def readGraph (edges : List (String × String)) (undirected : Bool) : List (String × String) :=
  edges.foldl (fun acc (a, b) => if undirected && acc.contains (b, a) then acc else acc ++ [(a, b)]) []

end Graph
end Gen
end Rsbdd

namespace Rsbdd
namespace Gen
namespace Graph

def dedupStr (xs : List String) : List String :=
  xs.foldl (fun acc x => if acc.contains x then acc else acc ++ [x]) []

/-- `augment_colors` (`:186-232`) as a set of unordered pairs of (vertex, colour) copies: two
copies of different vertices are joined unless they have the same colour and the vertices
are adjacent.  (The real edge order and orientation follow an `FxHashMap` iteration order
and are not observable.) -/
def augmentColors (edges : List (String × String)) (k : Nat) : List ((String × Nat) × (String × Nat)) :=
  let vs := dedupStr (edges.flatMap (fun e => [e.1, e.2]))
  let copies := vs.flatMap (fun v => (List.range k).map (fun c => (v, c)))
  copies.flatMap (fun a => copies.filterMap (fun b =>
    if a.1 ≠ b.1 ∧ (a.1 < b.1 ∨ (a.1 = b.1 ∧ a.2 < b.2)) ∧
       (a.2 ≠ b.2 ∨ (!(edges.contains (a.1, b.1)) && !(edges.contains (b.1, a.1)))) then some (a, b) else none))

end Graph
end Gen
end Rsbdd
