/-
Model of `max_clique_gen` (`max_clique_gen/src/main.rs`).  Vertex names are interned to
variable ids by the caller: `vid v` for the vertex's own variable, `cid v` for its copy
(`<prefix><name>`); the iteration order of the `FxHashSet` is the parameter `vs` (any
duplicate-free enumeration of the end-points).  Import-free.
-/
import Rsbdd.Model.Formula

namespace Rsbdd
namespace Gen
namespace Clique

/-- the body of the inner loop of the complement computation (`:66-80`) -/
def innerStep (edges : List (Nat × Nat)) (undirected : Bool) (v1 : Nat) (acc : List (Nat × Nat)) (v2 : Nat) :
    List (Nat × Nat) :=
  if v1 ≠ v2 then
    if undirected then
      if !(edges.contains (v1, v2) || edges.contains (v2, v1) || acc.contains (v2, v1)) then acc ++ [(v1, v2)] else acc
    else if !(edges.contains (v1, v2)) then acc ++ [(v1, v2)] else acc
  else acc

/-- the double loop computing the complement edge list (`:64-82`) -/
def complement (edges : List (Nat × Nat)) (vs : List Nat) (undirected : Bool) : List (Nat × Nat) :=
  vs.foldl (fun acc v1 => vs.foldl (innerStep edges undirected v1) acc) []

def conj (fs : List Formula) (last : Formula) : Formula := fs.foldr (fun f acc => .bin .and f acc) last

/-- `-(a & b)` for every complement edge, or the single conjunct `true` -/
def nonEdgeConstraints (comp : List (Nat × Nat)) (var : Nat → Nat) : List Formula :=
  if comp.isEmpty then [.true_]
  else comp.map (fun (a, b) => .not (.bin .and (.var (var a)) (.var (var b))))

/-- the antecedent `c₁ & c₂ & … & cₖ` over the copies (the last conjunct is written without `&`) -/
def antecedent (copies : List Formula) : Formula :=
  match copies.reverse with
  | [] => .true_
  | last :: restRev => conj restRev.reverse last

/-- the emitted formula: vertices are numbered by `vid`, their copies by `cid` -/
def formula (edges : List (Nat × Nat)) (vs : List Nat) (undirected all : Bool) (vid cid : Nat → Nat) : Formula :=
  let comp := complement edges vs undirected
  let own := nonEdgeConstraints comp vid
  if all then conj own .true_
  else
    let copies := nonEdgeConstraints comp cid
    let body : Formula := antecedent copies
    conj own
      (.quant .forall_ (vs.map cid)
        (.bin .implies body (.cntVar .atLeast (vs.map (fun v => .var (vid v))) (vs.map (fun v => .var (cid v))))))

end Clique
end Gen
end Rsbdd
