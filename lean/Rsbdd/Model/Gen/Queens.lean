/-
Model of `n_queens_gen` (`n_queens_gen/src/main.rs`): the six loops, verbatim, as a list of
counting constraints over the cell indices `k` of the variables `v_k`, and the formula they
are conjoined into (`c₁ & c₂ & … & true`, right-nested as the parser reads it).
Import-free.
-/
import Rsbdd.Model.Formula

namespace Rsbdd
namespace Gen
namespace Queens

structure Constraint where
  cells : List Nat
  op : CntOp
  bound : Nat
deriving Repr, DecidableEq

/-- direction 1, upper half: `for i in 0..n { for j in 0..(n-i) { v_{i + j*(n+1)} } } <= 1` -/
def diag1a (n : Nat) : List Constraint :=
  (List.range n).map (fun i => ⟨(List.range (n - i)).map (fun j => i + j * (n + 1)), .atMost, 1⟩)

/-- direction 1, lower half: `for i in 1..n { for j in 0..(n-i) { v_{i*n + j*(n+1)} } } <= 1` -/
def diag1b (n : Nat) : List Constraint :=
  ((List.range n).drop 1).map (fun i => ⟨(List.range (n - i)).map (fun j => i * n + j * (n + 1)), .atMost, 1⟩)

/-- direction 2, upper half: `for i in 0..n { for j in 0..=i { v_{i + j*(n-1)} } } <= 1` -/
def diag2a (n : Nat) : List Constraint :=
  (List.range n).map (fun i => ⟨(List.range (i + 1)).map (fun j => i + j * (n - 1)), .atMost, 1⟩)

/-- direction 2, lower half: `for i in 1..n { for j in 0..i { v_{n*(n-j) - (i-j)} } } <= 1` -/
def diag2b (n : Nat) : List Constraint :=
  ((List.range n).drop 1).map (fun i => ⟨(List.range i).map (fun j => n * (n - j) - (i - j)), .atMost, 1⟩)

/-- rows: `for i in 0..n { for j in 0..n { v_{j + i*n} } } = 1` -/
def rows (n : Nat) : List Constraint :=
  (List.range n).map (fun i => ⟨(List.range n).map (fun j => j + i * n), .exactly, 1⟩)

/-- columns: `for i in 0..n { for j in 0..n { v_{i + j*n} } } = 1` -/
def cols (n : Nat) : List Constraint :=
  (List.range n).map (fun i => ⟨(List.range n).map (fun j => i + j * n), .exactly, 1⟩)

def constraints (n : Nat) : List Constraint :=
  diag1a n ++ diag1b n ++ diag2a n ++ diag2b n ++ rows n ++ cols n

def Constraint.toFormula (c : Constraint) : Formula := .cntConst c.op (c.cells.map .var) c.bound

/-- the emitted text as the parser reads it -/
def formula (n : Nat) : Formula :=
  (constraints n).foldr (fun c acc => .bin .and c.toFormula acc) .true_

end Queens
end Gen
end Rsbdd
