/-
Model of `sudoku_gen` (`sudoku_gen/src/main.rs`).  The variable `_c_is_d` is the pair
`(c, d)`, interned by `vid`.  The puzzle text arrives with whitespace already removed
(`char::is_whitespace` is a Unicode table; the harness strips it with the same function)
as a list of optional digits: `some d` for an ASCII digit character, `none` otherwise.
Import-free.
-/
import Rsbdd.Model.Formula

namespace Rsbdd
namespace Gen
namespace Sudoku

def exactlyOne (vid : Nat → Nat → Nat) (cells : List (Nat × Nat)) : Formula :=
  .cntConst .exactly (cells.map (fun (c, d) => .var (vid c d))) 1

/-- the hints (`:60-66`): for the first `numcells` characters, a digit fixes that cell -/
def hints (root : Nat) (puzzle : List (Option Nat)) (vid : Nat → Nat → Nat) : List Formula :=
  let numcells := root * root * (root * root)
  (List.range numcells).filterMap (fun i => match puzzle[i]? with
    | some (some d) => some (.var (vid i d))
    | _ => none)

def cellConstraints (root : Nat) (vid : Nat → Nat → Nat) : List Formula :=
  let sq := root * root
  (List.range (sq * sq)).map (fun i => exactlyOne vid ((List.range sq).map (fun j => (i, j + 1))))

def rowColConstraints (root : Nat) (vid : Nat → Nat → Nat) : List Formula :=
  let sq := root * root
  (List.range sq).flatMap (fun i => (List.range sq).flatMap (fun k0 =>
    let k := k0 + 1
    [exactlyOne vid ((List.range sq).map (fun j => (i * sq + j, k))),
     exactlyOne vid ((List.range sq).map (fun j => (j * sq + i, k)))]))

def boxConstraints (root : Nat) (vid : Nat → Nat → Nat) : List Formula :=
  let sq := root * root
  (List.range root).flatMap (fun i => (List.range root).flatMap (fun j =>
    let lt := (i * root) * sq + (j * root)
    (List.range sq).map (fun k0 =>
      exactlyOne vid ((List.range sq).map (fun l => (lt + ((l / root) * sq + (l % root)), k0 + 1))))))

def formula (root : Nat) (puzzle : List (Option Nat)) (vid : Nat → Nat → Nat) : Formula :=
  (hints root puzzle vid ++ cellConstraints root vid ++ rowColConstraints root vid ++ boxConstraints root vid).foldr
    (fun f acc => .bin .and f acc) .true_

end Sudoku
end Gen
end Rsbdd
