/-
The text `random_graph_gen` writes (`random_graph_gen/src/main.rs:92-111`): an edge list `a,b` per line, or with
`--dot` a Graphviz graph (`digraph G {` / `graph G {`, one indented `a -> b` / `a -- b` per line, `}`), and the
readers that turn such text back into the list of edges.  Text is a list of characters.
-/
import Rsbdd.Model.CliText

namespace Rsbdd
namespace Gen
namespace GraphText
open Cli.Text (splitAcc allSome)

abbrev Edge := List Char × List Char

def csvLine (e : Edge) : List Char := e.1 ++ [','] ++ e.2 ++ ['\n']

/-- `writeln!(writer, "{},{}", edge.0, edge.1)` for every edge -/
def csvText (es : List Edge) : List Char := es.flatMap csvLine

def arrowOf (undirected : Bool) : List Char := if undirected then [' ', '-', '-', ' '] else [' ', '-', '>', ' ']

def dotLine (undirected : Bool) (e : Edge) : List Char := [' ', ' ', ' ', ' '] ++ e.1 ++ arrowOf undirected ++ e.2 ++ ['\n']

def dotHeader (undirected : Bool) : List Char :=
  if undirected then ['g', 'r', 'a', 'p', 'h', ' ', 'G', ' ', '{'] else ['d', 'i', 'g', 'r', 'a', 'p', 'h', ' ', 'G', ' ', '{']

/-- the `--dot` form -/
def dotText (undirected : Bool) (es : List Edge) : List Char :=
  dotHeader undirected ++ ['\n'] ++ es.flatMap (dotLine undirected) ++ ['}', '\n']

/-! ### readers -/

/-- split at the first occurrence of `d` -/
def splitFirst (d : Char) : List Char → List Char → Option (List Char × List Char)
  | [], _ => none
  | c :: cs, acc => if c = d then some (acc.reverse, cs) else splitFirst d cs (c :: acc)

def readCsvLine (l : List Char) : Option Edge :=
  match splitFirst ',' l [] with
  | some (a, b) => if a ≠ [] ∧ b ≠ [] ∧ ',' ∉ b then some (a, b) else none
  | none => none

/-- an edge list: every line `a,b`, the text ending with a line feed (or empty) -/
def readCsv (text : List Char) : Option (List Edge) :=
  let segs := splitAcc '\n' text []
  if segs.getLast? ≠ some [] then none else allSome (segs.dropLast.map readCsvLine)

def stripPre (p s : List Char) : Option (List Char) := if p.isPrefixOf s then some (s.drop p.length) else none

/-- `a -> b` / `a -- b` at the first blank -/
def readDotLine (undirected : Bool) (l : List Char) : Option Edge :=
  match stripPre [' ', ' ', ' ', ' '] l with
  | none => none
  | some body =>
    match splitFirst ' ' body [] with
    | some (a, rest) =>
      match stripPre (arrowOf undirected).tail rest with
      | some b => if a ≠ [] ∧ b ≠ [] ∧ ' ' ∉ b then some (a, b) else none
      | none => none
    | none => none

/-- the `--dot` form: whether it is undirected, and the edges -/
def readDot (text : List Char) : Option (Bool × List Edge) :=
  match splitAcc '\n' text [] with
  | first :: rest =>
    let und := if first = dotHeader true then some true else if first = dotHeader false then some false else none
    match und with
    | none => none
    | some u =>
      if rest.length < 2 then none else
      if rest.drop (rest.length - 2) ≠ [['}'], []] then none else
      (allSome ((rest.take (rest.length - 2)).map (readDotLine u))).map (fun es => (u, es))
  | [] => none

end GraphText
end Gen
end Rsbdd
