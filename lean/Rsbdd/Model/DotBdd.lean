/-
The diagram export as text: the labelled graph of `Model/Dot.lean` (`bddGraph`) with the node ids and
labels `src/bdd_io.rs` gives the `dot` crate — `n_true`, `n_false`, `n_0x<address in hexadecimal>`
(`format!("n_{:p}", …)`), the variable's name or `true` / `false`, `T` / `F` on the edges — rendered by
`Model/DotText.lean`.
-/
import Rsbdd.Model.Dot
import Rsbdd.Model.DotText

namespace Rsbdd
namespace DotText
open Dot

/-- `node_id` (`src/bdd_io.rs:39-52`); `addr` gives the allocation address behind a pointer annotation -/
def nodeIdText (addr : Nat → Nat) : NodeId → List Char
  | .true_ => ['n', '_', 't', 'r', 'u', 'e']
  | .false_ => ['n', '_', 'f', 'a', 'l', 's', 'e']
  | .at p => ['n', '_', '0', 'x'] ++ toHex (addr p)

/-- `node_label` (`src/bdd_io.rs:54-60`) -/
def nodeLabelText (names : Nat → List Char) : NodeLabel → List Char
  | .true_ => ['t', 'r', 'u', 'e']
  | .false_ => ['f', 'a', 'l', 's', 'e']
  | .var v => names v

/-- `edge_label` (`src/bdd_io.rs:62-68`) -/
def edgeLabelText (t : Bool) : List Char := if t then ['T'] else ['F']

def bddTextGraph (names : Nat → List Char) (addr : Nat → Nat) (g : BddGraph) : TextGraph :=
  { name := ['b', 'd', 'd', '_', 'g', 'r', 'a', 'p', 'h']
    nodes := g.nodes.map (fun n => (nodeIdText addr n.1, nodeLabelText names n.2))
    edges := g.edges.map (fun e => (nodeIdText addr e.1, nodeIdText addr e.2.2, edgeLabelText e.2.1)) }

/-- the text `rsbdd -d` writes for a diagram -/
def bddDotText (names : Nat → List Char) (addr : Nat → Nat) (root : PBDD) (flt : BDD.Filter) : List Char :=
  render (bddTextGraph names addr (bddGraph root flt))

end DotText
end Rsbdd
