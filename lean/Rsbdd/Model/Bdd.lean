/-
Model of `src/bdd.rs` (the `BDD` enum and the operations of `BDDEnv`), pure part.

One definition per Rust function, same case split, same argument order.  Symbols are
natural numbers: `NamedSymbol`'s `Eq`/`Ord`/`Hash` use the id only (`src/symbols.rs`),
and `BDD<usize>` uses the number itself.  Rust `==` on `Rc<BDD>` is structural, so Lean
`=` on `BDD` is Rust `==`.  The hash-consing table (`BDDEnv.nodes`) only affects pointer
identity; it is modelled separately in `Model/Env.lean`.

This file is import-free so that it links into the compiled driver.
-/
namespace Rsbdd

/-- `src/bdd.rs:24-31`.  `node t v f` is `Choice(true_subtree, symbol, false_subtree)`. -/
inductive BDD where
  | F : BDD
  | T : BDD
  | node (t : BDD) (v : Nat) (f : BDD) : BDD
deriving DecidableEq, Repr, Inhabited

namespace BDD

def size : BDD → Nat
  | F => 1
  | T => 1
  | node t _ f => t.size + f.size + 1

def isChoice : BDD → Bool
  | node _ _ _ => true
  | _ => false

def isConst (b : BDD) : Bool := !b.isChoice

/-- `mk_choice` (`src/bdd.rs:148-169`) followed by `simplify` (`:467-472`): the node is
dropped when both subtrees are structurally equal.  (The table lookup returns a
structurally equal diagram and is invisible here.) -/
def mk (t : BDD) (v : Nat) (f : BDD) : BDD :=
  if t = f then t else node t v f

/-- `mk_const` (`src/bdd.rs:172-178`). -/
def mkConst (b : Bool) : BDD := if b then T else F

/-- `var` (`src/bdd.rs:303-305`). -/
def var (s : Nat) : BDD := mk (mkConst true) s (mkConst false)

/-- `and` (`src/bdd.rs:200-222`).  The final `_ => panic!` arm of the Rust match is
unreachable because `<` on ids is a strict total order; here it is the last `else`. -/
def and : BDD → BDD → BDD
  | F, _ => mkConst false
  | _, F => mkConst false
  | T, b => b
  | a, T => a
  | node at_ va af, node bt vb bf =>
    if va < vb then
      mk (and at_ (node bt vb bf)) va (and af (node bt vb bf))
    else if vb < va then
      mk (and bt (node at_ va af)) vb (and bf (node at_ va af))
    else
      mk (and at_ bt) va (and af bf)
termination_by a b => a.size + b.size
decreasing_by all_goals simp [size] <;> omega

/-- `or` (`src/bdd.rs:225-250`). -/
def or : BDD → BDD → BDD
  | T, _ => mkConst true
  | _, T => mkConst true
  | F, b => b
  | a, F => a
  | node at_ va af, node bt vb bf =>
    if va < vb then
      mk (or at_ (node bt vb bf)) va (or af (node bt vb bf))
    else if vb < va then
      mk (or bt (node at_ va af)) vb (or bf (node at_ va af))
    else
      mk (or at_ bt) va (or af bf)
termination_by a b => a.size + b.size
decreasing_by all_goals simp [size] <;> omega

/-- `not` (`src/bdd.rs:253-261`). -/
def not : BDD → BDD
  | F => mkConst true
  | T => mkConst false
  | node t v f => mk (not t) v (not f)

/-- `implies` (`src/bdd.rs:264-266`). -/
def implies (a b : BDD) : BDD := or (not a) b

/-- `ite` (`src/bdd.rs:269-274`). -/
def ite (a b c : BDD) : BDD := and (implies a b) (implies (not a) c)

/-- `eq` (`src/bdd.rs:277-282`). -/
def eq (a b : BDD) : BDD := and (implies a b) (implies b a)

/-- `xor` (`src/bdd.rs:285-290`). -/
def xor (a b : BDD) : BDD := or (and (not a) b) (and a (not b))

/-- `nor` (`src/bdd.rs:293-295`). -/
def nor (a b : BDD) : BDD := and (not a) (not b)

/-- `nand` (`src/bdd.rs:298-300`). -/
def nand (a b : BDD) : BDD := not (and a b)

/-- `cmp_count` (`src/bdd.rs:307-325`).  The bound is an `Int`; `Thm/C05` shows every bound
passed down stays within `[n - len, n]`, which is the property's own no-overflow side
condition on `i64`. -/
def cmpCount (cmp : Int → Bool) : List BDD → Int → BDD
  | [], n => mkConst (cmp n)
  | b :: bs, n => ite b (cmpCount cmp bs (n - 1)) (cmpCount cmp bs n)

/-- `aln` (`src/bdd.rs:328-330`). -/
def aln (bs : List BDD) (n : Int) : BDD := cmpCount (fun n => decide (n ≤ 0)) bs n
/-- `amn` (`src/bdd.rs:333-335`). -/
def amn (bs : List BDD) (n : Int) : BDD := cmpCount (fun n => decide (n ≥ 0)) bs n
/-- `exn` (`src/bdd.rs:338-340`). -/
def exn (bs : List BDD) (n : Int) : BDD := cmpCount (fun n => decide (n = 0)) bs n

/-- `cmp_count_compare` (`src/bdd.rs:359-378`). -/
def cmpCountCompare (cmp : List BDD → Int → BDD) : List BDD → List BDD → Int → BDD
  | [], b, n => cmp b n
  | a :: as, b, n =>
    ite a (cmpCountCompare cmp as b (n + 1)) (cmpCountCompare cmp as b n)

/-- `count_leq` (`src/bdd.rs:342-344`, via `count_leq_recursive`). -/
def countLeq (a b : List BDD) : BDD := cmpCountCompare aln a b 0
/-- `count_lt` (`src/bdd.rs:346-348`). -/
def countLt (a b : List BDD) : BDD := cmpCountCompare aln a b 1
/-- `count_gt` (`src/bdd.rs:380-382`, via `count_geq_recursive`). -/
def countGt (a b : List BDD) : BDD := cmpCountCompare amn a b (-1)
/-- `count_geq` (`src/bdd.rs:384-386`). -/
def countGeq (a b : List BDD) : BDD := cmpCountCompare amn a b 0
/-- `count_eq` (`src/bdd.rs:388-390`). -/
def countEq (a b : List BDD) : BDD := and (countLeq a b) (countGeq a b)

/-- `exists_impl` (`src/bdd.rs:404-414`). -/
def existsImpl (s : Nat) : BDD → BDD
  | F => F
  | T => T
  | node t v f => if v = s then or t f else mk (existsImpl s t) v (existsImpl s f)

/-- `exists` (`src/bdd.rs:392-401`). -/
def exists_ : List Nat → BDD → BDD
  | [], b => b
  | s :: ss, b => existsImpl s (exists_ ss b)

/-- `all` (`src/bdd.rs:417-419`). -/
def all (ss : List Nat) (b : BDD) : BDD := not (exists_ ss (not b))

/-- `fp` (`src/bdd.rs:422-435`) with a step budget: `none` = budget exhausted. -/
def fpIter (t : BDD → BDD) : Nat → BDD → Option BDD
  | 0, _ => none
  | fuel + 1, s =>
    let snew := t s
    if snew = s then some s else fpIter t fuel snew

/-- `model` (`src/bdd.rs:437-452`). -/
def model : BDD → BDD
  | node t v f =>
    let lhs := model t
    let rhs := model f
    if lhs ≠ mkConst false then and lhs (var v)
    else if rhs ≠ mkConst false then and (not (var v)) rhs
    else mkConst false
  | a => a

/-- `infer` (`src/bdd.rs:457-464`). -/
def infer (a : BDD) (b : Nat) : Bool × Bool :=
  match implies a (var b) with
  | node _ _ _ => (false, false)
  | T => (true, true)
  | F => (true, false)

/-- `TruthTableEntry` (`src/truth_table.rs`). -/
inductive Filter where
  | true_ | false_ | any
deriving DecidableEq, Repr, Inhabited

def Filter.isTrue : Filter → Bool
  | .true_ => true
  | _ => false

def isTrue (b : BDD) : Bool := decide (b = T)

/-- The recursion of `retain_choice_bottom_up` for a filter that is not `Any`
(`src/bdd.rs:480-508`); `ft` is `filter.is_true()`. -/
def retainAux (ft : Bool) : BDD → BDD
  | node l s r =>
    let left := retainAux ft l
    let right := retainAux ft r
    if left.isConst && right.isChoice then
      if left.isTrue != ft then right else mk left s right
    else if right.isConst && left.isChoice then
      if right.isTrue != ft then left else mk left s right
    else mk left s right
  | src => src

/-- `retain_choice_bottom_up` (`src/bdd.rs:474-511`). -/
def retain (src : BDD) (flt : Filter) : BDD :=
  match flt with
  | .any => src
  | _ => retainAux flt.isTrue src

end BDD
end Rsbdd
