/-
Model of `BDDSet` (`src/set.rs`): each set object is one diagram over the bit variables
`0 … bits-1`; sets share one environment (invisible here, `Thm/C13`).  An operation names
its operand objects by index, so passing the same object twice is expressible.
Import-free.
-/
import Rsbdd.Model.Bdd

namespace Rsbdd
namespace SetModel
open BDD

/-- `BDDCategorizable for usize` (`src/set.rs:17-21`): `(self >> c) & 1 == 0`, i.e. bit `c` is clear -/
def categorize (e c : Nat) : Bool := !(e.testBit c)

/-- the cube of one element (`insert`, `src/set.rs:63-73`): a positive literal where the bit is
clear, a negative one where it is set -/
def item (bits e : Nat) : BDD :=
  (List.range bits).foldl (fun acc i => BDD.and acc (if categorize e i then BDD.var i else BDD.not (BDD.var i)))
    (BDD.mkConst true)

inductive SetOp where
  | insert (i e : Nat)
  | union (i j : Nat)
  | intersect (i j : Nat)
  | complement (i j : Nat)    -- set difference: self \ other
  | empty (i : Nat)
  | universe (i : Nat)
  | contains (i e : Nat)
  | newSet                    -- `with_env`: a new empty set object in the shared environment
  | fromElement (e : Nat)     -- `from_element`: a new object holding `{e}`
  | clone (i : Nat)           -- `Clone` / `from_bdd` of object `i`'s diagram: a new, independent object
  | equal (i j : Nat)         -- `PartialEq` between two objects of one environment and width
deriving Repr, DecidableEq

structure State where
  bits : Nat
  sets : List BDD
deriving Repr

/-- one operation; the second component is the answer of `contains`.  `none` = an index names
no set object. -/
def step (st : State) : SetOp → Option (State × Option Bool)
  | .insert i e => (st.sets[i]?).map (fun s => ({ st with sets := st.sets.set i (BDD.or s (item st.bits e)) }, none))
  | .union i j => do
    let a ← st.sets[i]?; let b ← st.sets[j]?
    pure ({ st with sets := st.sets.set i (BDD.or a b) }, none)
  | .intersect i j => do
    let a ← st.sets[i]?; let b ← st.sets[j]?
    pure ({ st with sets := st.sets.set i (BDD.and a b) }, none)
  | .complement i j => do
    let a ← st.sets[i]?; let b ← st.sets[j]?
    pure ({ st with sets := st.sets.set i (BDD.and a (BDD.not b)) }, none)
  | .empty i => (st.sets[i]?).map (fun _ => ({ st with sets := st.sets.set i (BDD.mkConst false) }, none))
  | .universe i => (st.sets[i]?).map (fun _ => ({ st with sets := st.sets.set i (BDD.mkConst true) }, none))
  | .contains i e => (st.sets[i]?).map (fun s =>
      -- the query builds the singleton and compares `self ∩ {e}` with it; `self` is not assigned
      (st, some (decide (BDD.and s (item st.bits e) = item st.bits e))))
  | .newSet => some ({ st with sets := st.sets ++ [BDD.mkConst false] }, none)
  | .fromElement e => some ({ st with sets := st.sets ++ [BDD.or (BDD.mkConst false) (item st.bits e)] }, none)
  | .clone i => (st.sets[i]?).map (fun s => ({ st with sets := st.sets ++ [s] }, none))
  | .equal i j => do
    let a ← st.sets[i]?; let b ← st.sets[j]?
    -- derived `PartialEq`: same environment and width by construction here, so the diagrams decide
    pure (st, some (decide (a = b)))

end SetModel
end Rsbdd
