/-
Byte model of what the `rsbdd` tool writes to standard output (`src/bin/rsbdd.rs:153-205`,
`print_header` 241-256, `print_sized_line` 218-238, `print_true_vars_recursive` 343-353,
`TruthTableEntry as Display` `src/truth_table.rs:54-62`), and the reader that turns such text back
into the `Cli.Output` it was printed from.  Text is a list of characters (Rust's `{:width$}` pads to a
number of characters; the width itself is computed from the name's length in bytes).  Import-free
apart from the model.
-/
import Rsbdd.Model.Cli

namespace Rsbdd
namespace Cli
namespace Text

/-- `{:w$}` on a string: left-aligned, padded with spaces to `w` characters, never truncated -/
def padRight (s : List Char) (w : Nat) : List Char := s ++ List.replicate (w - s.length) ' '

/-- `max(5, v.len())` — `len` is the length in bytes (`src/bin/rsbdd.rs:177`) -/
def width (name : String) : Nat := max 5 name.utf8ByteSize

def cellText : Cell → List Char
  | .t => ['T', 'r', 'u', 'e']
  | .f => ['F', 'a', 'l', 's', 'e']
  | .any => ['A', 'n', 'y']

def boolText : Bool → List Char
  | true => ['T', 'r', 'u', 'e']
  | false => ['F', 'a', 'l', 's', 'e']

/-- first line of `print_header`: `|` then ` {name:1+w}|` per label -/
def headerLine (labels : List String) : List Char :=
  '|' :: labels.flatMap (fun n => ' ' :: padRight n.toList (1 + width n) ++ ['|']) ++ ['\n']

/-- second line of `print_header`: `|` and `w+2` dashes per label, then `|` -/
def sepLine (labels : List String) : List Char :=
  labels.flatMap (fun n => '|' :: List.replicate (width n + 2) '-') ++ ['|', '\n']

/-- the cells of one row against the widths of the labels (`print_sized_line`'s loop) -/
def cellsText : List Cell → List Nat → List Char
  | [], _ => []
  | c :: cs, ws => ' ' :: padRight (cellText c) (ws.headD 0) ++ [' ', '|'] ++ cellsText cs ws.tail

/-- `print_sized_line`: `|`, ` {cell:w} |` per column, ` {result:w*} |` -/
def rowLine (widths : List Nat) (r : Row) : List Char :=
  '|' :: cellsText r.cells widths ++
    (' ' :: padRight (boolText r.result) ((widths.drop r.cells.length).headD 0) ++ [' ', '|', '\n'])

/-- `vars_str.join(", ")` -/
def joinCommaSp : List String → List Char
  | [] => []
  | [a] => a.toList
  | a :: b :: rest => a.toList ++ [',', ' '] ++ joinCommaSp (b :: rest)

/-- one `-v` line -/
def vLine (names : List String) : List Char := joinCommaSp names ++ [';', '\n']

/-- everything written to standard output, in the order `main` writes it: the `-r` names, the table,
the `-v` lines -/
def render (o : Output) : List Char :=
  o.ordering.flatMap (fun n => n.toList ++ ['\n']) ++
  (match o.header with
   | none => []
   | some labels =>
     headerLine labels ++ sepLine labels ++ o.rows.flatMap (rowLine (labels.map width))) ++
  o.vlines.flatMap vLine

/-! ### the reader -/

/-- split at every occurrence of `d` (the segment after the last one included) -/
def splitAcc (d : Char) : List Char → List Char → List (List Char)
  | [], acc => [acc.reverse]
  | c :: cs, acc => if c = d then acc.reverse :: splitAcc d cs [] else splitAcc d cs (c :: acc)

/-- a cell without its padding: leading blanks dropped, then the run up to the next blank; anything
but blanks after that is refused -/
def trimCell (s : List Char) : Option (List Char) :=
  let s1 := s.dropWhile (· == ' ')
  let body := s1.takeWhile (· != ' ')
  let rest := s1.dropWhile (· != ' ')
  if rest.all (· == ' ') then some body else none

def allSome {α : Type} : List (Option α) → Option (List α)
  | [] => some []
  | none :: _ => none
  | some a :: rest => (allSome rest).map (a :: ·)

/-- the cells of a table line (the text after its first `|`): it must end in `|` -/
def cellsOfLine (rest : List Char) : Option (List (List Char)) :=
  let segs := splitAcc '|' rest []
  if segs.getLast? = some [] then allSome (segs.dropLast.map trimCell) else none

def cellOfText (s : List Char) : Option Cell :=
  if s = ['T', 'r', 'u', 'e'] then some .t
  else if s = ['F', 'a', 'l', 's', 'e'] then some .f
  else if s = ['A', 'n', 'y'] then some .any
  else none

def boolOfText (s : List Char) : Option Bool :=
  if s = ['T', 'r', 'u', 'e'] then some true
  else if s = ['F', 'a', 'l', 's', 'e'] then some false
  else none

def rowOfCells (cells : List (List Char)) : Option Row :=
  match cells.getLast? with
  | none => none
  | some last =>
    match allSome (cells.dropLast.map cellOfText), boolOfText last with
    | some cs, some b => some ⟨cs, b⟩
    | _, _ => none

/-- the names on a `-v` line (without its `;`): separated by `, ` -/
def namesOfV (body : List Char) : Option (List String) :=
  if body = [] then some [] else
  match splitAcc ',' body [] with
  | [] => none
  | first :: others =>
    (allSome (others.map (fun s => match s with
      | ' ' :: t => some (String.ofList t)
      | _ => none))).map (String.ofList first :: ·)

inductive Line where
  | table (cells : List (List Char))
  | v (names : List String)
  | r (name : String)

def classify (l : List Char) : Option Line :=
  match l with
  | '|' :: rest => (cellsOfLine rest).map .table
  | _ =>
    if l.getLast? = some ';' then (namesOfV l.dropLast).map .v
    else if l = [] then none
    else some (.r (String.ofList l))

def isDashes (s : List Char) : Bool := !s.isEmpty && s.all (· == '-')

/-- read standard output back: lines that start with `|` are the table (label line, rule, rows), lines
that end in `;` are `-v` lines, the others `-r` names.  `none`: not of that form. -/
def readStdout (text : List Char) : Option Output :=
  let segs := splitAcc '\n' text []
  if segs.getLast? ≠ some [] then none else
  match allSome (segs.dropLast.map classify) with
  | none => none
  | some ls =>
    let rl := ls.filterMap (fun l => match l with | .r n => some n | _ => none)
    let vl := ls.filterMap (fun l => match l with | .v n => some n | _ => none)
    let tl := ls.filterMap (fun l => match l with | .table c => some c | _ => none)
    match tl with
    | [] => some { ordering := rl, header := none, rows := [], vlines := vl }
    | [_] => none
    | hd :: rule :: rows =>
      if rule.all isDashes && rule.length = hd.length then
        (allSome (rows.map rowOfCells)).map (fun rs =>
          { ordering := rl, header := some (hd.map String.ofList), rows := rs, vlines := vl })
      else none

end Text
end Cli
end Rsbdd
