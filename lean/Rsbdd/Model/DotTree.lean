/-
The parse-tree export as text (`src/parser_io.rs`): node `i` of `Dot.parseTree` is `n_<i>`; its label is what
`node_label` formats (`{:?}` of the operator enums, the names of bound variables, `Var name`, `Ref name`, …);
edge labels are `L`, `R`, the empty string, `{j}`, `L{j}`, `R{j}`, `If`, `Then`, `Else`.  Rendered by
`Model/DotText.lean`.  Also the decoder of node and edge labels.
-/
import Rsbdd.Model.Dot
import Rsbdd.Model.DotText
import Rsbdd.Model.Gen.QueensText

namespace Rsbdd
namespace DotText
open Dot
open Gen.Queens (natStr)
open Cli.Text (joinCommaSp namesOfV)

def binText : BinOp → List Char
  | .and => ['A', 'n', 'd'] | .or => ['O', 'r'] | .xor => ['X', 'o', 'r'] | .nor => ['N', 'o', 'r']
  | .nand => ['N', 'a', 'n', 'd'] | .implies => ['I', 'm', 'p', 'l', 'i', 'e', 's'] | .impliesInv => ['I', 'm', 'p', 'l', 'i', 'e', 's', 'I', 'n', 'v'] | .iff => ['I', 'f', 'f']

def cntText : CntOp → List Char
  | .atMost => ['A', 't', 'M', 'o', 's', 't'] | .lessThan => ['L', 'e', 's', 's', 'T', 'h', 'a', 'n'] | .atLeast => ['A', 't', 'L', 'e', 'a', 's', 't']
  | .moreThan => ['M', 'o', 'r', 'e', 'T', 'h', 'a', 'n'] | .exactly => ['E', 'x', 'a', 'c', 't', 'l', 'y']

def quantText : Quant → List Char
  | .exists_ => ['E', 'x', 'i', 's', 't', 's'] | .forall_ => ['F', 'o', 'r', 'a', 'l', 'l']

/-- what a node's label says, with variables by name -/
inductive HeadS where
  | false_ | true_ | var (n : String) | not | quant (q : Quant) (ns : List String)
  | cntConst (op : CntOp) (n : Nat) | cntVar (op : CntOp) | fix (n : String) (gfp : Bool)
  | ite | bin (op : BinOp) | subtree | ref (n : String)
deriving DecidableEq, Repr

def headS (nameOf : Nat → String) : Formula → HeadS
  | .false_ => .false_
  | .true_ => .true_
  | .var v => .var (nameOf v)
  | .not _ => .not
  | .quant q vs _ => .quant q (vs.map nameOf)
  | .cntConst op _ n => .cntConst op n
  | .cntVar op _ _ => .cntVar op
  | .fix v i _ => .fix (nameOf v) i
  | .ite _ _ _ => .ite
  | .bin op _ _ => .bin op
  | .subtree _ => .subtree
  | .ref n => .ref n

/-- `node_label` (`src/parser_io.rs:105-134`) -/
def headText : HeadS → List Char
  | .bin op => binText op
  | .quant q ns => quantText q ++ [' ', '['] ++ joinCommaSp ns ++ [']']
  | .not => ['N', 'o', 't']
  | .cntConst op n => cntText op ++ [' '] ++ natStr n
  | .cntVar op => cntText op
  | .fix n true => ['G', 'F', 'P', ' '] ++ n.toList
  | .fix n false => ['L', 'F', 'P', ' '] ++ n.toList
  | .ite => ['I', 't', 'e']
  | .false_ => ['F', 'a', 'l', 's', 'e']
  | .true_ => ['T', 'r', 'u', 'e']
  | .var n => ['V', 'a', 'r', ' '] ++ n.toList
  | .subtree => ['B', 'D', 'D']
  | .ref n => ['R', 'e', 'f', ' '] ++ n.toList

/-- `edge_label`: the strings pushed by `GraphWalk::edges` (`src/parser_io.rs:138-242`) -/
def elabelText : ELabel → List Char
  | .l => ['L'] | .r => ['R'] | .plain => []
  | .idx j => ['{'] ++ natStr j ++ ['}']
  | .lidx j => ['L', '{'] ++ natStr j ++ ['}']
  | .ridx j => ['R', '{'] ++ natStr j ++ ['}']
  | .if_ => ['I', 'f'] | .then_ => ['T', 'h', 'e', 'n'] | .else_ => ['E', 'l', 's', 'e']

def treeNodeId (i : Nat) : List Char := ['n', '_'] ++ natStr i

def treeTextGraph (nameOf : Nat → String) (g : TreeGraph) : TextGraph :=
  { name := ['p', 'a', 'r', 's', 'e', '_', 't', 'r', 'e', 'e']
    nodes := g.nodes.zipIdx.map (fun (f, i) => (treeNodeId i, headText (headS nameOf f)))
    edges := g.edges.map (fun e => (treeNodeId e.1, treeNodeId e.2.2, elabelText e.2.1)) }

/-- the text `rsbdd -p` writes for a syntax tree -/
def treeDotText (nameOf : Nat → String) (g : TreeGraph) : List Char := render (treeTextGraph nameOf g)

/-! ### decoding the labels -/

/-- a decimal number (`{}` of a `usize`) -/
def readDec (s : List Char) : Option Nat :=
  if s ≠ [] ∧ s.all Char.isDigit then some (Nat.ofDigitChars 10 s 0) else none

def binOfText (s : List Char) : Option BinOp :=
  [BinOp.and, .or, .xor, .nor, .nand, .implies, .impliesInv, .iff].find? (fun o => binText o == s)

def cntOfText (s : List Char) : Option CntOp :=
  [CntOp.atMost, .lessThan, .atLeast, .moreThan, .exactly].find? (fun o => cntText o == s)

def readHead (s : List Char) : Option HeadS :=
  if s = ['N', 'o', 't'] then some .not
  else if s = ['I', 't', 'e'] then some .ite
  else if s = ['F', 'a', 'l', 's', 'e'] then some .false_
  else if s = ['T', 'r', 'u', 'e'] then some .true_
  else if s = ['B', 'D', 'D'] then some .subtree
  else match stripPrefix ['V', 'a', 'r', ' '] s with
  | some n => some (.var (String.ofList n))
  | none => match stripPrefix ['R', 'e', 'f', ' '] s with
  | some n => some (.ref (String.ofList n))
  | none => match stripPrefix ['G', 'F', 'P', ' '] s with
  | some n => some (.fix (String.ofList n) true)
  | none => match stripPrefix ['L', 'F', 'P', ' '] s with
  | some n => some (.fix (String.ofList n) false)
  | none => match stripPrefix ['E', 'x', 'i', 's', 't', 's', ' ', '['] s with
  | some rest => ((stripSuffix [']'] rest).bind namesOfV).map (.quant .exists_)
  | none => match stripPrefix ['F', 'o', 'r', 'a', 'l', 'l', ' ', '['] s with
  | some rest => ((stripSuffix [']'] rest).bind namesOfV).map (.quant .forall_)
  | none => match binOfText s with
  | some op => some (.bin op)
  | none => match cntOfText s with
  | some op => some (.cntVar op)
  | none =>
    -- `<operator> <number>`
    let w := s.takeWhile (· != ' ')
    match cntOfText w, readDec (s.drop (w.length + 1)) with
    | some op, some n => if (s.drop w.length).head? = some ' ' then some (.cntConst op n) else none
    | _, _ => none

def readELabel (s : List Char) : Option ELabel :=
  if s = ['L'] then some .l else if s = ['R'] then some .r else if s = [] then some .plain
  else if s = ['I', 'f'] then some .if_ else if s = ['T', 'h', 'e', 'n'] then some .then_ else if s = ['E', 'l', 's', 'e'] then some .else_
  else match s with
  | '{' :: rest => ((stripSuffix ['}'] rest).bind readDec).map .idx
  | 'L' :: '{' :: rest => ((stripSuffix ['}'] rest).bind readDec).map .lidx
  | 'R' :: '{' :: rest => ((stripSuffix ['}'] rest).bind readDec).map .ridx
  | _ => none

end DotText
end Rsbdd
