/-
Byte model of the Graphviz text the `dot` crate (0.1.4, `render_opts`, `LabelText::LabelStr`,
`char::escape_default`) writes for the two exports of rsbdd — one statement per line,
`    id[label="escaped"];` for a node and `    a -> b[label="escaped"];` for an edge, between
`digraph name {` and `}` — and the reader that turns such text back into the labelled graph.
Text is a list of characters.  Imports only the line splitter of Model/CliText.
-/
import Rsbdd.Model.CliText
namespace Rsbdd
namespace DotText

/-- the labelled graph handed to the `dot` crate: a name, nodes (id, label), edges (source, target, label) -/
structure TextGraph where
  name : List Char
  nodes : List (List Char × List Char)
  edges : List (List Char × List Char × List Char)
deriving DecidableEq, Repr

/-! ### `char::escape_default` -/

def hexDigit (d : Nat) : Char := if d < 10 then Char.ofNat (48 + d) else Char.ofNat (87 + d)

/-- lower-case hexadecimal without leading zeros (`{:x}`), most significant digit first -/
def hexDigits : Nat → Nat → List Char
  | 0, _ => []
  | fuel + 1, n => if n < 16 then [hexDigit n] else hexDigits fuel (n / 16) ++ [hexDigit (n % 16)]

def toHex (n : Nat) : List Char := hexDigits (n + 1) n

/-- `char::escape_default`: tab, CR, LF, quotes and backslash by name; printable ASCII as is; anything else
as `\u{hex}` -/
def escapeChar (c : Char) : List Char :=
  if c = '\t' then ['\\', 't']
  else if c = '\r' then ['\\', 'r']
  else if c = '\n' then ['\\', 'n']
  else if c = '\'' then ['\\', '\'']
  else if c = '"' then ['\\', '"']
  else if c = '\\' then ['\\', '\\']
  else if 0x20 ≤ c.toNat ∧ c.toNat ≤ 0x7e then [c]
  else ['\\', 'u', '{'] ++ toHex c.toNat ++ ['}']

def escape (s : List Char) : List Char := s.flatMap escapeChar

/-! ### the printer (`dot::render_opts` with no options, no styles, colours, shapes or arrows) -/

def labelAttr (label : List Char) : List Char :=
  ['[', 'l', 'a', 'b', 'e', 'l', '=', '"'] ++ escape label ++ ['"', ']', ';', '\n']

def indent : List Char := [' ', ' ', ' ', ' ']
def arrow : List Char := [' ', '-', '>', ' ']

def nodeLine (n : List Char × List Char) : List Char := indent ++ n.1 ++ labelAttr n.2
def edgeLine (e : List Char × List Char × List Char) : List Char :=
  indent ++ e.1 ++ arrow ++ e.2.1 ++ labelAttr e.2.2

def render (g : TextGraph) : List Char :=
  ['d', 'i', 'g', 'r', 'a', 'p', 'h', ' '] ++ g.name ++ [' ', '{', '\n'] ++
  g.nodes.flatMap nodeLine ++ g.edges.flatMap edgeLine ++ ['}', '\n']

/-! ### the reader -/

def hexVal (c : Char) : Option Nat :=
  if '0' ≤ c ∧ c ≤ '9' then some (c.toNat - 48)
  else if 'a' ≤ c ∧ c ≤ 'f' then some (c.toNat - 87)
  else none

/-- the hexadecimal number up to the closing brace, and what follows the brace -/
def readHex : List Char → Nat → Option (Nat × List Char)
  | [], _ => none
  | c :: cs, acc =>
    if c = '}' then some (acc, cs) else
    match hexVal c with
    | some d => readHex cs (acc * 16 + d)
    | none => none

theorem readHex_length : ∀ (cs : List Char) (acc n : Nat) (rest : List Char),
    readHex cs acc = some (n, rest) → rest.length < cs.length
  | [], _, _, _, h => by simp [readHex] at h
  | c :: cs, acc, n, rest, h => by
    unfold readHex at h
    split at h
    · cases h; simp
    · split at h
      · have := readHex_length cs _ n rest h
        simp; omega
      · cases h

/-- the inverse of `escape`; `none`: not an escaped text -/
def unescape : List Char → Option (List Char)
  | [] => some []
  | c :: rest =>
    if c = '\\' then
      match rest with
      | [] => none
      | e :: rest2 =>
        if e = 't' then (unescape rest2).map ('\t' :: ·)
        else if e = 'r' then (unescape rest2).map ('\r' :: ·)
        else if e = 'n' then (unescape rest2).map ('\n' :: ·)
        else if e = '\'' then (unescape rest2).map ('\'' :: ·)
        else if e = '"' then (unescape rest2).map ('"' :: ·)
        else if e = '\\' then (unescape rest2).map ('\\' :: ·)
        else if e = 'u' then
          match rest2 with
          | b :: rest3 =>
            if b = '{' then
              match h : readHex rest3 0 with
              | some (n, rest') =>
                have : rest'.length < rest3.length := readHex_length rest3 0 n rest' h
                (unescape rest').map (Char.ofNat n :: ·)
              | none => none
            else none
          | [] => none
        else none
    else (unescape rest).map (c :: ·)
termination_by s => s.length
decreasing_by all_goals simp_wf <;> omega

open Cli.Text (splitAcc allSome)

def stripPrefix (p : List Char) (s : List Char) : Option (List Char) :=
  if p.isPrefixOf s then some (s.drop p.length) else none

def stripSuffix (p : List Char) (s : List Char) : Option (List Char) :=
  (stripPrefix p.reverse s.reverse).map List.reverse

/-- the first occurrence of `[`: what precedes it and what follows it -/
def splitBracket : List Char → List Char → Option (List Char × List Char)
  | [], _ => none
  | c :: cs, acc => if c = '[' then some (acc.reverse, cs) else splitBracket cs (c :: acc)

/-- `a -> b` : the two ids; no arrow: `none` -/
def splitArrow : List Char → List Char → Option (List Char × List Char)
  | [], _ => none
  | c :: cs, acc =>
    match stripPrefix arrow (c :: cs) with
    | some rest => some (acc.reverse, rest)
    | none => splitArrow cs (c :: acc)

inductive Stmt where
  | node (id label : List Char)
  | edge (src dst label : List Char)

def readStmt (line : List Char) : Option Stmt :=
  match stripPrefix indent line with
  | none => none
  | some body =>
    match splitBracket body [] with
    | none => none
    | some (head, attr) =>
      match stripPrefix ['l', 'a', 'b', 'e', 'l', '=', '"'] attr with
      | none => none
      | some q =>
        match stripSuffix ['"', ']', ';'] q with
        | none => none
        | some esc =>
          match unescape esc with
          | none => none
          | some label =>
            match splitArrow head [] with
            | some (a, b) => some (.edge a b label)
            | none => some (.node head label)

/-- read a DOT text of the form the crate writes.  `none`: not of that form. -/
def readDot (text : List Char) : Option TextGraph :=
  match splitAcc '\n' text [] with
  | first :: rest =>
    match stripPrefix ['d', 'i', 'g', 'r', 'a', 'p', 'h', ' '] first with
    | none => none
    | some t =>
      match stripSuffix [' ', '{'] t with
      | none => none
      | some name =>
        -- the last two segments: the closing brace and the empty text after its line feed
        if rest.length < 2 then none else
        if rest.drop (rest.length - 2) ≠ [['}'], []] then none else
        match allSome ((rest.take (rest.length - 2)).map readStmt) with
        | none => none
        | some stmts =>
          some { name,
                 nodes := stmts.filterMap (fun s => match s with | .node i l => some (i, l) | _ => none),
                 edges := stmts.filterMap (fun s => match s with | .edge a b l => some (a, b, l) | _ => none) }
  | [] => none

end DotText
end Rsbdd
