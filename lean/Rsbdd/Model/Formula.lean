/-
Model of the formula layer of `src/parser.rs`: the syntax tree `SymbolicBDD`
(`:58-100`), `replace_var` (`:140-215`), `var_is_free` (`:282-316`) and the
substitution-based evaluator `eval_recursive` (`:318-396`).

Variables are their ids (`NamedSymbol` compares by id).  `Reference` is kept as a
constructor: no definition is ever made on any path in scope (`define` is not called by
the tool), so a reference evaluates to `false` and counts as containing every variable
free, exactly as the Rust `map_or_else` defaults do.
Import-free.
-/
import Rsbdd.Model.Bdd

namespace Rsbdd

inductive BinOp where
  | and | or | xor | nor | nand | implies | impliesInv | iff
deriving DecidableEq, Repr, Inhabited

inductive CntOp where
  | atMost | lessThan | atLeast | moreThan | exactly
deriving DecidableEq, Repr, Inhabited

inductive Quant where
  | exists_ | forall_
deriving DecidableEq, Repr, Inhabited

/-- `SymbolicBDD` (`src/parser.rs:85-100`). -/
inductive Formula where
  | false_ : Formula
  | true_ : Formula
  | var (v : Nat) : Formula
  | not (f : Formula) : Formula
  | quant (q : Quant) (vs : List Nat) (f : Formula) : Formula
  | cntConst (op : CntOp) (fs : List Formula) (n : Nat) : Formula
  | cntVar (op : CntOp) (l r : List Formula) : Formula
  | fix (v : Nat) (init : Bool) (f : Formula) : Formula
  | ite (c t e : Formula) : Formula
  | bin (op : BinOp) (l r : Formula) : Formula
  | subtree (b : BDD) : Formula
  | ref (name : String) : Formula
deriving Repr, Inhabited

namespace Formula

mutual
/-- `replace_var` (`src/parser.rs:140-215`). -/
def replaceVar (x : Nat) (s : Formula) : Formula → Formula
  | .var v => if v = x then s else .var v
  | .quant q vs f => if vs.contains x then .quant q vs f else .quant q vs (replaceVar x s f)
  | .fix v i f => if v = x then .fix v i f else .fix v i (replaceVar x s f)
  | .ite a b c => .ite (replaceVar x s a) (replaceVar x s b) (replaceVar x s c)
  | .not f => .not (replaceVar x s f)
  | .bin op l r => .bin op (replaceVar x s l) (replaceVar x s r)
  | .cntConst op fs n => .cntConst op (replaceVarL x s fs) n
  | .cntVar op l r => .cntVar op (replaceVarL x s l) (replaceVarL x s r)
  | .ref name => .ref name
  | .true_ => .true_
  | .false_ => .false_
  | .subtree b => .subtree b
def replaceVarL (x : Nat) (s : Formula) : List Formula → List Formula
  | [] => []
  | f :: fs => replaceVar x s f :: replaceVarL x s fs
end

mutual
/-- `var_is_free` (`src/parser.rs:282-316`).  The Rust arm for `Subtree` is
`unimplemented!()`; the parser never produces that node, and `varIsFree` is only applied
to parser output (`new_with_env`), see `Thm/C12`.  It is mapped to `false` here. -/
def varIsFree (x : Nat) : Formula → Bool
  | .var v => v == x
  | .quant _ vs f => if !vs.contains x then varIsFree x f else false
  | .ite a b c => varIsFree x a || varIsFree x b || varIsFree x c
  | .not f => varIsFree x f
  | .bin _ a b => varIsFree x a || varIsFree x b
  | .cntConst _ fs _ => varIsFreeL x fs
  | .cntVar _ l r => varIsFreeL x l || varIsFreeL x r
  | .fix v _ f => v != x && varIsFree x f
  | .subtree _ => false
  | .true_ => false
  | .false_ => false
  | .ref _ => true
def varIsFreeL (x : Nat) : List Formula → Bool
  | [] => false
  | f :: fs => varIsFree x f || varIsFreeL x fs
end

/-- the loop of `fp` (`src/bdd.rs:422-435`) with a partial transformer and an iteration budget -/
def fpLoop (t : BDD → Option BDD) : Nat → BDD → Option BDD
  | 0, _ => none
  | k + 1, s =>
    match t s with
    | none => none
    | some snew => if snew = s then some s else fpLoop t k snew

def binApply : BinOp → BDD → BDD → BDD
  | .and, l, r => BDD.and l r
  | .or, l, r => BDD.or l r
  | .xor, l, r => BDD.xor l r
  | .nor, l, r => BDD.nor l r
  | .nand, l, r => BDD.nand l r
  | .implies, l, r => BDD.implies l r
  | .impliesInv, l, r => BDD.implies r l
  | .iff, l, r => BDD.eq l r

/-- the `CountableConst` arm (`src/parser.rs:330-341`).  The `usize` constant is clamped to
`len + 1` before the conversion to `i64` (a count never exceeds the number of operands, so
the truth function is unchanged — `Thm/C05.cntConst_spec`); after the clamp neither the
conversion nor `n ± 1` can leave the `i64` range. -/
def cntConstApply (op : CntOp) (bs : List BDD) (n : Nat) : BDD :=
  let n : Int := (min n (bs.length + 1) : Nat)
  match op with
  | .atMost => BDD.amn bs n
  | .atLeast => BDD.aln bs n
  | .exactly => BDD.exn bs n
  | .lessThan => BDD.amn bs (n - 1)
  | .moreThan => BDD.aln bs (n + 1)

/-- the `CountableVariable` arm (`src/parser.rs:342-355`) -/
def cntVarApply (op : CntOp) (l r : List BDD) : BDD :=
  match op with
  | .atMost => BDD.countLeq l r
  | .atLeast => BDD.countGeq l r
  | .exactly => BDD.countEq l r
  | .lessThan => BDD.countLt l r
  | .moreThan => BDD.countGt l r

mutual
/-- `eval_recursive` (`src/parser.rs:318-396`).  `fuel` bounds the recursion depth
(substitution makes the recursion non-structural), `iters` bounds the number of rounds of
each fixed-point loop; `none` = a budget ran out (divergence). -/
def evalF (iters : Nat) : Nat → Formula → Option BDD
  | 0, _ => none
  | fuel + 1, f =>
    match f with
    | .false_ => some (BDD.mkConst false)
    | .true_ => some (BDD.mkConst true)
    | .var v => some (BDD.var v)
    | .not b => (evalF iters fuel b).map BDD.not
    | .quant .exists_ vs b => (evalF iters fuel b).map (BDD.exists_ vs)
    | .quant .forall_ vs b => (evalF iters fuel b).map (BDD.all vs)
    | .cntConst op bs n => (evalFL iters fuel bs).map (fun bs => cntConstApply op bs n)
    | .cntVar op l r =>
      match evalFL iters fuel l, evalFL iters fuel r with
      | some l, some r => some (cntVarApply op l r)
      | _, _ => none
    | .ite c t e =>
      match evalF iters fuel c, evalF iters fuel t, evalF iters fuel e with
      | some c, some t, some e => some (BDD.ite c t e)
      | _, _, _ => none
    | .bin op l r =>
      match evalF iters fuel l, evalF iters fuel r with
      | some l, some r => some (binApply op l r)
      | _, _ => none
    | .fix v init t =>
      fpLoop (fun x => evalF iters fuel (replaceVar v (.subtree x) t)) iters (BDD.mkConst init)
    | .subtree t => some t
    | .ref _ => some (BDD.mkConst false)
def evalFL (iters : Nat) : Nat → List Formula → Option (List BDD)
  | 0, _ => none
  | fuel + 1, fs =>
    match fs with
    | [] => some []
    | f :: fs =>
      match evalF iters fuel f, evalFL iters fuel fs with
      | some b, some bs => some (b :: bs)
      | _, _ => none
end

mutual
/-- nesting depth + list length: enough fuel for `evalF` on a formula without fixed points -/
def depth : Formula → Nat
  | .not f => depth f + 1
  | .quant _ _ f => depth f + 1
  | .cntConst _ fs _ => depthL fs + 1
  | .cntVar _ l r => max (depthL l) (depthL r) + 1
  | .fix _ _ f => depth f + 1
  | .ite a b c => max (depth a) (max (depth b) (depth c)) + 1
  | .bin _ l r => max (depth l) (depth r) + 1
  | _ => 1
def depthL : List Formula → Nat
  | [] => 1
  | f :: fs => max (depth f) (depthL fs) + 1
end

mutual
/-- `{name}` references with definitions (`ParsedFormula::define`, `ReferenceContents::Syntax`):
`eval_recursive`, `replace_var` and `var_is_free` all continue into the definition's syntax tree,
so a defined reference behaves as its definition written in place (definitions are looked up
when the reference is reached, so a redefinition is seen by the next evaluation).  `fuel` bounds
the unfolding (a cyclic definition makes the Rust code recurse forever). -/
def inlineRefs (defs : List (String × Formula)) : Nat → Formula → Formula
  | 0, f => f
  | fuel + 1, .ref n =>
    match defs.lookup n with
    | some d => inlineRefs defs fuel d
    | none => .ref n
  | fuel + 1, .not f => .not (inlineRefs defs fuel f)
  | fuel + 1, .quant q vs f => .quant q vs (inlineRefs defs fuel f)
  | fuel + 1, .cntConst op fs n => .cntConst op (inlineRefsL defs fuel fs) n
  | fuel + 1, .cntVar op l r => .cntVar op (inlineRefsL defs fuel l) (inlineRefsL defs fuel r)
  | fuel + 1, .fix x i f => .fix x i (inlineRefs defs fuel f)
  | fuel + 1, .ite a b c => .ite (inlineRefs defs fuel a) (inlineRefs defs fuel b) (inlineRefs defs fuel c)
  | fuel + 1, .bin op l r => .bin op (inlineRefs defs fuel l) (inlineRefs defs fuel r)
  | _ + 1, f => f
def inlineRefsL (defs : List (String × Formula)) : Nat → List Formula → List Formula
  | 0, fs => fs
  | _ + 1, [] => []
  | fuel + 1, f :: fs => inlineRefs defs fuel f :: inlineRefsL defs fuel fs
end

/-- evaluation of a formula under definitions -/
def evalDefs (defs : List (String × Formula)) (unfold iters fuel : Nat) (f : Formula) : Option BDD :=
  evalF iters fuel (inlineRefs defs unfold f)

end Formula
end Rsbdd
