/-
Model of the tokenizer (`src/parser.rs:18-20, 703-809`): the one regular expression,
scanned leftmost-first, the symbol / keyword tables, variable numbering and the ordering
pre-load.

The regex crate's classes `\w` and `\d` are Unicode tables that core Lean does not have, so
every input character arrives with its class, computed by the regex crate itself in the
harness (`Cls`); on ASCII the class is also computed here and compared (`asciiCls`).
Import-free.
-/
namespace Rsbdd

/-- `digit`: `\d` (hence also `\w`); `word`: `\w` but not `\d`; `other`: neither -/
inductive Cls where
  | word | digit | other
deriving DecidableEq, Repr, Inhabited

structure Ch where
  c : Char
  cls : Cls
deriving DecidableEq, Repr, Inhabited

def asciiCls (c : Char) : Cls :=
  if c.isDigit then .digit
  else if c.isAlpha || c == '_' then .word
  else .other

/-- `[\w']` -/
def Ch.wordLike (x : Ch) : Bool := x.cls != .other || x.c == '\''

/-- `SymbolicBDDToken` (`src/parser.rs:22-56`) -/
inductive Token where
  | var (name : String) (id : Nat)
  | countable (n : Nat)
  | reference (name : String)
  | and | or | not | xor | nor | nand | implies | impliesInv | iff
  | if_ | then_ | else_ | exists_ | forall_
  | eq | geq | gt | lt
  | openParen | closeParen | openSquare | closeSquare | comma
  | false_ | true_ | lfp | gfp | hash | eof
deriving DecidableEq, Repr, Inhabited

/-- the `symbol` alternation of the regex, in its order (leftmost-first: the first literal
that matches at the position wins) -/
def symbolTable : List (String × Token) :=
  [("!", .not), ("&", .and), ("=>", .implies), ("-", .not), ("<=>", .iff), ("<=", .impliesInv),
   ("|", .or), ("^", .xor), ("#", .hash), ("*", .and), ("+", .or), (">=", .geq), ("=", .eq),
   (">", .gt), ("<", .lt), ("[", .openSquare), ("]", .closeSquare), (",", .comma),
   ("(", .openParen), (")", .closeParen)]

/-- the keyword `match` of `tokenize` (`src/parser.rs:754-771`) -/
def keywordTable : List (String × Token) :=
  [("false", .false_), ("true", .true_), ("not", .not), ("and", .and), ("or", .or), ("xor", .xor),
   ("nor", .nor), ("nand", .nand), ("implies", .implies), ("in", .implies), ("iff", .iff),
   ("eq", .iff), ("exists", .exists_), ("any", .exists_), ("forall", .forall_), ("all", .forall_),
   ("if", .if_), ("then", .then_), ("else", .else_), ("gfp", .gfp), ("nu", .gfp), ("lfp", .lfp),
   ("mu", .lfp)]

def stripPrefix (p : List Char) (cs : List Ch) : Option (List Ch) :=
  match p, cs with
  | [], cs => some cs
  | _ :: _, [] => none
  | a :: p', x :: cs' => if x.c == a then stripPrefix p' cs' else none

def matchSymbol (cs : List Ch) : Option (Token × List Ch) :=
  symbolTable.findSome? (fun (s, t) => (stripPrefix s.toList cs).map (fun rest => (t, rest)))

/-- one lexeme of the text -/
inductive Lexeme where
  | sym (t : Token)
  | num (digits : List Ch)
  | ref (name : String)
  | ident (name : String)
deriving Repr, Inhabited

def chars (cs : List Ch) : String := String.ofList (cs.map (·.c))

/-- the scanner: at each position the regex alternatives in order — symbol, `\d+`,
`\{[\w']+\}`, `[\w']+`, `"[^"]*"` — and, if none matches, skip one character (an unmatched
character only separates).  The `$` alternative is handled by `tokenize` (the token list
always ends with exactly one `Eof`). -/
def scan : Nat → List Ch → List Lexeme
  | 0, _ => []
  | _, [] => []
  | fuel + 1, x :: cs =>
    match matchSymbol (x :: cs) with
    | some (t, rest) => .sym t :: scan fuel rest
    | none =>
      if x.cls == .digit then
        let ds := (x :: cs).takeWhile (·.cls == .digit)
        .num ds :: scan fuel ((x :: cs).dropWhile (·.cls == .digit))
      else
        let refMatch : Option (List Ch × List Ch) :=
          if x.c == '{' then
            let w := cs.takeWhile Ch.wordLike
            match cs.dropWhile Ch.wordLike with
            | y :: rest => if !w.isEmpty && y.c == '}' then some (w, rest) else none
            | [] => none
          else none
        match refMatch with
        | some (w, rest) => .ref (chars w) :: scan fuel rest
        | none =>
          if x.wordLike then
            .ident (chars ((x :: cs).takeWhile Ch.wordLike)) :: scan fuel ((x :: cs).dropWhile Ch.wordLike)
          else
            let commentMatch : Option (List Ch) :=
              if x.c == '"' then
                match cs.dropWhile (fun y => y.c != '"') with
                | _ :: rest => some rest
                | [] => none
              else none
            match commentMatch with
            | some rest => scan fuel rest
            | none => scan fuel cs

/-- `usize::from_str` on a digit run: ASCII digits only, value below 2^64 -/
def parseNumber (ds : List Ch) : Option Nat :=
  if ds.all (fun d => d.c.isDigit) then
    let n := ds.foldl (fun acc d => acc * 10 + (d.c.toNat - '0'.toNat)) 0
    if n < 2 ^ 64 then some n else none
  else none

structure VarTable where
  map : List (String × Nat) := []
  counter : Nat := 0

def VarTable.lookup (t : VarTable) (name : String) : Option Nat :=
  (t.map.find? (fun p => p.1 == name)).map (·.2)

/-- the ordering pre-load (`src/parser.rs:713-720`): later entries for the same name win,
the counter ends above every listed id -/
def VarTable.preload (ordering : List (String × Nat)) : VarTable :=
  ordering.foldl (fun t (name, id) =>
    { map := (name, id) :: t.map.filter (fun p => p.1 != name),
      counter := if id ≥ t.counter then id + 1 else t.counter }) {}

/-- lexemes to tokens (`src/parser.rs:724-801`); `none` = the number does not fit (reported as
an `InvalidData` error) -/
def toTokens : List Lexeme → VarTable → Option (List Token)
  | [], _ => some []
  | .sym t :: ls, vt => (toTokens ls vt).map (t :: ·)
  | .ref n :: ls, vt => (toTokens ls vt).map (.reference n :: ·)
  | .num ds :: ls, vt =>
    match parseNumber ds with
    | none => none
    | some n => (toTokens ls vt).map (.countable n :: ·)
  | .ident name :: ls, vt =>
    match (keywordTable.find? (fun p => p.1 == name)).map (·.2) with
    | some t => (toTokens ls vt).map (t :: ·)
    | none =>
      match vt.lookup name with
      | some id => (toTokens ls vt).map (.var name id :: ·)
      | none =>
        let id := vt.counter
        (toTokens ls { map := (name, id) :: vt.map, counter := id + 1 }).map (.var name id :: ·)

/-- `SymbolicBDD::tokenize` -/
def tokenize (text : List Ch) (ordering : List (String × Nat)) : Option (List Token) :=
  (toTokens (scan (text.length + 1) text) (VarTable.preload ordering)).map (· ++ [.eof])

end Rsbdd
