/-
Model of the output side of the `rsbdd` tool (`src/bin/rsbdd.rs`): the truth-table and
`-v` recursions, the header, the ordering file, `-r`, and the order in which `main` applies
its options.  Output is modelled as rows of cells, not padded text.  Import-free.
-/
import Rsbdd.Model.Parser

namespace Rsbdd
namespace Cli
open BDD

/-- `TruthTableEntry` as a table cell -/
inductive Cell where
  | any | t | f
deriving DecidableEq, Repr, Inhabited

structure Row where
  cells : List Cell
  result : Bool
deriving DecidableEq, Repr, Inhabited

/-- position of a variable among the columns: `to_free_index` (`none` = its panic) -/
def colOf : List Nat → Nat → Option Nat
  | [], _ => none
  | c :: cs, s => if c = s then some 0 else (colOf cs s).map (· + 1)

/-- does the filter let a leaf through? (`src/bin/rsbdd.rs:380-383`) -/
def Filter.passes : Filter → Bool → Bool
  | .any, _ => true
  | .true_, c => c
  | .false_, c => !c

/-- `print_truth_table_recursive` (`src/bin/rsbdd.rs:359-388`): false subtree first, then the
true subtree -/
def tableRows (cols : List Nat) (flt : Filter) : BDD → List Cell → Option (List Row)
  | .node l s r, vars =>
    match colOf cols s with
    | none => none
    | some i =>
      match tableRows cols flt r (vars.set i .f), tableRows cols flt l (vars.set i .t) with
      | some a, some b => some (a ++ b)
      | _, _ => none
  | .T, vars => some (if Filter.passes flt true then [⟨vars, true⟩] else [])
  | .F, vars => some (if Filter.passes flt false then [⟨vars, false⟩] else [])

/-- one `-v` line: the names assigned True and, starred, the unassigned ones -/
def lineOf (vals : List Cell) (names : List String) : List String :=
  (vals.zip names).filterMap (fun (v, n) => match v with
    | .t => some n
    | .any => some (n ++ "*")
    | .f => none)

/-- `print_true_vars_recursive` (`src/bin/rsbdd.rs:325-356`): one line per path to `True`,
listing the names assigned True and, starred, the unassigned ones -/
def trueVarRows (cols : List Nat) (names : List String) : BDD → List Cell → Option (List (List String))
  | .node l s r, vals =>
    match colOf cols s with
    | none => none
    | some i =>
      match trueVarRows cols names r (vals.set i .f), trueVarRows cols names l (vals.set i .t) with
      | some a, some b => some (a ++ b)
      | _, _ => none
  | .T, vals => some [lineOf vals names]
  | .F, _ => some []

/-- `TruthTableEntry::from_str` (`src/truth_table.rs:33-40, 62-72`) -/
def filterOfString (s : String) : Option Filter :=
  if s == "true" || s == "True" || s == "t" || s == "T" || s == "1" then some .true_
  else if s == "false" || s == "False" || s == "f" || s == "F" || s == "0" then some .false_
  else if s == "any" || s == "Any" || s == "a" || s == "A" || s == "*" then some .any
  else none

structure Options where
  truthtable : Bool := false
  vars : Bool := false
  model : Bool := false
  exportOrdering : Bool := false
  filter : Filter := .any
  retain : Filter := .any
  /-- `-b N`; `none` = absent (one evaluation) -/
  benchmark : Option Nat := none

structure Output where
  ordering : List String := []        -- `-r`
  header : Option (List String) := none
  rows : List Row := []
  vlines : List (List String) := []
deriving Repr

/-- the ordering handed to the tokenizer: the `Var` tokens of the ordering file, unique by id
(`src/bin/rsbdd.rs:98-106`) -/
def readOrdering (ordText : List Ch) : Option (List (String × Nat)) :=
  (tokenize ordText []).map Parser.extractVars

/-- no `-o`: the empty ordering; with `-o`: what the file yields (`none` = unreadable) -/
def orderingOf : Option (List Ch) → Option (List (String × Nat))
  | none => some []
  | some t => readOrdering t

/-- `main` after argument parsing (`src/bin/rsbdd.rs:108-215`).  `none` = error exit (or the
evaluation budget ran out). -/
def run (iters fuel : Nat) (text : List Ch) (ordering : Option (List Ch)) (o : Options) : Option Output :=
  match orderingOf ordering with
  | none => none
  | some ord =>
    match tokenize text ord with
    | none => none
    | some ts =>
      match Parser.newWithEnv ts with
      | none => none
      | some p =>
        let repeat_ := o.benchmark.getD 1
        -- `result` starts as the default diagram (`False`) and is overwritten by every run
        let evaluated : Option BDD := if repeat_ == 0 then some .F else Formula.evalF iters fuel p.formula
        match evaluated with
        | none => none
        | some r0 =>
          let r1 := BDD.retain r0 o.retain
          let r2 := if o.model then BDD.model r1 else r1
          let cols := p.freeVars.map (·.2)
          let names := p.freeVars.map (·.1)
          let blank := cols.map (fun _ => Cell.any)
          let rowsO := if o.truthtable then tableRows cols o.filter r2 blank else some []
          let vO := if o.vars then trueVarRows cols (names ++ ["*"]) r2 blank else some []
          match rowsO, vO with
          | some rows, some vl =>
            some { ordering := if o.exportOrdering then p.vars.map (·.1) else [],
                   header := if o.truthtable then some (names ++ ["*"]) else none,
                   rows, vlines := vl }
          | _, _ => none

end Cli
end Rsbdd
