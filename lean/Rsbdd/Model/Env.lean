/-
Model of the hash-consing environment `BDDEnv` (`src/bdd.rs:93-197`) and of pointer
identity of `Rc<BDD>`: a *pointer-annotated tree* is the unfolding of an `Rc<BDD>` graph
with the allocation address at every node.  Every operation of `Model/Bdd` has a twin that
threads the environment and allocates exactly where the Rust code calls `Rc::new`
(i.e. in `mk_choice`), returning the stored pointer when the table already has the
structure.  Import-free.
-/
import Rsbdd.Model.Bdd

namespace Rsbdd

inductive PBDD where
  | F (p : Nat) : PBDD
  | T (p : Nat) : PBDD
  | node (p : Nat) (t : PBDD) (v : Nat) (f : PBDD) : PBDD
deriving DecidableEq, Repr, Inhabited

namespace PBDD

def erase : PBDD → BDD
  | F _ => .F
  | T _ => .T
  | node _ t v f => .node (erase t) v (erase f)

def addr : PBDD → Nat
  | F p => p
  | T p => p
  | node p _ _ _ => p

def size : PBDD → Nat
  | F _ => 1
  | T _ => 1
  | node _ t _ f => t.size + f.size + 1

end PBDD

/-- `BDDEnv`: `table` is the `nodes` map (structure ↦ the one shared pointer), `next` the next
fresh allocation address -/
structure Env where
  next : Nat
  table : List (BDD × PBDD)
deriving Repr

namespace Env

def lookup (k : BDD) : List (BDD × PBDD) → Option PBDD
  | [] => none
  | (k', p) :: rest => if k' = k then some p else lookup k rest

/-- `BDDEnv::new` (`src/bdd.rs:188-197`): both leaves are in the table from the start -/
def new : Env := { next := 2, table := [(.T, .T 0), (.F, .F 1)] }

abbrev M (α : Type) := Env → α × Env

/-- `mk_const` (`src/bdd.rs:172-178`): the stored leaf.  (The Rust `expect` cannot fire: both
leaves are present in every reachable environment, `Thm/C13.leaves_present`; the fallback
value here is never used.) -/
def mkConstM (v : Bool) : M PBDD := fun env =>
  match lookup (if v then .T else .F) env.table with
  | some p => (p, env)
  | none => (if v then .T 0 else .F 1, env)

/-- `mk_choice` (`src/bdd.rs:148-169`): `Rc::new` of the candidate node (one allocation),
`simplify`, then return the table's pointer for that structure or insert the candidate -/
def mkChoiceM (t : PBDD) (s : Nat) (f : PBDD) : M PBDD := fun env =>
  let ins := if t.erase = f.erase then t else .node env.next t s f
  let env1 := { env with next := env.next + 1 }
  match lookup ins.erase env1.table with
  | some stored => (stored, env1)
  | none => (ins, { env1 with table := (ins.erase, ins) :: env1.table })

/-- `var` (`src/bdd.rs:303-305`) -/
def varM (s : Nat) : M PBDD := fun env =>
  let (t, e1) := mkConstM true env
  let (f, e2) := mkConstM false e1
  mkChoiceM t s f e2

/-- `and` (`src/bdd.rs:200-222`); arguments of `mk_choice` are evaluated left to right -/
def andM : PBDD → PBDD → M PBDD
  | .F _, _ => mkConstM false
  | _, .F _ => mkConstM false
  | .T _, b => fun env => (b, env)
  | a, .T _ => fun env => (a, env)
  | .node pa at_ va af, .node pb bt vb bf => fun env =>
    if va < vb then
      let (x, e1) := andM at_ (.node pb bt vb bf) env
      let (y, e2) := andM af (.node pb bt vb bf) e1
      mkChoiceM x va y e2
    else if vb < va then
      let (x, e1) := andM bt (.node pa at_ va af) env
      let (y, e2) := andM bf (.node pa at_ va af) e1
      mkChoiceM x vb y e2
    else
      let (x, e1) := andM at_ bt env
      let (y, e2) := andM af bf e1
      mkChoiceM x va y e2
termination_by a b => a.size + b.size
decreasing_by all_goals simp [PBDD.size] <;> omega

/-- `or` (`src/bdd.rs:225-250`) -/
def orM : PBDD → PBDD → M PBDD
  | .T _, _ => mkConstM true
  | _, .T _ => mkConstM true
  | .F _, b => fun env => (b, env)
  | a, .F _ => fun env => (a, env)
  | .node pa at_ va af, .node pb bt vb bf => fun env =>
    if va < vb then
      let (x, e1) := orM at_ (.node pb bt vb bf) env
      let (y, e2) := orM af (.node pb bt vb bf) e1
      mkChoiceM x va y e2
    else if vb < va then
      let (x, e1) := orM bt (.node pa at_ va af) env
      let (y, e2) := orM bf (.node pa at_ va af) e1
      mkChoiceM x vb y e2
    else
      let (x, e1) := orM at_ bt env
      let (y, e2) := orM af bf e1
      mkChoiceM x va y e2
termination_by a b => a.size + b.size
decreasing_by all_goals simp [PBDD.size] <;> omega

/-- `not` (`src/bdd.rs:253-261`) -/
def notM : PBDD → M PBDD
  | .F _ => mkConstM true
  | .T _ => mkConstM false
  | .node _ t v f => fun env =>
    let (x, e1) := notM t env
    let (y, e2) := notM f e1
    mkChoiceM x v y e2

/-- `implies` -/
def impliesM (a b : PBDD) : M PBDD := fun env =>
  let (na, e1) := notM a env
  orM na b e1

/-- `ite` (`src/bdd.rs:269-274`) -/
def iteM (a b c : PBDD) : M PBDD := fun env =>
  let (x, e1) := impliesM a b env
  let (na, e2) := notM a e1
  let (y, e3) := impliesM na c e2
  andM x y e3

/-- `eq` -/
def eqM (a b : PBDD) : M PBDD := fun env =>
  let (x, e1) := impliesM a b env
  let (y, e2) := impliesM b a e1
  andM x y e2

/-- `xor` -/
def xorM (a b : PBDD) : M PBDD := fun env =>
  let (na, e1) := notM a env
  let (x, e2) := andM na b e1
  let (nb, e3) := notM b e2
  let (y, e4) := andM a nb e3
  orM x y e4

/-- `nor` -/
def norM (a b : PBDD) : M PBDD := fun env =>
  let (na, e1) := notM a env
  let (nb, e2) := notM b e1
  andM na nb e2

/-- `nand` -/
def nandM (a b : PBDD) : M PBDD := fun env =>
  let (x, e1) := andM a b env
  notM x e1

/-- `cmp_count` (`src/bdd.rs:307-325`) -/
def cmpCountM (cmp : Int → Bool) : List PBDD → Int → M PBDD
  | [], n => mkConstM (cmp n)
  | b :: bs, n => fun env =>
    let (x, e1) := cmpCountM cmp bs (n - 1) env
    let (y, e2) := cmpCountM cmp bs n e1
    iteM b x y e2

def alnM (bs : List PBDD) (n : Int) : M PBDD := cmpCountM (fun n => decide (n ≤ 0)) bs n
def amnM (bs : List PBDD) (n : Int) : M PBDD := cmpCountM (fun n => decide (n ≥ 0)) bs n
def exnM (bs : List PBDD) (n : Int) : M PBDD := cmpCountM (fun n => decide (n = 0)) bs n

/-- `cmp_count_compare` (`src/bdd.rs:359-378`) -/
def cmpCountCompareM (cmp : List PBDD → Int → M PBDD) : List PBDD → List PBDD → Int → M PBDD
  | [], b, n => cmp b n
  | a :: as, b, n => fun env =>
    let (x, e1) := cmpCountCompareM cmp as b (n + 1) env
    let (y, e2) := cmpCountCompareM cmp as b n e1
    iteM a x y e2

def countLeqM (a b : List PBDD) : M PBDD := cmpCountCompareM alnM a b 0
def countLtM (a b : List PBDD) : M PBDD := cmpCountCompareM alnM a b 1
def countGtM (a b : List PBDD) : M PBDD := cmpCountCompareM amnM a b (-1)
def countGeqM (a b : List PBDD) : M PBDD := cmpCountCompareM amnM a b 0
def countEqM (a b : List PBDD) : M PBDD := fun env =>
  let (x, e1) := countLeqM a b env
  let (y, e2) := countGeqM a b e1
  andM x y e2

/-- `exists_impl` (`src/bdd.rs:404-414`) -/
def existsImplM (s : Nat) : PBDD → M PBDD
  | .F p => fun env => (.F p, env)
  | .T p => fun env => (.T p, env)
  | .node _ t v f => fun env =>
    if v = s then orM t f env
    else
      let (x, e1) := existsImplM s t env
      let (y, e2) := existsImplM s f e1
      mkChoiceM x v y e2

/-- `exists` (`src/bdd.rs:392-401`) -/
def existsM : List Nat → PBDD → M PBDD
  | [], b => fun env => (b, env)
  | s :: ss, b => fun env =>
    let (x, e1) := existsM ss b env
    existsImplM s x e1

/-- `all` -/
def allM (ss : List Nat) (b : PBDD) : M PBDD := fun env =>
  let (nb, e1) := notM b env
  let (x, e2) := existsM ss nb e1
  notM x e2

/-- `fp` (`src/bdd.rs:422-435`) with a budget; `snew == s` is structural -/
def fpM (t : PBDD → M PBDD) : Nat → PBDD → M (Option PBDD)
  | 0, _ => fun env => (none, env)
  | k + 1, s => fun env =>
    let (snew, e1) := t s env
    if snew.erase = s.erase then (some s, e1) else fpM t k snew e1

/-- `model` (`src/bdd.rs:437-452`) -/
def modelM : PBDD → M PBDD
  | .node _ t v f => fun env =>
    let (lhs, e1) := modelM t env
    let (rhs, e2) := modelM f e1
    let (fl, e3) := mkConstM false e2
    if lhs.erase ≠ fl.erase then
      let (x, e4) := varM v e3
      andM lhs x e4
    else
      let (fl2, e4) := mkConstM false e3
      if rhs.erase ≠ fl2.erase then
        let (x, e5) := varM v e4
        let (nx, e6) := notM x e5
        andM nx rhs e6
      else mkConstM false e4
  | a => fun env => (a, env)

/-- `infer` (`src/bdd.rs:457-464`): the argument `var(b)` is built first -/
def inferM (a : PBDD) (b : Nat) : M (Bool × Bool) := fun env =>
  let (vb, e1) := varM b env
  let (ff, e2) := impliesM a vb e1
  (match ff with
    | .node _ _ _ _ => (false, false)
    | .T _ => (true, true)
    | .F _ => (true, false), e2)

def isChoiceP : PBDD → Bool
  | .node _ _ _ _ => true
  | _ => false

def isTrueP : PBDD → Bool
  | .T _ => true
  | _ => false

/-- the recursion of `retain_choice_bottom_up` for a filter that is not `Any` -/
def retainAuxM (ft : Bool) : PBDD → M PBDD
  | .node _ l s r => fun env =>
    let (left, e1) := retainAuxM ft l env
    let (right, e2) := retainAuxM ft r e1
    if !(isChoiceP left) && isChoiceP right then
      if isTrueP left != ft then (right, e2) else mkChoiceM left s right e2
    else if !(isChoiceP right) && isChoiceP left then
      if isTrueP right != ft then (left, e2) else mkChoiceM left s right e2
    else mkChoiceM left s right e2
  | src => fun env => (src, env)

def retainM (src : PBDD) (flt : BDD.Filter) : M PBDD :=
  match flt with
  | .any => fun env => (src, env)
  | _ => retainAuxM flt.isTrue src

/-- `find` (`src/bdd.rs:181-185`) -/
def findM (r : PBDD) : M PBDD := fun env =>
  match lookup r.erase env.table with
  | some p => (p, env)
  | none => (r, env)

/-- `clean` (`src/bdd.rs:112-122`) -/
def cleanM (root : PBDD) : M PBDD :=
  match root with
  | .node _ l s r => fun env =>
    let (l', e1) := findM l env
    let (r', e2) := findM r e1
    mkChoiceM l' s r' e2
  | _ => findM root

end Env
end Rsbdd
