/-
Model of the recursive-descent parser (`src/parser.rs:412-701, 812-833`): one function per
`parse_*`, on token lists; `none` is the `Err` outcome.  The Rust functions consume a
`Peekable` iterator; here each returns the remaining tokens.  Recursion goes through a
budget (`fuel`); `parseFormula` supplies more than any run can use.
Import-free.
-/
import Rsbdd.Model.Formula
import Rsbdd.Model.Token

namespace Rsbdd
namespace Parser

abbrev Res (α : Type) := Option (α × List Token)

/-- `expect` (`src/parser.rs:812-820`) -/
def expect (t : Token) : List Token → Option (List Token)
  | x :: rest => if x = t then some rest else none
  | [] => none

/-- `check` (`src/parser.rs:822-833`) -/
def check (t : Token) : List Token → Bool
  | x :: _ => x = t
  | [] => false

def binOpOf : Token → Option BinOp
  | .and => some .and
  | .or => some .or
  | .xor => some .xor
  | .nor => some .nor
  | .nand => some .nand
  | .implies => some .implies
  | .impliesInv => some .impliesInv
  | .iff => some .iff
  | _ => none

/-- the operator `match` of `parse_countable_formula` (`src/parser.rs:523-535`) -/
def cntOpOf : Token → Option CntOp
  | .eq => some .exactly
  | .impliesInv => some .atMost
  | .geq => some .atLeast
  | .lt => some .lessThan
  | .gt => some .moreThan
  | _ => none

/-- `parse_variable_name` -/
def parseVarName : List Token → Res Nat
  | .var _ id :: rest => some (id, rest)
  | _ => none

/-- `parse_variable_list` (`src/parser.rs:568-588`): names separated by commas up to (not
including) `#`; a trailing comma is allowed -/
def parseVarList : Nat → List Token → Res (List Nat)
  | 0, _ => none
  | fuel + 1, ts =>
    if check .hash ts then some ([], ts)
    else
      match parseVarName ts with
      | none => none
      | some (v, rest) =>
        if check .comma rest then
          match expect .comma rest with
          | none => none
          | some rest' =>
            match parseVarList fuel rest' with
            | none => none
            | some (vs, rest'') => some (v :: vs, rest'')
        else some ([v], rest)

mutual
/-- `parse_simple_sub_formula` (`src/parser.rs:421-451`) -/
def parseSimple : Nat → List Token → Res Formula
  | 0, _ => none
  | fuel + 1, ts =>
    match ts with
    | .openParen :: rest =>
      -- parse_parentized_formula
      match parseSub fuel rest with
      | none => none
      | some (f, rest') => (expect .closeParen rest').map (fun r => (f, r))
    | .openSquare :: _ =>
      -- parse_countable_formula
      match parseList fuel ts with
      | none => none
      | some (l, rest) =>
        match rest with
        | [] => none
        | opTok :: rest' =>
          match cntOpOf opTok with
          | none => none
          | some op =>
            if check .openSquare rest' then
              match parseList fuel rest' with
              | none => none
              | some (r, rest'') => some (.cntVar op l r, rest'')
            else
              match rest' with
              | .countable n :: rest'' => some (.cntConst op l n, rest'')
              | _ => none
    | .false_ :: rest => some (.false_, rest)
    | .true_ :: rest => some (.true_, rest)
    | .reference n :: rest => some (.ref n, rest)
    | .var _ id :: rest => some (.var id, rest)
    | .not :: rest =>
      -- parse_negation: the operand is the next simple term
      match parseSimple fuel rest with
      | none => none
      | some (f, rest') => some (.not f, rest')
    | .exists_ :: rest => parseQuant fuel .exists_ rest
    | .forall_ :: rest => parseQuant fuel .forall_ rest
    | .gfp :: rest => parseFix fuel true rest
    | .lfp :: rest => parseFix fuel false rest
    | .if_ :: rest =>
      -- parse_ite
      match parseSub fuel rest with
      | none => none
      | some (c, r1) =>
        match expect .then_ r1 with
        | none => none
        | some r2 =>
          match parseSub fuel r2 with
          | none => none
          | some (t, r3) =>
            match expect .else_ r3 with
            | none => none
            | some r4 =>
              match parseSub fuel r4 with
              | none => none
              | some (e, r5) => some (.ite c t e, r5)
    | _ => none
/-- `parse_existence_quantifier` / `parse_universal_quantifier` after the keyword -/
def parseQuant : Nat → Quant → List Token → Res Formula
  | 0, _, _ => none
  | fuel + 1, q, ts =>
    match parseVarList (ts.length + 1) ts with
    | none => none
    | some (vs, rest) =>
      match expect .hash rest with
      | none => none
      | some rest' =>
        match parseSub fuel rest' with
        | none => none
        | some (f, rest'') => some (.quant q vs f, rest'')
/-- `parse_fixed_point` after the keyword -/
def parseFix : Nat → Bool → List Token → Res Formula
  | 0, _, _ => none
  | fuel + 1, init, ts =>
    match parseVarName ts with
    | none => none
    | some (x, rest) =>
      match expect .hash rest with
      | none => none
      | some rest' =>
        match parseSub fuel rest' with
        | none => none
        | some (f, rest'') => some (.fix x init f, rest'')
/-- `parse_sub_formula` (`src/parser.rs:453-472`): a simple term, optionally followed by a
binary operator and a sub-formula (right-associative, no precedence) -/
def parseSub : Nat → List Token → Res Formula
  | 0, _ => none
  | fuel + 1, ts =>
    match parseSimple fuel ts with
    | none => none
    | some (l, rest) =>
      match rest with
      | opTok :: rest' =>
        match binOpOf opTok with
        | some op =>
          match parseSub fuel rest' with
          | none => none
          | some (r, rest'') => some (.bin op l r, rest'')
        | none => some (l, rest)
      | [] => some (l, rest)
/-- `parse_formula_list` (`src/parser.rs:485-508`) -/
def parseList : Nat → List Token → Res (List Formula)
  | 0, _ => none
  | fuel + 1, ts =>
    match expect .openSquare ts with
    | none => none
    | some rest =>
      match parseItems fuel rest with
      | none => none
      | some (fs, rest') => (expect .closeSquare rest').map (fun r => (fs, r))
/-- the loop of `parse_formula_list`: items separated by commas up to (not including) `]`;
a trailing comma is allowed -/
def parseItems : Nat → List Token → Res (List Formula)
  | 0, _ => none
  | fuel + 1, ts =>
    if check .closeSquare ts then some ([], ts)
    else
      match parseSub fuel ts with
      | none => none
      | some (f, rest) =>
        if check .comma rest then
          match expect .comma rest with
          | none => none
          | some rest' =>
            match parseItems fuel rest' with
            | none => none
            | some (fs, rest'') => some (f :: fs, rest'')
        else some ([f], rest)
end

/-- `parse_formula` (`src/parser.rs:413-419`): a sub-formula followed by `Eof` -/
def parseFormula (ts : List Token) : Option Formula :=
  match parseSub (4 * ts.length + 8) ts with
  | none => none
  | some (f, rest) =>
    match expect .eof rest with
    | some _ => some f
    | none => none

/-- `extract_vars` (`src/parser.rs:221-230`): the `Var` tokens, unique by id (first occurrence) -/
def extractStep (acc : List (String × Nat)) : Token → List (String × Nat)
  | .var n id => if acc.any (fun p => p.2 == id) then acc else acc ++ [(n, id)]
  | _ => acc

def extractVars (ts : List Token) : List (String × Nat) := ts.foldl extractStep []

/-- insertion sort by id (the Rust `sort_by` is stable; ids are unique here) -/
def insertById (x : String × Nat) : List (String × Nat) → List (String × Nat)
  | [] => [x]
  | y :: ys => if x.2 < y.2 then x :: y :: ys else y :: insertById x ys

def sortById (xs : List (String × Nat)) : List (String × Nat) := xs.foldr insertById []

/-- the table part of `ParsedFormula::new_with_env` (`src/parser.rs:239-275`) -/
structure ParsedInfo where
  vars : List (String × Nat)
  freeVars : List (String × Nat)
  formula : Formula

def newWithEnv (ts : List Token) : Option ParsedInfo :=
  match parseFormula ts with
  | none => none
  | some f =>
    let vars := sortById (extractVars ts)
    some { vars, freeVars := vars.filter (fun v => Formula.varIsFree v.2 f), formula := f }

/-- `to_free_index` (`src/parser.rs:217-226`): the position of the variable among the free ones -/
def toFreeIndex (p : ParsedInfo) (id : Nat) : Option Nat :=
  p.freeVars.findIdx? (fun v => v.2 == id)

end Parser
end Rsbdd
