/-
Model of the Graphviz exports: `BDDGraph` (`src/bdd_io.rs`) on pointer-annotated diagrams
and `SymbolicParseTree` (`src/parser_io.rs`) on syntax trees.  The result is the abstract
labelled graph handed to the `dot` crate (node list with ids and labels, edge list with
labels); rendering and label escaping are the crate's.  Import-free.
-/
import Rsbdd.Model.Env
import Rsbdd.Model.Formula

namespace Rsbdd
namespace Dot
open BDD

/-- keep the first of structurally equal elements (`Itertools::unique` on `Rc<BDD>`: `Eq`/`Hash` are structural) -/
def uniqueBy {α β : Type} [DecidableEq β] (key : α → β) (xs : List α) : List α :=
  xs.foldl (fun acc x => if acc.any (fun y => decide (key y = key x)) then acc else acc ++ [x]) []

def leafPasses (flt : Filter) (isTrue : Bool) : Bool :=
  match flt with
  | .any => true
  | .true_ => isTrue
  | .false_ => !isTrue

/-- `nodes_recursive` (`src/bdd_io.rs:96-120`) -/
def bddNodes (flt : Filter) : PBDD → List PBDD
  | .node p l v r =>
    uniqueBy PBDD.erase (bddNodes flt l ++ [.node p l v r] ++ bddNodes flt r)
  | .T p => if leafPasses flt true then [.T p] else []
  | .F p => if leafPasses flt false then [.F p] else []

def isLeafP : PBDD → Bool
  | .node _ _ _ _ => false
  | _ => true

/-- is the edge into child `c` kept? (`src/bdd_io.rs:130-147`) -/
def edgeKept (flt : Filter) (c : PBDD) : Bool :=
  match flt, c with
  | .any, _ => true
  | _, .node _ _ _ _ => true
  | .true_, .T _ => true
  | .false_, .F _ => true
  | _, _ => false

abbrev Edge := PBDD × Bool × PBDD

/-- `edges_recursive` (`src/bdd_io.rs:122-160`) -/
def bddEdges (flt : Filter) : PBDD → List Edge
  | .node p l v r =>
    let self : List Edge :=
      (if edgeKept flt l then [(.node p l v r, true, l)] else []) ++
      (if edgeKept flt r then [(.node p l v r, false, r)] else [])
    uniqueBy (fun (e : Edge) => (e.1.erase, e.2.1, e.2.2.erase)) (bddEdges flt l ++ bddEdges flt r ++ self)
  | _ => []

/-- `node_id` (`src/bdd_io.rs:39-52`): leaves by name, decision nodes by allocation address -/
inductive NodeId where
  | true_ | false_ | at (addr : Nat)
deriving DecidableEq, Repr

def nodeId : PBDD → NodeId
  | .T _ => .true_
  | .F _ => .false_
  | .node p _ _ _ => .at p

/-- `node_label` with variables as numbers (the harness maps names) -/
inductive NodeLabel where
  | true_ | false_ | var (v : Nat)
deriving DecidableEq, Repr

def nodeLabel : PBDD → NodeLabel
  | .T _ => .true_
  | .F _ => .false_
  | .node _ _ v _ => .var v

structure BddGraph where
  nodes : List (NodeId × NodeLabel)
  edges : List (NodeId × Bool × NodeId)
deriving Repr

def bddGraph (root : PBDD) (flt : Filter) : BddGraph :=
  { nodes := (bddNodes flt root).map (fun n => (nodeId n, nodeLabel n)),
    edges := (bddEdges flt root).map (fun e => (nodeId e.1, e.2.1, nodeId e.2.2)) }

/-! ### parse tree -/

def beqList {α : Type} (beq : α → α → Bool) : List α → List α → Bool
  | [], [] => true
  | a :: as, b :: bs => beq a b && beqList beq as bs
  | _, _ => false

mutual
/-- `SymbolicBDD`'s derived `PartialEq` -/
def feq : Formula → Formula → Bool
  | .false_, .false_ => true
  | .true_, .true_ => true
  | .var a, .var b => a == b
  | .not a, .not b => feq a b
  | .quant q vs a, .quant q' vs' b => q == q' && vs == vs' && feq a b
  | .cntConst o fs n, .cntConst o' fs' n' => o == o' && n == n' && feqL fs fs'
  | .cntVar o l r, .cntVar o' l' r' => o == o' && feqL l l' && feqL r r'
  | .fix v i a, .fix v' i' b => v == v' && i == i' && feq a b
  | .ite a b c, .ite a' b' c' => feq a a' && feq b b' && feq c c'
  | .bin o a b, .bin o' a' b' => o == o' && feq a a' && feq b b'
  | .subtree a, .subtree b => a == b
  | .ref a, .ref b => a == b
  | _, _ => false
def feqL : List Formula → List Formula → Bool
  | [], [] => true
  | a :: as, b :: bs => feq a b && feqL as bs
  | _, _ => false
end

mutual
/-- `nodes_recursive` (`src/parser_io.rs:22-85`) -/
def treeNodes : Formula → List Formula
  | .bin op l r => treeNodes l ++ treeNodes r ++ [.bin op l r]
  | .quant q vs f => treeNodes f ++ [.quant q vs f]
  | .not f => treeNodes f ++ [.not f]
  | .fix v i f => treeNodes f ++ [.fix v i f]
  | .cntConst op fs n => .cntConst op fs n :: treeNodesL fs
  | .cntVar op a b => .cntVar op a b :: (treeNodesL a ++ treeNodesL b)
  | .ite c t e => .ite c t e :: (treeNodes c ++ treeNodes t ++ treeNodes e)
  | f => [f]
def treeNodesL : List Formula → List Formula
  | [] => []
  | f :: fs => treeNodes f ++ treeNodesL fs
end

def uniqueF (xs : List Formula) : List Formula :=
  xs.foldl (fun acc x => if acc.any (fun y => feq y x) then acc else acc ++ [x]) []

def position (nodes : List Formula) (f : Formula) : Option Nat := nodes.findIdx? (fun n => feq n f)

/-- edge labels of the parse tree -/
inductive ELabel where
  | l | r | plain | idx (j : Nat) | lidx (j : Nat) | ridx (j : Nat) | if_ | then_ | else_
deriving DecidableEq, Repr

/-- the edges leaving node `i` (`src/parser_io.rs:138-242`); `none` = a `position` lookup failed (its `expect` panics) -/
def treeEdgesOf (nodes : List Formula) (i : Nat) : Formula → Option (List (Nat × ELabel × Nat))
  | .bin _ l r => do
    let a ← position nodes l; let b ← position nodes r
    pure [(i, .l, a), (i, .r, b)]
  | .quant _ _ f => (position nodes f).map (fun a => [(i, .plain, a)])
  | .not f => (position nodes f).map (fun a => [(i, .plain, a)])
  | .fix _ _ f => (position nodes f).map (fun a => [(i, .plain, a)])
  | .cntConst _ fs _ =>
    (fs.zipIdx).mapM (fun (f, j) => (position nodes f).map (fun a => (i, ELabel.idx j, a)))
  | .cntVar _ a b => do
    let x ← (a.zipIdx).mapM (fun (f, j) => (position nodes f).map (fun p => (i, ELabel.lidx j, p)))
    let y ← (b.zipIdx).mapM (fun (f, j) => (position nodes f).map (fun p => (i, ELabel.ridx j, p)))
    pure (x ++ y)
  | .ite c t e => do
    let a ← position nodes c; let b ← position nodes t; let d ← position nodes e
    pure [(i, .if_, a), (i, .then_, b), (i, .else_, d)]
  | _ => some []

structure TreeGraph where
  nodes : List Formula
  edges : List (Nat × ELabel × Nat)

/-- `SymbolicParseTree::new` + `GraphWalk::edges` -/
def parseTree (f : Formula) : Option TreeGraph :=
  let nodes := uniqueF (treeNodes f)
  ((nodes.zipIdx).mapM (fun (n, i) => treeEdgesOf nodes i n)).map (fun (es : List (List (Nat × ELabel × Nat))) => { nodes, edges := List.flatten es })

end Dot
end Rsbdd
