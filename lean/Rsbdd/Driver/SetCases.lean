/-
Case handler for C19 (`BDDSet`): one line is a sequence of set operations on objects that
share one environment; observed after every step: the membership bitmask of every set
(read through the diagram, not through `contains`), and the answer of `contains`.
-/
import Rsbdd.Driver.Basic
import Rsbdd.Spec.Robdd
import Rsbdd.Model.SetModel

namespace Rsbdd
namespace Driver
open BDD SetModel

def parseSetOp (s : String) : Option SetOp :=
  match (s.splitOn " ").filter (· ≠ "") with
  | ["ins", i, e] => do pure (.insert (← i.toNat?) (← e.toNat?))
  | ["uni", i, j] => do pure (.union (← i.toNat?) (← j.toNat?))
  | ["int", i, j] => do pure (.intersect (← i.toNat?) (← j.toNat?))
  | ["cmp", i, j] => do pure (.complement (← i.toNat?) (← j.toNat?))
  | ["emp", i] => i.toNat?.map .empty
  | ["unv", i] => i.toNat?.map .universe
  | ["has", i, e] => do pure (.contains (← i.toNat?) (← e.toNat?))
  | ["new"] => some .newSet
  | ["fe", e] => e.toNat?.map .fromElement
  | ["cl", i] => i.toNat?.map .clone
  | ["eq", i, j] => do pure (.equal (← i.toNat?) (← j.toNat?))
  | _ => none

/-- membership of `e` read through the diagram -/
def memB (s : BDD) (e : Nat) : Bool := eval s (fun c => categorize e c)

def maskOf (bits : Nat) (s : BDD) : Nat :=
  (List.range (2 ^ bits)).foldl (fun acc e => if memB s e then acc ||| (1 <<< e) else acc) 0

/-- the reference: plain sets of b-bit integers as bitmasks -/
def refStep (bits : Nat) (r : List Nat) : SetOp → List Nat × Option Bool
  | .insert i e => (r.set i ((r.getD i 0) ||| (1 <<< (e % 2 ^ bits))), none)
  | .union i j => (r.set i ((r.getD i 0) ||| (r.getD j 0)), none)
  | .intersect i j => (r.set i ((r.getD i 0) &&& (r.getD j 0)), none)
  | .complement i j => (r.set i ((r.getD i 0) &&& ((2 ^ (2 ^ bits) - 1) ^^^ (r.getD j 0))), none)
  | .empty i => (r.set i 0, none)
  | .universe i => (r.set i (2 ^ (2 ^ bits) - 1), none)
  | .contains i e => (r, some ((r.getD i 0).testBit (e % 2 ^ bits)))
  | .newSet => (r ++ [0], none)
  | .fromElement e => (r ++ [1 <<< (e % 2 ^ bits)], none)
  | .clone i => (r ++ [r.getD i 0], none)
  | .equal i j => (r, some (r.getD i 0 == r.getD j 0))

/-- `seq|bits|nsets|op;op;…|obs;obs;…` with obs = `mask,mask[,ans]` or `PANIC` -/
def handleC19 (fields : List String) : Verdict :=
  match fields with
  | ["seq", bits, nsets, ops, obs] =>
    match bits.toNat?, nsets.toNat?, ((ops.splitOn ";").filter (· ≠ "")).mapM parseSetOp with
    | some bits, some nsets, some ops =>
      let obsL := (obs.splitOn ";").filter (· ≠ "")
      Id.run do
        let mut st : State := { bits, sets := List.replicate nsets (BDD.mkConst false) }
        let mut ref : List Nat := List.replicate nsets 0
        let mut idx := 0
        for (op, ob) in ops.zip obsL do
          idx := idx + 1
          if ob == "PANIC" then
            return { modelOk := false, modelOut := "ok",
                     oracle := some s!"step {idx} ({repr op}): the operation panicked" }
          match step st op with
          | none => return Verdict.badLine s!"step {idx}: bad index"
          | some (st', ans) =>
            st := st'
            let (ref', rans) := refStep bits ref op
            ref := ref'
            let parts := (ob.splitOn ",")
            let masks := (parts.take st.sets.length).filterMap (·.toNat?)
            let realAns := (parts.drop st.sets.length).head?
            let mMasks := st.sets.map (maskOf bits)
            -- oracle: the implementation's sets against the reference sets
            if masks != ref then
              return { modelOk := masks == mMasks, modelOut := toString mMasks,
                       oracle := some s!"step {idx} ({repr op}): the sets hold {masks} (bitmasks of members) but the reference sets hold {ref}" }
            match rans, realAns with
            | some ra, some a =>
              if (a == "1") != ra then
                return { modelOk := ans == some (a == "1"), modelOut := toString (repr ans),
                         oracle := some s!"step {idx} ({repr op}): the query answered {a} but the reference sets say {ra}" }
            | _, _ => pure ()
            if masks != mMasks then
              return { modelOk := false, modelOut := toString mMasks }
            if ans.isSome && ans != realAns.map (· == "1") then
              return { modelOk := false, modelOut := toString (repr ans) }
        return { modelOk := true, nontrivial := ref.any (fun m => m != 0 && m != 2 ^ (2 ^ bits) - 1) }
    | _, _, _ => Verdict.badLine "unreadable seq line"
  | ["mixed", widths, ops, obs] =>
    -- sets of different widths in one environment: after every step the DIAGRAM of every set, against the model's
    -- (insert builds the cube of the set's own width; the binary operations combine the diagrams as they are) and
    -- against a reference on the integers below 2^W, W the largest width: set i holds x iff … x mod 2^(w_i) …
    match parseNats widths, ((ops.splitOn ";").filter (· ≠ "")).mapM parseSetOp with
    | some ws, some ops =>
      let obsL := (obs.splitOn ";").filter (· ≠ "")
      let W := ws.foldl max 0
      let univ := List.range (2 ^ W)
      let wOf := fun (i : Nat) => ws.getD i 0
      let refStepM := fun (r : List (List Bool)) (op : SetOp) => (match op with
        | .insert i e => r.set i ((univ.zip (r.getD i [])).map (fun (x, b) => b || x % 2 ^ wOf i == e % 2 ^ wOf i))
        | .union i j => r.set i (((r.getD i []).zip (r.getD j [])).map (fun (a, b) => a || b))
        | .intersect i j => r.set i (((r.getD i []).zip (r.getD j [])).map (fun (a, b) => a && b))
        | .complement i j => r.set i (((r.getD i []).zip (r.getD j [])).map (fun (a, b) => a && !b))
        | .empty i => r.set i (univ.map (fun _ => false))
        | .universe i => r.set i (univ.map (fun _ => true))
        | _ => r : List (List Bool))
      let stepM := fun (sets : List BDD) (op : SetOp) => (match op with
        | .insert i e => sets.set i (BDD.or (sets.getD i .F) (item (wOf i) e))
        | .union i j => sets.set i (BDD.or (sets.getD i .F) (sets.getD j .F))
        | .intersect i j => sets.set i (BDD.and (sets.getD i .F) (sets.getD j .F))
        | .complement i j => sets.set i (BDD.and (sets.getD i .F) (BDD.not (sets.getD j .F)))
        | .empty i => sets.set i (BDD.mkConst false)
        | .universe i => sets.set i (BDD.mkConst true)
        | _ => sets : List BDD)
      Id.run do
        let mut sets : List BDD := ws.map (fun _ => BDD.mkConst false)
        let mut ref : List (List Bool) := ws.map (fun _ => univ.map (fun _ => false))
        let mut idx := 0
        for (op, ob) in ops.zip obsL do
          idx := idx + 1
          if ob == "PANIC" then
            return { modelOk := false, modelOut := "ok", oracle := some s!"step {idx} ({repr op}), widths {ws}: the operation panicked" }
          sets := stepM sets op
          ref := refStepM ref op
          match (ob.splitOn ",").mapM parseBDD with
          | none => return Verdict.badLine s!"step {idx}: unreadable diagrams"
          | some real =>
            for (k, (r, want)) in (real.zip ref).zipIdx.map (fun (p, k) => (k, p)) do
              if ¬ Ordered r then
                return { modelOk := real == sets, modelOut := showBDD (sets.getD k .F),
                         oracle := some s!"step {idx} ({repr op}), widths {ws}: the diagram of set {k} is not ordered: {showBDD r}" }
              if ¬ Reduced r then
                return { modelOk := real == sets, modelOut := showBDD (sets.getD k .F),
                         oracle := some s!"step {idx} ({repr op}), widths {ws}: the diagram of set {k} is not reduced: {showBDD r}" }
              -- what a combination of sets of different widths should hold is not fixed by any of the properties (C19
              -- speaks of sets of one width): a different membership is a difference from the model, not an accusation
              let got := univ.map (memB r)
              if got != want then
                return { modelOk := false,
                         modelOut := s!"step {idx} ({repr op}), widths {ws}: set {k} holds {(univ.zip got).filterMap (fun (x, b) => if b then some x else none)} of the integers below {2 ^ W}, the model {(univ.zip want).filterMap (fun (x, b) => if b then some x else none)}" }
            if real != sets then
              return { modelOk := false, modelOut := String.intercalate "," (sets.map showBDD) }
        return { modelOk := true, nontrivial := sets.any (·.isChoice) }
    | _, _ => Verdict.badLine "unreadable mixed line"
  | ["wide", bits, nsets, cands, ops, obs] =>
    -- sets too wide to enumerate: membership of a list of candidates (every element of the history, reduced to the
    -- width, and elements that never occur); the reference is exact on them because every operation is pointwise
    match bits.toNat?, nsets.toNat?, parseNats cands, ((ops.splitOn ";").filter (· ≠ "")).mapM parseSetOp with
    | some bits, some nsets, some cands, some ops =>
      let obsL := (obs.splitOn ";").filter (· ≠ "")
      let red := fun (e : Nat) => e % 2 ^ bits
      let showV := fun (v : List Bool) => String.ofList (v.map (fun b => if b then '1' else '0'))
      let refStepC := fun (r : List (List Bool)) (op : SetOp) => (match op with
        | .insert i e => (r.set i ((cands.zip (r.getD i [])).map (fun (c, b) => b || red c == red e)), none)
        | .union i j => (r.set i (((r.getD i []).zip (r.getD j [])).map (fun (a, b) => a || b)), none)
        | .intersect i j => (r.set i (((r.getD i []).zip (r.getD j [])).map (fun (a, b) => a && b)), none)
        | .complement i j => (r.set i (((r.getD i []).zip (r.getD j [])).map (fun (a, b) => a && !b)), none)
        | .empty i => (r.set i (cands.map (fun _ => false)), none)
        | .universe i => (r.set i (cands.map (fun _ => true)), none)
        | .contains i e => (r, ((cands.zip (r.getD i [])).find? (fun (c, _) => red c == red e)).map (·.2))
        | .newSet => (r ++ [cands.map (fun _ => false)], none)
        | .fromElement e => (r ++ [cands.map (fun c => red c == red e)], none)
        | .clone i => (r ++ [r.getD i []], none)
        | .equal i j => (r, some (r.getD i [] == r.getD j [])) : List (List Bool) × Option Bool)
      Id.run do
        let mut st : State := { bits, sets := List.replicate nsets (BDD.mkConst false) }
        let mut ref : List (List Bool) := List.replicate nsets (cands.map (fun _ => false))
        let mut idx := 0
        for (op, ob) in ops.zip obsL do
          idx := idx + 1
          if ob == "PANIC" then
            return { modelOk := false, modelOut := "ok", oracle := some s!"step {idx} ({repr op}): the operation panicked" }
          match step st op with
          | none => return Verdict.badLine s!"step {idx}: bad index"
          | some (st', ans) =>
            st := st'
            let (ref', rans) := refStepC ref op
            ref := ref'
            let parts := (ob.splitOn ",")
            let vecs := parts.take st.sets.length
            let realAns := (parts.drop st.sets.length).head?
            let mVecs := st.sets.map (fun s => showV (cands.map (memB s)))
            if vecs != ref.map showV then
              return { modelOk := vecs == mVecs, modelOut := toString mVecs,
                       oracle := some s!"step {idx} ({repr op}), {bits}-bit sets, elements {cands}: membership is {vecs} but the reference sets say {ref.map showV}" }
            match rans, realAns with
            | some ra, some a =>
              if (a == "1") != ra then
                return { modelOk := ans == some (a == "1"), modelOut := toString (repr ans),
                         oracle := some s!"step {idx} ({repr op}): the query answered {a} but the reference sets say {ra}" }
            | _, _ => pure ()
            if vecs != mVecs then
              return { modelOk := false, modelOut := toString mVecs }
            if ans.isSome && ans != realAns.map (· == "1") then
              return { modelOk := false, modelOut := toString (repr ans) }
        return { modelOk := true, nontrivial := ref.any (fun v => v.any id && !v.all id) }
    | _, _, _, _ => Verdict.badLine "unreadable wide line"
  | _ => Verdict.badLine "unknown C19 line"

end Driver
end Rsbdd
