/-
Case handlers for C14 (Graphviz exports): the graph the real code rendered, read back by
the harness, is compared with the model's node / edge lists, and the specification is
evaluated on the read-back graph (decision-graph semantics; term reconstruction).
-/
import Rsbdd.Driver.CliCases
import Rsbdd.Model.Dot
import Rsbdd.Model.DotBdd
import Rsbdd.Model.DotTree

namespace Rsbdd
namespace Driver
open BDD Dot

/-- pointer-annotated dump as produced for C13 (`T@i`, `F@i`, `N@i v t f`) -/
def parsePToks : Nat → List String → Option (PBDD × List String)
  | 0, _ => none
  | _, [] => none
  | fuel + 1, tok :: rest =>
    if tok.startsWith "T@" then (tok.drop 2).toNat?.map (fun p => (.T p, rest))
    else if tok.startsWith "F@" then (tok.drop 2).toNat?.map (fun p => (.F p, rest))
    else if tok.startsWith "N@" then
      match (tok.drop 2).toNat?, rest with
      | some p, v :: rest' =>
        match v.toNat?, parsePToks fuel rest' with
        | some v, some (t, r1) =>
          match parsePToks fuel r1 with
          | some (f, r2) => some (.node p t v f, r2)
          | none => none
        | _, _ => none
      | _, _ => none
    else none

def parsePBDD (s : String) : Option PBDD :=
  let toks := (s.splitOn " ").filter (· ≠ "")
  match parsePToks (toks.length + 1) toks with
  | some (p, []) => some p
  | _ => none

structure RGraph where
  nodes : List (String × String)            -- id, label (hex)
  edges : List (String × String × String)   -- src, dst, label (hex)

def parseRNodes (s : String) : Option (List (String × String)) :=
  if s.isEmpty then some [] else (s.splitOn ",").mapM (fun e => match e.splitOn "=" with
    | [a, b] => some (a, b) | _ => none)

def parseREdges (s : String) : Option (List (String × String × String)) :=
  if s.isEmpty then some [] else (s.splitOn ",").mapM (fun e => match e.splitOn ":" with
    | [sd, l] => (match sd.splitOn ">" with
      | [a, b] => some (a, b, l) | _ => none)
    | _ => none)

def showNodeId : NodeId → String
  | .true_ => "t" | .false_ => "f" | .at a => toString a

/-- evaluate the read-back decision graph: follow the `T` / `F` edge of the node's variable;
a missing edge (filtered export) means the omitted leaf, whose value is `omitted` -/
def readGraph (g : RGraph) (varOfLabel : String → Option Nat) (omitted : Option Bool) :
    Nat → String → Asg → Option Bool
  | 0, _, _ => none
  | fuel + 1, id, σ =>
    match g.nodes.find? (fun n => n.1 == id) with
    | none => none
    | some (_, lab) =>
      -- a leaf: the label true / false under the leaf's id; under an id the harness could not relate to an
      -- allocation (another naming of the nodes), a node with that label and no outgoing edge
      let opaqueLeaf := id.startsWith "UNKNOWN_" && !(g.edges.any (fun e => e.1 == id))
      if lab == hexOf "true" && (id == "t" || opaqueLeaf) then some true
      else if lab == hexOf "false" && (id == "f" || opaqueLeaf) then some false
      else
        match varOfLabel lab with
        | none => none
        | some v =>
          let want := if σ v then hexOf "T" else hexOf "F"
          match g.edges.find? (fun e => e.1 == id && e.2.2 == want) with
          | some (_, dst, _) => readGraph g varOfLabel omitted fuel dst σ
          | none => omitted

def dupFree (xs : List String) : Bool :=
  xs.zipIdx.all (fun (x, i) => !((xs.take i).contains x))

def parseAddrs (s : String) : Option (List (Nat × Nat)) :=
  if s.isEmpty then some [] else (s.splitOn ",").mapM (fun e => match e.splitOn ":" with
    | [n, a] => match n.toNat?, unhexNat a with
      | some n, some a => some (n, a)
      | _, _ => none
    | _ => none)
where
  unhexNat (a : String) : Option Nat :=
    a.toList.foldl (fun acc c => match acc, DotText.hexVal c with
      | some v, some d => some (v * 16 + d)
      | _, _ => none) (some 0)

/-- the real DOT text of one export against the byte model (`DotText.bddDotText`) and the reader of Thm/C14D
(`DotText.readDot`): the tie, and a disagreement of that reader with the harness's reading of the same text -/
def dotTie (rawHex : String) (names : List (String × Nat)) (addrs : List (Nat × Nat)) (p : PBDD) (flt : Filter)
    (ns : List (String × String)) (es : List (String × String × String)) : Option String × Option String :=
  match unhex rawHex with
  | none => (none, some "unreadable raw export field")
  | some bytes =>
    match String.fromUTF8? bytes with
    | none => (some "dot-model.not-utf8", none)
    | some s =>
      let real := s.toList
      let nameOf := fun (v : Nat) => match names.find? (fun x => x.2 == v) with
        | some x => (match unhex x.1 with
          | some b => (match String.fromUTF8? b with | some t => t.toList | none => ['?'])
          | none => ['?'])
        | none => ['?']
      let addrOf := fun (n : Nat) => ((addrs.find? (fun x => x.1 == n)).map (·.2)).getD 0
      let tie := if DotText.bddDotText nameOf addrOf p flt == real then "dot-model.identical" else "dot-model.differs"
      match DotText.readDot real with
      | none => (some "dot-reader.refused", none)
      | some g =>
        let rid := fun (id : List Char) =>
          if id == "n_true".toList then "t" else if id == "n_false".toList then "f" else
          let unk := "UNKNOWN_" ++ String.ofList id
          if id.take 4 != ['n', '_', '0', 'x'] then unk else
          match DotText.readHex (id.drop 4 ++ ['}']) 0 with
          | some (a, _) => (match addrs.find? (fun x => x.2 == a) with | some x => toString x.1 | none => unk)
          | none => unk
        let ns' := g.nodes.map (fun n => (rid n.1, hexOf (String.ofList n.2)))
        let es' := g.edges.map (fun e => (rid e.1, rid e.2.1, hexOf (String.ofList e.2.2)))
        if ns' == ns && es' == es then (some tie, none)
        else (some tie, some "the two readers of the DOT text disagree")

/-- `bdd|pdump|root id|names (id=hexname,…)|nodesA|edgesA|nodesT|edgesT|nodesF|edgesF[|addrs|rawA|rawT|rawF]` -/
def handleC14Bdd (fields : List String) : Verdict :=
  match fields with
  | [pdump, rootId, names, nA, eA, nT, eT, nF, eF, addrs, rawA, rawT, rawF] =>
    let v := handleC14Bdd [pdump, rootId, names, nA, eA, nT, eT, nF, eF]
    if v.bad || nA == "PANIC" || nT == "PANIC" || nF == "PANIC" then v else
    match parsePBDD pdump, parseVarTable names, parseAddrs addrs, parseRNodes nA, parseREdges eA, parseRNodes nT,
        parseREdges eT, parseRNodes nF, parseREdges eF with
    | some p, some names, some addrs, some nA, some eA, some nT, some eT, some nF, some eF =>
      let rA := dotTie rawA names addrs p .any nA eA
      let rT := dotTie rawT names addrs p .true_ nT eT
      let rF := dotTie rawF names addrs p .false_ nF eF
      let ties := [rA.1, rT.1, rF.1].filterMap id
      let tie := if ties.all (· == "dot-model.identical") then "dot-model.identical"
        else (ties.find? (· != "dot-model.identical")).getD "dot-model.differs"
      match orElse rA.2 (orElse rT.2 rF.2) with
      | some m => { v with modelOk := false, modelOut := v.modelOut ++ " [" ++ m ++ "]", info := some tie }
      | none => { v with info := some tie }
    | _, _, _, _, _, _, _, _, _ => Verdict.badLine "unreadable bdd graph line (addresses)"
  | [pdump, rootId, names, nA, eA, nT, eT, nF, eF] =>
    if nA == "PANIC" || nT == "PANIC" || nF == "PANIC" then
      { modelOk := false, modelOut := "a DOT graph",
        oracle := some "a diagram export panicked, or what was written is not a DOT graph that can be read back (text after the closing brace, a malformed line)" }
    else
    match parsePBDD pdump, parseVarTable names, parseRNodes nA, parseREdges eA, parseRNodes nT, parseREdges eT,
        parseRNodes nF, parseREdges eF with
    | some p, some names, some nA, some eA, some nT, some eT, some nF, some eF =>
      -- names: (hexname, id)
      let varOfLabel := fun (lab : String) => (names.find? (fun v => v.1 == lab)).map (·.2)
      let labelOfVar := fun (v : Nat) => ((names.find? (fun x => x.2 == v)).map (·.1)).getD "?"
      let showLab := fun (l : NodeLabel) => match l with
        | .true_ => hexOf "true" | .false_ => hexOf "false" | .var v => labelOfVar v
      let modelOf := fun (flt : Filter) =>
        let g := bddGraph p flt
        (g.nodes.map (fun n => (showNodeId n.1, showLab n.2)),
         g.edges.map (fun e => (showNodeId e.1, showNodeId e.2.2, if e.2.1 then hexOf "T" else hexOf "F")))
      let mA := modelOf .any; let mT := modelOf .true_; let mF := modelOf .false_
      let modelOk := mA == (nA, eA) && mT == (nT, eT) && mF == (nF, eF)
      -- oracle on the read-back graphs
      let b := p.erase
      let vars := varsOf [b]
      let gA : RGraph := ⟨nA, eA⟩
      let fuel := 4 * (nA.length + 2)
      let o1 := if !dupFree (nA.map (·.1)) || !dupFree (nT.map (·.1)) || !dupFree (nF.map (·.1)) then
          some "a node is declared more than once" else none
      let dangling := fun (ns : List (String × String)) (es : List (String × String × String)) =>
        es.any (fun e => !(ns.any (fun n => n.1 == e.1)) || !(ns.any (fun n => n.1 == e.2.1)))
      let o2 := if dangling nA eA || dangling nT eT || dangling nF eF then some "an edge references an undeclared node" else none
      -- where the walk starts: the id of the root's allocation if the export declares it; otherwise (the nodes are named
      -- in some other way) the one declared node no edge points to
      let otherIds := (nA ++ nT ++ nF).any (fun n => n.1.startsWith "UNKNOWN_")
      let startOf := fun (ns : List (String × String)) (es : List (String × String × String)) =>
        if ns.any (fun n => n.1 == rootId) then some rootId else
        match ns.filter (fun n => !(es.any (fun e => e.2.1 == n.1))) with
        | [r] => some r.1
        | _ => none
      let valueAt := fun (g : RGraph) (omitted : Option Bool) (σ : Asg) =>
        match startOf g.nodes g.edges with
        | some r => readGraph g varOfLabel omitted fuel r σ
        | none => if g.nodes.isEmpty then omitted else none
      let o3 := match findAsg vars (fun σ => valueAt gA none σ == some (eval b σ)) with
        | some m => some s!"the exported graph, read back, gives {repr (valueAt gA none (asgOf vars m))} under {showAsg vars m} but the diagram's value is {eval b (asgOf vars m)}"
        | none => none
      -- filters: exactly the opposite leaf and the edges into it are omitted
      let minus := fun (leaf : String) =>
        (nA.filter (fun n => n.1 != leaf), eA.filter (fun e => e.2.1 != leaf))
      let sameSet := fun {α : Type} [BEq α] (a b : List α) => a.all (b.contains ·) && b.all (a.contains ·)
      -- under another naming of the nodes the ids of two exports need not correspond: the filtered exports are then
      -- judged by what they denote and by their size
      let leafIds := fun (val : String) => (nA.filter (fun n => n.2 == hexOf val && !(eA.any (fun e => e.1 == n.1)))).map (·.1)
      let o4opaque := fun (nX : List (String × String)) (eX : List (String × String × String)) (gone : String) (om : Bool) (what : String) =>
        let into := eA.filter (fun e => (leafIds gone).contains e.2.1)
        if nX.length + (leafIds gone).length != nA.length || eX.length + into.length != eA.length
            || nX.any (fun n => n.2 == hexOf gone && !(eX.any (fun e => e.1 == n.1))) then
          some s!"filter {what}: the export is not the full graph minus the {gone} leaf and the edges into it (sizes)"
        else match findAsg vars (fun σ => valueAt ⟨nX, eX⟩ (some om) σ == some (eval b σ)) with
          | some m => some s!"filter {what}: the exported graph, read back with the omitted leaf as {om}, differs from the diagram under {showAsg vars m}"
          | none => none
      let o4 := if otherIds then orElse (o4opaque nT eT "false" false "True") (o4opaque nF eF "true" true "False")
        else if !(sameSet (minus "f").1 nT && sameSet (minus "f").2 eT) then
          some "filter True: the export is not the full graph minus the false leaf and the edges into it"
        else if !(sameSet (minus "t").1 nF && sameSet (minus "t").2 eF) then
          some "filter False: the export is not the full graph minus the true leaf and the edges into it"
        else none
      { modelOk, modelOut := s!"{mA.1.length} nodes, {mA.2.length} edges", oracle := orElse o1 (orElse o2 (orElse o3 o4)),
        nontrivial := isChoiceP' p }
    | _, _, _, _, _, _, _, _ => Verdict.badLine "unreadable bdd graph line"
  | _ => Verdict.badLine "bdd graph line needs nine or thirteen fields"
where
  isChoiceP' : PBDD → Bool
    | .node _ _ _ _ => true
    | _ => false

/-! ### parse tree -/

def binName : BinOp → String
  | .and => "And" | .or => "Or" | .xor => "Xor" | .nor => "Nor" | .nand => "Nand"
  | .implies => "Implies" | .impliesInv => "ImpliesInv" | .iff => "Iff"

def cntName : CntOp → String
  | .atMost => "AtMost" | .lessThan => "LessThan" | .atLeast => "AtLeast" | .moreThan => "MoreThan"
  | .exactly => "Exactly"

def binOfName (s : String) : Option BinOp :=
  [BinOp.and, .or, .xor, .nor, .nand, .implies, .impliesInv, .iff].find? (fun o => binName o == s)
def cntOfName (s : String) : Option CntOp :=
  [CntOp.atMost, .lessThan, .atLeast, .moreThan, .exactly].find? (fun o => cntName o == s)

/-- `node_label` of the parse tree (`src/parser_io.rs:105-134`) -/
def treeLabel (nameOf : Nat → String) : Formula → String
  | .bin op _ _ => binName op
  | .quant q vs _ => (if q == .exists_ then "Exists" else "Forall") ++ " [" ++ String.intercalate ", " (vs.map nameOf) ++ "]"
  | .not _ => "Not"
  | .cntConst op _ n => cntName op ++ " " ++ toString n
  | .cntVar op _ _ => cntName op
  | .fix v i _ => (if i then "GFP " else "LFP ") ++ nameOf v
  | .ite _ _ _ => "Ite"
  | .false_ => "False"
  | .true_ => "True"
  | .var v => "Var " ++ nameOf v
  | .subtree _ => "BDD"
  | .ref n => "Ref " ++ n

def elabelText : ELabel → String
  | .l => "L" | .r => "R" | .plain => "" | .idx j => "{" ++ toString j ++ "}"
  | .lidx j => "L{" ++ toString j ++ "}" | .ridx j => "R{" ++ toString j ++ "}"
  | .if_ => "If" | .then_ => "Then" | .else_ => "Else"

/-- rebuild a term from the read-back graph (labels are plain strings here) -/
def rebuild (nodes : List (String × String)) (edges : List (String × String × String))
    (idOf : String → Option Nat) : Nat → String → Option Formula
  | 0, _ => none
  | fuel + 1, id =>
    match nodes.find? (fun n => n.1 == id) with
    | none => none
    | some (_, lab) =>
      let child := fun (l : String) => (edges.find? (fun e => e.1 == id && e.2.2 == l)).bind
        (fun e => rebuild nodes edges idOf fuel e.2.1)
      let children := fun (pre : String) =>
        let rec go (k : Nat) (j : Nat) (acc : List Formula) : Option (List Formula) :=
          match k with
          | 0 => some acc.reverse
          | k + 1 =>
            match edges.find? (fun e => e.1 == id && e.2.2 == pre ++ "{" ++ toString j ++ "}") with
            | none => some acc.reverse
            | some e => match rebuild nodes edges idOf fuel e.2.1 with
              | some f => go k (j + 1) (f :: acc)
              | none => none
        go (edges.length + 1) 0 []
      if lab == "True" then some .true_
      else if lab == "False" then some .false_
      else if lab == "Not" then (child "").map .not
      else if lab == "Ite" then do
        let c ← child "If"; let t ← child "Then"; let e ← child "Else"
        pure (.ite c t e)
      else if lab.startsWith "Var " then (idOf (lab.drop 4).toString).map .var
      else if lab.startsWith "Ref " then some (.ref (lab.drop 4).toString)
      else if lab.startsWith "GFP " then do
        let v ← idOf (lab.drop 4).toString; let f ← child ""; pure (.fix v true f)
      else if lab.startsWith "LFP " then do
        let v ← idOf (lab.drop 4).toString; let f ← child ""; pure (.fix v false f)
      else if lab.startsWith "Exists [" || lab.startsWith "Forall [" then do
        let inner := ((lab.drop 8).toString.dropEnd 1).toString
        let names := if inner.isEmpty then [] else inner.splitOn ", "
        let vs ← names.mapM idOf
        let f ← child ""
        pure (.quant (if lab.startsWith "Exists" then .exists_ else .forall_) vs f)
      else match binOfName lab with
        | some op => do let l ← child "L"; let r ← child "R"; pure (.bin op l r)
        | none =>
          match lab.splitOn " " with
          | [o, n] => do
            let op ← cntOfName o; let n ← n.toNat?; let fs ← children ""
            pure (.cntConst op fs n)
          | [o] => do
            let op ← cntOfName o; let l ← children "L"; let r ← children "R"
            pure (.cntVar op l r)
          | _ => none

def unhexStr (s : String) : Option String := (unhex s).bind String.fromUTF8?

/-- the raw text of a parse-tree export against the byte model (`DotText.treeDotText`) and the Lean reader -/
def treeTie (rawHex : String) (nameOf : Nat → String) (g : Option TreeGraph)
    (ns : List (String × String)) (es : List (String × String × String)) : Option String × Option String :=
  match unhex rawHex, g with
  | some bytes, some g =>
    match String.fromUTF8? bytes with
    | none => (some "tree-model.not-utf8", none)
    | some s =>
      let real := s.toList
      let tie := if DotText.treeDotText nameOf g == real then "tree-model.identical" else "tree-model.differs"
      match DotText.readDot real with
      | none => (some "tree-reader.refused", none)
      | some tg =>
        let rid := fun (id : List Char) => String.ofList (id.drop 2)
        let ns' := tg.nodes.map (fun n => (rid n.1, hexOf (String.ofList n.2)))
        let es' := tg.edges.map (fun e => (rid e.1, rid e.2.1, hexOf (String.ofList e.2.2)))
        -- every label must be decoded by the decoders of Thm/C14P
        let undecoded := tg.nodes.any (fun n => (DotText.readHead n.2).isNone) || tg.edges.any (fun e => (DotText.readELabel e.2.2).isNone)
        if ns' == ns && es' == es && !undecoded then (some tie, none)
        else (some tie, some (if undecoded then "a label of the parse-tree export is not decoded by readHead / readELabel" else "the two readers of the DOT text disagree"))
  | _, _ => (none, none)

/-- `tree|ast|names (hexname:id,…)|nodes (id=hexlabel,…)|edges (src>dst:hexlabel,…)[|raw text]` -/
def handleC14Tree (fields : List String) : Verdict :=
  match fields with
  | [ast, names, ns, es, raw] =>
    let v := handleC14Tree [ast, names, ns, es]
    if v.bad || ns == "PANIC-OR-UNREADABLE" then v else
    match parseFormula ast, parseVarTable names, parseRNodes ns, parseREdges es with
    | some f, some names, some ns, some es =>
      let names' := names.filterMap (fun v => (unhexStr v.1).map (fun n => (n, v.2)))
      let nameOf := fun (v : Nat) => ((names'.find? (fun x => x.2 == v)).map (·.1)).getD "?"
      let (tie, dis) := treeTie raw nameOf (parseTree (unhexRefs f)) ns es
      match dis with
      | some m => { v with modelOk := false, modelOut := v.modelOut ++ " [" ++ m ++ "]", info := tie }
      | none => { v with info := tie }
    | _, _, _, _ => v
  | [_, _, "PANIC-OR-UNREADABLE", _] =>
    { modelOk := false, modelOut := "a DOT graph",
      oracle := some "the parse-tree export panicked, or what was written is not a DOT graph that can be read back (text after the closing brace, a malformed line)" }
  | [ast, names, ns, es] =>
    match parseFormula ast, parseVarTable names, parseRNodes ns, parseREdges es with
    | some f, some names, some ns, some es =>
      let names' := names.filterMap (fun v => (unhexStr v.1).map (fun n => (n, v.2)))
      let nameOf := fun (v : Nat) => ((names'.find? (fun x => x.2 == v)).map (·.1)).getD "?"
      let idOf := fun (n : String) => (names'.find? (fun x => x.1 == n)).map (·.2)
      let f' := unhexRefs f
      -- model
      let m := parseTree f'
      let mNodes := match m with
        | some g => g.nodes.zipIdx.map (fun (n, i) => (toString i, hexOf (treeLabel nameOf n)))
        | none => []
      let mEdges := match m with
        | some g => g.edges.map (fun e => (toString e.1, toString e.2.2, hexOf (elabelText e.2.1)))
        | none => []
      let modelOk := m.isSome && mNodes == ns && mEdges == es
      -- oracle: read the graph back as a term
      let ns' := ns.filterMap (fun n => (unhexStr n.2).map (fun l => (n.1, l)))
      let es' := es.filterMap (fun e => (unhexStr e.2.2).map (fun l => (e.1, e.2.1, l)))
      let roots := ns'.filter (fun n => !(es'.any (fun e => e.2.1 == n.1)))
      let o := if !dupFree (ns.map (·.1)) then some "a node is declared more than once"
        else if es'.any (fun e => !(ns'.any (fun n => n.1 == e.1)) || !(ns'.any (fun n => n.1 == e.2.1))) then
          some "an edge references an undeclared node"
        else match roots with
          | [r] =>
            match rebuild ns' es' idOf (4 * ns'.length + 8) r.1 with
            | some g => if beqFormula g f' then none else some "the exported parse tree, read back as a term, is not the syntax tree"
            | none => some "the exported parse tree cannot be read back as a term"
          | _ => some s!"the exported parse tree has {roots.length} roots"
      { modelOk, modelOut := s!"{mNodes.length} nodes, {mEdges.length} edges", oracle := o, nontrivial := ns.length > 2 }
    | _, _, _, _ => Verdict.badLine "unreadable tree line"
  | _ => Verdict.badLine "tree line needs four or five fields"
where
  unhexRefs : Formula → Formula := fun f => go f
  go : Formula → Formula
    | .ref n => .ref ((unhexStr n).getD n)
    | .not f => .not (go f)
    | .quant q vs f => .quant q vs (go f)
    | .fix v i f => .fix v i (go f)
    | .ite a b c => .ite (go a) (go b) (go c)
    | .bin op l r => .bin op (go l) (go r)
    | f => f

def handleC14 (fields : List String) : Verdict :=
  match fields with
  | "bdd" :: rest => handleC14Bdd rest
  | "tree" :: rest => handleC14Tree rest
  | _ => Verdict.badLine "unknown C14 line"

end Driver
end Rsbdd
