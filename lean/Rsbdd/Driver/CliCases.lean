/-
Case handlers for the tool-level properties C10 (truth table) and C11 (variable ordering).
-/
import Rsbdd.Driver.ParseCases
import Rsbdd.Model.Cli
import Rsbdd.Model.CliText

namespace Rsbdd
namespace Driver
open BDD Formula Cli

def cellOfChar : Char → Option Cell
  | 'A' => some .any | 'T' => some .t | 'F' => some .f | _ => none

def charOfCell : Cell → Char
  | .any => 'A' | .t => 'T' | .f => 'F'

def showRow (r : Row) : String := String.ofList (r.cells.map charOfCell) ++ "=" ++ (if r.result then "T" else "F")

def readRow (s : String) : Option Row :=
  match s.splitOn "=" with
  | [cs, r] => do
    let cells ← cs.toList.mapM cellOfChar
    pure ⟨cells, r == "T"⟩
  | _ => none

def readRows (s : String) : Option (List Row) :=
  if s.isEmpty then some [] else (s.splitOn ";").mapM readRow

def hexNames (ns : List String) : String := String.intercalate "," (ns.map hexOf)

structure CliOpts where
  o : Options
  ok : Bool

def parseOpts (s : String) : Option Options :=
  match s.splitOn ";" with
  | [flags, f, c, b] =>
    let fl := flags.toList
    match filterOfString (f.drop 2).toString, filterOfString (c.drop 2).toString with
    | some flt, some ret =>
      let bn : Option (Option Nat) := if b == "b=-" then some none else ((b.drop 2).toString.toNat?).map some
      bn.map (fun bn => { truthtable := fl.contains 't', vars := fl.contains 'v', model := fl.contains 'm',
                          exportOrdering := fl.contains 'r', filter := flt, retain := ret, benchmark := bn })
    | _, _ => none
  | _ => none

/-- does the row cover the assignment `mask` over the columns? -/
def rowCovers (r : Row) (mask : Nat) : Bool :=
  (r.cells.zipIdx).all (fun (c, i) => match c with
    | .any => true
    | .t => mask.testBit i
    | .f => !(mask.testBit i))

def vlineOfRow (names : List String) (r : Row) : List String :=
  (r.cells.zip names).filterMap (fun (c, n) => match c with
    | .t => some n | .any => some (n ++ "*") | .f => none)

/-- C20 through the binary: with `-c true` the printed table describes a function implied by the
formula, with `-c false` one that implies it; the rows shown are the filter's, disjoint, and (for
filter Any) cover every assignment -/
def retainOracle (f : Formula) (cols : List Nat) (o : Options) (rows : List Row) : Option String :=
  if o.retain == .any || o.benchmark == some 0 || o.model then none else
  let U := sortNats (dedup (SemExec.allVars f ++ cols))
  if U.length > 10 then none else
  match SemExec.semTT U (2 ^ U.length + 2) (modelFuel f) f [] with
  | none => none
  | some tt =>
    let value := fun (mask : Nat) =>
      let full := (U.zipIdx).foldl (fun acc (v, i) => match cols.idxOf? v with
        | some j => if mask.testBit j then acc ||| (1 <<< i) else acc
        | none => acc) 0
      tt.getD full false
    if rows.any (fun r => r.cells.length != cols.length) then some "a row has the wrong number of cells" else
    let masks := List.range (2 ^ cols.length)
    let dirTrue := o.retain == .true_
    match masks.find? (fun m =>
      let cov := rows.filter (fun r => rowCovers r m)
      cov.length > 1 ||
      cov.any (fun r => !(Filter.passes o.filter r.result)) ||
      (o.filter == .any && cov.length != 1) ||
      -- direction: -c true: formula ⇒ printed function; -c false: printed function ⇒ formula
      cov.any (fun r => if dirTrue then (value m && !r.result) else (r.result && !(value m))) ||
      -- a satisfying (resp. falsifying) assignment must be shown when the filter shows such rows
      (dirTrue && value m && o.filter != .false_ && cov.isEmpty) ||
      (!dirTrue && !(value m) && o.filter != .true_ && cov.isEmpty)) with
    | some m => some s!"-c {repr o.retain} -f {repr o.filter}: assignment {m} of the columns is covered by rows with results {(rows.filter (fun r => rowCovers r m)).map (·.result)}; the formula's value there is {value m}"
    | none => none

/-- the table oracle: rows against the brute-force meaning of the formula -/
def tableOracle (f : Formula) (cols : List Nat) (o : Options) (rows : List Row) (c07 : Bool := false) : Option String :=
  if o.retain != .any then retainOracle f cols o rows else
  if o.benchmark == some 0 then none else
  let U := sortNats (dedup (SemExec.allVars f ++ cols))
  if U.length > 10 then none else
  match SemExec.semTT U (2 ^ U.length + 2) (modelFuel f) f [] with
  | none => none
  | some tt =>
    -- value of the formula under an assignment of the columns (other variables false: the
    -- function does not depend on them, C09)
    let value := fun (mask : Nat) =>
      let full := (U.zipIdx).foldl (fun acc (v, i) => match cols.idxOf? v with
        | some j => if mask.testBit j then acc ||| (1 <<< i) else acc
        | none => acc) 0
      tt.getD full false
    if rows.any (fun r => r.cells.length != cols.length) then some "a row has the wrong number of cells" else
    let masks := List.range (2 ^ cols.length)
    if !o.model then
      match masks.find? (fun m =>
        let cov := rows.filter (fun r => rowCovers r m)
        let want := if Filter.passes o.filter (value m) then 1 else 0
        cov.length != want || cov.any (fun r => r.result != value m)) with
      | some m => some s!"assignment {m} of the columns is covered by {(rows.filter (fun r => rowCovers r m)).length} row(s) with results {(rows.filter (fun r => rowCovers r m)).map (·.result)}; the formula's value is {value m}, filter {repr o.filter}"
      | none => none
    else if !c07 then
      -- `-m` is C07's clause, not C10's (C10 speaks of the table of the formula): under C10 a table printed with -m is
      -- compared with the model of `main` only
      none
    else
      -- `-m`: one satisfying cube
      let sat := masks.any value
      let trueRows := rows.filter (·.result)
      if o.filter == .false_ then none
      else if sat && trueRows.length != 1 then some s!"-m on a satisfiable formula printed {trueRows.length} satisfying rows"
      else if !sat && !trueRows.isEmpty then some "-m on an unsatisfiable formula printed a satisfying row"
      else match trueRows.head? with
        | some r => match masks.find? (fun m => rowCovers r m && !(value m)) with
          | some m => some s!"the model row covers assignment {m}, which does not satisfy the formula"
          | none => none
        | none => none

/-- the tool's standard output against the byte model (`Cli.Text.render` of the model's output) and the reader
of Thm/C10T: `(tie, reader disagreement)` -/
def stdoutTie (outHex : String) (mOut : Option Output) (header rows vlines rlines : String) : Option String × Option String :=
  match unhex outHex, mOut with
  | some bytes, some out =>
    match String.fromUTF8? bytes with
    | none => (some "stdout-model.not-utf8", none)
    | some s =>
      let real := s.toList
      let tie := if Cli.Text.render out == real then "stdout-model.identical" else "stdout-model.differs"
      match Cli.Text.readStdout real with
      | none => (some "stdout-reader.refused", none)
      | some ro =>
        let h := match ro.header with | some h => hexNames h | none => "-"
        let r := String.intercalate ";" (ro.rows.map showRow)
        let v := String.intercalate ";" (ro.vlines.map hexNames)
        let rl := hexNames ro.ordering
        if h == header && r == rows && v == vlines && rl == rlines then (some tie, none)
        else (some tie, some s!"the two readers of standard output disagree: {h} {r} {v} {rl}")
  | _, _ => (none, none)

/-- `run|text|cls|ord|ocls|opts|exit|header|rows|vlines|rlines|same|gen|stdout` -/
def handleC10 (fields : List String) (c07 : Bool := false) : Verdict :=
  match fields with
  | ["run", text, cls, otext, ocls, opts, exitClass, header, rows, vlines, rlines, same, gen, outHex] =>
    match decodeText text cls, parseOpts opts, readRows rows with
    | some t, some o, some realRows =>
      let ordT : Option (Option (List Ch)) :=
        if otext == "-" then some none else
        match decodeText otext ocls with
        | some (some cs) => some (some cs)
        | _ => none
      let tChars : List Ch := t.getD []
      let mOut : Option Output := match t, ordT with
        | some _, some ord => Cli.run modelIters (4 * tChars.length + 64) tChars ord o
        | _, _ => none
      let mClass := if mOut.isSome then "ok" else "err"
      let mHeader := match mOut with
        | some out => (match out.header with | some h => hexNames h | none => "-")
        | none => "-"
      let mRows := match mOut with | some out => String.intercalate ";" (out.rows.map showRow) | none => ""
      let mV := match mOut with | some out => String.intercalate ";" (out.vlines.map hexNames) | none => ""
      let mR := match mOut with | some out => hexNames out.ordering | none => ""
      let modelOk := exitClass == "timeout" ||
        (mClass == exitClass && (exitClass != "ok" || (mHeader == header && mRows == rows && mV == vlines && mR == rlines)))
      -- oracle
      let o0 := if exitClass == "panic" || exitClass == "signal" then some s!"the tool crashed ({exitClass})" else none
      let o1 := if same == "0" then some "the output differs between input channels / benchmark repetition counts" else none
      let specO : Option String :=
        if exitClass != "ok" then none else
        -- the formula and the columns, from the model's reading of the text (generator's tree when given)
        match t, ordT with
        | some cs, some ord =>
          let ordL := match ord with | some oc => readOrdering oc | none => some []
          match ordL.bind (fun ol => tokenize cs ol) with
          | some ts =>
            match Parser.newWithEnv ts with
            | some p =>
              -- `gen`: the generator's tree with the real tokenizer's ids, `@`, the real variable table (name:id)
              let genTree := (gen.splitOn "@").headD ""
              let realVars : List (String × Nat) := match gen.splitOn "@" with
                | [_, tbl] => ((tbl.splitOn ",").filterMap (fun e => match e.splitOn ":" with
                    | [n, i] => (match (unhex n).bind String.fromUTF8?, i.toNat? with
                      | some n, some i => some (n, i) | _, _ => none)
                    | _ => none))
                | _ => p.vars
              let f := match parseFormula genTree with | some g => g | none => p.formula
              let specFreeIds := sortNats (dedup (freeVarsSpec f))
              let specNames := specFreeIds.filterMap (fun id => (realVars.find? (fun v => v.2 == id)).map (·.1))
              let oh := if o.truthtable && header != hexNames (specNames ++ ["*"]) then
                  some s!"header {header} but the free variables in order are {hexNames (specNames ++ ["*"])}" else none
              let ot := if o.truthtable then tableOracle f specFreeIds o realRows c07 else none
              let ov := if o.truthtable && o.vars && o.filter != .false_ then
                  let expect := (realRows.filter (·.result)).map (vlineOfRow (specNames ++ ["*"]))
                  if String.intercalate ";" (expect.map hexNames) != vlines then some "-v does not list exactly the satisfying rows" else none
                else none
              orElse oh (orElse ot ov)
            | none => none
          | none => none
        | _, _ => none
      let (tie, readers) := if exitClass == "ok" then stdoutTie outHex mOut header rows vlines rlines else (none, none)
      { modelOk := modelOk && readers.isNone,
        modelOut := s!"{mClass} {mHeader} {mRows} {mV} {mR}" ++ (match readers with | some m => " [" ++ m ++ "]" | none => ""),
        oracle := orElse o0 (orElse o1 specO),
        nontrivial := exitClass == "ok" && realRows.length > 1, info := tie }
    | _, _, _ => Verdict.badLine "unreadable run line"
  | _ => Verdict.badLine "unknown C10 line"

def parseVarTable (s : String) : Option (List (String × Nat)) :=
  if s.isEmpty then some [] else
  (s.splitOn ",").mapM (fun e => match e.splitOn ":" with
    | [n, id] => id.toNat?.map (fun i => (n, i))
    | _ => none)

/-- the function a printed table denotes: the result of the row covering the assignment (of the header's names, in
the header's order) numbered `mask`; `none`: no row or more than one -/
def tableValue (rows : List Row) (mask : Nat) : Option Bool :=
  match rows.filter (fun r => rowCovers r mask) with
  | [r] => some r.result
  | _ => none

/-- `optvalue|form|value (hex)|exit class`: a value given to -f / -c is accepted exactly when it is one of the fifteen
spellings (`Cli.filterOfString`); anything else is a usage error, never a panic -/
def handleC12OptValue (fields : List String) : Verdict :=
  match fields with
  | [_form, value, exitClass] =>
    match (unhex value).bind String.fromUTF8? with
    | some v =>
      let expected := if (Cli.filterOfString v).isSome then "ok" else "err"
      let o := if exitClass == "panic" then some s!"the tool panicked (exit status 101) on the option value {repr v}"
        else if exitClass == "signal" then some "the tool was killed by a signal"
        else none
      { modelOk := exitClass == expected, modelOut := expected, oracle := o, nontrivial := expected == "ok" }
    | none => Verdict.badLine "unreadable option value"
  | _ => Verdict.badLine "optvalue line needs three fields"

/-- `order|text|cls|ordering (hexname:id,… for the API form, or T:<hex text> for a file)|ocls|
vars default|result default|vars ordered|result ordered|roundtrip` -/
def handleC11 (fields : List String) : Verdict :=
  match fields with
  | ["tables", clsD, hdrD, rowsD, clsO, hdrO, rowsO, freeO] =>
    let v := handleC11 ["tables", clsD, hdrD, rowsD, clsO, hdrO, rowsO]
    if v.oracle.isSome || clsO != "ok" || freeO == "-" then v else
    let no := (hdrO.splitOn ",").filter (· ≠ "") |>.dropLast
    let want := (freeO.splitOn ",").filter (· ≠ "")
    if no != want then
      { v with oracle := some s!"under the ordering file the columns are {no}, but the free variables in the order of the file are {want}" }
    else v
  | ["tables", clsD, hdrD, rowsD, clsO, hdrO, rowsO] =>
    -- the table printed under an ordering file against the table printed under the default order
    if clsO == "panic" || clsO == "signal" then
      { modelOk := true, oracle := some s!"the tool crashed ({clsO}) under an ordering file" }
    else if clsD != "ok" || clsO != "ok" then { modelOk := true }
    else match readRows rowsD, readRows rowsO with
    | some rd, some ro =>
      let nd := (hdrD.splitOn ",").filter (· ≠ "") |>.dropLast
      let no := (hdrO.splitOn ",").filter (· ≠ "") |>.dropLast
      if !(nd.all (no.contains ·) && no.all (nd.contains ·)) then
        { modelOk := true, oracle := some s!"the columns under the ordering file ({no}) are not the columns under the default order ({nd})" }
      else if nd.length > 12 then { modelOk := true }
      else
        -- assignment `mask` of the default header's names, re-indexed for the other header
        let bad := (List.range (2 ^ nd.length)).find? (fun mask =>
          let maskO := (no.zipIdx).foldl (fun acc (n, j) => match nd.idxOf? n with
            | some i => if mask.testBit i then acc ||| (1 <<< j) else acc
            | none => acc) 0
          tableValue rd mask != tableValue ro maskO || (tableValue rd mask).isNone)
        match bad with
        | some mask =>
          let msg := s!"under assignment {mask} of {nd} the table printed under the default order says {repr (tableValue rd mask)}, the table printed under the ordering file says otherwise (or a row is missing / doubled)"
          { modelOk := true, nontrivial := true, oracle := some msg }
        | none => { modelOk := true, nontrivial := rd.length > 1 }
    | _, _ => { modelOk := false, modelOut := "a table", oracle := some "a printed table cannot be read" }
  | ["order", text, cls, ordering, ocls, varsD, resD, varsO, resO, roundtrip, freeD, freeO] =>
    match decodeText text cls, parseVarTable varsD, parseVarTable varsO with
    | some (some cs), some vD, some vO =>
      -- the ordering as the tokenizer receives it
      let ordL : Option (List (String × Nat)) :=
        if ordering.startsWith "T:" then
          match decodeText (ordering.drop 2).toString ocls with
          | some (some oc) => readOrdering oc
          | _ => none
        else parseOrdering ordering
      match ordL with
      | none => Verdict.badLine "unreadable ordering"
      | some ord =>
        let mToks := tokenize cs ord
        let mInfo := mToks.bind Parser.newWithEnv
        let mVars := match mInfo with
          | some p => String.intercalate "," (p.vars.map (fun v => s!"{hexOf v.1}:{v.2}"))
          | none => "ERR"
        let mRes := match mInfo with
          | some p => (match evalF modelIters (modelFuel p.formula) p.formula with
            | some b => showBDD b | none => "DIVERGE")
          | none => "ERR"
        let mFree := match mInfo with
          | some p => String.intercalate "," (p.freeVars.map (fun v => hexOf v.1))
          | none => "ERR"
        let modelOk := mVars == varsO && mRes == resO && (freeO == "-" || mFree == freeO)
        -- oracle 0: the same names are free (the columns of the table) under both orderings
        let o0 : Option String :=
          if freeD == "-" || freeO == "-" || freeD == "ERR" || freeO == "ERR" then none else
          let a := sortS ((freeD.splitOn ",").filter (· ≠ ""))
          let b := sortS ((freeO.splitOn ",").filter (· ≠ ""))
          if a != b then some s!"the free variables (table columns) are {a} under the default order and {b} under the custom order" else none
        -- oracle 1: same function of the same named variables
        let o1 : Option String := match parseBDD resD, parseBDD resO with
          | some d, some r =>
            let names := dedup' (vD.map (·.1) ++ vO.map (·.1))
            if names.length > 12 then none else
            let idD := fun (n : String) => (vD.find? (fun v => v.1 == n)).map (·.2)
            let idO := fun (n : String) => (vO.find? (fun v => v.1 == n)).map (·.2)
            let asg := fun (mask : Nat) (idOf : String → Option Nat) => (fun (w : Nat) =>
              match names.zipIdx.find? (fun (n, _) => idOf n == some w) with
              | some (_, i) => mask.testBit i
              | none => false)
            match (List.range (2 ^ names.length)).find? (fun m => eval d (asg m idD) != eval r (asg m idO)) with
            | some m => some s!"under the name assignment {m} over {names} the default order gives {eval d (asg m idD)} and the custom order gives {eval r (asg m idO)}"
            | none => if ¬ Ordered r then some "the answer under the custom order is not ordered by its ids" else none
          | _, _ => if resD != resO && (resD == "ERR" || resO == "ERR") then some "the ordering changed whether the formula is accepted" else none
        -- oracle 2: listed variables are ordered as in the file; unlisted ones follow in order of first appearance
        let o2 : Option String :=
          let listed := ord.foldl (fun acc (n, _) => if acc.contains (hexOf n) then acc else acc ++ [hexOf n]) ([] : List String)
          let used := listed.filter (fun n => vO.any (fun v => v.1 == n))
          let idsListed := used.filterMap (fun n => (vO.find? (fun v => v.1 == n)).map (·.2))
          let sortedOk := idsListed.zip (idsListed.drop 1) |>.all (fun (a, b) => a < b)
          let unlisted := vO.filter (fun v => !listed.contains v.1)
          let maxListed := ord.foldl (fun m (_, i) => max m (i + 1)) 0
          let unlistedOk := unlisted.all (fun v => v.2 ≥ maxListed)
          if !ordering.startsWith "T:" then
            -- API form: a listed name carries exactly the listed id (`C11.listed_keep_ids`), an unlisted one a larger id
            match ord.find? (fun (n, i) => vO.any (fun v => v.1 == hexOf n && v.2 != i)) with
            | some (n, i) => some s!"the listed variable {n} does not carry its listed id {i}: {vO}"
            | none => if !unlistedOk then some "a variable that is not listed got an id that is not above every listed id" else none
          else if !sortedOk then some s!"variables listed in the ordering file are not ordered as in the file: {used} got ids {idsListed}"
          else if !unlistedOk then some "a variable not listed in the ordering file is ordered before a listed one"
          else none
        let o3 := if roundtrip == "0" then some "exporting the order with -r and feeding it back with -o changed the table" else none
        { modelOk, modelOut := s!"{mVars} | {mRes} | {mFree}", oracle := orElse o0 (orElse o1 (orElse o2 o3)),
          nontrivial := resO != "T" && resO != "F" && resO != "ERR" && varsD != varsO }
    | _, _, _ => Verdict.badLine "unreadable order line"
  | _ => Verdict.badLine "unknown C11 line"
where
  dedup' (xs : List String) : List String :=
    xs.foldl (fun acc x => if acc.contains x then acc else acc ++ [x]) []
  sortS (xs : List String) : List String := (xs.toArray.qsort (· < ·)).toList

end Driver
end Rsbdd
