import Rsbdd.Driver.BddCases
import Rsbdd.Driver.FormulaCases
import Rsbdd.Driver.ParseCases
import Rsbdd.Driver.CliCases
import Rsbdd.Driver.EnvCases
import Rsbdd.Driver.DotCases
import Rsbdd.Driver.SetCases
import Rsbdd.Driver.GenCases
import Std.Data.HashSet

namespace Rsbdd
namespace Driver

def dispatch (fields : List String) : Verdict :=
  match fields with
  | [_, "idclash", a, b, id] =>
    -- the harness found two different names of one text carrying the same variable id
    { modelOk := false, modelOut := "distinct ids for distinct names (C11.ids_injective)",
      oracle := some s!"the tokenizer gave the two names {(unhexStr a).getD a} and {(unhexStr b).getD b} of one text the same variable id {id}" }
  | "C01" :: rest => handleC01 rest
  | "C06" :: rest => handleC06 rest
  | "C09" :: rest => handleC09 rest
  | "C08" :: rest => handleC08 rest
  | "C12" :: "optvalue" :: rest => handleC12OptValue rest
  | "C12" :: rest => handleC12 rest
  | "C10" :: rest => handleC10 rest
  | "C11" :: rest => handleC11 rest
  | "C13" :: rest => handleC13 rest
  | "C14" :: rest => handleC14 rest
  | "C19" :: rest => handleC19 rest
  | "C15" :: rest => handleC15 rest
  | "C16" :: rest => handleC16 rest
  | "C17" :: rest => handleC17 rest
  | "C18" :: rest => handleC18 rest
  | "C02" :: "eval" :: rest => handleEval false rest   -- diagrams over named variables, through the parser
  | "C02" :: rest => handleC02 rest
  | "C03" :: rest => handleC03 rest
  | "C04" :: "eval" :: rest => handleEval true rest
  | "C04" :: rest => handleC04 rest
  | "C05" :: "eval" :: rest => handleEval false rest
  | "C05" :: "evalx" :: rest =>
    -- a spelling the syntax need not accept: a rejection is no verdict; an accepted text is judged as usual
    match rest with
    | [_, "ERR", _] => { modelOk := true, modelOut := "rejected" }
    | _ => handleEval false rest
  | "C05" :: rest => handleC05 rest
  | "C07" :: "run" :: rest => handleC10 ("run" :: rest) true   -- `-m` through the binary
  | "C07" :: rest => handleC07 rest
  | "C20" :: "run" :: rest => handleC10 ("run" :: rest)   -- `-c` through the binary
  | "C20" :: rest => handleC20 rest
  | _ => Verdict.badLine "unknown property tag"

structure Totals where
  cases : Nat := 0
  ok : Nat := 0
  modelDiff : Nat := 0
  oracleFail : Nat := 0
  bad : Nat := 0
  nontrivial : Std.HashSet UInt64 := {}
  reported : Nat := 0
  info : List (String × Nat) := []

/-- at most this many non-ok lines are echoed in full -/
def maxReports : Nat := 200

partial def loop (h : IO.FS.Stream) (out : IO.FS.Stream) (t : Totals) : IO Totals := do
  let line ← h.getLine
  if line.isEmpty then return t
  let line := line.trimAsciiEnd.toString
  if line.isEmpty then loop h out t else
  let v := dispatch (line.splitOn "|")
  let mut t := { t with cases := t.cases + 1 }
  if v.nontrivial then t := { t with nontrivial := t.nontrivial.insert (hash line) }
  if let some k := v.info then
    t := { t with info := match t.info.find? (·.1 == k) with
      | some _ => t.info.map (fun p => if p.1 == k then (p.1, p.2 + 1) else p)
      | none => t.info ++ [(k, 1)] }
  if v.bad then
    t := { t with bad := t.bad + 1 }
    if t.reported < maxReports then
      out.putStrLn s!"BAD\t{t.cases}\t{line}\t{v.modelOut}"
      t := { t with reported := t.reported + 1 }
  else if let some msg := v.oracle then
    t := { t with oracleFail := t.oracleFail + 1 }
    if t.reported < maxReports then
      out.putStrLn s!"ORACLE\t{t.cases}\t{line}\t{v.modelOut}\t{msg}"
      t := { t with reported := t.reported + 1 }
  else if !v.modelOk then
    t := { t with modelDiff := t.modelDiff + 1 }
    if t.reported < maxReports then
      out.putStrLn s!"MODEL\t{t.cases}\t{line}\t{v.modelOut}"
      t := { t with reported := t.reported + 1 }
  else
    t := { t with ok := t.ok + 1 }
  loop h out t

def run : IO UInt32 := do
  let stdin ← IO.getStdin
  let stdout ← IO.getStdout
  let t ← loop stdin stdout {}
  stdout.putStrLn s!"SUMMARY\t\{\"cases\":{t.cases},\"ok\":{t.ok},\"model_diff\":{t.modelDiff},\"oracle_fail\":{t.oracleFail},\"bad\":{t.bad},\"distinct_nontrivial\":{t.nontrivial.size},\"info\":\{{String.intercalate "," (t.info.map (fun p => s!"\"{p.1}\":{p.2}"))}}}"
  return 0

end Driver
end Rsbdd
