/-
Line-protocol plumbing shared by all case handlers: diagram (de)serialisation,
assignment enumeration, verdicts.  Import-free apart from the model and `Std`.
-/
import Rsbdd.Model.Bdd
import Rsbdd.Spec.Robdd

namespace Rsbdd
namespace Driver
open BDD

/-- Outcome of one case line. -/
structure Verdict where
  /-- does the implementation's observable agree with the model's (by the property's own notion of sameness)? -/
  modelOk : Bool := true
  /-- what the model produced (for the replay file) -/
  modelOut : String := ""
  /-- `some msg` when the property's specification is violated by what the implementation returned -/
  oracle : Option String := none
  /-- counts towards `distinct_nontrivial` -/
  nontrivial : Bool := false
  /-- malformed line -/
  bad : Bool := false
  /-- a secondary tie that is recorded, not judged (counted per key in the summary) -/
  info : Option String := none

def Verdict.badLine (msg : String) : Verdict := { bad := true, modelOut := msg }

partial def showBDD : BDD → String
  | .F => "F"
  | .T => "T"
  | .node t v f => "n" ++ toString v ++ " " ++ showBDD t ++ " " ++ showBDD f

def parseBDDToks : Nat → List String → Option (BDD × List String)
  | 0, _ => none
  | _, [] => none
  | fuel + 1, tok :: rest =>
    if tok == "T" then some (.T, rest)
    else if tok == "F" then some (.F, rest)
    else if tok.startsWith "n" then
      match (tok.drop 1).toNat? with
      | none => none
      | some v =>
        match parseBDDToks fuel rest with
        | none => none
        | some (t, rest1) =>
          match parseBDDToks fuel rest1 with
          | none => none
          | some (f, rest2) => some (.node t v f, rest2)
    else none

def parseBDD (s : String) : Option BDD :=
  let toks := (s.splitOn " ").filter (· ≠ "")
  match parseBDDToks (toks.length + 1) toks with
  | some (b, []) => some b
  | _ => none

def parseBDDList (s : String) : Option (List BDD) :=
  if s.trimAscii.toString.isEmpty then some [] else (s.splitOn ";").mapM parseBDD

def parseNats (s : String) : Option (List Nat) :=
  if s.trimAscii.toString.isEmpty then some [] else (s.splitOn ",").mapM (·.trimAscii.toString.toNat?)

def dedup (xs : List Nat) : List Nat :=
  xs.foldl (fun acc x => if acc.contains x then acc else acc ++ [x]) []

/-- assignment number `mask` over the variable list `vars` (everything else false) -/
def asgOf (vars : List Nat) (mask : Nat) : Asg :=
  fun w => match vars.idxOf? w with
    | some i => mask.testBit i
    | none => false

/-- first assignment over `vars` on which `p` fails -/
def findAsg (vars : List Nat) (p : Asg → Bool) : Option Nat :=
  (List.range (2 ^ vars.length)).find? (fun m => !(p (asgOf vars m)))

def showAsg (vars : List Nat) (mask : Nat) : String :=
  String.intercalate "," (vars.mapIdx (fun i v => toString v ++ "=" ++ (if mask.testBit i then "1" else "0")))

def varsOf (bs : List BDD) : List Nat := dedup (bs.flatMap support)

/-! ### many variables: a failing assignment is looked for along a path of a diagram built with the model's own
operations (`and`, `not`), and then CHECKED by evaluating the diagrams in question at that one assignment — so a
report is a genuine counterexample whatever the helper did; below `smallVars` variables every assignment is tried. -/

def smallVars : Nat := 14

/-- a path to the true leaf -/
def satPath : BDD → Option (List (Nat × Bool))
  | .T => some []
  | .F => none
  | .node t v f =>
    match satPath t with
    | some p => some ((v, true) :: p)
    | none => (satPath f).map ((v, false) :: ·)

def maskOfPath (vars : List Nat) (p : List (Nat × Bool)) : Nat :=
  (vars.zipIdx).foldl (fun acc (v, i) => if p.any (fun q => q.1 == v && q.2) then acc ||| (1 <<< i) else acc) 0

/-- an assignment over `vars` on which `a` holds and `b` does not -/
def findNotImpl (vars : List Nat) (a b : BDD) : Option Nat :=
  if vars.length ≤ smallVars then findAsg vars (fun σ => !(eval a σ) || eval b σ) else
  match satPath (BDD.and a (BDD.not b)) with
  | none => none
  | some p =>
    let m := maskOfPath vars p
    if eval a (asgOf vars m) && !(eval b (asgOf vars m)) then some m else none

/-- an assignment over `vars` satisfying `a` -/
def findSat (vars : List Nat) (a : BDD) : Option Nat :=
  if vars.length ≤ smallVars then findAsg vars (fun σ => !(eval a σ)) else
  match satPath a with
  | none => none
  | some p => let m := maskOfPath vars p; if eval a (asgOf vars m) then some m else none

/-- an assignment over `vars` on which the two diagrams differ -/
def findDiff (vars : List Nat) (a b : BDD) : Option Nat :=
  orElseN (findNotImpl vars a b) (findNotImpl vars b a)
where orElseN (x y : Option Nat) : Option Nat := match x with | some v => some v | none => y

/-- do two diagrams denote the same function (decided on the union of their supports; with many variables: no
difference found along the paths of `and(a, not b)` and `and(b, not a)`)? -/
def sameFun (a b : BDD) : Bool :=
  let vs := varsOf [a, b]
  (findDiff vs a b).isNone

/-- check `∀ σ over vars, eval r σ = spec σ`, reporting the first failing assignment.  With many variables the
candidate is an assignment on which `r` differs from the model's diagram `m` (if any), and it is reported only if the
specification itself disagrees with `r` there. -/
def checkFun (vars : List Nat) (r : BDD) (spec : Asg → Bool) (what : String) (m : Option BDD := none) : Option String :=
  let bad : Option Nat :=
    if vars.length ≤ smallVars then findAsg vars (fun σ => eval r σ == spec σ) else
    match m with
    | none => none
    | some md => match findDiff vars r md with
      | some a => if eval r (asgOf vars a) != spec (asgOf vars a) then some a else none
      | none => none
  match bad with
  | none => none
  | some a => some s!"{what}: under {showAsg vars a} the returned diagram is {eval r (asgOf vars a)} but the specification says {spec (asgOf vars a)}"

def orElse (a b : Option String) : Option String :=
  match a with
  | some x => some x
  | none => b

end Driver
end Rsbdd
