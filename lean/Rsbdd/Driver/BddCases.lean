/-
Case handlers for the library-level properties C02–C07 and C20: the model's result for
the same operands, compared with what the implementation returned, and the property's
specification evaluated on what the implementation returned.
-/
import Rsbdd.Driver.Basic

namespace Rsbdd
namespace Driver
open BDD

def binModel : String → Option (BDD → BDD → BDD)
  | "and" => some BDD.and
  | "or" => some BDD.or
  | "implies" => some BDD.implies
  | "eq" => some BDD.eq
  | "xor" => some BDD.xor
  | "nor" => some BDD.nor
  | "nand" => some BDD.nand
  | _ => none

def binSpec : String → Option (Bool → Bool → Bool)
  | "and" => some (· && ·)
  | "or" => some (· || ·)
  | "implies" => some (fun x y => !x || y)
  | "eq" => some (fun x y => x == y)
  | "xor" => some (fun x y => x != y)
  | "nor" => some (fun x y => !(x || y))
  | "nand" => some (fun x y => !(x && y))
  | _ => none

def robddMsg (what : String) (r : BDD) : Option String :=
  if ¬ Ordered r then some s!"{what} is not ordered: {showBDD r}"
  else if ¬ Reduced r then some s!"{what} is not reduced: {showBDD r}"
  else none

/-- An operation line, generic over property: `op` and operands → the model's result and the
specification of the result's denotation (`none` when the op is unknown / malformed). -/
structure OpEval where
  model : Option BDD          -- `none`: model diverged (fp budget)
  operands : List BDD
  vars : List Nat             -- extra variables to range over
  spec : Option (Asg → Bool)  -- denotation the property prescribes, when it prescribes one

def cmpOfName : String → Option (Int → Bool)
  | "aln" => some (fun n => decide (n ≤ 0))
  | "amn" => some (fun n => decide (n ≥ 0))
  | "exn" => some (fun n => decide (n = 0))
  | _ => none

def toInt? (s : String) : Option Int :=
  let s := s.trimAscii.toString
  if s.startsWith "-" then (s.drop 1).toNat?.map (fun n => - (n : Int)) else s.toNat?.map (fun n => (n : Int))

/-- assignments that agree with `σ` outside `V`: `σ` overridden on `V` by `mask` -/
def overrideAsg (σ : Asg) (V : List Nat) (mask : Nat) : Asg :=
  fun w => match V.idxOf? w with
    | some i => mask.testBit i
    | none => σ w

def existsSpec (V : List Nat) (f : BDD) (σ : Asg) : Bool :=
  let V := dedup V
  (List.range (2 ^ V.length)).any (fun m => eval f (overrideAsg σ V m))

def forallSpec (V : List Nat) (f : BDD) (σ : Asg) : Bool :=
  let V := dedup V
  (List.range (2 ^ V.length)).all (fun m => eval f (overrideAsg σ V m))

def fpFuel : Nat := 100000

def evalOp (fields : List String) : Option OpEval :=
  match fields with
  | ["bin", op, a, b] => do
    let a ← parseBDD a; let b ← parseBDD b
    let m ← binModel op; let s ← binSpec op
    pure { model := some (m a b), operands := [a, b], vars := [], spec := some (fun σ => s (eval a σ) (eval b σ)) }
  | ["not", a] => do
    let a ← parseBDD a
    pure { model := some (BDD.not a), operands := [a], vars := [], spec := some (fun σ => !(eval a σ)) }
  | ["ite", a, b, c] => do
    let a ← parseBDD a; let b ← parseBDD b; let c ← parseBDD c
    pure { model := some (BDD.ite a b c), operands := [a, b, c], vars := [],
           spec := some (fun σ => if eval a σ then eval b σ else eval c σ) }
  | ["var", s] => do
    let s ← s.toNat?
    pure { model := some (BDD.var s), operands := [], vars := [s], spec := some (fun σ => σ s) }
  | ["const", v] =>
    let v := v == "1"
    some { model := some (BDD.mkConst v), operands := [], vars := [], spec := some (fun _ => v) }
  | ["exists", vs, f] => do
    let vs ← parseNats vs; let f ← parseBDD f
    pure { model := some (BDD.exists_ vs f), operands := [f], vars := vs, spec := some (existsSpec vs f) }
  | ["all", vs, f] => do
    let vs ← parseNats vs; let f ← parseBDD f
    pure { model := some (BDD.all vs f), operands := [f], vars := vs, spec := some (forallSpec vs f) }
  | ["existsimpl", v, f] => do
    let v ← v.toNat?; let f ← parseBDD f
    pure { model := some (BDD.existsImpl v f), operands := [f], vars := [v], spec := some (existsSpec [v] f) }
  | ["cnt", op, n, bs] => do
    let cmp ← cmpOfName op; let n ← toInt? n; let bs ← parseBDDList bs
    pure { model := some (BDD.cmpCount cmp bs n), operands := bs, vars := [],
           spec := some (fun σ => cmp (n - (count bs σ : Nat))) }
  | ["cntcmp", op, as, bs] => do
    let as ← parseBDDList as; let bs ← parseBDDList bs
    let (m, s) ← (match op with
      | "leq" => some (BDD.countLeq, fun (x y : Nat) => decide (x ≤ y))
      | "lt" => some (BDD.countLt, fun (x y : Nat) => decide (x < y))
      | "geq" => some (BDD.countGeq, fun (x y : Nat) => decide (x ≥ y))
      | "gt" => some (BDD.countGt, fun (x y : Nat) => decide (x > y))
      | "eq" => some (BDD.countEq, fun (x y : Nat) => decide (x = y))
      | _ => none : Option ((List BDD → List BDD → BDD) × (Nat → Nat → Bool)))
    pure { model := some (m as bs), operands := as ++ bs, vars := [],
           spec := some (fun σ => s (count as σ) (count bs σ)) }
  | ["model", f] => do
    let f ← parseBDD f
    pure { model := some (BDD.model f), operands := [f], vars := [], spec := none }
  | ["retain", flt, f] => do
    let f ← parseBDD f
    let flt ← (match flt with
      | "t" => some Filter.true_ | "f" => some Filter.false_ | "a" => some Filter.any | _ => none)
    pure { model := some (BDD.retain f flt), operands := [f], vars := [], spec := none }
  | ["fpor", a, g] => do
    -- `fp(a, |x| or(x, g))`
    let a ← parseBDD a; let g ← parseBDD g
    pure { model := BDD.fpIter (fun x => BDD.or x g) fpFuel a, operands := [a, g], vars := [],
           spec := some (fun σ => eval a σ || eval g σ) }
  | ["fpand", a, g] => do
    let a ← parseBDD a; let g ← parseBDD g
    pure { model := BDD.fpIter (fun x => BDD.and x g) fpFuel a, operands := [a, g], vars := [],
           spec := some (fun σ => eval a σ && eval g σ) }
  | ["fpchain", chain] => do
    -- `fp(d0, t)` for the transformer given by the chain d0 ↦ d1 ↦ … ↦ dk ↦ dk (every other diagram is
    -- mapped to itself): not monotone in general; the first element `t` maps to itself is `dk`
    let ds ← parseBDDList chain
    let d0 ← ds.head?
    let last ← ds.getLast?
    let t : BDD → BDD := fun x => match ds.idxOf? x with
      | some i => ds.getD (i + 1) last
      | none => x
    pure { model := BDD.fpIter t fpFuel d0, operands := ds, vars := [],
           spec := some (fun σ => eval last σ) }
  | _ => none

def showOpt : Option BDD → String
  | some b => showBDD b
  | none => "DIVERGE"

/-- C03-style line: `<op fields…>|<result>|<operands after the call, `;`-separated>` —
denotation only. -/
def handleSem (fields : List String) (r : String) (after : Option String) : Verdict :=
  match evalOp fields, parseBDD r with
  | some ev, some r =>
    let vars := dedup (varsOf (r :: ev.operands) ++ ev.vars)
    let m := ev.model
    let modelOk := match m with | some m => sameFun m r | none => false
    let o1 := match ev.spec with
      | some s => checkFun vars r s (String.intercalate " " (fields.take 2)) m
      | none => none
    let o2 := match after with
      | none => none
      | some s => match parseBDDList s with
        | some bs => if bs == ev.operands then none else some "an operand changed during the call"
        | none => some "unreadable operand dump"
    { modelOk, modelOut := showOpt m, oracle := orElse o1 o2,
      nontrivial := r.isChoice && !(ev.operands.contains r) }
  | _, _ => Verdict.badLine "unreadable op line"

/-- C02-style line: the observable of C02 is *structure as a function of denotation*: when
the implementation's result denotes the same function as the model's, the two must be the
same diagram (whether the denotation is right is C03–C07's business, not C02's); and the
result must be ordered and reduced when every operand is. -/
def handleStruct (fields : List String) (r : String) : Verdict :=
  match evalOp fields, parseBDD r with
  | some ev, some r =>
    let m := ev.model
    let opsOk := ev.operands.all (fun b => decide (ROBDD b))
    let o := if opsOk then robddMsg "the result" r else none
    let modelOk := match m with
      | some m => m == r || !(sameFun m r)
      | none => false
    { modelOk, modelOut := showOpt m, oracle := o,
      nontrivial := r.isChoice && !(ev.operands.contains r) }
  | _, _ => Verdict.badLine "unreadable op line"

def handleC03 (fields : List String) : Verdict :=
  match fields.reverse with
  | after :: r :: rest => handleSem rest.reverse r (some after)
  | _ => Verdict.badLine "short line"

def boolField (s : String) : Bool := s == "1"

def handleC02 (fields : List String) : Verdict :=
  match fields with
  | "step" :: rest =>
    match rest.reverse with
    | r :: ops => handleStruct ops.reverse r
    | _ => Verdict.badLine "short line"
  | ["canon", _route, c, r, eq, hasheq, isT, isF] =>
    match parseBDD c, parseBDD r with
    | some c, some r =>
      let eq := boolField eq; let hasheq := boolField hasheq
      let same := sameFun c r
      let vars := varsOf [r]
      let valid := (findSat vars (BDD.not r)).isNone
      let unsat := (findSat vars r).isNone
      let o :=
        orElse (robddMsg "the diagram reached by this route" r) <|
        orElse (if eq != same then some s!"`==` answers {eq} but the two diagrams {if same then "denote the same function" else "denote different functions"}" else none) <|
        orElse (if eq && !hasheq then some "equal diagrams hash differently" else none) <|
        orElse (if boolField isT != valid then some s!"is_true() = {boolField isT} but validity = {valid}" else none) <|
        (if boolField isF != unsat then some s!"is_false() = {boolField isF} but unsatisfiability = {unsat}" else none)
      -- model side: the canonical diagram of that function is unique (Thm/C02.canonical),
      -- so the model's value for any correct route is `c` itself
      { modelOk := (r == c) || !same, modelOut := showBDD c, oracle := o, nontrivial := r.isChoice }
    | _, _ => Verdict.badLine "unreadable canon line"
  | _ => Verdict.badLine "unknown C02 line"

def handleC04 (fields : List String) : Verdict :=
  match fields.reverse with
  | r :: rest =>
    let v := handleSem rest.reverse r none
    -- syntactic independence from the quantified variables
    match evalOp rest.reverse, parseBDD r with
    | some ev, some r =>
      let bad := ev.vars.filter (fun x => (support r).contains x)
      if bad.isEmpty then v else { v with oracle := orElse v.oracle (some s!"the result still tests quantified variable(s) {bad}") }
    | _, _ => v
  | _ => Verdict.badLine "short line"

def handleC05 (fields : List String) : Verdict :=
  match fields.reverse with
  | r :: rest => handleSem rest.reverse r none
  | _ => Verdict.badLine "short line"

def handleC07 (fields : List String) : Verdict :=
  match fields with
  | ["model", f, r] =>
    match parseBDD f, parseBDD r with
    | some f, some r =>
      let m := BDD.model f
      let vars := varsOf [f, r]
      let unsat := (findSat vars f).isNone
      let o :=
        if unsat then (if r == .F then none else some "f is unsatisfiable but model(f) is not the false leaf")
        else if r == .F then some "f is satisfiable but model(f) is the false leaf"
        else if ¬ IsCube r then some s!"model(f) is not a single conjunction of literals: {showBDD r}"
        else orElse
          (match findNotImpl vars r f with
            | some a => some s!"assignment {showAsg vars a} satisfies model(f) but not f"
            | none => none)
          (match (support r).filter (fun x => !(support f).contains x) with
            | [] => none
            | bad => some s!"model(f) mentions {bad}, which f does not depend on")
      { modelOk := (m == r), modelOut := showBDD m, oracle := o, nontrivial := r.isChoice }
    | _, _ => Verdict.badLine "unreadable model line"
  | ["infer", f, v, ans] =>
    match parseBDD f, v.toNat? with
    | some f, some v =>
      let m := BDD.infer f v
      let showP := fun (p : Bool × Bool) => (if p.1 then "1" else "0") ++ (if p.2 then "1" else "0")
      let vars := dedup (varsOf [f] ++ [v])
      let forced := (findNotImpl vars f (BDD.var v)).isNone
      let o := if (ans == "11") != forced then some s!"infer answers {ans} but 'm forces v true' is {forced}" else none
      { modelOk := (showP m == ans), modelOut := showP m, oracle := o, nontrivial := f.isChoice }
    | _, _ => Verdict.badLine "unreadable infer line"
  | _ => Verdict.badLine "unknown C07 line"

def handleC20 (fields : List String) : Verdict :=
  match fields with
  | ["retain", flt, f, r] =>
    match parseBDD f, parseBDD r with
    | some f, some r =>
      let fl := match flt with | "t" => Filter.true_ | "f" => Filter.false_ | _ => Filter.any
      let m := BDD.retain f fl
      let vars := varsOf [f, r]
      let o :=
        orElse (match flt with
          | "t" => (findNotImpl vars f r).map
              (fun a => s!"filter True: {showAsg vars a} satisfies f but not the result")
          | "f" => (findNotImpl vars r f).map
              (fun a => s!"filter False: {showAsg vars a} satisfies the result but not f")
          | _ => if r == f then none else some "filter Any changed the diagram") <|
        orElse (if ROBDD f then robddMsg "the result" r else none) <|
        (match (support r).filter (fun x => !(support f).contains x) with
          | [] => none
          | bad => some s!"the result mentions {bad}, which f does not")
      { modelOk := (m == r), modelOut := showBDD m, oracle := o, nontrivial := r.isChoice && r != f }
    | _, _ => Verdict.badLine "unreadable retain line"
  | _ => Verdict.badLine "unknown C20 line"

end Driver
end Rsbdd
