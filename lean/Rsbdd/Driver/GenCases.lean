/-
Case handlers for the generator properties C15–C18: the text a generator emitted, parsed by
the real parser, is compared with the model's formula and its models with the puzzle
specification.
-/
import Rsbdd.Driver.DotCases
import Rsbdd.Model.Gen.Queens
import Rsbdd.Model.Gen.QueensText
import Rsbdd.Model.Gen.Clique
import Rsbdd.Model.Gen.CliqueText
import Rsbdd.Model.Gen.Sudoku
import Rsbdd.Model.Gen.SudokuText
import Rsbdd.Model.Gen.Graph
import Rsbdd.Model.Gen.GraphText
import Rsbdd.Model.Gen.CsvInput
import Rsbdd.Spec.Puzzles

namespace Rsbdd
namespace Driver
open Gen Puzzles

/-- the counting constraints of a right-nested conjunction ending in `true` -/
def conjuncts : Nat → Formula → Option (List Formula)
  | 0, _ => none
  | _, .true_ => some []
  | fuel + 1, .bin .and l r => (conjuncts fuel r).map (l :: ·)
  | _, _ => none

def cellsOfList (fs : List Formula) : Option (List Nat) :=
  fs.mapM (fun f => match f with | .var v => some v | _ => none)

def sortStrings' (xs : List String) : List String := (xs.toArray.qsort (· < ·)).toList

def cntOpTag : CntOp → Nat
  | .atMost => 0 | .lessThan => 1 | .atLeast => 2 | .moreThan => 3 | .exactly => 4

/-- a conjunction of literals and counting constraints over variables, up to the order of the conjuncts
and of the variables inside a list: sorted keys `[tag, bound, cells…]` (a plain variable: `[9, v]`) -/
def conjKey (fuel : Nat) (f : Formula) : Option (List String) :=
  match conjuncts fuel f with
  | none => none
  | some cs =>
    let keys : Option (List (List Nat)) := cs.mapM (fun (c : Formula) => match c with
      | Formula.var v => some [9, v]
      | Formula.cntConst op fs k => (cellsOfList fs).map (fun l => cntOpTag op :: k :: sortNats l)
      | _ => none)
    keys.map (fun (ks : List (List Nat)) =>
      sortStrings' (ks.map (fun k => String.intercalate "," (k.map toString))))

/-- the two formulas are the same conjunction of the same constraints (the order in which a generator
writes its constraints, or the variables of one list, is not part of any property) -/
def sameConstraints (fuel : Nat) (m f : Formula) : Bool :=
  beqFormula m f || (match conjKey fuel m, conjKey fuel f with
    | some a, some b => a == b
    | _, _ => false)

/-- `unwritable|which|exit class|anything on stdout 0/1`: the OUTPUT given cannot be created; a tool that then reports
success has put its formula somewhere else or nowhere, and the file the user named does not hold it -/
def handleUnwritable (tool : String) (fields : List String) : Verdict :=
  match fields with
  | [which, cls, _] =>
    let o := if cls == "ok" then some s!"{tool} reported success although its output file cannot be created ({which}): the file named does not hold what was asked for"
      else if cls == "panic" || cls == "signal" then some s!"{tool} crashed ({cls}) on an output file that cannot be created ({which})"
      else none
    { modelOk := cls == "err", modelOut := "refused", oracle := o, nontrivial := true }
  | _ => Verdict.badLine "unwritable line needs three fields"

/-- does `[..] op k` exclude two true operands?  (`<= 1`, `= 1`, `< 2`, and the degenerate `<= 0`, `= 0`, `< 1`, `< 0`) -/
def forbidsTwo (op : CntOp) (k : Nat) : Bool :=
  match op with
  | .atMost => k ≤ 1
  | .exactly => k ≤ 1
  | .lessThan => k ≤ 2
  | _ => false

/-- `queens|n|exit class|tree (variable id = k of v_k) or BIG or ERR|solver rows or -` -/
def handleC15 (fields : List String) : Verdict :=
  match fields with
  | "unwritable" :: rest => handleUnwritable "n_queens_gen" rest
  | ["head", n, cls, cells, tails] =>
    -- the first three constraint lines of a board too large to wait for: the model's first three lists
    -- (`Queens.diag1a`: i + j (n + 1) for j < n - i, `<= 1`)
    match n.toNat? with
    | none => Verdict.badLine "bad n"
    | some n =>
      -- the harness's reader did not find three constraint lines before its own time limit: nothing is known
      if cls == "unread" then { modelOk := false, modelOut := "three lists at the start of the output" } else
      if cls != "ok" then
        { modelOk := false, modelOut := "ok", oracle := some s!"n_queens_gen -n {n} did not write its first lists ({cls})" } else
      let want := (List.range 3).map (fun i => (List.range (n - i)).map (fun j => i + j * (n + 1)))
      let got := ((cells.splitOn ";").map (fun l => ((l.splitOn " ").filter (· ≠ "")).filterMap (·.toNat?)))
      let tailsOk := (tails.splitOn ";").all (fun t => t == "<= 1 &")
      let same := got == want && tailsOk
      -- the property's side: cells of the board, pairwise on one diagonal (a constraint that holds for every placement)
      -- (in whatever order a list names them: all in one row, one column or one diagonal)
      let sound := got.all (fun l => l.all (· < n * n) && (match l.head? with
        | none => true
        | some a => l.all (fun b => b / n == a / n) || l.all (fun b => b % n == a % n)
            || l.all (fun b => b / n + a % n == a / n + b % n) || l.all (fun b => b / n + b % n == a / n + a % n)))
      -- `<= 1` and `< 2` say the same; `= 1` holds for every placement only over a whole row or column
      let tailsSound := ((tails.splitOn ";").zip got).all (fun (t, l) =>
        let t := if t.endsWith " &" then (t.dropEnd 2).toString else if t.endsWith " and" then (t.dropEnd 4).toString else t
        t == "<= 1" || t == "< 2" || (t == "= 1" && l.eraseDups.length == n && (match l.head? with
          | none => false
          | some a => l.all (fun b => b / n == a / n) || l.all (fun b => b % n == a % n))))
      { modelOk := same, modelOut := s!"{want.map (·.length)} cells", nontrivial := true,
        oracle := if sound && tailsSound then none else some s!"one of the first lists for n = {n} is not an at-most-one over cells of one line of the board" }
  | ["text", n, version, bytes] =>
    -- the bytes of the output against the text model (`Queens.text`): a recorded tie, not a verdict —
    -- the property is decided on the parsed tree; `Thm/C15T` speaks about the current code while they agree
    match n.toNat?, unhexStr version, unhexStr bytes with
    | some n, some v, some real =>
      let same := real.toList == Queens.text v n
      { modelOk := true, nontrivial := same, info := some (if same then "text-model.identical" else "text-model.differs") }
    | _, _, _ => Verdict.badLine "unreadable text line"
  | ["queens", n, cls, ast, solver] =>
    match n.toNat? with
    | none => Verdict.badLine "bad n"
    | some n =>
      if cls != "ok" then
        { modelOk := false, modelOut := "ok", oracle := some s!"n_queens_gen -n {n} did not succeed ({cls})" }
      else if ast == "ERR" then
        { modelOk := false, modelOut := "a formula", oracle := some s!"the output for n = {n} is not a well-formed formula" }
      else if ast.startsWith "BIG" then
        -- `BIG <constraints> <maxvar> <lists ok 0/1>`: summary computed by the harness for large n
        match (ast.splitOn " ").filter (· ≠ "") with
        | [_, cnt, maxv, ok, sound, rowsE, colsE, dDown, dUp] =>
          -- the model writes 6n - 2 constraints; another number of them is a difference from the model, not a failing
          -- input.  What the property needs (n > 40 here): every constraint holds for every placement, every row and
          -- column stands under an exactly-one, every diagonal of two or more cells stands whole under a constraint
          let need := 2 * n - 3
          let o := if (maxv.toNat?.getD 0) > n * n - 1 then some s!"a name v_{maxv} that is not a cell of the {n} x {n} board"
            else if sound != "1" then some "a constraint of the large instance does not hold for every placement (cells not on one line, a name that is not a cell, or exactly-one on something else than a whole row or column)"
            else if ok != "1" then none
            else if rowsE.toNat? != some n then some s!"only {rowsE} of the {n} rows stand under an exactly-one constraint"
            else if colsE.toNat? != some n then some s!"only {colsE} of the {n} columns stand under an exactly-one constraint"
            else if (dDown.toNat?.getD 0) < need || (dUp.toNat?.getD 0) < need then
              some s!"{dDown} / {dUp} of the {need} diagonals (of two or more cells) in each direction stand whole under a constraint: an attacking pair is not excluded"
            else none
          { modelOk := cnt.toNat? == some (6 * n - 2) && maxv.toNat? == some (n * n - 1) && ok == "1", modelOut := s!"{6 * n - 2} constraints",
            oracle := o, nontrivial := true }
        | _ => Verdict.badLine "bad BIG summary"
      else match parseFormula ast with
      | none => Verdict.badLine "unreadable tree"
      | some f =>
        let m := Queens.formula n
        let modelOk := sameConstraints (10 * n + 20) m f
        -- oracle 1 (n ≤ 4): the formula's models are exactly the placements, over all 2^(n²) boards
        let o1 : Option String :=
          if n > 4 then none else
          let U := List.range (n * n)
          match SemExec.semTT U 4 (modelFuel f) f [] with
          -- outside the evaluator's reach (its fuel, a construct it does not know): nothing is said
          | none => none
          | some tt =>
            match (List.range (2 ^ (n * n))).find? (fun mask =>
              tt.getD mask false != isNQueens n (fun k => mask.testBit k)) with
            | some mask => some s!"board {mask} (bit k = queen on cell k): the formula says {tt.getD mask false}, the n-queens rules say {isNQueens n (fun k => mask.testBit k)}"
            | none => none
        -- oracle 2 (all n sent): every placement satisfies every constraint, and every attacking pair of
        -- cells is inside some at-most-one / exactly-one list
        let o2 : Option String :=
          match conjuncts (10 * n + 20) f with
          -- another shape of formula is not by itself a failing input: it is a difference from the model (`modelOk`),
          -- and for n <= 4 oracle 1 has already compared its models with the placements
          | none => none
          | some cs =>
            let lists := cs.filterMap (fun c => match c with
              | .cntConst op fs k => (cellsOfList fs).map (fun l => (op, l, k))
              | _ => none)
            if lists.length != cs.length then none else
            if lists.any (fun (_, l, _) => l.any (fun v => v ≥ n * n)) then some "a variable outside v_0 … v_(n*n-1)" else
            let sols := if n ≤ 8 then solveQueens n else []
            let holds := fun (board : Nat → Bool) (c : CntOp × List Nat × Nat) =>
              let k := (c.2.1.filter board).length
              SemExec.cntSem c.1 k c.2.2
            match sols.find? (fun s => !(lists.all (holds (fun cell => s.getD (cell / n) n == cell % n)))) with
            | some s => some s!"the placement {s} (column of the queen in each row) falsifies the emitted formula"
            | none =>
              if n > 12 then none else
              let cellsL := List.range (n * n)
              match cellsL.findSome? (fun a => (cellsL.find? (fun b => a < b &&
                  (a / n == b / n || a % n == b % n || sameDiag (a / n) (a % n) (b / n) (b % n)) &&
                  !(lists.any (fun (op, l, k) => forbidsTwo op k && l.contains a && l.contains b)))).map (fun b => (a, b))) with
              | some (a, b) => some s!"cells {a} and {b} attack each other but no emitted constraint forbids two queens there"
              | none => none
        -- oracle 3: what the real solver lists
        let o3 : Option String :=
          if solver == "-" then none else
          let rows := (solver.splitOn ";").filter (· ≠ "")
          let want := (solveQueens n).map (fun s => String.intercalate "." ((s.zipIdx.map (fun (c, r) => r * n + c)).map toString))
          let sameSet := rows.all (want.contains ·) && want.all (rows.contains ·) && rows.length == want.length
          if sameSet then none else some s!"rsbdd lists {rows.length} placements, there are {want.length}"
        { modelOk, modelOut := s!"{(Queens.constraints n).length} constraints", oracle := orElse o1 (orElse o2 o3),
          nontrivial := n ≥ 4 }
  | _ => Verdict.badLine "unknown C15 line"

end Driver
end Rsbdd

namespace Rsbdd
namespace Driver
open Gen Puzzles

def dedupS (xs : List String) : List String :=
  xs.foldl (fun acc x => if acc.contains x then acc else acc ++ [x]) []

def sortStrings (xs : List String) : List String := (xs.toArray.qsort (· < ·)).toList

/-- the copy prefix the generator chooses: `v_`, lengthened with `_` until no vertex name is
prefix ++ another vertex name (bounded: names are finite) -/
def copyPrefix (vs : List String) : String :=
  let rec go (fuel : Nat) (p : String) : String :=
    match fuel with
    | 0 => p
    | fuel + 1 => if vs.any (fun v => vs.contains (p ++ v)) then go fuel (p ++ "_") else p
  go 64 "v_"

/-- `clique|u|a|edges (hexa>hexb,…)|exit class|tree (real ids)|names (hexname:id,…)|solver rows or -` -/
def handleC16 (fields : List String) : Verdict :=
  match fields with
  | "unwritable" :: rest => handleUnwritable "max_clique_gen" rest
  | ["text", u, a, version, edges, bytes] =>
    -- the bytes of the output against the text model (`Clique.text`): a recorded tie, not a verdict.  The
    -- iteration order of the vertex set is read off the `forall` line (so: only without --all)
    let edgesL : Option (List (String × String)) :=
      if edges.isEmpty then some [] else (edges.splitOn ",").mapM (fun e => match e.splitOn ">" with
        | [x, y] => match unhexStr x, unhexStr y with
          | some x, some y => some (x, y)
          | _, _ => none
        | _ => none)
    match edgesL, unhexStr version, unhexStr bytes with
    | some es, some v, some real =>
      if a == "1" then { modelOk := true, info := some "text-model.not-compared(--all hides the vertex order)" } else
      let verts := dedupS (es.flatMap (fun e => [e.1, e.2]))
      let pre := String.ofList (Clique.copyPrefix (verts.map (·.toList)))
      -- the order of the vertices: the names after `[` on the last line
      let lastLine := ((real.splitOn "\n").filter (· ≠ "")).getLast?.getD ""
      let inner := ((lastLine.splitOn "] >= [").head?.getD "").splitOn "=> ["
      let order := match inner with
        | [_, l] => (l.splitOn ", ").filter (· ≠ "")
        | _ => []
      let idxOf := fun (n : String) => (verts.idxOf? n).getD 0
      let same := order.all (verts.contains ·) && order.length == verts.length &&
        real.toList == Clique.text v (fun i => (verts.getD i "").toList) pre.toList (es.map (fun e => (idxOf e.1, idxOf e.2)))
          (order.map idxOf) (u == "1") false
      { modelOk := true, nontrivial := same, info := some (if same then "text-model.identical" else "text-model.differs") }
    | _, _, _ => Verdict.badLine "unreadable text line"
  | ["clique", u, a, edges, cls, ast, names, solver] =>
    let undirected := u == "1"; let all := a == "1"
    let edgesL : Option (List (String × String)) :=
      if edges.isEmpty then some [] else (edges.splitOn ",").mapM (fun e => match e.splitOn ">" with
        | [x, y] => match unhexStr x, unhexStr y with
          | some x, some y => some (x, y)
          | _, _ => none
        | _ => none)
    match edgesL, parseVarTable names with
    | some es, some namesT =>
      if cls != "ok" then { modelOk := false, modelOut := "ok", oracle := some s!"max_clique_gen did not succeed ({cls})" } else
      match parseFormula ast with
      | none => { modelOk := false, modelOut := "a formula", oracle := some "the output is not a well-formed formula" }
      | some f =>
        let verts := sortStrings (dedupS (es.flatMap (fun e => [e.1, e.2])))
        let k := verts.length
        if k > 6 && !(all && k ≤ 13) then Verdict.badLine "too many vertices for the oracle" else
        let idxOf := fun (n : String) => (verts.idxOf? n).getD 0
        let edgesI := es.map (fun e => (idxOf e.1, idxOf e.2))
        -- ids: the real tokenizer's, for names the output mentions; fresh ones otherwise
        let namesT' := namesT.filterMap (fun v => (unhexStr v.1).map (fun n => (n, v.2)))
        let maxId := namesT'.foldl (fun m v => max m (v.2 + 1)) 0
        let pre := copyPrefix verts
        let allNames := dedupS (verts ++ verts.map (pre ++ ·))
        let idOfName := fun (n : String) => match namesT'.find? (fun v => v.1 == n) with
          | some v => v.2
          | none => maxId + (allNames.idxOf? n).getD 0
        let vid := fun (i : Nat) => idOfName (verts.getD i "")
        let cid := fun (i : Nat) => idOfName (pre ++ verts.getD i "")
        let m := Clique.formula edgesI (List.range k) undirected all vid cid
        let U := sortNats (dedup ((List.range k).map vid ++ (if all then [] else (List.range k).map cid) ++ SemExec.allVars f ++ SemExec.allVars m))
        if U.length > 13 then Verdict.badLine "too many variables" else
        match SemExec.semTT U 4 (modelFuel f) f [], SemExec.semTT U 4 (modelFuel m) m [] with
        | some ttR, some ttM =>
          let modelOk := ttR == ttM
          -- oracle: as a function of the vertex variables the formula holds exactly on the (maximum) cliques
          let adj := Puzzles.adjOf edgesI undirected   -- `C16.isClique_iff`, `C16.clique_max_bool`
          let best := maxCliqueSize adj (List.range k)
          let vertexIds := (List.range k).map vid
          let bad := (List.range (2 ^ U.length)).find? (fun mask =>
            let sset := (List.range k).filter (fun i => match U.idxOf? (vid i) with
              | some j => mask.testBit j | none => false)
            let want := isClique adj sset && (all || sset.length == best)
            tt_get ttR mask != want)
          let o := match bad with
            | some mask =>
              let sset := (List.range k).filter (fun i => match U.idxOf? (vid i) with
                | some j => mask.testBit j | none => false)
              some s!"vertex set {sset.map (fun i => verts.getD i "")}: the formula says {tt_get ttR mask}, but it is {if isClique adj sset then "a clique" else "not a clique"} of size {sset.length} (maximum clique size {best})"
            | none =>
              if solver == "-" then none else
              -- `;` alone: no row; a row without names (the empty vertex set) is written EMPTY
              let rows := ((solver.splitOn ";").filter (· ≠ "")).map (fun s => if s == "EMPTY" then "" else s)
              let want := ((subsetsOf (List.range k)).filter (fun s => isClique adj s && (all || s.length == best))).map
                (fun s => String.intercalate "." (sortStrings (s.map (fun i => hexOf (verts.getD i "")))))
              -- rows may leave unmentioned vertices out; compare only when every vertex is mentioned
              if (List.range k).all (fun i => namesT'.any (fun v => v.1 == verts.getD i "")) &&
                 !(rows.all (want.contains ·) && want.all (rows.contains ·)) then
                some s!"rsbdd lists {rows.length} vertex sets, the (maximum) cliques are {want.length}"
              else none
          let _ := vertexIds
          { modelOk, modelOut := s!"prefix {pre}", oracle := o, nontrivial := k ≥ 3 }
        | _, _ => Verdict.badLine "cannot evaluate"
    | _, _ => Verdict.badLine "unreadable clique line"
  | _ => Verdict.badLine "unknown C16 line"
where
  tt_get (tt : SemExec.TT) (m : Nat) : Bool := tt.getD m false

end Driver
end Rsbdd

namespace Rsbdd
namespace Driver
open Gen Puzzles

/-- variables of the sudoku formula: `_c_is_d` is sent as `c * 1024 + d` -/
def sudokuVid (c d : Nat) : Nat := c * 1024 + d

mutual
/-- the value of a formula without quantifiers and fixed points under an assignment of its variables — whatever its shape
(the conjunction may start or end with `true`, a constraint may be split in two, …); `none`: a construct outside that
fragment, or the fuel ran out: then nothing is said about the formula -/
def holdsConj (board : Nat → Bool) : Nat → Formula → Option Bool
  | 0, _ => none
  | _, .true_ => some true
  | _, .false_ => some false
  | _, .var v => some (board v)
  | fuel + 1, .not f => (holdsConj board fuel f).map (!·)
  | fuel + 1, .bin op l r =>
    match holdsConj board fuel l, holdsConj board fuel r with
    | some a, some b => some (match op with
      | .and => a && b | .or => a || b | .xor => a != b | .nor => !(a || b) | .nand => !(a && b)
      | .implies => !a || b | .impliesInv => !b || a | .iff => a == b)
    | _, _ => none
  | fuel + 1, .ite c t e =>
    match holdsConj board fuel c, holdsConj board fuel t, holdsConj board fuel e with
    | some c, some t, some e => some (if c then t else e)
    | _, _, _ => none
  | fuel + 1, .cntConst op fs k => (countHolds board fuel fs).map (fun c => SemExec.cntSem op c k)
  | _, _ => none
def countHolds (board : Nat → Bool) : Nat → List Formula → Option Nat
  | 0, _ => none
  | _, [] => some 0
  | fuel + 1, f :: fs =>
    match holdsConj board fuel f, countHolds board fuel fs with
    | some a, some c => some (c + (if a then 1 else 0))
    | _, _ => none
end

/-- `sudoku|root|puzzle (hex, whitespace removed)|exit class|tree or ERR|solver rows or -` -/
def handleC17 (fields : List String) : Verdict :=
  match fields with
  | "unwritable" :: rest => handleUnwritable "sudoku_gen" rest
  | ["ws", codes] =>
    -- the code points for which Rust's `char::is_whitespace` holds (asked of the standard library for every `char`),
    -- against the table the model strips with (`Sudoku.whitespaceTable`)
    let real := (codes.splitOn ",").filterMap (·.toNat?)
    let same := real == Sudoku.whitespaceTable
    { modelOk := same, modelOut := toString Sudoku.whitespaceTable, nontrivial := true,
      oracle := none }
  | ["text", root, version, puzzle, bytes] =>
    -- the bytes of the output against the text model (`Sudoku.textOfRaw`, the puzzle text as it was given, white space
    -- removed by the model): a recorded tie, not a verdict
    match root.toNat?, unhexStr version, unhexStr puzzle, unhexStr bytes with
    | some root, some v, some pz, some real =>
      let same := real.toList == Sudoku.textOfRaw v root pz.toList
      { modelOk := true, nontrivial := same, info := some (if same then "text-model.identical" else "text-model.differs") }
    | _, _, _, _ => Verdict.badLine "unreadable text line"
  | ["sudoku", root, puzzle, cls, ast, solver] =>
    match root.toNat?, unhexStr puzzle with
    | some r, some praw =>
      let sq := r * r
      -- the puzzle text arrives as it was given; the model removes the white space (`Sudoku.strip`)
      let ptext := Sudoku.strip praw.toList
      let givens : List (Option Nat) := ptext.map (fun ch => if ch.isDigit then some (ch.toNat - '0'.toNat) else none)
      let inScope := (givens.take (sq * sq)).all (fun g => match g with
        | some d => 1 ≤ d && d ≤ sq
        | none => true)
      if cls != "ok" then { modelOk := false, modelOut := "ok", oracle := some s!"sudoku_gen did not succeed ({cls})" } else
      match parseFormula ast with
      | none => { modelOk := false, modelOut := "a formula", oracle := some "the output is not a well-formed formula" }
      | some f =>
        let m := Sudoku.formula r givens sudokuVid
        let modelOk := sameConstraints (4 * (sq * sq * 4 + 100)) m f
        if !inScope then { modelOk, modelOut := "" } else
        let fuel := 4 * (sq * sq * 4 + 100)
        -- for the larger roots: the grid `(row mod r) * r + row / r + col (mod r²) + 1`, a valid completed grid of every
        -- root, when the puzzle has no givens within its first r⁴ symbols
        let blank := (givens.take (sq * sq)).all (·.isNone)
        let pattern : List Nat := (List.range (sq * sq)).map (fun c => ((c / sq % r) * r + c / sq / r + c % sq) % sq + 1)
        let boardOf := fun (g : List Nat) => fun (v : Nat) => g.getD (v / 1024) 0 == v % 1024
        -- oracle (a): every completed grid that keeps the givens satisfies the formula (r ≤ 2: all of them)
        -- root 3: the puzzles of the stream are cut out of one completed grid; when the givens agree with it, it is a solution
        let known9 : List Nat := "534678912672195348198342567859761423426853791713924856961537284287419635345286179".toList.map (fun ch => ch.toNat - '0'.toNat)
        let agrees9 := r == 3 && (List.range 81).all (fun c => match givens[c]? with
          | some (some d) => known9.getD c 0 == d
          | _ => true)
        -- roots 4 and up: puzzles cut out of the pattern grid; when the givens agree with it, it is a solution
        let agreesP := r ≥ 4 && (List.range (sq * sq)).all (fun c => match givens[c]? with
          | some (some d) => pattern.getD c 0 == d
          | _ => true)
        let sols := if r ≤ 2 then solveSudoku r givens else if blank then [pattern] else if agrees9 then [known9]
          else if agreesP then [pattern] else []
        -- oracle (f), root 3: exchanging a digit that is given somewhere with a digit that is given nowhere turns the
        -- solution into another valid completed grid, which does not keep the givens and must falsify the formula
        let ofr := if !(agrees9 || agreesP) || blank then none else
          let base := if agrees9 then known9 else pattern
          let present := fun (d : Nat) => (givens.take (sq * sq)).any (fun g => g == some d)
          ((List.range sq).map (· + 1)).findSome? (fun d => if present d then none else
            ((List.range sq).map (· + 1)).findSome? (fun e => if !present e then none else
              let g' := base.map (fun x => if x == d then e else if x == e then d else x)
              if holdsConj (boardOf g') fuel f == some true then
                some s!"the valid grid obtained from the solution by exchanging {d} and {e} does not keep the given {e}s, yet satisfies the emitted formula"
              else none))
        let oa := match sols.find? (fun g => holdsConj (boardOf g) fuel f == some false) with
          | some g => some s!"the completed grid {g} keeps the givens and is valid, but falsifies the emitted formula"
          | none => none
        -- oracle (b): near misses of every solution are rejected: changing one cell to another number
        let ob :=
          match sols.findSome? (fun g => (if r ≤ 2 then List.range (sq * sq) else [0, 9, sq * sq - 1]).findSome? (fun c => ((List.range sq).map (· + 1)).findSome? (fun d =>
              if g.getD c 0 == d then none else
              let g' := g.set c d
              if holdsConj (boardOf g') fuel f == some true then some (g', c) else none))) with
          | some (g', c) => some s!"the grid {g'} (a solution with cell {c} changed) is not valid but satisfies the emitted formula"
          | none => none
        -- oracle (c): a cell with no number / two numbers is rejected
        let oc :=
          match sols.head? with
          | some g =>
            let b0 := fun (v : Nat) => if v / 1024 == 0 then false else boardOf g v
            let b2 := fun (v : Nat) => if v / 1024 == 0 && v % 1024 ≥ 1 && v % 1024 ≤ 2 then true else boardOf g v
            if holdsConj b0 fuel f == some true then some "an assignment leaving cell 0 without a number satisfies the formula"
            else if sq ≥ 2 && holdsConj b2 fuel f == some true then some "an assignment giving cell 0 two numbers satisfies the formula"
            else none
          | none => none
        -- oracle (e): among ALL valid completed grids (r ≤ 2: 288 of them), exactly those that keep every
        -- given satisfy the formula
        let oe := if r > 2 then none else
          let keeps := fun (g : List Nat) => (List.range (sq * sq)).all (fun c => match givens[c]? with
            | some (some d) => g.getD c 0 == d
            | _ => true)
          match (solveSudoku r []).find? (fun g => match holdsConj (boardOf g) fuel f with | some v => v != keeps g | none => false) with
          | some g => some (if keeps g then s!"the valid grid {g} keeps the givens but falsifies the emitted formula"
              else s!"the valid grid {g} does not keep every given, yet satisfies the emitted formula")
          | none => none
        -- oracle (d): what the real solver lists (exact model-set equality, r ≤ 2)
        let od := if solver == "-" || r > 2 then none else
          let rows := (solver.splitOn ";").filter (· ≠ "")
          let want := sols.map (fun g => String.intercalate "." (sortStrings (g.zipIdx.map (fun (d, c) => toString (sudokuVid c d)))))
          let rowsN := rows.map (fun r => String.intercalate "." (sortStrings ((r.splitOn ".").filter (· ≠ ""))))
          if rowsN.all (want.contains ·) && want.all (rowsN.contains ·) && rowsN.length == want.length then none
          else some s!"rsbdd lists {rows.length} models, the puzzle has {want.length} solutions"
        { modelOk, modelOut := "", oracle := orElse oa (orElse ob (orElse oc (orElse oe (orElse od ofr)))), nontrivial := r ≥ 2 }
    | _, _ => Verdict.badLine "unreadable sudoku line"
  | _ => Verdict.badLine "unknown C17 line"

end Driver
end Rsbdd

namespace Rsbdd
namespace Driver
open Gen Puzzles

def parsePairs (s : String) : Option (List (String × String)) :=
  if s.isEmpty then some [] else (s.splitOn ",").mapM (fun e => match e.splitOn ">" with
    | [a, b] => match unhexStr a, unhexStr b with
      | some a, some b => some (a, b)
      | _, _ => none
    | _ => none)

def vertexIndex (name : String) : Option Nat :=
  if name.startsWith "v" then (name.drop 1).toNat? else none

/-- C18 lines:
`gen|V|E or -|u|complete|exit class|edges`, `convert|u|input|exit class|output`, `colors|k|input|exit class|output` -/
def handleC18 (fields : List String) : Verdict :=
  match fields with
  | "unwritable" :: rest => handleUnwritable "random_graph_gen" rest
  | ["gencolors", v, e, u, _k, cls] =>
    -- a generation request together with --colors: it can be met exactly when E candidates exist
    match v.toNat?, e.toNat? with
    | some v, some e =>
      let cands := (Graph.candidates v (u == "1")).length
      let feasible := e ≤ cands
      let o := if cls == "panic" || cls == "signal" then some s!"the tool crashed ({cls})"
        else if feasible && cls != "ok" then some s!"a request that can be met ({e} of {cands} possible edges, with --colors) was refused"
        else if !feasible && cls == "ok" then some s!"{e} edges were asked of a graph that has only {cands}; the tool did not refuse (with --colors)"
        else none
      { modelOk := (cls == "ok") == feasible, modelOut := if feasible then "ok" else "refused", oracle := o, nontrivial := true }
    | _, _ => Verdict.badLine "unreadable gencolors line"
  | ["gen", _, _, _, _, "ok", "UNREADABLE"] =>
    { modelOk := false, modelOut := "an edge list", oracle := some "the output is not an edge list of the requested format" }
  | ["read", u, rawHex, cls, outHex] =>
    -- the bytes of an edge-list file and what --convert printed for it: the model's reader of the file
    -- (`CsvInput.readEdges`, Thm/C16I), the model's conversion, the model's text
    match unhexStr rawHex, unhexStr outHex with
    | some raw, some outp =>
      if raw.toList.contains '"' then { modelOk := true, info := some "csv-input.quoted-field-outside-the-model" } else
      match CsvInput.readEdges raw.toList with
      | none =>
        -- a record without exactly two fields: the tools stop (an error of the csv reader, or the assertion on the
        -- number of fields)
        { modelOk := cls != "ok", modelOut := "refused", nontrivial := true,
          oracle := if cls == "ok" then some "an edge list with a record that does not have two fields was converted without complaint" else none }
      | some es =>
        let inp := es.map (fun e => (String.ofList e.1, String.ofList e.2))
        let m := (Graph.readGraph inp (u == "1")).map (fun p => (p.1.toList, p.2.toList))
        let want := GraphText.csvText m
        if cls != "ok" then { modelOk := false, modelOut := "ok", oracle := some s!"--convert failed ({cls}) on a well-formed edge list" } else
        let same := outp.toList == want
        { modelOk := same, modelOut := String.ofList want, nontrivial := es.length > 1,
          oracle := if same then none else some s!"--convert does not reproduce the edge list of the file: it printed {repr outp}, the list is {repr (String.ofList want)}" }
    | _, _ => Verdict.badLine "unreadable read line"
  | ["convert", _, _, "ok", "UNREADABLE"] =>
    { modelOk := false, modelOut := "an edge list", oracle := some "the --convert output is not an edge list" }
  | ["text", form, u, harnessPairs, rawHex, input] =>
    -- the bytes against the text model of Thm/C18T: read by the Lean readers (agreement with the harness's reading
    -- required); for --convert (`input` given) compared with the text of the model's converted list
    match parsePairs harnessPairs, unhexStr rawHex with
    | some hp, some raw =>
      let und := u == "1"
      let toE := fun (p : String × String) => (p.1.toList, p.2.toList)
      let read : Option (List GraphText.Edge) :=
        if form == "dot" then (match GraphText.readDot raw.toList with
          | some (uu, es) => if uu == und then some es else none
          | none => none)
        else GraphText.readCsv raw.toList
      let agree := read == some (hp.map toE)
      let tie : Option String := if input == "-" then none else
        match parsePairs input with
        | some inp =>
          let m := (Graph.readGraph inp und).map toE
          let t := if form == "dot" then GraphText.dotText und m else GraphText.csvText m
          some (if t == raw.toList then "graph-text.identical" else "graph-text.differs")
        | none => none
      { modelOk := agree, modelOut := if agree then "" else "the two readers of the edge list disagree (or the Lean reader refuses the text)",
        nontrivial := hp.length > 1, info := tie }
    | _, _ => Verdict.badLine "unreadable text line"
  | ["colors", _, _, "ok", "UNREADABLE"] =>
    { modelOk := false, modelOut := "an edge list", oracle := some "the --colors output is not an edge list" }
  | ["gen", v, e, u, complete, cls, edges] =>
    match v.toNat?, parsePairs edges with
    | some v, some es =>
      let undirected := u == "1"; let complete := complete == "1"
      let cands := Graph.candidates v undirected
      let want : Nat := if complete then cands.length else (e.toNat?).getD 0
      let feasible := want ≤ cands.length
      let idx := es.mapM (fun p => match vertexIndex p.1, vertexIndex p.2 with
        | some a, some b => some (a, b) | _, _ => none)
      if !feasible then
        -- a request that cannot be met is refused, not truncated
        let o := if cls == "ok" then some s!"{want} edges were asked of a graph that has only {cands.length}; the tool did not refuse"
          else if cls == "panic" || cls == "signal" then some s!"the tool crashed ({cls})"
          else if !es.isEmpty then some "a refused request still printed edges" else none
        { modelOk := cls != "ok", modelOut := "refused", oracle := o, nontrivial := true }
      else if cls != "ok" then
        { modelOk := false, modelOut := "ok", oracle := some s!"a request that can be met ({want} of {cands.length} possible edges) failed ({cls})" }
      else match idx with
      | none => { modelOk := false, modelOut := "", oracle := some "an edge names something that is not one of v0 … v(V-1)" }
      | some ix =>
        -- model: consistent with `generate` for SOME shuffle  ⇔  a duplicate-free list of `want` candidates
        let isCand := ix.all (cands.contains ·)
        let nodup := ix.zipIdx.all (fun (p, i) => !((ix.take i).contains p))
        let modelOk := isCand && nodup && ix.length == want
        -- oracle: the property's own words
        let o :=
          if ix.length != want then some s!"{ix.length} edges instead of {want}"
          else if ix.any (fun p => p.1 == p.2) then some "an edge joins a vertex to itself"
          else if ix.any (fun p => p.1 ≥ v || p.2 ≥ v) then some "an edge end-point is not one of v0 … v(V-1)"
          else if !nodup then some "an edge is listed twice"
          else if undirected && ix.any (fun p => ix.contains (p.2, p.1)) then some "with -u a pair appears in both orientations"
          else if complete && !(List.range v).all (fun a => (List.range v).all (fun b => a == b ||
              (if undirected then ix.contains (a, b) || ix.contains (b, a) else ix.contains (a, b)))) then
            some "--complete does not contain every pair"
          else none
        { modelOk, modelOut := "", oracle := o, nontrivial := want > 0 }
    | _, _ => Verdict.badLine "unreadable gen line"
  | ["convert", u, input, cls, output] =>
    match parsePairs input, parsePairs output with
    | some inp, some outp =>
      let m := Graph.readGraph inp (u == "1")
      if cls != "ok" then { modelOk := false, modelOut := "ok", oracle := some s!"--convert failed ({cls})" } else
      -- the property's wording for --convert is the model's definition: the list, minus (under -u) every
      -- edge whose reverse was already kept
      let o := if outp != m then some s!"--convert printed {outp.length} edges; the input list (reversed duplicates merged under -u) has {m.length}: first difference at {(outp.zip m).findIdx? (fun (a, b) => a != b)}" else none
      { modelOk := outp == m, modelOut := toString m.length, oracle := o, nontrivial := inp.length > 1 }
    | _, _ => Verdict.badLine "unreadable convert line"
  | ["colors", k, input, cls, output] =>
    match k.toNat?, parsePairs input, parsePairs output with
    | some k, some inp, some outp =>
      if cls != "ok" then { modelOk := false, modelOut := "ok", oracle := some s!"--colors failed ({cls})" } else
      let verts := Graph.dedupStr (inp.flatMap (fun e => [e.1, e.2]))
      let m := Graph.augmentColors inp k
      let showC := fun (p : String × Nat) => p.1 ++ "_c" ++ toString p.2
      let mPairs := m.map (fun (a, b) => (showC a, showC b))
      let sameUndirected := outp.all (fun p => mPairs.contains p || mPairs.contains (p.2, p.1)) &&
        mPairs.all (fun p => outp.contains p || outp.contains (p.2, p.1)) && outp.length == mPairs.length
      -- oracle: a clique of the output covering every input vertex exactly once exists iff the input is k-colourable
      let adjOut := fun (a b : String) => outp.contains (a, b) || outp.contains (b, a)
      let rec choices (vs : List String) : List (List (String × Nat)) :=
        match vs with
        | [] => [[]]
        | x :: xs => (choices xs).flatMap (fun rest => (List.range k).map (fun c => (x, c) :: rest))
      let colourable := (choices verts).any (fun ch => inp.all (fun e => e.1 == e.2 ||
        (ch.find? (fun p => p.1 == e.1)).map (·.2) != (ch.find? (fun p => p.1 == e.2)).map (·.2)))
      let coveringClique := (choices verts).any (fun ch => ch.all (fun a => ch.all (fun b => a == b || adjOut (showC a) (showC b))))
      let isCopy := fun (s : String) => verts.any (fun v => (List.range k).any (fun c => s == showC (v, c)))
      let o := if !(outp.all (fun p => isCopy p.1 && isCopy p.2)) then
          some s!"an end-point of an output edge is not a colour copy <vertex>_c<i>, i < {k}, of an input vertex"
        else if k ^ verts.length > 4096 then none
        else if colourable != coveringClique then
          some s!"the input graph is {if colourable then "" else "not "}{k}-colourable, but the output graph {if coveringClique then "has" else "has no"} clique covering every input vertex exactly once"
        else none
      { modelOk := sameUndirected, modelOut := toString mPairs.length, oracle := o, nontrivial := verts.length ≥ 3 && k ≥ 2 }
    | _, _, _ => Verdict.badLine "unreadable colors line"
  | _ => Verdict.badLine "unknown C18 line"

end Driver
end Rsbdd
