/-
Case handler for C13 (environment history): one line is a whole history of public
operations on one `BDDEnv`; the model replays it with the environment-threading twins and
compares, step by step, the result's pointer-annotated unfolding (addresses renumbered by
first appearance), the table size, and the re-inspected older handles.
-/
import Rsbdd.Driver.BddCases
import Rsbdd.Driver.FormulaCases
import Rsbdd.Model.Env

namespace Rsbdd
namespace Driver
open Env

structure HistState where
  env : Env := Env.new
  regs : Array PBDD := #[]
  /-- renumbering of model addresses by first appearance in the dump stream -/
  names : List (Nat × Nat) := []

def renum (st : HistState) (a : Nat) : Nat × HistState :=
  match st.names.find? (fun p => p.1 == a) with
  | some p => (p.2, st)
  | none => let id := st.names.length; (id, { st with names := st.names ++ [(a, id)] })

partial def dumpP (st : HistState) : PBDD → String × HistState
  | .T p => let (i, st) := renum st p; (s!"T@{i}", st)
  | .F p => let (i, st) := renum st p; (s!"F@{i}", st)
  | .node p t v f =>
    let (i, st) := renum st p
    let (a, st) := dumpP st t
    let (b, st) := dumpP st f
    (s!"N@{i} {v} {a} {b}", st)

def regOf (st : HistState) (s : String) : Option PBDD :=
  if s.startsWith "r" then ((s.drop 1).toNat?).bind (fun i => st.regs[i]?) else none

def regsOf (st : HistState) (s : String) : Option (List PBDD) :=
  if s == "-" then some [] else (s.splitOn ",").mapM (regOf st)

inductive StepRes where
  | diagram (p : PBDD)
  | pair (b : Bool × Bool)
  | diverge

/-- run one operation of the history in the model -/
def stepOp (st : HistState) (toks : List String) : Option (StepRes × Env) :=
  let env := st.env
  let d := fun (r : PBDD × Env) => some (StepRes.diagram r.1, r.2)
  match toks with
  | ["c0"] => d (mkConstM false env)
  | ["c1"] => d (mkConstM true env)
  | ["var", k] => k.toNat?.bind (fun k => d (varM k env))
  | ["not", a] => (regOf st a).bind (fun a => d (notM a env))
  | ["model", a] => (regOf st a).bind (fun a => d (modelM a env))
  | ["clean", a] => (regOf st a).bind (fun a => d (cleanM a env))
  | ["keepone", a] => (regOf st a).bind (fun a => d (a, env))
  | ["ite", a, b, c] =>
    match regOf st a, regOf st b, regOf st c with
    | some x, some y, some z => d (iteM x y z env)
    | _, _, _ => none
  | ["infer", a, k] =>
    match regOf st a, k.toNat? with
    | some x, some k => let r := inferM x k env; some (.pair r.1, r.2)
    | _, _ => none
  | ["ex", vs, a] =>
    match (if vs == "-" then some [] else parseNats vs), regOf st a with
    | some vs, some y => d (existsM vs y env)
    | _, _ => none
  | ["all", vs, a] =>
    match (if vs == "-" then some [] else parseNats vs), regOf st a with
    | some vs, some y => d (allM vs y env)
    | _, _ => none
  | ["ret", f, a] =>
    match regOf st a with
    | some y => (match f with
      | "t" => d (retainM y .true_ env) | "f" => d (retainM y .false_ env) | "a" => d (retainM y .any env)
      | _ => none)
    | none => none
  | [op, a, b] =>
    if op == "aln" || op == "amn" || op == "exn" then
      match toInt? a, regsOf st b with
      | some n, some bs =>
        if op == "aln" then d (alnM bs n env) else if op == "amn" then d (amnM bs n env) else d (exnM bs n env)
      | _, _ => none
    else if op == "leq" || op == "lt" || op == "geq" || op == "gt" || op == "ceq" then
      match regsOf st a, regsOf st b with
      | some x, some y =>
        if op == "leq" then d (countLeqM x y env) else if op == "lt" then d (countLtM x y env)
        else if op == "geq" then d (countGeqM x y env) else if op == "gt" then d (countGtM x y env)
        else d (countEqM x y env)
      | _, _ => none
    else
      match regOf st a, regOf st b with
      | some x, some y =>
        (match op with
        | "and" => d (andM x y env) | "or" => d (orM x y env) | "xor" => d (xorM x y env)
        | "imp" => d (impliesM x y env) | "eq" => d (eqM x y env) | "nor" => d (norM x y env)
        | "nand" => d (nandM x y env)
        | "fpor" => (match fpM (fun s => orM s y) 100000 x env with
            | (some r, e) => some (.diagram r, e) | (none, e) => some (.diverge, e))
        | "fpand" => (match fpM (fun s => andM s y) 100000 x env with
            | (some r, e) => some (.diagram r, e) | (none, e) => some (.diverge, e))
        | _ => none)
      | _, _ => none
  | _ => none

/-- what the implementation itself reports in a history, whatever the model says: the first step that panicked, whose
result is not made of the table's nodes, or that differs from the same operation in a fresh environment -/
def implFacts (steps : List String) : Option String :=
  (steps.zipIdx.findSome? (fun (step, i) =>
    match step.splitOn " => " with
    | [lhs, rhs] =>
      match (rhs.splitOn " # ").map (fun s => s.trimAscii.toString) with
      | realDump :: _ :: ptrok :: fresh :: _ =>
        if realDump.startsWith "PANIC" then some s!"step {i + 1} ({lhs}): the operation panicked in the long-lived environment: {realDump}"
        else if ptrok != "1" then some s!"step {i + 1} ({lhs}): a node reachable from the result is not the environment's shared node for its structure (or a leaf is missing)"
        else if fresh != "1" then some s!"step {i + 1} ({lhs}): the result differs structurally from the same operation in a fresh environment"
        else none
      | _ => none
    | _ => none))

/-- a step: `<op tokens> => <dump> # <table size> # <ptrok 0/1> # <fresh-equal 0/1> # chk r<j> <dump> …` -/
def runHistory (steps : List String) : Verdict := Id.run do
  -- a difference from the model stops the replay of a history; what the implementation reports further on in the
  -- same history (a panic, a node outside the table, a difference from a fresh environment) is still looked for
  let later := implFacts steps
  let mut st : HistState := {}
  let mut idx := 0
  let mut nontriv := false
  for step in steps do
    idx := idx + 1
    match step.splitOn " => " with
    | [lhs, rhs] =>
      let toks := (lhs.splitOn " ").filter (· ≠ "")
      let parts := (rhs.splitOn " # ").map (fun s => s.trimAscii.toString)
      match parts with
      | realDump :: realSize :: ptrok :: fresh :: chks =>
        if realDump.startsWith "PANIC" then
          return { modelOk := true, oracle := some s!"step {idx} ({lhs}): the operation panicked in the long-lived environment: {realDump}" }
        match stepOp st toks with
        | none => return Verdict.badLine s!"step {idx}: unreadable operation '{lhs}'"
        | some (res, env') =>
          st := { st with env := env' }
          if toks.head? == some "keepone" then
            -- all other handles are given up: the register file now holds copies of the kept one
            match (toks.drop 1).head?.bind (regOf st) with
            | some k => st := { st with regs := st.regs.map (fun _ => k) }
            | none => pure ()
          -- oracle: what the implementation itself reported
          if ptrok != "1" then
            return { modelOk := true, oracle := some s!"step {idx} ({lhs}): a node reachable from the result is not the environment's shared node for its structure (or a leaf is missing)" }
          if fresh != "1" then
            return { modelOk := true, oracle := some s!"step {idx} ({lhs}): the result differs structurally from the same operation in a fresh environment" }
          let mDump ← match res with
            | .diagram p =>
              let (s, st') := dumpP st p
              st := { st' with regs := st'.regs.push p }
              if isChoiceP p then nontriv := true
              pure s
            | .pair b =>
              st := { st with regs := st.regs.push (.F 1) }
              pure ((if b.1 then "1" else "0") ++ (if b.2 then "1" else "0"))
            | .diverge => pure "DIVERGE"
          if mDump != realDump then
            return { modelOk := false, modelOut := s!"step {idx} ({lhs}): model {mDump} vs implementation {realDump}", oracle := later }
          if toString st.env.table.length != realSize then
            return { modelOk := false, modelOut := s!"step {idx} ({lhs}): model table size {st.env.table.length} vs implementation {realSize}", oracle := later }
          -- re-inspection of older handles: they must dump as they did (model side: values are immutable)
          for c in chks do
            match c.splitOn " " with
            | "chk" :: r :: rest =>
              match regOf st r with
              | some p =>
                let (s, st') := dumpP st p
                st := st'
                if s != String.intercalate " " rest then
                  return { modelOk := true, oracle := some s!"step {idx}: handle {r} returned earlier no longer looks the same: {String.intercalate " " rest} (was {s})" }
              | none => return Verdict.badLine s!"step {idx}: bad chk"
            | _ => pure ()
      | _ => return Verdict.badLine s!"step {idx}: short observation"
    | _ => return Verdict.badLine s!"step {idx}: no '=>'"
  return { modelOk := true, nontrivial := nontriv }

def handleC13 (fields : List String) : Verdict :=
  match fields with
  | ["hist", body] => runHistory ((body.splitOn ";").filter (fun s => !s.trimAscii.toString.isEmpty))
  | ["share", what] =>
    { modelOk := false, modelOut := "one shared node per structure",
      oracle := some s!"two different nodes with the structure {what} were handed out by one environment" }
  | ["table", what] =>
    { modelOk := false, modelOut := "every reachable node is the table's node for its structure",
      oracle := some s!"a node reachable from a result is not the node the environment's table holds for its structure: {what}" }
  | ["defs", main, defsS, result, fresh] =>
    -- a formula with `{references}` evaluated in a long-lived ParsedFormula whose definitions change:
    -- `result` is what that evaluation returned, `fresh` what a new ParsedFormula with the same
    -- definitions returns
    let defsL := (defsS.splitOn ",").filter (fun s => !s.isEmpty)
    let defs? : Option (List (String × Formula)) := defsL.mapM (fun d => match d.splitOn "=" with
      | [n, a] => (parseFormula a).map (fun f => (n, f))
      | _ => none)
    match parseFormula main, defs? with
    | some mf, some defs =>
      let inl := Formula.inlineRefs defs 64 mf
      let m := Formula.evalF modelIters (modelFuel inl) inl
      if result == "PANIC" then
        { modelOk := false, modelOut := showOpt m, oracle := some "evaluation panicked in an environment that had evaluated before" }
      else if fresh == "PANIC" then Verdict.badLine "the fresh evaluation panicked"
      else match parseBDD result, parseBDD fresh with
      | some r, some fr =>
        let modelOk := match m with | some m => sameFun m r | none => false
        let o1 := if r == fr then none
          else some s!"the outcome differs from the outcome in a fresh environment with the same definitions: {showBDD r} vs {showBDD fr}"
        { modelOk, modelOut := showOpt m, oracle := orElse o1 (semOracle inl r), nontrivial := r.isChoice }
      | _, _ => Verdict.badLine "unreadable result"
    | _, _ => Verdict.badLine "unreadable defs line"
  | _ => Verdict.badLine "unknown C13 line"

end Driver
end Rsbdd
