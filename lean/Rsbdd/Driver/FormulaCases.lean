/-
Case handlers for the formula-level properties C01, C06, C09 (evaluator and free-variable
analysis).  The harness sends (a) the syntax tree its generator built, with names replaced
by the ids the real tokenizer assigned, (b) the syntax tree the real parser produced for
the printed text, (c) what the real evaluator returned.
-/
import Rsbdd.Driver.Basic
import Rsbdd.Driver.BddCases
import Rsbdd.Spec.SemExec

namespace Rsbdd
namespace Driver
open BDD Formula

def binOpOfName : String → Option BinOp
  | "and" => some .and | "or" => some .or | "xor" => some .xor | "nor" => some .nor
  | "nand" => some .nand | "imp" => some .implies | "impinv" => some .impliesInv | "iff" => some .iff
  | _ => none

def cntOpOfName : String → Option CntOp
  | "le" => some .atMost | "lt" => some .lessThan | "ge" => some .atLeast
  | "gt" => some .moreThan | "eq" => some .exactly
  | _ => none

def takeNats : Nat → List String → Option (List Nat × List String)
  | 0, rest => some ([], rest)
  | k + 1, tok :: rest => do
    let n ← tok.toNat?
    let (ns, rest') ← takeNats k rest
    pure (n :: ns, rest')
  | _, [] => none

mutual
/-- prefix syntax: `F T v<id> ! f | E k ids f | A k ids f | CC op k fs n | CV op k1 l k2 r |
FX id 0/1 f | I c t e | B op l r | R name` -/
def parseFormulaToks : Nat → List String → Option (Formula × List String)
  | 0, _ => none
  | _, [] => none
  | fuel + 1, tok :: rest =>
    if tok == "F" then some (.false_, rest)
    else if tok == "T" then some (.true_, rest)
    else if tok == "!" then do
      let (f, r) ← parseFormulaToks fuel rest
      pure (.not f, r)
    else if tok == "E" || tok == "A" then
      match rest with
      | k :: rest => do
        let k ← k.toNat?
        let (vs, rest) ← takeNats k rest
        let (f, r) ← parseFormulaToks fuel rest
        pure (.quant (if tok == "E" then .exists_ else .forall_) vs f, r)
      | [] => none
    else if tok == "CC" then
      match rest with
      | op :: k :: rest => do
        let op ← cntOpOfName op
        let k ← k.toNat?
        let (fs, rest) ← parseFormulaListToks fuel k rest
        match rest with
        | n :: rest => do
          let n ← n.toNat?
          pure (.cntConst op fs n, rest)
        | [] => none
      | _ => none
    else if tok == "CV" then
      match rest with
      | op :: k :: rest => do
        let op ← cntOpOfName op
        let k ← k.toNat?
        let (l, rest) ← parseFormulaListToks fuel k rest
        match rest with
        | k2 :: rest => do
          let k2 ← k2.toNat?
          let (r, rest) ← parseFormulaListToks fuel k2 rest
          pure (.cntVar op l r, rest)
        | [] => none
      | _ => none
    else if tok == "FX" then
      match rest with
      | v :: i :: rest => do
        let v ← v.toNat?
        let (f, r) ← parseFormulaToks fuel rest
        pure (.fix v (i == "1") f, r)
      | _ => none
    else if tok == "I" then do
      let (c, r) ← parseFormulaToks fuel rest
      let (t, r) ← parseFormulaToks fuel r
      let (e, r) ← parseFormulaToks fuel r
      pure (.ite c t e, r)
    else if tok == "B" then
      match rest with
      | op :: rest => do
        let op ← binOpOfName op
        let (l, r) ← parseFormulaToks fuel rest
        let (rr, r) ← parseFormulaToks fuel r
        pure (.bin op l rr, r)
      | [] => none
    else if tok == "R" then
      match rest with
      | n :: rest => some (.ref n, rest)
      | [] => none
    else if tok.startsWith "v" then (tok.drop 1).toNat?.map (fun v => (.var v, rest))
    else none
def parseFormulaListToks : Nat → Nat → List String → Option (List Formula × List String)
  | 0, _, _ => none
  | _, 0, rest => some ([], rest)
  | fuel + 1, k + 1, rest => do
    let (f, rest) ← parseFormulaToks fuel rest
    let (fs, rest) ← parseFormulaListToks fuel k rest
    pure (f :: fs, rest)
end

def parseFormula (s : String) : Option Formula :=
  let toks := (s.splitOn " ").filter (· ≠ "")
  match parseFormulaToks (toks.length + 1) toks with
  | some (f, []) => some f
  | _ => none

def beqFormulaList (beqF : Formula → Formula → Bool) : List Formula → List Formula → Bool
  | [], [] => true
  | a :: as, b :: bs => beqF a b && beqFormulaList beqF as bs
  | _, _ => false

mutual
def beqFormula : Formula → Formula → Bool
  | .false_, .false_ => true
  | .true_, .true_ => true
  | .var a, .var b => a == b
  | .not a, .not b => beqFormula a b
  | .quant q vs a, .quant q' vs' b => q == q' && vs == vs' && beqFormula a b
  | .cntConst o fs n, .cntConst o' fs' n' => o == o' && n == n' && beqFormulaL fs fs'
  | .cntVar o l r, .cntVar o' l' r' => o == o' && beqFormulaL l l' && beqFormulaL r r'
  | .fix v i a, .fix v' i' b => v == v' && i == i' && beqFormula a b
  | .ite a b c, .ite a' b' c' => beqFormula a a' && beqFormula b b' && beqFormula c c'
  | .bin o a b, .bin o' a' b' => o == o' && beqFormula a a' && beqFormula b b'
  | .subtree a, .subtree b => a == b
  | .ref a, .ref b => a == b
  | _, _ => false
def beqFormulaL : List Formula → List Formula → Bool
  | [], [] => true
  | a :: as, b :: bs => beqFormula a b && beqFormulaL as bs
  | _, _ => false
end

/-- iteration budget of every fixed-point loop, and recursion budget, for the model run -/
def modelIters : Nat := 5000
def modelFuel (f : Formula) : Nat := 4 * (Formula.depth f) + 64

mutual
/-- textbook free variables: free(quantifier) = free(body) \ listed, free(fix) = free(body) \ {name} -/
def freeVarsSpec : Formula → List Nat
  | .var v => [v]
  | .not f => freeVarsSpec f
  | .quant _ vs f => (freeVarsSpec f).filter (fun v => !vs.contains v)
  | .cntConst _ fs _ => freeVarsSpecL fs
  | .cntVar _ l r => freeVarsSpecL l ++ freeVarsSpecL r
  | .fix x _ f => (freeVarsSpec f).filter (fun v => v != x)
  | .ite a b c => freeVarsSpec a ++ freeVarsSpec b ++ freeVarsSpec c
  | .bin _ l r => freeVarsSpec l ++ freeVarsSpec r
  | .subtree b => support b
  | _ => []
def freeVarsSpecL : List Formula → List Nat
  | [] => []
  | f :: fs => freeVarsSpec f ++ freeVarsSpecL fs
end

def sortNats (xs : List Nat) : List Nat := (xs.toArray.qsort (· < ·)).toList

structure EvalCase where
  gen : Formula
  real : Option Formula
  result : String           -- diagram, or ERR / PANIC / DIVERGE

/-- the truth-table oracle: the returned diagram against the brute-force meaning of the
generator's own syntax tree -/
def semOracle (gen : Formula) (r : BDD) : Option String :=
  let U := sortNats (dedup (SemExec.allVars gen ++ support r))
  if U.length > 12 then none else
  match SemExec.semTT U (2 ^ U.length + 2) (modelFuel gen) gen [] with
  | none => none   -- the reference evaluator did not converge (non-monotone body): no verdict
  | some tt =>
      match (List.range (2 ^ U.length)).find? (fun m => eval r (asgOf U m) != tt.getD m false) with
      | some m => some s!"under {showAsg U m} the returned diagram is {eval r (asgOf U m)} but the formula's documented meaning is {tt.getD m false}"
      | none =>
        let allT := tt.all (· == true); let allF := tt.all (· == false)
        if allT && r != .T then some "the formula is valid but the answer is not the true leaf"
        else if allF && r != .F then some "the formula is unsatisfiable but the answer is not the false leaf"
        else none

/-- for a top-level fixed point over at most three variables: compare with *every*
candidate function, not with an iteration -/
def fixOracle (gen : Formula) (r : BDD) : Option String :=
  match gen with
  | .fix x init t =>
    let U := sortNats (dedup (SemExec.allVars gen ++ support r))
    let n := U.length
    if n > 3 then none else
    let step := fun (c : SemExec.TT) => SemExec.semTT U (2 ^ (2 ^ n) + 2) (modelFuel gen) t [(x, c)]
    let rt : SemExec.TT := Array.ofFn (n := 2 ^ n) (fun m => eval r (asgOf U m.val))
    match step rt with
    | none => none
    | some img =>
      if img != rt then some "the returned function is not a fixed point of the body" else
      let cands := SemExec.allTT n
      -- monotone on the whole lattice? (only then is the least/greatest fixed point the specification)
      let imgs := cands.map (fun c => (c, step c))
      if imgs.any (fun p => p.2.isNone) then none else
      let imgs := imgs.filterMap (fun p => p.2.map (fun i => (p.1, i)))
      let mono := imgs.all (fun p => imgs.all (fun q => !(SemExec.ttLe p.1 q.1) || SemExec.ttLe p.2 q.2))
      if !mono then none else
      if !init then
        match imgs.find? (fun p => SemExec.ttLe p.2 p.1 && !(SemExec.ttLe rt p.1)) with
        | some p => some s!"lfp: the pre-fixed point {p.1.toList} is not above the returned function {rt.toList}"
        | none => none
      else
        match imgs.find? (fun p => SemExec.ttLe p.1 p.2 && !(SemExec.ttLe p.1 rt)) with
        | some p => some s!"gfp: the post-fixed point {p.1.toList} is not below the returned function {rt.toList}"
        | none => none
  | _ => none

def handleEval (withFix : Bool) (fields : List String) : Verdict :=
  match fields with
  | [gen, real, result] =>
    match parseFormula gen with
    | none => Verdict.badLine "unreadable generator tree"
    | some g =>
      if real == "ERR" then
        { modelOk := true, oracle := some "a well-formed formula was rejected by the parser" }
      else if real == "PANIC" then
        { modelOk := true, oracle := some "parsing a well-formed formula panicked" }
      else match parseFormula real with
      | none => Verdict.badLine "unreadable parser tree"
      | some rf =>
        let m := evalF modelIters (modelFuel rf) rf
        if result == "PANIC" then
          { modelOk := false, modelOut := showOpt m, oracle := some "evaluation panicked" }
        else if result == "DIVERGE" then
          -- the implementation exceeded its time budget: fine only if the reference diverges too
          let U := sortNats (dedup (SemExec.allVars g))
          match SemExec.semTT U (2 ^ U.length + 2) (modelFuel g) g [] with
          | some _ => { modelOk := m.isNone, modelOut := showOpt m,
                        oracle := some "evaluation did not terminate although every fixed point converges" }
          | none => { modelOk := m.isNone, modelOut := showOpt m }
        else match parseBDD result with
        | none => Verdict.badLine "unreadable result"
        | some r =>
          let modelOk := match m with | some m => sameFun m r | none => false
          let o1 := if beqFormula g rf then none
            else some "the parser built a different tree than the one that was printed"
          let o2 := semOracle g r
          let o3 := if withFix then fixOracle g r else none
          -- the diagram handed out is ordered by the variable ids and reduced, and it is the model's diagram
          let o0 := if decide (ROBDD r) then none else some "the diagram returned is not ordered by the variable ids and reduced"
          let modelOk := modelOk && (match m with | some m => decide (m = r) || !decide (ROBDD r) | none => true)
          { modelOk, modelOut := showOpt m, oracle := orElse o0 (orElse o2 (orElse o3 o1)), nontrivial := r.isChoice }
  | _ => Verdict.badLine "eval line needs three fields"

def handleC01 (fields : List String) : Verdict :=
  match fields with
  | "eval" :: rest => handleEval false rest
  | _ => Verdict.badLine "unknown C01 line"

def handleC06 (fields : List String) : Verdict :=
  match fields with
  | "eval" :: rest => handleEval true rest
  | "lib" :: rest =>
    match rest.reverse with
    | r :: ops => handleSem ops.reverse r none
    | _ => Verdict.badLine "short line"
  | _ => Verdict.badLine "unknown C06 line"

/-- `free|<gen tree>|<parser tree>|<vars ids>|<free ids>|<raw2free: id=idx,…>|<result or ->` -/
def handleC09 (fields : List String) : Verdict :=
  match fields with
  | "eval" :: rest => handleEval true rest   -- only written when an evaluation did not return
  | ["free", gen, real, vars, free, r2f, result] =>
    match parseFormula gen, parseFormula real, parseNats vars, parseNats free with
    | some g, some rf, some vars, some free =>
      let mFree := vars.filter (fun v => varIsFree v rf)
      let specFree := sortNats (dedup (freeVarsSpec g))
      let specVars := sortNats (dedup (SemExec.allVars g))
      let r2fPairs := if r2f.trimAscii.toString.isEmpty then [] else (r2f.splitOn ",").filterMap (fun s =>
        match s.splitOn "=" with
        | [a, b] => match a.toNat?, b.toNat? with
          | some a, some b => some (a, b)
          | _, _ => none
        | _ => none)
      let o1 := if free != specFree then some s!"free variables reported {free}, but the variables with a free occurrence are {specFree}" else none
      let o2 := if vars != specVars then some s!"variable list {vars}, but the names of the text in id order are {specVars}" else none
      let o3 := match specFree.zipIdx.find? (fun p => !(r2fPairs.contains (p.1, p.2))) with
        | some p => some s!"raw2free does not map free variable {p.1} to column {p.2}: {r2fPairs}"
        | none => none
      let o4 := if result == "-" then none else match parseBDD result with
        | some r => match (support r).filter (fun v => !specFree.contains v) with
          | [] => none
          | bad => some s!"the evaluated diagram tests {bad}, which have no free occurrence"
        | none => some "unreadable result"
      { modelOk := (mFree == free), modelOut := toString mFree,
        oracle := orElse o1 (orElse o2 (orElse o3 o4)),
        nontrivial := free.length < vars.length && !free.isEmpty }
    | _, _, _, _ => Verdict.badLine "unreadable free line"
  | ["vfree", gen, answers] =>
    -- `var_is_free` asked about every variable of the text: true exactly for the variables with a free occurrence
    match parseFormula gen with
    | some g =>
      let specFree := sortNats (dedup (freeVarsSpec g))
      let pairs := if answers.trimAscii.toString.isEmpty then [] else (answers.splitOn ",").map (fun s => s.splitOn "=")
      let bad := pairs.find? (fun p => match p with
        | [v, "1"] => match v.toNat? with | some v => !specFree.contains v | none => true
        | [v, "0"] => match v.toNat? with | some v => specFree.contains v | none => true
        | _ => true)
      let mBad := pairs.find? (fun p => match p with
        | [v, a] => match v.toNat? with | some v => (if varIsFree v g then "1" else "0") != a | none => true
        | _ => true)
      { modelOk := mBad.isNone, modelOut := "",
        oracle := bad.map (fun p => s!"var_is_free answers {p} ; the variables with a free occurrence are {specFree}"),
        nontrivial := !specFree.isEmpty }
    | none => Verdict.badLine "unreadable vfree line"
  | _ => Verdict.badLine "unknown C09 line"

end Driver
end Rsbdd
