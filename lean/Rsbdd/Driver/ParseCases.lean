/-
Case handlers for the text-level properties C08 (tokenizer + parser against the grammar)
and C12 (no panic): the model's tokens / tree / outcome class for the same text, compared
with what the real code produced, plus the grammar oracle.
-/
import Rsbdd.Driver.FormulaCases
import Rsbdd.Model.Parser
import Rsbdd.Spec.Grammar
import Rsbdd.Spec.Lexer

namespace Rsbdd
namespace Driver
open Formula

def hexVal (c : Char) : Option Nat :=
  if c.isDigit then some (c.toNat - '0'.toNat)
  else if 'a' ≤ c && c ≤ 'f' then some (c.toNat - 'a'.toNat + 10)
  else none

def unhex (s : String) : Option ByteArray :=
  let rec go : List Char → ByteArray → Option ByteArray
    | [], acc => some acc
    | a :: b :: rest, acc =>
      match hexVal a, hexVal b with
      | some x, some y => go rest (acc.push (UInt8.ofNat (x * 16 + y)))
      | _, _ => none
    | _, _ => none
  go s.toList ByteArray.empty

def hexOf (s : String) : String :=
  let digits := "0123456789abcdef".toList.toArray
  String.ofList (s.toUTF8.toList.flatMap (fun b => [digits[b.toNat / 16]!, digits[b.toNat % 16]!]))

/-- attach classes: ASCII characters by `asciiCls`, the others from the harness-supplied
string (one of `w` `d` `o` per non-ASCII character, in order) -/
def classify (cs : List Char) (extra : List Char) : List Ch :=
  match cs with
  | [] => []
  | c :: rest =>
    if c.toNat < 128 then { c, cls := asciiCls c } :: classify rest extra
    else match extra with
      | 'w' :: e => { c, cls := .word } :: classify rest e
      | 'd' :: e => { c, cls := .digit } :: classify rest e
      | _ :: e => { c, cls := .other } :: classify rest e
      | [] => { c, cls := .other } :: classify rest []

def showToken : Token → String
  | .var n id => s!"V:{hexOf n}:{id}"
  | .countable n => s!"N:{n}"
  | .reference n => s!"R:{hexOf n}"
  | .and => "and" | .or => "or" | .not => "not" | .xor => "xor" | .nor => "nor" | .nand => "nand"
  | .implies => "imp" | .impliesInv => "impinv" | .iff => "iff"
  | .if_ => "if" | .then_ => "then" | .else_ => "else" | .exists_ => "exists" | .forall_ => "forall"
  | .eq => "eq" | .geq => "geq" | .gt => "gt" | .lt => "lt"
  | .openParen => "lp" | .closeParen => "rp" | .openSquare => "ls" | .closeSquare => "rs"
  | .comma => "comma" | .false_ => "false" | .true_ => "true" | .lfp => "lfp" | .gfp => "gfp"
  | .hash => "hash" | .eof => "eof"

def readToken (s : String) : Option Token :=
  match s.splitOn ":" with
  | ["V", n, id] => id.toNat?.map (fun i => .var n i)
  | ["N", n] => n.toNat?.map .countable
  | ["R", n] => some (.reference n)
  | [k] =>
    match k with
    | "and" => some .and | "or" => some .or | "not" => some .not | "xor" => some .xor
    | "nor" => some .nor | "nand" => some .nand | "imp" => some .implies | "impinv" => some .impliesInv
    | "iff" => some .iff | "if" => some .if_ | "then" => some .then_ | "else" => some .else_
    | "exists" => some .exists_ | "forall" => some .forall_ | "eq" => some .eq | "geq" => some .geq
    | "gt" => some .gt | "lt" => some .lt | "lp" => some .openParen | "rp" => some .closeParen
    | "ls" => some .openSquare | "rs" => some .closeSquare | "comma" => some .comma
    | "false" => some .false_ | "true" => some .true_ | "lfp" => some .lfp | "gfp" => some .gfp
    | "hash" => some .hash | "eof" => some .eof
    | _ => none
  | _ => none

def showTokens (ts : List Token) : String := String.intercalate " " (ts.map showToken)

def readTokens (s : String) : Option (List Token) :=
  ((s.splitOn " ").filter (· ≠ "")).mapM readToken

mutual
/-- reference names are compared in hex (the harness sends them so) -/
def hexRefs : Formula → Formula
  | .ref n => .ref (hexOf n)
  | .not f => .not (hexRefs f)
  | .quant q vs f => .quant q vs (hexRefs f)
  | .cntConst op fs n => .cntConst op (hexRefsL fs) n
  | .cntVar op l r => .cntVar op (hexRefsL l) (hexRefsL r)
  | .fix v i f => .fix v i (hexRefs f)
  | .ite a b c => .ite (hexRefs a) (hexRefs b) (hexRefs c)
  | .bin op l r => .bin op (hexRefs l) (hexRefs r)
  | f => f
def hexRefsL : List Formula → List Formula
  | [] => []
  | f :: fs => hexRefs f :: hexRefsL fs
end

def parseOrdering (s : String) : Option (List (String × Nat)) :=
  if s.trimAscii.toString.isEmpty || s == "-" then some [] else
  (s.splitOn ",").mapM (fun e => match e.splitOn ":" with
    | [n, id] => match unhex n, id.toNat? with
      | some b, some i => (String.fromUTF8? b).map (fun name => (name, i))
      | _, _ => none
    | _ => none)

/-- decode the text field; `none` = not valid UTF-8 -/
def decodeText (hex classes : String) : Option (Option (List Ch)) :=
  match unhex hex with
  | none => none
  | some bytes =>
    match String.fromUTF8? bytes with
    | none => some none
    | some s => some (some (classify s.toList classes.toList))

/-- ASCII characters must carry the class the regex crate gives them (pin on `asciiCls`) -/
def asciiPinOk (cs : List Ch) (asciiClasses : String) : Bool :=
  let given := asciiClasses.toList
  let mine := (cs.filter (fun x => x.c.toNat < 128)).map (fun x => match x.cls with
    | .word => 'w' | .digit => 'd' | .other => 'o')
  given.isEmpty || given == mine

/-- `parse|text|classes|ordering|real tokens|real tree|generator tree|expected tokens` -/
def handleC08 (fields : List String) : Verdict :=
  match fields with
  | ["parse", text, classes, ordering, realToks, realAst, genAst, expToks] =>
    match decodeText text classes, parseOrdering ordering with
    | some (some cs), some ord =>
      let mToks := tokenize cs ord
      let mToksS := match mToks with | some ts => showTokens ts | none => "ERR"
      let mAst : Option Formula := mToks.bind Parser.parseFormula
      let mAstOk : Bool :=
        match mAst with
        | some f => (match parseFormula realAst with
          | some rf => beqFormula (hexRefs f) rf
          | none => false)
        | none => realAst == "ERR"
      let modelOk := mToksS == realToks && mAstOk
      -- oracles
      let o0 := if realToks == "PANIC" || realAst == "PANIC" then some "the parser panicked" else none
      let o1 := if expToks == "-" || realToks == "PANIC" then none
        else if expToks != realToks then some s!"token list differs from the sequence that was printed: {realToks}" else none
      let o2 := if genAst == "-" then none else
        match parseFormula genAst, parseFormula realAst with
        | some g, some r => if beqFormula g r then none else some "the parser built a different tree than the one that was printed"
        | some _, none => some s!"a sentence of the grammar was rejected ({realAst})"
        | none, _ => some "unreadable generator tree"
      let o3 := match readTokens realToks with
        | some rts =>
          if rts.length > 9 then none else
          let parses := Grammar.allParses rts
          let distinct := parses.foldl (fun acc f => if acc.any (beqFormula f) then acc else acc ++ [f]) []
          match distinct, parseFormula realAst with
          | [], none => none
          | [], some _ => some "a token list that is not a sentence of the grammar was accepted"
          | [g], some r => if beqFormula (hexRefs g) r || beqFormula g r then none
              else some "accepted with a tree other than the one the grammar assigns"
          | [_], none => if realAst == "ERR" then some "a sentence of the grammar was rejected" else none
          | _, _ => some "GRAMMAR-SPEC: more than one derivation"
        | none => none
      -- the lexical specification (longest symbol, digit runs, references, name runs, comments, separators)
      let o4 := if realToks == "PANIC" then none else
        let specS := match LexSpec.tokens cs ord with | some ts => showTokens ts | none => "ERR"
        if specS == realToks then none
        else some s!"the token list is not the tokenization the language prescribes for this text: expected {specS}"
      { modelOk, modelOut := mToksS ++ " => " ++ (match mAst with | some _ => "OK" | none => "ERR"),
        oracle := orElse o0 (orElse o1 (orElse o2 (orElse o3 o4))),
        nontrivial := realAst != "ERR" }
    | some none, _ =>
      -- invalid UTF-8: must be an error
      { modelOk := realToks == "ERR" && realAst == "ERR", modelOut := "ERR (invalid UTF-8)",
        oracle := if realToks == "PANIC" || realAst == "PANIC" then some "invalid UTF-8 made the parser panic" else none }
    | _, _ => Verdict.badLine "unreadable parse line"
  | ["asciipin", classes] =>
    let mine := (List.range 128).map (fun n => match asciiCls (Char.ofNat n) with
      | .word => 'w' | .digit => 'd' | .other => 'o')
    if classes.toList == mine then {} else
      { modelOk := false, modelOut := String.ofList mine,
        oracle := none }
  | _ => Verdict.badLine "unknown C08 line"

mutual
def hasFix : Formula → Bool
  | .fix _ _ _ => true
  | .not f => hasFix f
  | .quant _ _ f => hasFix f
  | .cntConst _ fs _ => hasFixL fs
  | .cntVar _ l r => hasFixL l || hasFixL r
  | .ite a b c => hasFix a || hasFix b || hasFix c
  | .bin _ l r => hasFix l || hasFix r
  | _ => false
def hasFixL : List Formula → Bool
  | [] => false
  | f :: fs => hasFix f || hasFixL fs
end

/-- outcome class of the pipeline in the model: `OK` / `ERR` (never `PANIC`: the model has
no panic branch left — every former panic site is an `ERR` or unreachable, Thm/C12) -/
def pipelineClass (text : Option (List Ch)) (ord : List (String × Nat)) : String × String :=
  match text with
  | none => ("ERR", "ERR")
  | some cs =>
    match tokenize cs ord with
    | none => ("ERR", "ERR")
    | some ts =>
      match Parser.parseFormula ts with
      | none => ("OK", "ERR")
      | some _ => ("OK", "OK")

/-- `lib|text|classes|tokenize outcome|new outcome|eval outcome` and
`cli|argv|text|classes|ordering text or -|ordering classes|exit class` -/
def handleC12 (fields : List String) : Verdict :=
  match fields with
  | ["lib", text, classes, tokO, newO, evalO] =>
    match decodeText text classes with
    | some t =>
      let (mt, mn) := pipelineClass t []
      let o := if tokO == "PANIC" then some "tokenize panicked"
        else if newO == "PANIC" then some "ParsedFormula::new panicked"
        else if evalO == "PANIC" then some "eval panicked"
        else none
      { modelOk := mt == tokO && mn == newO && (evalO == "OK" || evalO == "SKIP" || evalO == "-"),
        modelOut := s!"{mt} {mn}", oracle := o, nontrivial := mn == "OK" }
    | none => Verdict.badLine "unreadable text"
  | ["cli", _argv, text, classes, otext, oclasses, exitClass] =>
    match decodeText text classes with
    | some t =>
      let ordTokens : Option (List (String × Nat)) :=
        if otext == "-" then some [] else
        match decodeText otext oclasses with
        | some (some cs) => (tokenize cs []).map Parser.extractVars
        | _ => none
      let expected := match ordTokens with
        | none => "err"
        | some ord => if (pipelineClass t ord).2 == "OK" then "ok" else "err"
      let o := if exitClass == "panic" then some "the tool panicked (exit status 101)"
        else if exitClass == "signal" then some "the tool was killed by a signal (abort / stack overflow)"
        else none
      { modelOk := exitClass == expected || exitClass == "timeout", modelOut := expected, oracle := o,
        nontrivial := expected == "ok" }
    | none => Verdict.badLine "unreadable text"
  | _ => Verdict.badLine "unknown C12 line"

end Driver
end Rsbdd
