/-
The grammar of the formula language, written from README.md and the property statement
(C08) in concatenation style — no "rest of input" threading, so it is independent of how
the recursive-descent parser is organised:

  Closed  ::= '(' Sub ')' | List cop (List | num) | 'true' | 'false' | ref | var | not Closed
  Open    ::= (exists|forall) Vars '#' Sub | (lfp|gfp) var '#' Sub
            | 'if' Sub 'then' Sub 'else' Sub | not Open
  Sub     ::= Closed | Open | Closed binop Sub
  List    ::= '[' Items ']'      Items ::= ε | Sub | Sub ',' Items
  Vars    ::= ε | var | var ',' Vars
  Formula ::= Sub Eof

Binary operators are right-associative without precedence (`Closed binop Sub`); prefix
negation applies to the next simple term (`not Closed` / `not Open`); an Open term cannot
be a left operand, i.e. quantifier / fixed-point / else bodies extend as far right as
possible; lists and variable lists allow a trailing comma.

`Derives` is the relation the theorems speak about; `allParses` enumerates every derivation
of a token list by brute-force splitting (exponential; used as oracle on short inputs).
Import-free.
-/
import Rsbdd.Model.Formula
import Rsbdd.Model.Token

namespace Rsbdd
namespace Grammar

def binOpOf : Token → Option BinOp
  | .and => some .and | .or => some .or | .xor => some .xor | .nor => some .nor
  | .nand => some .nand | .implies => some .implies | .impliesInv => some .impliesInv
  | .iff => some .iff
  | _ => none

/-- `=`, `<=`, `>=`, `<`, `>` after a list -/
def cntOpOf : Token → Option CntOp
  | .eq => some .exactly | .impliesInv => some .atMost | .geq => some .atLeast
  | .lt => some .lessThan | .gt => some .moreThan
  | _ => none

mutual
inductive Closed : List Token → Formula → Prop
  | paren {ts f} : Sub ts f → Closed (.openParen :: ts ++ [.closeParen]) f
  | cntConst {l fs o op n} : FList l fs → cntOpOf o = some op →
      Closed (l ++ [o, .countable n]) (.cntConst op fs n)
  | cntVar {l r fs gs o op} : FList l fs → cntOpOf o = some op → FList r gs →
      Closed (l ++ o :: r) (.cntVar op fs gs)
  | true_ : Closed [.true_] .true_
  | false_ : Closed [.false_] .false_
  | ref {n} : Closed [.reference n] (.ref n)
  | var {n id} : Closed [.var n id] (.var id)
  | not {ts f} : Closed ts f → Closed (.not :: ts) (.not f)
inductive Open : List Token → Formula → Prop
  | exists_ {vs ids ts f} : Vars vs ids → Sub ts f →
      Open (.exists_ :: vs ++ .hash :: ts) (.quant .exists_ ids f)
  | forall_ {vs ids ts f} : Vars vs ids → Sub ts f →
      Open (.forall_ :: vs ++ .hash :: ts) (.quant .forall_ ids f)
  | lfp {n id ts f} : Sub ts f → Open (.lfp :: .var n id :: .hash :: ts) (.fix id false f)
  | gfp {n id ts f} : Sub ts f → Open (.gfp :: .var n id :: .hash :: ts) (.fix id true f)
  | ite {c t e fc ft fe} : Sub c fc → Sub t ft → Sub e fe →
      Open (.if_ :: c ++ .then_ :: t ++ .else_ :: e) (.ite fc ft fe)
  | not {ts f} : Open ts f → Open (.not :: ts) (.not f)
inductive Sub : List Token → Formula → Prop
  | closed {ts f} : Closed ts f → Sub ts f
  | open_ {ts f} : Open ts f → Sub ts f
  | bin {l r fl fr o op} : Closed l fl → binOpOf o = some op → Sub r fr →
      Sub (l ++ o :: r) (.bin op fl fr)
inductive FList : List Token → List Formula → Prop
  | mk {ts fs} : Items ts fs → FList (.openSquare :: ts ++ [.closeSquare]) fs
inductive Items : List Token → List Formula → Prop
  | nil : Items [] []
  | one {ts f} : Sub ts f → Items ts [f]
  | cons {ts f rest fs} : Sub ts f → Items rest fs → Items (ts ++ .comma :: rest) (f :: fs)
inductive Vars : List Token → List Nat → Prop
  | nil : Vars [] []
  | one {n id} : Vars [.var n id] [id]
  | cons {n id rest ids} : Vars rest ids → Vars (.var n id :: .comma :: rest) (id :: ids)
end

/-- a text's token list is a sentence with tree `f` -/
def Derives (ts : List Token) (f : Formula) : Prop := ∃ pre, ts = pre ++ [.eof] ∧ Sub pre f

/-! ### brute-force enumeration of all derivations (oracle) -/

/-- all ways to write `ts = l ++ [x] ++ r` -/
def splits (ts : List Token) : List (List Token × Token × List Token) :=
  (List.range ts.length).filterMap (fun i =>
    match ts.drop i with
    | x :: r => some (ts.take i, x, r)
    | [] => none)

def unwrap (open_ close : Token) (ts : List Token) : Option (List Token) :=
  match ts with
  | x :: rest =>
    if x = open_ then
      match rest.reverse with
      | y :: mid => if y = close then some mid.reverse else none
      | [] => none
    else none
  | [] => none

def varsOf : Nat → List Token → List (List Nat)
  | 0, _ => []
  | _, [] => [[]]
  | _, [.var _ id] => [[id]]
  | fuel + 1, .var _ id :: .comma :: rest => (varsOf fuel rest).map (id :: ·)
  | _, _ => []

mutual
def closedP : Nat → List Token → List Formula
  | 0, _ => []
  | fuel + 1, ts =>
    (match ts with
      | [.true_] => [.true_]
      | [.false_] => [.false_]
      | [.reference n] => [.ref n]
      | [.var _ id] => [.var id]
      | _ => []) ++
    (match unwrap .openParen .closeParen ts with
      | some mid => subP fuel mid
      | none => []) ++
    (match ts with
      | .not :: rest => (closedP fuel rest).map .not
      | _ => []) ++
    -- List cop num
    (match ts.reverse with
      | .countable n :: o :: lrev =>
        match cntOpOf o with
        | some op => (flistP fuel lrev.reverse).map (fun fs => .cntConst op fs n)
        | none => []
      | _ => []) ++
    -- List cop List
    (splits ts).flatMap (fun (l, o, r) =>
      match cntOpOf o with
      | some op => (flistP fuel l).flatMap (fun fs => (flistP fuel r).map (fun gs => .cntVar op fs gs))
      | none => [])
def openP : Nat → List Token → List Formula
  | 0, _ => []
  | fuel + 1, ts =>
    (match ts with
      | .not :: rest => (openP fuel rest).map .not
      | _ => []) ++
    (match ts with
      | .lfp :: .var _ id :: .hash :: rest => (subP fuel rest).map (.fix id false)
      | .gfp :: .var _ id :: .hash :: rest => (subP fuel rest).map (.fix id true)
      | _ => []) ++
    (match ts with
      | q :: rest =>
        if q = .exists_ || q = .forall_ then
          (splits rest).flatMap (fun (vs, h, body) =>
            if h = .hash then
              (varsOf (vs.length + 1) vs).flatMap (fun ids =>
                (subP fuel body).map (.quant (if q = .exists_ then .exists_ else .forall_) ids))
            else [])
        else []
      | [] => []) ++
    (match ts with
      | .if_ :: rest =>
        (splits rest).flatMap (fun (c, t1, rest2) =>
          if t1 = .then_ then
            (splits rest2).flatMap (fun (t, e1, e) =>
              if e1 = .else_ then
                (subP fuel c).flatMap (fun fc => (subP fuel t).flatMap (fun ft =>
                  (subP fuel e).map (fun fe => .ite fc ft fe)))
              else [])
          else [])
      | _ => [])
def subP : Nat → List Token → List Formula
  | 0, _ => []
  | fuel + 1, ts =>
    closedP fuel ts ++ openP fuel ts ++
    (splits ts).flatMap (fun (l, o, r) =>
      match binOpOf o with
      | some op => (closedP fuel l).flatMap (fun fl => (subP fuel r).map (fun fr => .bin op fl fr))
      | none => [])
def flistP : Nat → List Token → List (List Formula)
  | 0, _ => []
  | fuel + 1, ts =>
    match unwrap .openSquare .closeSquare ts with
    | some mid => itemsP fuel mid
    | none => []
def itemsP : Nat → List Token → List (List Formula)
  | 0, _ => []
  | fuel + 1, ts =>
    (if ts.isEmpty then [[]] else []) ++
    (subP fuel ts).map (fun f => [f]) ++
    (splits ts).flatMap (fun (l, c, r) =>
      if c = .comma then (subP fuel l).flatMap (fun f => (itemsP fuel r).map (f :: ·)) else [])
end

/-- every tree the grammar assigns to the token list (which must end in `Eof`) -/
def allParses (ts : List Token) : List Formula :=
  match ts.reverse with
  | .eof :: pre => subP (3 * ts.length + 6) pre.reverse
  | _ => []

end Grammar
end Rsbdd
