/-
Puzzle specifications, written from the property statements (C15–C18): what an n-queens
placement, a (maximum) clique, a completed sudoku grid and a proper colouring are — as
plain predicates on finite data.  Computable (used as oracles) ; the `Prop` forms used in
theorems are stated next to them.  Import-free.
-/
namespace Rsbdd
namespace Puzzles

/-- queens on the cells (row-major indices `r*n+c`) of an n×n board, as a membership test -/
abbrev Board := Nat → Bool

def queensOfRow (n : Nat) (b : Board) (r : Nat) : List Nat := (List.range n).filter (fun c => b (r * n + c))
def queensOfCol (n : Nat) (b : Board) (c : Nat) : List Nat := (List.range n).filter (fun r => b (r * n + c))

/-- do two distinct cells attack each other diagonally? -/
def sameDiag (r c r' c' : Nat) : Bool := r + c' == r' + c || r + c == r' + c'

/-- exactly one queen per row and per column, no two queens on a common diagonal -/
def isNQueens (n : Nat) (b : Board) : Bool :=
  (List.range n).all (fun r => (queensOfRow n b r).length == 1) &&
  (List.range n).all (fun c => (queensOfCol n b c).length == 1) &&
  (List.range n).all (fun r => (List.range n).all (fun c => (List.range n).all (fun r' => (List.range n).all (fun c' =>
    !(b (r * n + c) && b (r' * n + c') && !(r == r' && c == c') && sameDiag r c r' c')))))

/-- all placements of n non-attacking queens, one per row: column of the queen in each row -/
def solveQueens (n : Nat) : List (List Nat) :=
  let rec go (k : Nat) (partials : List (List Nat)) : List (List Nat) :=
    match k with
    | 0 => partials
    | k + 1 =>
      go k (partials.flatMap (fun p =>
        (List.range n).filterMap (fun c =>
          let r := p.length
          if p.zipIdx.all (fun (c', r') => c' != c && r + c' != r' + c && r + c != r' + c') then some (p ++ [c]) else none)))
  go n [[]]

/-- adjacency as the property reads an edge list: with `-u` either direction connects, without
it both directions must be present -/
def adjOf (edges : List (Nat × Nat)) (u : Bool) (a b : Nat) : Bool :=
  if u then edges.contains (a, b) || edges.contains (b, a) else edges.contains (a, b) && edges.contains (b, a)

/-- a graph on vertices `0 … k-1` given by an adjacency test -/
def isClique (adj : Nat → Nat → Bool) (s : List Nat) : Bool :=
  s.all (fun u => s.all (fun v => u == v || adj u v))

def subsetsOf : List Nat → List (List Nat)
  | [] => [[]]
  | x :: xs => let r := subsetsOf xs; r ++ r.map (x :: ·)

def maxCliqueSize (adj : Nat → Nat → Bool) (vs : List Nat) : Nat :=
  ((subsetsOf vs).filter (isClique adj)).foldl (fun m s => max m s.length) 0

/-- a completed grid: `g c` is the number in cell `c` (row-major), `r` the root -/
def isSudoku (r : Nat) (g : Nat → Nat) (givens : List (Option Nat)) : Bool :=
  let sq := r * r
  (List.range (sq * sq)).all (fun c => 1 ≤ g c && g c ≤ sq) &&
  (List.range sq).all (fun i => (List.range sq).all (fun d0 =>
    ((List.range sq).filter (fun j => g (i * sq + j) == d0 + 1)).length == 1 &&
    ((List.range sq).filter (fun j => g (j * sq + i) == d0 + 1)).length == 1)) &&
  (List.range sq).all (fun bx => (List.range sq).all (fun d0 =>
    ((List.range (sq * sq)).filter (fun c => (c / sq) / r * r + (c % sq) / r == bx && g c == d0 + 1)).length == 1)) &&
  (List.range (sq * sq)).all (fun c => match givens[c]? with
    | some (some d) => g c == d
    | _ => true)

def isColouring (edges : List (Nat × Nat)) (col : Nat → Nat) (k : Nat) (vs : List Nat) : Bool :=
  vs.all (fun v => col v < k) && edges.all (fun (a, b) => col a != col b)

end Puzzles
end Rsbdd

namespace Rsbdd
namespace Puzzles

/-- all completed grids of root `r` that keep the givens, by backtracking over the cells in
order (each cell gets a number not yet used in its row, column and box) -/
def solveSudoku (r : Nat) (givens : List (Option Nat)) : List (List Nat) :=
  let sq := r * r
  let rec go (k : Nat) (partials : List (List Nat)) : List (List Nat) :=
    match k with
    | 0 => partials
    | k + 1 =>
      go k (partials.flatMap (fun p =>
        let c := p.length
        let cands := match givens[c]? with
          | some (some d) => if 1 ≤ d && d ≤ sq then [d] else []
          | _ => (List.range sq).map (· + 1)
        cands.filterMap (fun d =>
          let clash := p.zipIdx.any (fun (d', c') =>
            d' == d && (c' / sq == c / sq || c' % sq == c % sq ||
              ((c' / sq) / r == (c / sq) / r && (c' % sq) / r == (c % sq) / r)))
          if clash then none else some (p ++ [d]))))
  go (sq * sq) [[]]

end Puzzles
end Rsbdd
