/-
Truth-functional semantics of the formula language, written from README.md and the
property statements — not from the evaluator.  No BDD operation occurs here; the only
contact with diagrams is the `subtree b` leaf (which the parser never produces: it exists
because the evaluator substitutes iterates into fixed-point bodies) denoting `eval b`.

`Sem f ρ σ`: formula `f` holds under assignment `σ`, where `ρ` gives the current value of
every fixed-point name in scope.
-/
import Rsbdd.Model.Formula
import Rsbdd.Spec.Robdd

namespace Rsbdd

/-- a predicate on assignments: the denotation of a formula -/
abbrev Pred := BDD.Asg → Prop

/-- values of the fixed-point names in scope -/
abbrev FEnv := Nat → Option Pred

def FEnv.empty : FEnv := fun _ => none
def FEnv.set (ρ : FEnv) (x : Nat) (r : Pred) : FEnv := fun y => if y = x then some r else ρ y
/-- quantifying over a name hides any fixed-point binding of the same name -/
def FEnv.remove (ρ : FEnv) (vs : List Nat) : FEnv := fun y => if y ∈ vs then none else ρ y

/-- the documented meaning of the eight binary connectives -/
def BinOp.sem : BinOp → Prop → Prop → Prop
  | .and, p, q => p ∧ q
  | .or, p, q => p ∨ q
  | .xor, p, q => (p ∧ ¬ q) ∨ (¬ p ∧ q)
  | .nor, p, q => ¬ (p ∨ q)
  | .nand, p, q => ¬ (p ∧ q)
  | .implies, p, q => p → q
  | .impliesInv, p, q => q → p
  | .iff, p, q => p ↔ q

/-- the five counting comparisons: `[..] <= n`, `< n`, `>= n`, `> n`, `= n` -/
def CntOp.sem : CntOp → Nat → Nat → Prop
  | .atMost, k, n => k ≤ n
  | .lessThan, k, n => k < n
  | .atLeast, k, n => k ≥ n
  | .moreThan, k, n => k > n
  | .exactly, k, n => k = n

open BDD in
mutual
def Sem : Formula → FEnv → Pred
  | .false_, _, _ => False
  | .true_, _, _ => True
  | .var v, ρ, σ => match ρ v with
    | some r => r σ            -- a fixed-point name: its current value
    | none => σ v = true       -- a propositional variable
  | .not f, ρ, σ => ¬ Sem f ρ σ
  | .quant .exists_ vs f, ρ, σ => ∃ σ', AgreeOff vs σ σ' ∧ Sem f (ρ.remove vs) σ'
  | .quant .forall_ vs f, ρ, σ => ∀ σ', AgreeOff vs σ σ' → Sem f (ρ.remove vs) σ'
  | .cntConst op fs n, ρ, σ => ∃ k, SemCount fs ρ σ k ∧ op.sem k n
  | .cntVar op l r, ρ, σ => ∃ k₁ k₂, SemCount l ρ σ k₁ ∧ SemCount r ρ σ k₂ ∧ op.sem k₁ k₂
  -- least fixed point: the intersection of all pre-fixed points of r ↦ ⟦T⟧[X := r]
  | .fix x false t, ρ, σ => ∀ r : Pred, (∀ σ', Sem t (ρ.set x r) σ' → r σ') → r σ
  -- greatest fixed point: the union of all post-fixed points
  | .fix x true t, ρ, σ => ∃ r : Pred, (∀ σ', r σ' → Sem t (ρ.set x r) σ') ∧ r σ
  | .ite c t e, ρ, σ => (Sem c ρ σ ∧ Sem t ρ σ) ∨ (¬ Sem c ρ σ ∧ Sem e ρ σ)
  | .bin op l r, ρ, σ => op.sem (Sem l ρ σ) (Sem r ρ σ)
  | .subtree b, _, σ => eval b σ = true
  | .ref _, _, _ => False      -- an undefined reference is false
/-- `SemCount fs ρ σ k`: exactly `k` of the formulas in `fs` hold -/
def SemCount : List Formula → FEnv → BDD.Asg → Nat → Prop
  | [], _, _, k => k = 0
  | f :: fs, ρ, σ, k =>
    (Sem f ρ σ ∧ ∃ k', k = k' + 1 ∧ SemCount fs ρ σ k') ∨ (¬ Sem f ρ σ ∧ SemCount fs ρ σ k)
end

/-- pointwise order on predicates -/
def Pred.le (p q : Pred) : Prop := ∀ σ, p σ → q σ

/-- the transformer `r ↦ ⟦t⟧[x := r]` of a fixed-point body -/
def bodyFn (t : Formula) (x : Nat) (ρ : FEnv) : Pred → Pred := fun r => Sem t (ρ.set x r)

def MonoFn (Φ : Pred → Pred) : Prop := ∀ p q : Pred, Pred.le p q → Pred.le (Φ p) (Φ q)

end Rsbdd
