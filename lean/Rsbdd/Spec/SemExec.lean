/-
A computable brute-force evaluator of formulas on explicit truth tables over a finite
variable universe (Kleene iteration for fixed points).  Used only as the *search oracle*
of the correspondence run (DESIGN.md 3.3) — never as a proof.  Import-free.
-/
import Rsbdd.Model.Formula

namespace Rsbdd
namespace SemExec

/-- a truth table over the universe `U`: entry `m` is the value under the assignment whose
bit `i` is the value of `U[i]` -/
abbrev TT := Array Bool

def ttConst (n : Nat) (b : Bool) : TT := Array.replicate (2 ^ n) b
def ttVar (n i : Nat) : TT := Array.ofFn (n := 2 ^ n) (fun m => m.val.testBit i)
def ttMap (f : Bool → Bool) (a : TT) : TT := a.map f
def ttMap2 (f : Bool → Bool → Bool) (a b : TT) : TT := Array.zipWith f a b
def ttMap3 (f : Bool → Bool → Bool → Bool) (a b c : TT) : TT :=
  Array.ofFn (n := a.size) (fun m => f a[m] (b.getD m false) (c.getD m false))

/-- existential / universal quantification of the variable with index `i` -/
def ttQuant (isExists : Bool) (i : Nat) (a : TT) : TT :=
  Array.ofFn (n := a.size) (fun m =>
    let hi := a.getD (m.val ||| (1 <<< i)) false
    let lo := a.getD (m.val &&& ((2 ^ 62 - 1) ^^^ (1 <<< i))) false
    if isExists then hi || lo else hi && lo)

def ttCount (ts : List TT) (m : Nat) : Nat := (ts.filter (fun t => t.getD m false)).length

def binSem : BinOp → Bool → Bool → Bool
  | .and, p, q => p && q
  | .or, p, q => p || q
  | .xor, p, q => p != q
  | .nor, p, q => !(p || q)
  | .nand, p, q => !(p && q)
  | .implies, p, q => !p || q
  | .impliesInv, p, q => !q || p
  | .iff, p, q => p == q

def cntSem : CntOp → Nat → Nat → Bool
  | .atMost, k, n => decide (k ≤ n)
  | .lessThan, k, n => decide (k < n)
  | .atLeast, k, n => decide (k ≥ n)
  | .moreThan, k, n => decide (k > n)
  | .exactly, k, n => decide (k = n)

abbrev Env := List (Nat × TT)

def Env.lookup (env : Env) (v : Nat) : Option TT := (env.find? (fun p => p.1 == v)).map (·.2)
def Env.remove (env : Env) (vs : List Nat) : Env := env.filter (fun p => !vs.contains p.1)

def kleene (step : TT → Option TT) : Nat → TT → Option TT
  | 0, _ => none
  | k + 1, r =>
    match step r with
    | none => none
    | some r' => if r' == r then some r else kleene step k r'

mutual
def semTT (U : List Nat) (iters : Nat) : Nat → Formula → Env → Option TT
  | 0, _, _ => none
  | fuel + 1, f, env =>
    let n := U.length
    match f with
    | .false_ => some (ttConst n false)
    | .true_ => some (ttConst n true)
    | .var v =>
      match env.lookup v with
      | some t => some t
      | none => (U.idxOf? v).map (ttVar n)
    | .not g => (semTT U iters fuel g env).map (ttMap (!·))
    | .quant q vs g =>
      (semTT U iters fuel g (env.remove vs)).map (fun t =>
        vs.foldl (fun t v => match U.idxOf? v with
          | some i => ttQuant (q == .exists_) i t
          | none => t) t)
    | .cntConst op gs k =>
      (semTTL U iters fuel gs env).map (fun ts =>
        Array.ofFn (n := 2 ^ n) (fun m => cntSem op (ttCount ts m) k))
    | .cntVar op l r =>
      match semTTL U iters fuel l env, semTTL U iters fuel r env with
      | some l, some r => some (Array.ofFn (n := 2 ^ n) (fun m => cntSem op (ttCount l m) (ttCount r m)))
      | _, _ => none
    | .fix x init t =>
      kleene (fun r => semTT U iters fuel t ((x, r) :: env)) iters (ttConst n init)
    | .ite c t e =>
      match semTT U iters fuel c env, semTT U iters fuel t env, semTT U iters fuel e env with
      | some c, some t, some e => some (ttMap3 (fun c t e => if c then t else e) c t e)
      | _, _, _ => none
    | .bin op l r =>
      match semTT U iters fuel l env, semTT U iters fuel r env with
      | some l, some r => some (ttMap2 (binSem op) l r)
      | _, _ => none
    | .subtree _ => none
    | .ref _ => some (ttConst n false)
def semTTL (U : List Nat) (iters : Nat) : Nat → List Formula → Env → Option (List TT)
  | 0, _, _ => none
  | fuel + 1, fs, env =>
    match fs with
    | [] => some []
    | g :: gs =>
      match semTT U iters fuel g env, semTTL U iters fuel gs env with
      | some t, some ts => some (t :: ts)
      | _, _ => none
end

mutual
def allVars : Formula → List Nat
  | .var v => [v]
  | .not f => allVars f
  | .quant _ vs f => vs ++ allVars f
  | .cntConst _ fs _ => allVarsL fs
  | .cntVar _ l r => allVarsL l ++ allVarsL r
  | .fix v _ f => v :: allVars f
  | .ite a b c => allVars a ++ allVars b ++ allVars c
  | .bin _ l r => allVars l ++ allVars r
  | _ => []
def allVarsL : List Formula → List Nat
  | [] => []
  | f :: fs => allVars f ++ allVarsL fs
end

/-- all truth tables over `n` variables (for the exhaustive fixed-point oracle, `n ≤ 3`) -/
def allTT (n : Nat) : List TT :=
  (List.range (2 ^ (2 ^ n))).map (fun code => Array.ofFn (n := 2 ^ n) (fun m => code.testBit m.val))

def ttLe (a b : TT) : Bool := (List.range a.size).all (fun m => !(a.getD m false) || b.getD m false)

end SemExec
end Rsbdd
