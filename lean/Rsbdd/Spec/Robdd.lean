/-
Specification vocabulary for diagrams: what a diagram *denotes* and what "ordered" and
"reduced" mean.  Written from the property statements; no BDD operation occurs here.
Import-free (used by the compiled driver as the oracle).
-/
import Rsbdd.Model.Bdd

namespace Rsbdd
namespace BDD

/-- An assignment gives a truth value to every variable id. -/
abbrev Asg := Nat → Bool

/-- The Boolean function denoted by a diagram: follow the true branch when the tested
variable is true. -/
def eval : BDD → Asg → Bool
  | F, _ => false
  | T, _ => true
  | node t v f, σ => if σ v then eval t σ else eval f σ

/-- Ordered with lower bound: every tested variable is `≥ lo` and variables strictly
increase along every path. -/
def OrdFrom : Nat → BDD → Prop
  | _, F => True
  | _, T => True
  | lo, node t v f => lo ≤ v ∧ OrdFrom (v + 1) t ∧ OrdFrom (v + 1) f

def Ordered (b : BDD) : Prop := OrdFrom 0 b

/-- Reduced: no test whose two outcomes are the same diagram. -/
def Reduced : BDD → Prop
  | F => True
  | T => True
  | node t _ f => t ≠ f ∧ Reduced t ∧ Reduced f

def ROBDD (b : BDD) : Prop := Ordered b ∧ Reduced b

instance decOrdFrom : (lo : Nat) → (b : BDD) → Decidable (OrdFrom lo b)
  | _, F => Decidable.isTrue trivial
  | _, T => Decidable.isTrue trivial
  | lo, node t v f =>
    have := decOrdFrom (v + 1) t
    have := decOrdFrom (v + 1) f
    inferInstanceAs (Decidable (lo ≤ v ∧ OrdFrom (v + 1) t ∧ OrdFrom (v + 1) f))

instance decReduced : (b : BDD) → Decidable (Reduced b)
  | F => Decidable.isTrue trivial
  | T => Decidable.isTrue trivial
  | node t _ f =>
    have := decReduced t
    have := decReduced f
    inferInstanceAs (Decidable (t ≠ f ∧ Reduced t ∧ Reduced f))

instance (b : BDD) : Decidable (Ordered b) := decOrdFrom 0 b
instance (b : BDD) : Decidable (ROBDD b) := inferInstanceAs (Decidable (_ ∧ _))

/-- Variables tested somewhere in the diagram. -/
def support : BDD → List Nat
  | F => []
  | T => []
  | node t v f => v :: (support t ++ support f)

/-- A cube: a single path of literals ending in `T`, every other arm `F`. -/
def IsCube : BDD → Prop
  | T => True
  | F => False
  | node t _ f => (f = F ∧ IsCube t) ∨ (t = F ∧ IsCube f)

instance decIsCube : (b : BDD) → Decidable (IsCube b)
  | T => Decidable.isTrue trivial
  | F => Decidable.isFalse (fun h => h)
  | node t _ f =>
    have := decIsCube t
    have := decIsCube f
    inferInstanceAs (Decidable ((f = F ∧ IsCube t) ∨ (t = F ∧ IsCube f)))

/-- Two assignments agree outside a list of variables. -/
def AgreeOff (V : List Nat) (σ σ' : Asg) : Prop := ∀ w, w ∉ V → σ' w = σ w

/-- Number of diagrams in a list that are true under `σ`. -/
def count (bs : List BDD) (σ : Asg) : Nat := (bs.filter (fun b => eval b σ)).length

end BDD
end Rsbdd
