/-
The lexical specification, written from README.md and the property statement (C08): at each
position of the text

  * the LONGEST symbol literal that matches there is a token (`<=>` before `<=`, `=>` before `=`);
  * otherwise a run of digits is a number; `{name}` is a reference; a maximal run of name
    characters (`\w` and `'`) is a keyword / alias or a variable; a quoted comment is skipped;
  * any other character only separates.

`Model/Token.lean:scan` mirrors the implementation's regular expression, whose alternation takes
the FIRST literal that matches; `Thm/C08.scan_eq_munch` proves the two agree.  Import-free.
-/
import Rsbdd.Model.Token

namespace Rsbdd
namespace LexSpec

/-- all symbol literals that match at the head of the text, with what follows each -/
def symbolMatches (cs : List Ch) : List (String × Token × List Ch) :=
  symbolTable.filterMap (fun (s, t) => (stripPrefix s.toList cs).map (fun rest => (s, t, rest)))

/-- the longest of them -/
def longestSymbol (cs : List Ch) : Option (Token × List Ch) :=
  ((symbolMatches cs).foldl (fun (best : Option (String × Token × List Ch)) m =>
    match best with
    | none => some m
    | some b => if m.1.length > b.1.length then some m else some b) none).map (fun m => (m.2.1, m.2.2))

def lex : Nat → List Ch → List Lexeme
  | 0, _ => []
  | _, [] => []
  | fuel + 1, x :: cs =>
    match longestSymbol (x :: cs) with
    | some (t, rest) => .sym t :: lex fuel rest
    | none =>
      if x.cls == .digit then
        .num ((x :: cs).takeWhile (·.cls == .digit)) :: lex fuel ((x :: cs).dropWhile (·.cls == .digit))
      else if x.c == '{' && !(cs.takeWhile Ch.wordLike).isEmpty &&
          ((cs.dropWhile Ch.wordLike).head?.map (·.c == '}')).getD false then
        .ref (chars (cs.takeWhile Ch.wordLike)) :: lex fuel ((cs.dropWhile Ch.wordLike).drop 1)
      else if x.wordLike then
        .ident (chars ((x :: cs).takeWhile Ch.wordLike)) :: lex fuel ((x :: cs).dropWhile Ch.wordLike)
      else if x.c == '"' && (cs.dropWhile (fun y => y.c != '"')) != [] then
        lex fuel ((cs.dropWhile (fun y => y.c != '"')).drop 1)
      else lex fuel cs

/-- the token list the specification assigns to a text under an ordering -/
def tokens (text : List Ch) (ordering : List (String × Nat)) : Option (List Token) :=
  (toTokens (lex (text.length + 1) text) (VarTable.preload ordering)).map (· ++ [.eof])

end LexSpec
end Rsbdd
