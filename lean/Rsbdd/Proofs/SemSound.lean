/-
Soundness of the evaluator: whatever `evalF` returns is an ordered reduced diagram whose
denotation is the documented meaning `Sem` of the formula.  Induction on the recursion
budget (the recursion is not structural because fixed points substitute iterates into
their body).
-/
import Rsbdd.Proofs.SemSubst
import Rsbdd.Proofs.ModelRetain

namespace Rsbdd
open BDD Formula

mutual
/-- every diagram leaf is ordered and reduced, every fixed-point body is monotone in its
bound name (for every value of the enclosing fixed-point names) -/
def GoodF : Formula → Prop
  | .false_ => True
  | .true_ => True
  | .var _ => True
  | .ref _ => True
  | .not f => GoodF f
  | .quant _ _ f => GoodF f
  | .cntConst _ fs _ => GoodFL fs
  | .cntVar _ l r => GoodFL l ∧ GoodFL r
  | .fix x _ t => GoodF t ∧ ∀ ρ, MonoFn (bodyFn t x ρ)
  | .ite c t e => GoodF c ∧ GoodF t ∧ GoodF e
  | .bin _ l r => GoodF l ∧ GoodF r
  | .subtree b => ROBDD b
def GoodFL : List Formula → Prop
  | [] => True
  | f :: fs => GoodF f ∧ GoodFL fs
end

mutual
theorem goodF_replaceVar (x : Nat) {b : BDD} (hb : ROBDD b) :
    ∀ (t : Formula), GoodF t → GoodF (replaceVar x (.subtree b) t)
  | .false_, _ => by simp [replaceVar, GoodF]
  | .true_, _ => by simp [replaceVar, GoodF]
  | .var v, _ => by
    by_cases h : v = x
    · simp [replaceVar, h, GoodF, hb]
    · simp [replaceVar, h, GoodF]
  | .ref _, _ => by simp [replaceVar, GoodF]
  | .not f, h => by simp only [replaceVar, GoodF] at h ⊢; exact goodF_replaceVar x hb f h
  | .quant q vs f, h => by
    by_cases hc : vs.contains x = true
    · simp only [replaceVar, hc, if_true]; exact h
    · have hf : vs.contains x = false := by simpa using hc
      simp only [replaceVar, hf, Bool.false_eq_true, if_false, GoodF] at h ⊢
      exact goodF_replaceVar x hb f h
  | .cntConst op fs n, h => by
    simp only [replaceVar, GoodF] at h ⊢; exact goodFL_replaceVarL x hb fs h
  | .cntVar op l r, h => by
    simp only [replaceVar, GoodF] at h ⊢
    exact ⟨goodFL_replaceVarL x hb l h.1, goodFL_replaceVarL x hb r h.2⟩
  | .fix v i f, h => by
    by_cases hv : v = x
    · simp only [replaceVar, hv, if_true]; subst hv; exact h
    · simp only [replaceVar, hv, if_false, GoodF] at h ⊢
      refine ⟨goodF_replaceVar x hb f h.1, ?_⟩
      intro ρ p q hpq
      have h' : x ≠ v := fun e => hv e.symm
      simp only [bodyFn, sem_replaceVar, FEnv.set_set_comm ρ hv]
      exact h.2 (ρ.set x (den b)) p q hpq
  | .ite c t e, h => by
    simp only [replaceVar, GoodF] at h ⊢
    exact ⟨goodF_replaceVar x hb c h.1, goodF_replaceVar x hb t h.2.1, goodF_replaceVar x hb e h.2.2⟩
  | .bin op l r, h => by
    simp only [replaceVar, GoodF] at h ⊢
    exact ⟨goodF_replaceVar x hb l h.1, goodF_replaceVar x hb r h.2⟩
  | .subtree c, h => by simp only [replaceVar]; exact h
theorem goodFL_replaceVarL (x : Nat) {b : BDD} (hb : ROBDD b) :
    ∀ (fs : List Formula), GoodFL fs → GoodFL (replaceVarL x (.subtree b) fs)
  | [], _ => by simp [replaceVarL, GoodFL]
  | f :: fs, h => by
    simp only [replaceVarL, GoodFL] at h ⊢
    exact ⟨goodF_replaceVar x hb f h.1, goodFL_replaceVarL x hb fs h.2⟩
end

/-- `b` is an ordered reduced diagram denoting the (closed) meaning of `f` -/
def DenotesF (b : BDD) (f : Formula) : Prop :=
  ROBDD b ∧ ∀ σ, eval b σ = true ↔ Sem f FEnv.empty σ

/-- `bs` are ordered reduced diagrams and, under every assignment, as many of them are
true as formulas of `fs` hold -/
def DenotesL (bs : List BDD) (fs : List Formula) : Prop :=
  (∀ b ∈ bs, ROBDD b) ∧ ∀ σ k, SemCount fs FEnv.empty σ k ↔ count bs σ = k

theorem count_le_length (bs : List BDD) (σ : Asg) : count bs σ ≤ bs.length := by
  simp [count]; exact List.length_filter_le _ _

theorem count_cons (b : BDD) (bs : List BDD) (σ : Asg) :
    count (b :: bs) σ = (if eval b σ = true then 1 else 0) + count bs σ := by
  simp only [count, List.filter_cons]
  split <;> simp <;> omega

theorem robdd_binApply (op : BinOp) {l r : BDD} (hl : ROBDD l) (hr : ROBDD r) :
    ROBDD (binApply op l r) := by
  cases op <;> simp only [binApply]
  · exact ⟨ordFrom_and hl.1 hr.1, reduced_and hl.2 hr.2⟩
  · exact ⟨ordFrom_or hl.1 hr.1, reduced_or hl.2 hr.2⟩
  · exact ⟨ordFrom_xor hl.1 hr.1, reduced_xor hl.2 hr.2⟩
  · exact ⟨ordFrom_nor hl.1 hr.1, reduced_nor hl.2 hr.2⟩
  · exact ⟨ordFrom_nand hl.1 hr.1, reduced_nand hl.2 hr.2⟩
  · exact ⟨ordFrom_implies hl.1 hr.1, reduced_implies hl.2 hr.2⟩
  · exact ⟨ordFrom_implies hr.1 hl.1, reduced_implies hr.2 hl.2⟩
  · exact ⟨ordFrom_eq hl.1 hr.1, reduced_eq hl.2 hr.2⟩

theorem eval_binApply (op : BinOp) (l r : BDD) (σ : Asg) :
    eval (binApply op l r) σ = true ↔ op.sem (eval l σ = true) (eval r σ = true) := by
  cases op <;> simp only [binApply, BinOp.sem, BDD.eval_and, BDD.eval_or, BDD.eval_xor, BDD.eval_nor,
    BDD.eval_nand, BDD.eval_implies, BDD.eval_eq] <;>
    cases eval l σ <;> cases eval r σ <;> simp

theorem robdd_cmpCount (cmp : Int → Bool) {bs : List BDD} (h : ∀ b ∈ bs, ROBDD b) (n : Int) :
    ROBDD (cmpCount cmp bs n) :=
  ⟨ordFrom_cmpCount cmp (fun b hb => (h b hb).1) n, reduced_cmpCount cmp (fun b hb => (h b hb).2) n⟩

theorem robdd_cntConstApply (op : CntOp) {bs : List BDD} (h : ∀ b ∈ bs, ROBDD b) (n : Nat) :
    ROBDD (cntConstApply op bs n) := by
  cases op <;> simp only [cntConstApply, amn, aln, exn] <;> exact robdd_cmpCount _ h _

theorem robdd_cmpCountCompare {cmp : List BDD → Int → BDD} {as bs : List BDD}
    (hcmp : ∀ n, ROBDD (cmp bs n)) (h : ∀ b ∈ as, ROBDD b) (n : Int) :
    ROBDD (cmpCountCompare cmp as bs n) :=
  ⟨ordFrom_cmpCountCompare (fun n => (hcmp n).1) (fun b hb => (h b hb).1) n,
   reduced_cmpCountCompare (fun n => (hcmp n).2) (fun b hb => (h b hb).2) n⟩

theorem robdd_cntVarApply (op : CntOp) {l r : List BDD} (hl : ∀ b ∈ l, ROBDD b)
    (hr : ∀ b ∈ r, ROBDD b) : ROBDD (cntVarApply op l r) := by
  have ha : ∀ n, ROBDD (aln r n) := fun n => robdd_cmpCount _ hr n
  have hm : ∀ n, ROBDD (amn r n) := fun n => robdd_cmpCount _ hr n
  cases op <;> simp only [cntVarApply, countLeq, countLt, countGeq, countGt, countEq]
  · exact robdd_cmpCountCompare ha hl 0
  · exact robdd_cmpCountCompare ha hl 1
  · exact robdd_cmpCountCompare hm hl 0
  · exact robdd_cmpCountCompare hm hl (-1)
  · exact ⟨ordFrom_and (robdd_cmpCountCompare ha hl 0).1 (robdd_cmpCountCompare hm hl 0).1,
      reduced_and (robdd_cmpCountCompare ha hl 0).2 (robdd_cmpCountCompare hm hl 0).2⟩

theorem eval_aln' (bs : List BDD) (n : Int) (σ : Asg) :
    eval (aln bs n) σ = true ↔ n ≤ (count bs σ : Nat) := by
  simp [aln, BDD.eval_cmpCount]; omega
theorem eval_amn' (bs : List BDD) (n : Int) (σ : Asg) :
    eval (amn bs n) σ = true ↔ (count bs σ : Nat) ≤ n := by
  simp [amn, BDD.eval_cmpCount]
theorem eval_exn' (bs : List BDD) (n : Int) (σ : Asg) :
    eval (exn bs n) σ = true ↔ (count bs σ : Nat) = n := by
  simp [exn, BDD.eval_cmpCount]; omega

/-- the language forms `[..] <= n`, `< n`, `>= n`, `> n`, `= n` mean exactly that, for every
constant `n : Nat` (the clamp to `len + 1` does not change the truth function) -/
theorem eval_cntConstApply (op : CntOp) (bs : List BDD) (n : Nat) (σ : Asg) :
    eval (cntConstApply op bs n) σ = true ↔ op.sem (count bs σ) n := by
  have hle := count_le_length bs σ
  cases op <;> simp only [cntConstApply, CntOp.sem, eval_aln', eval_amn', eval_exn'] <;> omega

theorem eval_cntVarApply (op : CntOp) (l r : List BDD) (σ : Asg) :
    eval (cntVarApply op l r) σ = true ↔ op.sem (count l σ) (count r σ) := by
  cases op <;> simp only [cntVarApply, CntOp.sem, countLeq, countLt, countGeq, countGt, countEq,
    BDD.eval_and, Bool.and_eq_true, eval_cmpCountCompare, eval_aln', eval_amn'] <;> omega

end Rsbdd

namespace Rsbdd
open BDD Formula

theorem den_F : den F = fun _ => False := by funext σ; simp [den]
theorem den_T : den T = fun _ => True := by funext σ; simp [den]

theorem sem_fix_false (x : Nat) (t : Formula) (ρ : FEnv) :
    Sem (.fix x false t) ρ = lfpP (bodyFn t x ρ) := by
  funext σ; simp only [Sem, lfpP, bodyFn, Pred.le]
theorem sem_fix_true (x : Nat) (t : Formula) (ρ : FEnv) :
    Sem (.fix x true t) ρ = gfpP (bodyFn t x ρ) := by
  funext σ; simp only [Sem, gfpP, bodyFn, Pred.le]

theorem denotesF_den {b : BDD} {f : Formula} (h : DenotesF b f) : den b = Sem f FEnv.empty :=
  funext (fun σ => propext (h.2 σ))

/-- one round of the fixed-point loop: the new iterate denotes the body's transformer
applied to the old iterate's denotation -/
theorem step_den {x : Nat} {t : Formula} {y y' : BDD}
    (h : DenotesF y' (replaceVar x (.subtree y) t)) :
    den y' = bodyFn t x FEnv.empty (den y) := by
  rw [denotesF_den h, sem_replaceVar]; rfl

theorem evalF_sound_aux (iters : Nat) : ∀ fuel : Nat,
    (∀ f b, GoodF f → evalF iters fuel f = some b → DenotesF b f) ∧
    (∀ fs bs, GoodFL fs → evalFL iters fuel fs = some bs → DenotesL bs fs) := by
  intro fuel
  induction fuel with
  | zero => exact ⟨fun f b _ h => by simp [evalF] at h, fun fs bs _ h => by simp [evalFL] at h⟩
  | succ fuel ih =>
    obtain ⟨ihF, ihL⟩ := ih
    constructor
    · intro f b hg h
      cases f with
      | false_ =>
        simp [evalF] at h; subst h
        exact ⟨⟨trivial, trivial⟩, fun σ => by simp [Sem]⟩
      | true_ =>
        simp [evalF] at h; subst h
        exact ⟨⟨trivial, trivial⟩, fun σ => by simp [Sem]⟩
      | var v =>
        simp [evalF] at h; subst h
        exact ⟨⟨ordFrom_var 0 v (Nat.zero_le _), reduced_var v⟩, fun σ => by simp [Sem, FEnv.empty]⟩
      | ref n =>
        simp [evalF] at h; subst h
        exact ⟨⟨trivial, trivial⟩, fun σ => by simp [Sem]⟩
      | subtree c =>
        simp [evalF] at h; subst h
        exact ⟨hg, fun σ => by simp [Sem]⟩
      | not g =>
        simp only [evalF, Option.map_eq_some_iff] at h
        obtain ⟨c, hc, rfl⟩ := h
        have := ihF g c hg hc
        exact ⟨⟨ordFrom_not this.1.1, reduced_not this.1.2⟩, fun σ => by
          simp only [BDD.eval_not, Sem, ← this.2 σ]; cases eval c σ <;> simp⟩
      | quant q vs g =>
        cases q with
        | exists_ =>
          simp only [evalF, Option.map_eq_some_iff] at h
          obtain ⟨c, hc, rfl⟩ := h
          have := ihF g c hg hc
          refine ⟨⟨ordFrom_exists vs this.1.1, reduced_exists vs this.1.2⟩, fun σ => ?_⟩
          rw [BDD.eval_exists vs this.1.1 σ]
          simp only [Sem, FEnv.empty_remove, this.2]
        | forall_ =>
          simp only [evalF, Option.map_eq_some_iff] at h
          obtain ⟨c, hc, rfl⟩ := h
          have := ihF g c hg hc
          refine ⟨⟨ordFrom_all vs this.1.1, reduced_all vs this.1.2⟩, fun σ => ?_⟩
          rw [BDD.eval_all vs this.1.1 σ]
          simp only [Sem, FEnv.empty_remove, this.2]
      | cntConst op fs n =>
        simp only [evalF, Option.map_eq_some_iff] at h
        obtain ⟨bs, hbs, rfl⟩ := h
        have := ihL fs bs hg hbs
        refine ⟨robdd_cntConstApply op this.1 n, fun σ => ?_⟩
        rw [eval_cntConstApply]
        simp only [Sem, this.2]
        constructor
        · intro h; exact ⟨_, rfl, h⟩
        · rintro ⟨k, rfl, h⟩; exact h
      | cntVar op l r =>
        simp only [evalF] at h
        split at h
        · rename_i bl br hl hr
          cases h
          have h1 := ihL l bl hg.1 hl
          have h2 := ihL r br hg.2 hr
          refine ⟨robdd_cntVarApply op h1.1 h2.1, fun σ => ?_⟩
          rw [eval_cntVarApply]
          simp only [Sem, h1.2, h2.2]
          constructor
          · intro h; exact ⟨_, _, rfl, rfl, h⟩
          · rintro ⟨k1, k2, rfl, rfl, h⟩; exact h
        · simp at h
      | ite c t e =>
        simp only [evalF] at h
        split at h
        · rename_i bc bt be hc ht he
          cases h
          have h1 := ihF c bc hg.1 hc
          have h2 := ihF t bt hg.2.1 ht
          have h3 := ihF e be hg.2.2 he
          refine ⟨⟨ordFrom_ite h1.1.1 h2.1.1 h3.1.1, reduced_ite h1.1.2 h2.1.2 h3.1.2⟩, fun σ => ?_⟩
          simp only [BDD.eval_ite, Sem, ← h1.2 σ, ← h2.2 σ, ← h3.2 σ]
          cases eval bc σ <;> simp
        · simp at h
      | bin op l r =>
        simp only [evalF] at h
        split at h
        · rename_i bl br hl hr
          cases h
          have h1 := ihF l bl hg.1 hl
          have h2 := ihF r br hg.2 hr
          refine ⟨robdd_binApply op h1.1 h2.1, fun σ => ?_⟩
          rw [eval_binApply]
          simp only [Sem, h1.2 σ, h2.2 σ]
        · simp at h
      | fix x init t =>
        simp only [evalF] at h
        have hmono := hg.2 FEnv.empty
        -- every round maps an ordered reduced iterate to an ordered reduced iterate denoting Φ(iterate)
        have hstep : ∀ y y', ROBDD y → evalF iters fuel (replaceVar x (.subtree y) t) = some y' →
            ROBDD y' ∧ den y' = bodyFn t x FEnv.empty (den y) := by
          intro y y' hy hyy
          have := ihF _ y' (goodF_replaceVar x hy t hg.1) hyy
          exact ⟨this.1, step_den this⟩
        cases init with
        | false =>
          have hinv := fpLoop_inv
            (P := fun y => ROBDD y ∧ Pred.le (den y) (lfpP (bodyFn t x FEnv.empty)))
            (t := fun y => evalF iters fuel (replaceVar x (.subtree y) t))
            (fun y y' hy hyy => by
              obtain ⟨h1, h2⟩ := hstep y y' hy.1 hyy
              refine ⟨h1, ?_⟩
              rw [h2, ← lfpP_fixed hmono]
              exact hmono _ _ hy.2)
            iters (mkConst false) b
            ⟨⟨trivial, trivial⟩, by simp [den_F, Pred.le]⟩ h
          obtain ⟨⟨hb, hle⟩, hfix⟩ := hinv
          have hfp := (hstep b b hb hfix).2
          have := eq_lfpP_of hfp.symm hle
          exact ⟨hb, fun σ => by rw [sem_fix_false, ← this]; rfl⟩
        | true =>
          have hinv := fpLoop_inv
            (P := fun y => ROBDD y ∧ Pred.le (gfpP (bodyFn t x FEnv.empty)) (den y))
            (t := fun y => evalF iters fuel (replaceVar x (.subtree y) t))
            (fun y y' hy hyy => by
              obtain ⟨h1, h2⟩ := hstep y y' hy.1 hyy
              refine ⟨h1, ?_⟩
              rw [h2, ← gfpP_fixed hmono]
              exact hmono _ _ hy.2)
            iters (mkConst true) b
            ⟨⟨trivial, trivial⟩, by simp [den_T, Pred.le]⟩ h
          obtain ⟨⟨hb, hge⟩, hfix⟩ := hinv
          have hfp := (hstep b b hb hfix).2
          have := eq_gfpP_of hfp.symm hge
          exact ⟨hb, fun σ => by rw [sem_fix_true, ← this]; rfl⟩
    · intro fs bs hg h
      cases fs with
      | nil =>
        simp [evalFL] at h; subst h
        exact ⟨fun b hb => by simp at hb, fun σ k => by simp [SemCount, count]; exact eq_comm⟩
      | cons f fs =>
        simp only [evalFL] at h
        split at h
        · rename_i b bs' hb hbs
          cases h
          have h1 := ihF f b hg.1 hb
          have h2 := ihL fs bs' hg.2 hbs
          refine ⟨fun c hc => ?_, fun σ k => ?_⟩
          · simp at hc; rcases hc with rfl | hc
            · exact h1.1
            · exact h2.1 c hc
          · simp only [SemCount, ← h1.2 σ, h2.2 σ, count_cons]
            cases eval b σ <;> simp <;> omega
        · simp at h


/-! ### one-step unfolding of the evaluator on successful sub-evaluations -/

theorem evalF_ite_some {iters fuel : Nat} {c t e : Formula} {bc bt be : BDD}
    (h1 : evalF iters fuel c = some bc) (h2 : evalF iters fuel t = some bt)
    (h3 : evalF iters fuel e = some be) :
    evalF iters (fuel + 1) (.ite c t e) = some (BDD.ite bc bt be) := by
  rw [evalF]; simp only [h1, h2, h3]
theorem evalF_bin_some {iters fuel : Nat} {op : BinOp} {l r : Formula} {bl br : BDD}
    (h1 : evalF iters fuel l = some bl) (h2 : evalF iters fuel r = some br) :
    evalF iters (fuel + 1) (.bin op l r) = some (binApply op bl br) := by
  rw [evalF]; simp only [h1, h2]
theorem evalF_cntVar_some {iters fuel : Nat} {op : CntOp} {l r : List Formula} {bl br : List BDD}
    (h1 : evalFL iters fuel l = some bl) (h2 : evalFL iters fuel r = some br) :
    evalF iters (fuel + 1) (.cntVar op l r) = some (cntVarApply op bl br) := by
  rw [evalF]; simp only [h1, h2]
theorem evalFL_cons_some {iters fuel : Nat} {f : Formula} {fs : List Formula} {b : BDD} {bs : List BDD}
    (h1 : evalF iters fuel f = some b) (h2 : evalFL iters fuel fs = some bs) :
    evalFL iters (fuel + 1) (f :: fs) = some (b :: bs) := by
  rw [evalFL]; simp only [h1, h2]

end Rsbdd
