/-
Variable numbering of the tokenizer: within one text, equal names get equal ids and
different names different ids, for every pre-loaded ordering whose ids are distinct per
name; names not in the ordering are numbered after every listed id, in order of first
appearance.
-/
import Rsbdd.Model.Token

namespace Rsbdd

/-- the table is a bijection between its names and its ids, and every id is below the counter -/
structure VarTable.Inv (vt : VarTable) : Prop where
  inj : ∀ p ∈ vt.map, ∀ q ∈ vt.map, (p.1 = q.1 ↔ p.2 = q.2)
  bound : ∀ p ∈ vt.map, p.2 < vt.counter

theorem VarTable.lookup_some {vt : VarTable} {name : String} {id : Nat}
    (h : vt.lookup name = some id) : (name, id) ∈ vt.map := by
  simp only [VarTable.lookup, Option.map_eq_some_iff] at h
  obtain ⟨p, hp, rfl⟩ := h
  have hm := List.mem_of_find?_eq_some hp
  have hn := List.find?_some hp
  simp at hn
  rw [← hn]; exact hm

theorem VarTable.lookup_none {vt : VarTable} {name : String} (h : vt.lookup name = none) :
    ∀ p ∈ vt.map, p.1 ≠ name := by
  simp only [VarTable.lookup, Option.map_eq_none_iff] at h
  intro p hp e
  have := List.find?_eq_none.mp h p hp
  simp [e] at this

def Token.isVar : Token → Bool
  | .var _ _ => true
  | _ => false

theorem symbolTable_no_var : ∀ p ∈ symbolTable, Token.isVar p.2 = false := by decide
theorem keywordTable_no_var : ∀ p ∈ keywordTable, Token.isVar p.2 = false := by decide

/-- no symbol lexeme carries a `Var` token (true of everything the scanner produces) -/
def SymsOk (ls : List Lexeme) : Prop := ∀ l ∈ ls, ∀ t, l = Lexeme.sym t → Token.isVar t = false

/-- tokens of a text under a well-formed table: there is a final table, extending the
initial one and still a bijection, that contains every `Var` token's (name, id) -/
theorem toTokens_table : ∀ (ls : List Lexeme) (vt : VarTable) (ts : List Token), SymsOk ls → vt.Inv →
    toTokens ls vt = some ts →
    ∃ M : List (String × Nat), (∀ p ∈ vt.map, p ∈ M) ∧
      (∀ p ∈ M, ∀ q ∈ M, (p.1 = q.1 ↔ p.2 = q.2)) ∧
      (∀ p ∈ M, p ∈ vt.map ∨ vt.counter ≤ p.2) ∧
      ∀ n id, Token.var n id ∈ ts → (n, id) ∈ M := by
  intro ls
  induction ls with
  | nil =>
    intro vt ts _ hinv h
    simp [toTokens] at h; subst h
    exact ⟨vt.map, fun p hp => hp, hinv.inj, fun p hp => Or.inl hp, fun n id hm => by simp at hm⟩
  | cons l ls ih =>
    intro vt ts hsym hinv h
    have hsym' : SymsOk ls := fun l' hm => hsym l' (by simp [hm])
    have ih := fun vt ts => ih vt ts hsym'
    cases l with
    | sym t =>
      simp only [toTokens, Option.map_eq_some_iff] at h
      obtain ⟨ts', h', rfl⟩ := h
      obtain ⟨M, h1, h2, h3, h4⟩ := ih vt ts' hinv h'
      refine ⟨M, h1, h2, h3, fun n id hm => h4 n id ?_⟩
      simp at hm
      rcases hm with hm | hm
      · -- a symbol token is never a `Var`
        have := hsym (.sym t) (by simp) t rfl
        rw [← hm] at this; simp [Token.isVar] at this
      · exact hm
    | ref r =>
      simp only [toTokens, Option.map_eq_some_iff] at h
      obtain ⟨ts', h', rfl⟩ := h
      obtain ⟨M, h1, h2, h3, h4⟩ := ih vt ts' hinv h'
      exact ⟨M, h1, h2, h3, fun n id hm => h4 n id (by simpa using hm)⟩
    | num ds =>
      simp only [toTokens] at h
      split at h
      · simp at h
      · simp only [Option.map_eq_some_iff] at h
        obtain ⟨ts', h', rfl⟩ := h
        obtain ⟨M, h1, h2, h3, h4⟩ := ih vt ts' hinv h'
        exact ⟨M, h1, h2, h3, fun n id hm => h4 n id (by simpa using hm)⟩
    | ident name =>
      simp only [toTokens] at h
      split at h
      · -- keyword
        rename_i kt hk
        simp only [Option.map_eq_some_iff] at h hk
        obtain ⟨ts', h', rfl⟩ := h
        obtain ⟨kp, hkp, rfl⟩ := hk
        have hkv := keywordTable_no_var kp (List.mem_of_find?_eq_some hkp)
        obtain ⟨M, h1, h2, h3, h4⟩ := ih vt ts' hinv h'
        refine ⟨M, h1, h2, h3, fun n id hm => h4 n id ?_⟩
        simp at hm
        rcases hm with hm | hm
        · rw [← hm] at hkv; simp [Token.isVar] at hkv
        · exact hm
      · split at h
        · -- known name
          rename_i id hl
          simp only [Option.map_eq_some_iff] at h
          obtain ⟨ts', h', rfl⟩ := h
          obtain ⟨M, h1, h2, h3, h4⟩ := ih vt ts' hinv h'
          refine ⟨M, h1, h2, h3, fun n i hm => ?_⟩
          simp at hm
          rcases hm with ⟨rfl, rfl⟩ | hm
          · exact h1 _ (VarTable.lookup_some hl)
          · exact h4 n i hm
        · -- fresh name
          rename_i hl
          simp only [Option.map_eq_some_iff] at h
          obtain ⟨ts', h', rfl⟩ := h
          have hfresh := VarTable.lookup_none hl
          have hinv' : VarTable.Inv { map := (name, vt.counter) :: vt.map, counter := vt.counter + 1 } := by
            constructor
            · intro p hp q hq
              simp at hp hq
              rcases hp with rfl | hp <;> rcases hq with rfl | hq
              · simp
              · constructor
                · intro e; exact absurd e.symm (hfresh q hq)
                · intro e; have := hinv.bound q hq; simp at e; omega
              · constructor
                · intro e; exact absurd e (hfresh p hp)
                · intro e; have := hinv.bound p hp; simp at e; omega
              · exact hinv.inj p hp q hq
            · intro p hp
              simp at hp
              rcases hp with rfl | hp
              · simp
              · have := hinv.bound p hp; simp; omega
          obtain ⟨M, h1, h2, h3, h4⟩ := ih _ ts' hinv' h'
          refine ⟨M, fun p hp => h1 p (by simp [hp]), h2, fun p hp => ?_, fun n i hm => ?_⟩
          · rcases h3 p hp with h | h
            · simp at h
              rcases h with rfl | h
              · right; simp
              · left; exact h
            · right; simp at h; omega
          · simp at hm
            rcases hm with ⟨rfl, rfl⟩ | hm
            · exact h1 _ (by simp)
            · exact h4 n i hm


theorem mem_of_findSome?' {α β : Type} {f : α → Option β} {l : List α} {b : β}
    (h : l.findSome? f = some b) : ∃ a ∈ l, f a = some b := by
  induction l with
  | nil => simp at h
  | cons a as ih =>
    simp only [List.findSome?] at h
    split at h
    · rename_i b' hb; cases h; exact ⟨a, by simp, hb⟩
    · obtain ⟨a', ha', hf⟩ := ih h; exact ⟨a', by simp [ha'], hf⟩

theorem scan_symsOk : ∀ (fuel : Nat) (cs : List Ch), SymsOk (scan fuel cs) := by
  intro fuel
  induction fuel with
  | zero => intro cs l hl; simp [scan] at hl
  | succ n ih =>
    intro cs l hl t ht
    cases cs with
    | nil => simp [scan] at hl
    | cons x xs =>
      simp only [scan] at hl
      split at hl
      · rename_i t' rest hm
        simp at hl
        rcases hl with rfl | hl
        · cases ht
          unfold matchSymbol at hm
          obtain ⟨⟨s, t''⟩, hmem, hf⟩ := mem_of_findSome?' hm
          simp only [Option.map_eq_some_iff] at hf
          obtain ⟨r, _, hp⟩ := hf
          cases hp
          exact symbolTable_no_var _ hmem
        · exact ih _ l hl t ht
      · split at hl
        · simp at hl
          rcases hl with rfl | hl
          · cases ht
          · exact ih _ l hl t ht
        · split at hl
          · simp at hl
            rcases hl with rfl | hl
            · cases ht
            · exact ih _ l hl t ht
          · split at hl
            · simp at hl
              rcases hl with rfl | hl
              · cases ht
              · exact ih _ l hl t ht
            · split at hl
              · exact ih _ l hl t ht
              · exact ih _ l hl t ht

/-- an ordering whose ids are distinct per name (what the API requires, and what reading an
ordering file produces) pre-loads a well-formed table -/
def OrderingOk (ord : List (String × Nat)) : Prop :=
  ∀ p ∈ ord, ∀ q ∈ ord, (p.1 = q.1 ↔ p.2 = q.2)

theorem preload_inv_aux : ∀ (ord : List (String × Nat)) (vt : VarTable),
    (∀ p ∈ vt.map, p.2 < vt.counter) →
    (∀ p ∈ ord.foldl (fun t (x : String × Nat) =>
        { map := (x.1, x.2) :: t.map.filter (fun p => p.1 != x.1),
          counter := if x.2 ≥ t.counter then x.2 + 1 else t.counter : VarTable }) vt |>.map,
      (p ∈ vt.map ∨ p ∈ ord) ∧
      p.2 < (ord.foldl (fun t (x : String × Nat) =>
        { map := (x.1, x.2) :: t.map.filter (fun p => p.1 != x.1),
          counter := if x.2 ≥ t.counter then x.2 + 1 else t.counter : VarTable }) vt).counter) := by
  intro ord
  induction ord with
  | nil => intro vt hb p hp; exact ⟨Or.inl hp, hb p hp⟩
  | cons x xs ih =>
    intro vt hb p hp
    simp only [List.foldl_cons] at hp ⊢
    have hb' : ∀ p ∈ ((x.1, x.2) :: vt.map.filter (fun p => p.1 != x.1)),
        p.2 < (if x.2 ≥ vt.counter then x.2 + 1 else vt.counter) := by
      intro q hq
      simp at hq
      rcases hq with rfl | ⟨hq, _⟩
      · simp; split <;> omega
      · have := hb q hq; split <;> omega
    obtain ⟨h1, h2⟩ := ih _ hb' p hp
    refine ⟨?_, h2⟩
    rcases h1 with h1 | h1
    · simp at h1
      rcases h1 with rfl | ⟨h1, _⟩
      · right; simp
      · left; exact h1
    · right; simp [h1]

theorem preload_inv {ord : List (String × Nat)} (h : OrderingOk ord) : (VarTable.preload ord).Inv := by
  have key := preload_inv_aux ord {} (by intro p hp; simp at hp)
  constructor
  · intro p hp q hq
    have hp' := (key p hp).1
    have hq' := (key q hq).1
    simp at hp' hq'
    exact h p hp' q hq'
  · intro p hp; exact (key p hp).2

/-- within one text: equal names carry equal ids and different names different ids -/
theorem tokenize_ids_injective {cs : List Ch} {ord : List (String × Nat)} {ts : List Token}
    (hord : OrderingOk ord) (h : tokenize cs ord = some ts) :
    ∀ n₁ id₁ n₂ id₂, Token.var n₁ id₁ ∈ ts → Token.var n₂ id₂ ∈ ts → (n₁ = n₂ ↔ id₁ = id₂) := by
  simp only [tokenize, Option.map_eq_some_iff] at h
  obtain ⟨body, hb, rfl⟩ := h
  obtain ⟨M, _, hinj, _, hmem⟩ := toTokens_table _ _ _ (scan_symsOk _ _) (preload_inv hord) hb
  intro n₁ id₁ n₂ id₂ h1 h2
  have m1 := hmem n₁ id₁ (by simpa using h1)
  have m2 := hmem n₂ id₂ (by simpa using h2)
  exact hinj _ m1 _ m2

/-- a name that the ordering does not list is numbered above every listed id -/
theorem tokenize_unlisted_after {cs : List Ch} {ord : List (String × Nat)} {ts : List Token}
    (hord : OrderingOk ord) (h : tokenize cs ord = some ts) :
    ∀ n id, Token.var n id ∈ ts → (n, id) ∈ ord ∨ ∀ q ∈ ord, q.2 < id := by
  simp only [tokenize, Option.map_eq_some_iff] at h
  obtain ⟨body, hb, rfl⟩ := h
  obtain ⟨M, _, _, hfrom, hmem⟩ := toTokens_table _ _ _ (scan_symsOk _ _) (preload_inv hord) hb
  intro n id hv
  have m := hmem n id (by simpa using hv)
  have key := preload_inv_aux ord {} (by intro p hp; simp at hp)
  rcases hfrom _ m with hin | hge
  · left; have := (key _ hin).1; simpa using this
  · right
    intro q hq
    -- every listed id is below the counter after the pre-load
    have hcounter : q.2 < (VarTable.preload ord).counter := by
      have : ∀ (ord : List (String × Nat)) (vt : VarTable) (q : String × Nat), q ∈ ord →
          q.2 < (ord.foldl (fun t (x : String × Nat) =>
            { map := (x.1, x.2) :: t.map.filter (fun p => p.1 != x.1),
              counter := if x.2 ≥ t.counter then x.2 + 1 else t.counter : VarTable }) vt).counter := by
        intro ord
        induction ord with
        | nil => intro vt q hq; simp at hq
        | cons x xs ih =>
          intro vt q hq
          simp only [List.foldl_cons]
          simp at hq
          rcases hq with rfl | hq
          · -- the counter never decreases
            have mono : ∀ (xs : List (String × Nat)) (vt : VarTable),
                vt.counter ≤ (xs.foldl (fun t (x : String × Nat) =>
                  { map := (x.1, x.2) :: t.map.filter (fun p => p.1 != x.1),
                    counter := if x.2 ≥ t.counter then x.2 + 1 else t.counter : VarTable }) vt).counter := by
              intro xs
              induction xs with
              | nil => intro vt; exact Nat.le_refl _
              | cons y ys ihy =>
                intro vt
                simp only [List.foldl_cons]
                refine Nat.le_trans ?_ (ihy _)
                simp; split <;> omega
            refine Nat.lt_of_lt_of_le ?_ (mono xs _)
            simp; split <;> omega
          · exact ih _ q hq
      exact this ord {} q hq
    exact Nat.lt_of_lt_of_le hcounter hge

end Rsbdd
