/-
The variable table of `new_with_env`: `extract_vars` keeps every variable token once (by id),
the sort is a permutation ordered by id.
-/
import Rsbdd.Proofs.TableTotal
import Rsbdd.Proofs.VarIds
namespace Rsbdd
open Grammar Formula BDD Parser

/-! ### `extract_vars`: every variable token once, by id -/

theorem extractVars_foldl_spec : ∀ (ts : List Token) (acc : List (String × Nat)),
    (acc.map (·.2)).Nodup →
    let r := ts.foldl (fun acc t => match t with
      | .var n id => if acc.any (fun p => p.2 == id) then acc else acc ++ [(n, id)]
      | _ => acc) acc
    (r.map (·.2)).Nodup ∧ ∀ p ∈ r, p ∈ acc ∨ Token.var p.1 p.2 ∈ ts := by
  intro ts
  induction ts with
  | nil => intro acc h; exact ⟨h, fun p hp => Or.inl hp⟩
  | cons t ts ih =>
    intro acc h
    simp only [List.foldl_cons]
    have step : ∀ acc' : List (String × Nat), (acc'.map (·.2)).Nodup → (∀ p ∈ acc', p ∈ acc ∨ Token.var p.1 p.2 = t) →
        let r := ts.foldl (fun acc t => match t with
          | .var n id => if acc.any (fun p => p.2 == id) then acc else acc ++ [(n, id)]
          | _ => acc) acc'
        (r.map (·.2)).Nodup ∧ ∀ p ∈ r, p ∈ acc ∨ Token.var p.1 p.2 ∈ t :: ts := by
      intro acc' hn hsub
      obtain ⟨h1, h2⟩ := ih acc' hn
      refine ⟨h1, fun p hp => ?_⟩
      rcases h2 p hp with h' | h'
      · rcases hsub p h' with h'' | h''
        · exact Or.inl h''
        · exact Or.inr (by rw [h'']; simp)
      · exact Or.inr (by simp [h'])
    cases t with
    | var n id =>
      simp only
      split
      · exact step acc h (fun p hp => Or.inl hp)
      · rename_i hany
        apply step
        · rw [List.map_append, List.nodup_append]
          refine ⟨h, by simp, ?_⟩
          intro a ha b hb
          simp only [List.map_cons, List.map_nil, List.mem_cons, List.not_mem_nil, or_false] at hb
          subst hb
          intro e; subst e
          apply hany
          obtain ⟨p, hp, hpe⟩ := List.mem_map.mp ha
          simp only [List.any_eq_true, beq_iff_eq]
          exact ⟨p, hp, hpe⟩
        · intro p hp
          rcases List.mem_append.mp hp with h' | h'
          · exact Or.inl h'
          · simp at h'; subst h'; exact Or.inr rfl
    | _ => exact step acc h (fun p hp => Or.inl hp)

/-- the ids of the extracted variables are pairwise distinct, and each is a variable token of the text -/
theorem extractVars_spec (ts : List Token) :
    ((extractVars ts).map (·.2)).Nodup ∧ ∀ p ∈ extractVars ts, Token.var p.1 p.2 ∈ ts := by
  have := extractVars_foldl_spec ts [] (by simp)
  refine ⟨this.1, fun p hp => ?_⟩
  rcases this.2 p hp with h | h
  · cases h
  · exact h

/-- every variable token of the text is extracted (under its id) -/
theorem extractVars_complete (ts : List Token) (n : String) (id : Nat) (h : Token.var n id ∈ ts) :
    ∃ n', (n', id) ∈ extractVars ts := by
  obtain ⟨p, hp, hz⟩ := extractVars_foldl_mem id ts [] (Or.inr ⟨n, h⟩)
  exact ⟨p.1, by rw [← hz]; exact hp⟩

/-! ### the sort -/

theorem insertById_perm (x : String × Nat) : ∀ l : List (String × Nat), (insertById x l).Perm (x :: l)
  | [] => by simp [insertById]
  | y :: ys => by
    simp only [insertById]
    split
    · exact List.Perm.refl _
    · exact ((insertById_perm x ys).cons y).trans (List.Perm.swap x y ys)

theorem sortById_perm : ∀ l : List (String × Nat), (sortById l).Perm l
  | [] => by simp [sortById]
  | x :: xs => by
    simp only [sortById, List.foldr_cons]
    exact (insertById_perm x _).trans ((sortById_perm xs).cons x)

theorem insertById_sorted (x : String × Nat) : ∀ l : List (String × Nat),
    l.Pairwise (fun a b => a.2 ≤ b.2) → (insertById x l).Pairwise (fun a b => a.2 ≤ b.2)
  | [], _ => by simp [insertById]
  | y :: ys, h => by
    simp only [insertById]
    have hy := List.pairwise_cons.mp h
    split
    · rename_i hlt
      refine List.pairwise_cons.mpr ⟨?_, h⟩
      intro a ha
      rcases List.mem_cons.mp ha with rfl | ha'
      · omega
      · have := hy.1 a ha'; omega
    · rename_i hge
      refine List.pairwise_cons.mpr ⟨?_, insertById_sorted x ys hy.2⟩
      intro a ha
      rcases mem_insertById.mp ha with rfl | ha'
      · omega
      · exact hy.1 a ha'

theorem sortById_sorted : ∀ l : List (String × Nat), (sortById l).Pairwise (fun a b => a.2 ≤ b.2)
  | [] => by simp [sortById]
  | x :: xs => by
    simp only [sortById, List.foldr_cons]
    exact insertById_sorted x _ (sortById_sorted xs)

/-- with distinct ids the order is strict -/
theorem sortById_strict (l : List (String × Nat)) (h : (l.map (·.2)).Nodup) :
    (sortById l).Pairwise (fun a b => a.2 < b.2) := by
  have hs := sortById_sorted l
  have hn : ((sortById l).map (·.2)).Nodup := ((sortById_perm l).map _).nodup_iff.mpr h
  rw [List.nodup_iff_pairwise_ne, List.pairwise_map] at hn
  exact (hs.and hn).imp (fun ⟨h1, h2⟩ => by omega)

end Rsbdd

