/-
The substitution lemma: replacing the free occurrences of a fixed-point name by a diagram
leaf has the meaning of binding that name to the diagram's denotation — including the two
shadowing rules of `replace_var` (quantifier lists and inner fixed points on the same name).
-/
import Rsbdd.Proofs.Fix

namespace Rsbdd
open BDD Formula

theorem FEnv.set_set_same (ρ : FEnv) (x : Nat) (p q : Pred) : (ρ.set x p).set x q = ρ.set x q := by
  funext y; simp only [FEnv.set]; split <;> rfl

theorem FEnv.set_set_comm (ρ : FEnv) {x y : Nat} (h : x ≠ y) (p q : Pred) :
    (ρ.set x p).set y q = (ρ.set y q).set x p := by
  funext z; simp only [FEnv.set]
  by_cases h1 : z = y <;> by_cases h2 : z = x <;> simp [h1, h2]
  · subst h1; subst h2; exact absurd rfl h
  · intro e; exact absurd e.symm h
  · intro e; exact absurd e h

theorem FEnv.remove_set_of_mem (ρ : FEnv) {x : Nat} {vs : List Nat} (h : x ∈ vs) (p : Pred) :
    (ρ.set x p).remove vs = ρ.remove vs := by
  funext z; simp only [FEnv.remove, FEnv.set]
  by_cases h1 : z ∈ vs
  · simp [h1]
  · have : z ≠ x := fun e => h1 (e ▸ h)
    simp [h1, this]

theorem FEnv.remove_set_of_not_mem (ρ : FEnv) {x : Nat} {vs : List Nat} (h : x ∉ vs) (p : Pred) :
    (ρ.set x p).remove vs = (ρ.remove vs).set x p := by
  funext z; simp only [FEnv.remove, FEnv.set]
  by_cases h1 : z ∈ vs
  · have : z ≠ x := fun e => h (e ▸ h1)
    simp [h1, this]
  · simp [h1]

theorem FEnv.empty_remove (vs : List Nat) : FEnv.empty.remove vs = FEnv.empty := by
  funext z; simp [FEnv.remove, FEnv.empty]

mutual
theorem sem_replaceVar (x : Nat) (b : BDD) :
    ∀ (t : Formula) (ρ : FEnv), Sem (replaceVar x (.subtree b) t) ρ = Sem t (ρ.set x (den b))
  | .false_, ρ => by funext σ; simp [replaceVar, Sem]
  | .true_, ρ => by funext σ; simp [replaceVar, Sem]
  | .var v, ρ => by
    funext σ
    by_cases h : v = x
    · subst h; simp [replaceVar, Sem, FEnv.set, den]
    · simp [replaceVar, h, Sem, FEnv.set]
  | .not f, ρ => by
    funext σ; simp only [replaceVar, Sem, sem_replaceVar x b f ρ]
  | .quant q vs f, ρ => by
    funext σ
    by_cases h : vs.contains x = true
    · have hm : x ∈ vs := by simpa using h
      cases q <;> simp only [replaceVar, h, if_true, Sem, FEnv.remove_set_of_mem ρ hm]
    · have hm : x ∉ vs := by simpa using h
      have hf : vs.contains x = false := by simpa using h
      cases q <;>
        simp only [replaceVar, hf, Bool.false_eq_true, if_false, Sem,
          FEnv.remove_set_of_not_mem ρ hm, sem_replaceVar x b f (ρ.remove vs)]
  | .cntConst op fs n, ρ => by
    funext σ; simp only [replaceVar, Sem, semCount_replaceVarL x b fs ρ]
  | .cntVar op l r, ρ => by
    funext σ; simp only [replaceVar, Sem, semCount_replaceVarL x b l ρ, semCount_replaceVarL x b r ρ]
  | .fix v i f, ρ => by
    funext σ
    by_cases h : v = x
    · subst h
      cases i <;> simp only [replaceVar, if_true, Sem, FEnv.set_set_same]
    · have h' : x ≠ v := fun e => h e.symm
      cases i <;>
        simp only [replaceVar, h, if_false, Sem, sem_replaceVar x b f,
          FEnv.set_set_comm ρ h']
  | .ite c t e, ρ => by
    funext σ
    simp only [replaceVar, Sem, sem_replaceVar x b c ρ, sem_replaceVar x b t ρ, sem_replaceVar x b e ρ]
  | .bin op l r, ρ => by
    funext σ; simp only [replaceVar, Sem, sem_replaceVar x b l ρ, sem_replaceVar x b r ρ]
  | .subtree c, ρ => by funext σ; simp [replaceVar, Sem]
  | .ref n, ρ => by funext σ; simp [replaceVar, Sem]
theorem semCount_replaceVarL (x : Nat) (b : BDD) :
    ∀ (fs : List Formula) (ρ : FEnv),
      SemCount (replaceVarL x (.subtree b) fs) ρ = SemCount fs (ρ.set x (den b))
  | [], ρ => by funext σ k; simp [replaceVarL, SemCount]
  | f :: fs, ρ => by
    funext σ k
    simp only [replaceVarL, SemCount, sem_replaceVar x b f ρ, semCount_replaceVarL x b fs ρ]
end

end Rsbdd
