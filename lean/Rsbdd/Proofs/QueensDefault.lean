import Rsbdd.Thm.C15T
import Rsbdd.Proofs.PlainGood
namespace Rsbdd.C15
open Parser Gen.Queens C11 Grammar Formula BDD

/-- whether a lexeme list can be turned into tokens does not depend on the table -/
theorem toTokens_isSome_indep : ∀ (ls : List Lexeme) (vt1 vt2 : VarTable),
    (toTokens ls vt1).isSome = true → (toTokens ls vt2).isSome = true
  | [], _, _, _ => by simp [toTokens]
  | .sym t :: ls, vt1, vt2, h => by
    simp only [toTokens, Option.isSome_map] at h ⊢
    exact toTokens_isSome_indep ls vt1 vt2 h
  | .ref r :: ls, vt1, vt2, h => by
    simp only [toTokens, Option.isSome_map] at h ⊢
    exact toTokens_isSome_indep ls vt1 vt2 h
  | .num ds :: ls, vt1, vt2, h => by
    simp only [toTokens] at h ⊢
    split at h
    · simp at h
    · rename_i k hk
      simp only [Option.isSome_map] at h ⊢
      exact toTokens_isSome_indep ls vt1 vt2 h
  | .ident name :: ls, vt1, vt2, h => by
    simp only [toTokens] at h ⊢
    cases hk : (keywordTable.find? (fun p => p.1 == name)).map (·.2) with
    | some t =>
      simp only [hk, Option.isSome_map] at h ⊢
      exact toTokens_isSome_indep ls vt1 vt2 h
    | none =>
      simp only [hk] at h ⊢
      have key : ∀ (vt : VarTable), (match vt.lookup name with
          | some id => Option.map (fun x => Token.var name id :: x) (toTokens ls vt)
          | none => Option.map (fun x => Token.var name vt.counter :: x)
              (toTokens ls { map := (name, vt.counter) :: vt.map, counter := vt.counter + 1 })).isSome = true →
          ∃ vt', (toTokens ls vt').isSome = true := by
        intro vt hh
        cases hl : vt.lookup name with
        | some id => simp only [hl, Option.isSome_map] at hh; exact ⟨_, hh⟩
        | none => simp only [hl, Option.isSome_map] at hh; exact ⟨_, hh⟩
      obtain ⟨vt', hvt'⟩ := key vt1 h
      cases hl : vt2.lookup name with
      | some id => simp only [Option.isSome_map]; exact toTokens_isSome_indep ls vt' _ hvt'
      | none => simp only [Option.isSome_map]; exact toTokens_isSome_indep ls vt' _ hvt'


theorem trueCount_congr (l : List Nat) (σ σ' : Asg) (h : ∀ v ∈ l, σ v = σ' v) : trueCount l σ = trueCount l σ' := by
  unfold trueCount
  congr 1
  apply List.filter_congr
  intro v hv; rw [h v hv]

/-- the rules of the puzzle only look at the cells of the board -/
theorem nqueens_congr (n : Nat) (σ σ' : Asg) (h : ∀ r c, r < n → c < n → σ (r * n + c) = σ' (r * n + c)) :
    NQueens n σ ↔ NQueens n σ' := by
  have aux : ∀ τ τ' : Asg, (∀ r c, r < n → c < n → τ (r * n + c) = τ' (r * n + c)) → NQueens n τ → NQueens n τ' := by
    intro τ τ' hh hq
    obtain ⟨h1, h2, h3⟩ := hq
    refine ⟨?_, ?_, ?_⟩
    · intro r hr
      rw [← h1 r hr]
      apply trueCount_congr
      intro v hv
      obtain ⟨c, hc, rfl⟩ := List.mem_map.mp hv
      exact (hh r c hr (List.mem_range.mp hc)).symm
    · intro c hc
      rw [← h2 c hc]
      apply trueCount_congr
      intro v hv
      obtain ⟨r, hr, rfl⟩ := List.mem_map.mp hv
      exact (hh r c (List.mem_range.mp hr) hc).symm
    · intro r c r' c' hr hc hr' hc' hne q1 q2
      exact h3 r c r' c' hr hc hr' hc' hne (by rw [hh r c hr hc]; exact q1) (by rw [hh r' c' hr' hc']; exact q2)
  exact ⟨aux σ σ' h, aux σ' σ (fun r c hr hc => (h r c hr hc).symm)⟩

/-- every cell of the board is named in a row constraint -/
theorem cell_in_tokens (n r c : Nat) (hr : r < n) (hc : c < n) :
    Token.var (cellStr (r * n + c)) (r * n + c) ∈ (constraints n).flatMap lineToks := by
  rw [List.mem_flatMap]
  refine ⟨⟨(List.range n).map (fun j => j + r * n), .exactly, 1⟩, ?_, ?_⟩
  · simp only [constraints, rows, List.mem_append, List.mem_map, List.mem_range]
    left; right; exact ⟨r, hr, rfl⟩
  · unfold lineToks
    apply List.mem_cons_of_mem
    apply List.mem_append_left
    refine List.mem_flatMap.mpr ⟨r * n + c, ?_, by simp⟩
    exact List.mem_map.mpr ⟨c, List.mem_range.mpr hc, by omega⟩

end Rsbdd.C15
