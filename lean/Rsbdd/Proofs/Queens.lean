/-
The diagonal geometry of `n_queens_gen`: the four families of "at most one" lists are
exactly the diagonals and anti-diagonals of the board, each cell written `row * n + col`.
-/
import Rsbdd.Proofs.GenSem
import Rsbdd.Model.Gen.Queens
import Rsbdd.Spec.Puzzles

namespace Rsbdd.C15
open BDD Gen.Queens Puzzles

/-! ### the specification as a proposition -/

/-- `n` mutually non-attacking queens: one per row, one per column, no two on a common
(anti-)diagonal; cell `(r, c)` is variable `r * n + c` -/
def NQueens (n : Nat) (σ : Asg) : Prop :=
  (∀ r, r < n → trueCount ((List.range n).map (fun c => r * n + c)) σ = 1) ∧
  (∀ c, c < n → trueCount ((List.range n).map (fun r => r * n + c)) σ = 1) ∧
  (∀ r c r' c', r < n → c < n → r' < n → c' < n → ¬ (r = r' ∧ c = c') →
    σ (r * n + c) = true → σ (r' * n + c') = true → r + c' ≠ r' + c ∧ r + c ≠ r' + c')

/-- the executable oracle of the correspondence run is this specification -/
theorem isNQueens_iff (n : Nat) (σ : Asg) : isNQueens n σ = true ↔ NQueens n σ := by
  simp only [isNQueens, NQueens, Bool.and_eq_true, List.all_eq_true, List.mem_range, queensOfRow,
    queensOfCol, beq_iff_eq, trueCount_map_eq_filter, sameDiag, Bool.not_eq_true',
    Bool.and_eq_false_imp, Bool.and_eq_true, and_assoc]
  constructor
  · rintro ⟨h1, h2, h3⟩
    refine ⟨h1, h2, ?_⟩
    intro r c r' c' hr hc hr' hc' hne hq hq'
    have := h3 r hr c hc r' hr' c' hc'
    by_cases hd : r + c' = r' + c ∨ r + c = r' + c'
    · exfalso
      cases hb : σ (r * n + c) <;> cases hb' : σ (r' * n + c') <;> simp_all
    · omega
  · rintro ⟨h1, h2, h3⟩
    refine ⟨h1, h2, ?_⟩
    intro r hr c hc r' hr' c' hc'
    cases hb : σ (r * n + c) with
    | false => simp
    | true =>
      cases hb' : σ (r' * n + c') with
      | false => simp
      | true =>
        by_cases hne : r = r' ∧ c = c'
        · simp [hne.1, hne.2]
        · have := h3 r c r' c' hr hc hr' hc' hne hb hb'
          have e1 : (r + c' == r' + c) = false := by simpa using this.1
          have e2 : (r + c == r' + c') = false := by simpa using this.2
          simp [e1, e2]

/-! ### cell arithmetic -/

theorem d1a_cell (n i j : Nat) : i + j * (n + 1) = j * n + (i + j) := by
  rw [Nat.mul_succ]; omega

theorem d1b_cell (n i j : Nat) : i * n + j * (n + 1) = (i + j) * n + j := by
  rw [Nat.mul_succ, Nat.add_mul]; omega

theorem d2a_cell (n i j : Nat) (hj : j ≤ i) (hn : 1 ≤ n) : i + j * (n - 1) = j * n + (i - j) := by
  have h2 : j * (n - 1) + j = j * n := by
    rw [← Nat.mul_succ]; congr 1; omega
  omega

theorem d2b_cell (n i j : Nat) (hj : j < i) (hi : i < n) :
    n * (n - j) - (i - j) = (n - 1 - j) * n + (n - i + j) := by
  have e : n - j = (n - 1 - j) + 1 := by omega
  rw [e, Nat.mul_succ, Nat.mul_comm n (n - 1 - j)]
  omega

/-- a cell determines its row and column -/
theorem cell_inj {n r c r' c' : Nat} (hc : c < n) (hc' : c' < n) (h : r * n + c = r' * n + c') :
    r = r' ∧ c = c' := by
  have h1 : (r * n + c) / n = r := by
    rw [Nat.mul_comm, Nat.mul_add_div (by omega), Nat.div_eq_of_lt hc]; rfl
  have h2 : (r' * n + c') / n = r' := by
    rw [Nat.mul_comm, Nat.mul_add_div (by omega), Nat.div_eq_of_lt hc']; rfl
  have hr : r = r' := by rw [← h1, ← h2, h]
  subst hr
  exact ⟨rfl, by omega⟩

theorem mem_drop_range {n k i : Nat} : i ∈ (List.range n).drop k ↔ k ≤ i ∧ i < n := by
  rw [List.mem_iff_getElem]
  constructor
  · rintro ⟨j, hj, rfl⟩
    simp only [List.length_drop, List.length_range] at hj
    simp only [List.getElem_drop, List.getElem_range]
    omega
  · rintro ⟨h1, h2⟩
    refine ⟨i - k, by simp; omega, ?_⟩
    simp only [List.getElem_drop, List.getElem_range]
    omega

end Rsbdd.C15
