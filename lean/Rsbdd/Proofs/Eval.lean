import Rsbdd.Spec.Robdd

namespace Rsbdd
namespace BDD

@[simp] theorem eval_F (σ : Asg) : eval F σ = false := rfl
@[simp] theorem eval_T (σ : Asg) : eval T σ = true := rfl
@[simp] theorem eval_node (t f : BDD) (v : Nat) (σ : Asg) :
    eval (node t v f) σ = if σ v then eval t σ else eval f σ := rfl

@[simp] theorem eval_mk (t f : BDD) (v : Nat) (σ : Asg) :
    eval (mk t v f) σ = if σ v then eval t σ else eval f σ := by
  unfold mk; split
  · subst_vars; simp
  · rfl

@[simp] theorem mkConst_true : mkConst true = T := rfl
@[simp] theorem mkConst_false : mkConst false = F := rfl

@[simp] theorem eval_mkConst (b : Bool) (σ : Asg) : eval (mkConst b) σ = b := by
  cases b <;> rfl

@[simp] theorem eval_var (s : Nat) (σ : Asg) : eval (var s) σ = σ s := by
  simp [var]

theorem eval_and (a b : BDD) (σ : Asg) : eval (and a b) σ = (eval a σ && eval b σ) := by
  fun_induction and a b <;> grind [eval, eval_mk, eval_mkConst]

theorem eval_or (a b : BDD) (σ : Asg) : eval (or a b) σ = (eval a σ || eval b σ) := by
  fun_induction or a b <;> grind [eval, eval_mk, eval_mkConst]

theorem eval_not (a : BDD) (σ : Asg) : eval (not a) σ = !(eval a σ) := by
  fun_induction not a <;> grind [eval, eval_mk, eval_mkConst]


/-! ### leaf cases of `and` / `or` -/

@[simp] theorem and_F_left (b : BDD) : BDD.and .F b = .F := by cases b <;> simp [BDD.and]
@[simp] theorem and_F_right (a : BDD) : BDD.and a .F = .F := by cases a <;> simp [BDD.and]
@[simp] theorem and_T_left (b : BDD) : BDD.and .T b = b := by cases b <;> simp [BDD.and]
@[simp] theorem and_T_right (a : BDD) : BDD.and a .T = a := by cases a <;> simp [BDD.and]
@[simp] theorem or_T_left (b : BDD) : BDD.or .T b = .T := by cases b <;> simp [BDD.or]
@[simp] theorem or_T_right (a : BDD) : BDD.or a .T = .T := by cases a <;> simp [BDD.or]
@[simp] theorem or_F_left (b : BDD) : BDD.or .F b = b := by cases b <;> simp [BDD.or]
@[simp] theorem or_F_right (a : BDD) : BDD.or a .F = a := by cases a <;> simp [BDD.or]

end BDD
end Rsbdd
