import Rsbdd.Proofs.Eval

namespace Rsbdd
namespace BDD

/-! ### Ordered / reduced: basic facts -/

@[simp] theorem ordFrom_F (lo : Nat) : OrdFrom lo F := trivial
@[simp] theorem ordFrom_T (lo : Nat) : OrdFrom lo T := trivial
@[simp] theorem reduced_F : Reduced F := trivial
@[simp] theorem reduced_T : Reduced T := trivial
@[simp] theorem ordFrom_node (lo v : Nat) (t f : BDD) :
    OrdFrom lo (node t v f) ↔ lo ≤ v ∧ OrdFrom (v + 1) t ∧ OrdFrom (v + 1) f := Iff.rfl
@[simp] theorem reduced_node (v : Nat) (t f : BDD) :
    Reduced (node t v f) ↔ t ≠ f ∧ Reduced t ∧ Reduced f := Iff.rfl
@[simp] theorem ordFrom_mkConst (lo : Nat) (b : Bool) : OrdFrom lo (mkConst b) := by
  cases b <;> trivial
@[simp] theorem reduced_mkConst (b : Bool) : Reduced (mkConst b) := by
  cases b <;> trivial

theorem ordFrom_mono {lo lo' : Nat} {b : BDD} (h : lo' ≤ lo) (hb : OrdFrom lo b) :
    OrdFrom lo' b := by
  cases b with
  | F => trivial
  | T => trivial
  | node t v f => exact ⟨Nat.le_trans h hb.1, hb.2.1, hb.2.2⟩

theorem ordFrom_mk {lo v : Nat} {t f : BDD} (hv : lo ≤ v) (ht : OrdFrom (v + 1) t)
    (hf : OrdFrom (v + 1) f) : OrdFrom lo (mk t v f) := by
  unfold mk; split
  · exact ordFrom_mono (by omega) ht
  · exact ⟨hv, ht, hf⟩

theorem reduced_mk {v : Nat} {t f : BDD} (ht : Reduced t) (hf : Reduced f) :
    Reduced (mk t v f) := by
  unfold mk; split
  · exact ht
  · exact ⟨by assumption, ht, hf⟩

/-! ### Preservation by the primitive operations -/
theorem ordFrom_and {lo : Nat} {a b : BDD} (ha : OrdFrom lo a) (hb : OrdFrom lo b) :
    OrdFrom lo (and a b) := by
  fun_induction and a b generalizing lo <;> grind [ordFrom_mk, OrdFrom, ordFrom_mkConst]
theorem reduced_and {a b : BDD} (ha : Reduced a) (hb : Reduced b) : Reduced (and a b) := by
  fun_induction and a b <;> grind [reduced_mk, Reduced, reduced_mkConst]
theorem ordFrom_or {lo : Nat} {a b : BDD} (ha : OrdFrom lo a) (hb : OrdFrom lo b) :
    OrdFrom lo (or a b) := by
  fun_induction or a b generalizing lo <;> grind [ordFrom_mk, OrdFrom, ordFrom_mkConst]
theorem reduced_or {a b : BDD} (ha : Reduced a) (hb : Reduced b) : Reduced (or a b) := by
  fun_induction or a b <;> grind [reduced_mk, Reduced, reduced_mkConst]
theorem ordFrom_not {lo : Nat} {a : BDD} (ha : OrdFrom lo a) : OrdFrom lo (not a) := by
  fun_induction not a generalizing lo <;> grind [ordFrom_mk, OrdFrom, ordFrom_mkConst]
theorem reduced_not {a : BDD} (ha : Reduced a) : Reduced (not a) := by
  fun_induction not a <;> grind [reduced_mk, Reduced, reduced_mkConst]
theorem reduced_existsImpl {s : Nat} {a : BDD} (ha : Reduced a) : Reduced (existsImpl s a) := by
  fun_induction existsImpl s a <;> grind [reduced_mk, Reduced, reduced_or]
theorem ordFrom_existsImpl {lo s : Nat} {a : BDD} (ha : OrdFrom lo a) : OrdFrom lo (existsImpl s a) := by
  fun_induction existsImpl s a generalizing lo with
  | case1 => trivial
  | case2 => trivial
  | case3 t f =>
    exact ordFrom_mono (Nat.le_succ_of_le ha.1) (ordFrom_or ha.2.1 ha.2.2)
  | case4 t v f hne ih1 ih2 =>
    exact ordFrom_mk ha.1 (ih1 ha.2.1) (ih2 ha.2.2)

/-! ### Canonicity -/

def upd (σ : Asg) (v : Nat) (x : Bool) : Asg := fun w => if w = v then x else σ w

@[simp] theorem upd_same (σ : Asg) (v : Nat) (x : Bool) : upd σ v x v = x := by simp [upd]
@[simp] theorem upd_other (σ : Asg) {v w : Nat} (x : Bool) (h : w ≠ v) : upd σ v x w = σ w := by
  simp [upd, h]

theorem eval_indep {lo : Nat} {b : BDD} (hb : OrdFrom lo b) {σ σ' : Asg}
    (h : ∀ w, lo ≤ w → σ w = σ' w) : eval b σ = eval b σ' := by
  induction b generalizing lo with
  | F => rfl
  | T => rfl
  | node t v f iht ihf =>
    obtain ⟨h1, h2, h3⟩ := hb
    simp only [eval_node, h v h1]
    rw [iht h2 (fun w hw => h w (by omega)), ihf h3 (fun w hw => h w (by omega))]

theorem eval_upd_of_ord {v : Nat} {b : BDD} (hb : OrdFrom (v + 1) b) (σ : Asg) (x : Bool) :
    eval b (upd σ v x) = eval b σ :=
  eval_indep hb (fun w hw => upd_other σ x (by omega))

theorem const_true_of_robdd {lo : Nat} {b : BDD} (ho : OrdFrom lo b) (hr : Reduced b)
    (h : ∀ σ, eval b σ = true) : b = T := by
  induction b generalizing lo with
  | F => simpa using h (fun _ => false)
  | T => rfl
  | node t v f iht ihf =>
    exfalso
    obtain ⟨_, ot, of_⟩ := ho
    obtain ⟨hne, rt, rf⟩ := hr
    have ht : t = T := iht ot rt (fun σ => by
      have := h (upd σ v true); simp at this; rwa [eval_upd_of_ord ot] at this)
    have hf : f = T := ihf of_ rf (fun σ => by
      have := h (upd σ v false); simp at this; rwa [eval_upd_of_ord of_] at this)
    exact hne (ht.trans hf.symm)

theorem const_false_of_robdd {lo : Nat} {b : BDD} (ho : OrdFrom lo b) (hr : Reduced b)
    (h : ∀ σ, eval b σ = false) : b = F := by
  induction b generalizing lo with
  | F => rfl
  | T => simpa using h (fun _ => false)
  | node t v f iht ihf =>
    exfalso
    obtain ⟨_, ot, of_⟩ := ho
    obtain ⟨hne, rt, rf⟩ := hr
    have ht : t = F := iht ot rt (fun σ => by
      have := h (upd σ v true); simp at this; rwa [eval_upd_of_ord ot] at this)
    have hf : f = F := ihf of_ rf (fun σ => by
      have := h (upd σ v false); simp at this; rwa [eval_upd_of_ord of_] at this)
    exact hne (ht.trans hf.symm)

/-- A reduced ordered node whose variable is below everything in `b` cannot denote the
same function as `b`, provided canonicity is known for its two children. -/
theorem node_ne_of_lt {t f b : BDD} {v : Nat} (ot : OrdFrom (v + 1) t) (of_ : OrdFrom (v + 1) f)
    (hne : t ≠ f) (ob : OrdFrom (v + 1) b)
    (canon : (∀ σ, eval t σ = eval f σ) → t = f)
    (h : ∀ σ, eval (node t v f) σ = eval b σ) : False := by
  apply hne; apply canon; intro σ
  have h1 := h (upd σ v true); have h2 := h (upd σ v false)
  simp at h1 h2
  rw [eval_upd_of_ord ot, eval_upd_of_ord ob] at h1
  rw [eval_upd_of_ord of_, eval_upd_of_ord ob] at h2
  rw [h1, h2]

theorem canonical_aux (n : Nat) : ∀ (lo : Nat) (a b : BDD), a.size + b.size ≤ n →
    OrdFrom lo a → Reduced a → OrdFrom lo b → Reduced b →
    (∀ σ, eval a σ = eval b σ) → a = b := by
  induction n with
  | zero => intro lo a b hs; cases a <;> simp [size] at hs
  | succ n ih =>
    intro lo a b hs oa ra ob rb h
    cases a with
    | F => exact (const_false_of_robdd ob rb (fun σ => (h σ).symm)).symm
    | T => exact (const_true_of_robdd ob rb (fun σ => (h σ).symm)).symm
    | node at_ va af =>
      cases b with
      | F => exact const_false_of_robdd oa ra h
      | T => exact const_true_of_robdd oa ra h
      | node bt vb bf =>
        obtain ⟨_, oat, oaf⟩ := oa
        obtain ⟨nea, rat, raf⟩ := ra
        obtain ⟨_, obt, obf⟩ := ob
        obtain ⟨neb, rbt, rbf⟩ := rb
        simp [size] at hs
        rcases Nat.lt_trichotomy va vb with hlt | heq | hgt
        · exfalso
          exact node_ne_of_lt oat oaf nea (b := node bt vb bf) ⟨by omega, obt, obf⟩
            (ih (va + 1) at_ af (by omega) oat rat oaf raf) h
        · subst heq
          have e1 : at_ = bt := ih (va + 1) at_ bt (by omega) oat rat obt rbt (fun σ => by
            have := h (upd σ va true); simp at this
            rwa [eval_upd_of_ord oat, eval_upd_of_ord obt] at this)
          have e2 : af = bf := ih (va + 1) af bf (by omega) oaf raf obf rbf (fun σ => by
            have := h (upd σ va false); simp at this
            rwa [eval_upd_of_ord oaf, eval_upd_of_ord obf] at this)
          rw [e1, e2]
        · exfalso
          exact node_ne_of_lt obt obf neb (b := node at_ va af) ⟨by omega, oat, oaf⟩
            (ih (vb + 1) bt bf (by omega) obt rbt obf rbf) (fun σ => (h σ).symm)

theorem canonical_from {lo : Nat} {a b : BDD} (oa : OrdFrom lo a) (ra : Reduced a)
    (ob : OrdFrom lo b) (rb : Reduced b) (h : ∀ σ, eval a σ = eval b σ) : a = b :=
  canonical_aux _ lo a b (Nat.le_refl _) oa ra ob rb h

end BDD
end Rsbdd
