/-
Knaster–Tarski facts for the `lfp`/`gfp` clauses of `Spec/Sem`, and the analysis of the
iteration loop.  Core Lean only.
-/
import Rsbdd.Spec.Sem

namespace Rsbdd
open BDD

/-- the denotation of a diagram as a predicate -/
def den (b : BDD) : Pred := fun σ => eval b σ = true

/-- intersection of all pre-fixed points -/
def lfpP (Φ : Pred → Pred) : Pred := fun σ => ∀ r : Pred, Pred.le (Φ r) r → r σ
/-- union of all post-fixed points -/
def gfpP (Φ : Pred → Pred) : Pred := fun σ => ∃ r : Pred, Pred.le r (Φ r) ∧ r σ

theorem Pred.le_refl (p : Pred) : Pred.le p p := fun _ h => h
theorem Pred.le_trans {p q r : Pred} (h1 : Pred.le p q) (h2 : Pred.le q r) : Pred.le p r :=
  fun σ h => h2 σ (h1 σ h)
theorem Pred.le_antisymm {p q : Pred} (h1 : Pred.le p q) (h2 : Pred.le q p) : p = q :=
  funext (fun σ => propext ⟨h1 σ, h2 σ⟩)

theorem lfpP_least {Φ : Pred → Pred} {r : Pred} (h : Pred.le (Φ r) r) : Pred.le (lfpP Φ) r :=
  fun _ hσ => hσ r h

theorem lfpP_prefixed {Φ : Pred → Pred} (hm : MonoFn Φ) : Pred.le (Φ (lfpP Φ)) (lfpP Φ) := by
  intro σ h r hr
  exact hr σ (hm _ _ (lfpP_least hr) σ h)

theorem lfpP_fixed {Φ : Pred → Pred} (hm : MonoFn Φ) : Φ (lfpP Φ) = lfpP Φ :=
  Pred.le_antisymm (lfpP_prefixed hm) (lfpP_least (hm _ _ (lfpP_prefixed hm)))

theorem gfpP_greatest {Φ : Pred → Pred} {r : Pred} (h : Pred.le r (Φ r)) : Pred.le r (gfpP Φ) :=
  fun _ hσ => ⟨r, h, hσ⟩

theorem gfpP_postfixed {Φ : Pred → Pred} (hm : MonoFn Φ) : Pred.le (gfpP Φ) (Φ (gfpP Φ)) := by
  intro σ ⟨r, hr, hσ⟩
  exact hm _ _ (gfpP_greatest hr) σ (hr σ hσ)

theorem gfpP_fixed {Φ : Pred → Pred} (hm : MonoFn Φ) : Φ (gfpP Φ) = gfpP Φ :=
  Pred.le_antisymm (gfpP_greatest (hm _ _ (gfpP_postfixed hm))) (gfpP_postfixed hm)

/-- a fixed point that is below every pre-fixed point is the least fixed point -/
theorem eq_lfpP_of {Φ : Pred → Pred} {p : Pred} (hfix : Φ p = p) (hle : Pred.le p (lfpP Φ)) :
    p = lfpP Φ :=
  Pred.le_antisymm hle (lfpP_least (by rw [hfix]; exact Pred.le_refl p))

theorem eq_gfpP_of {Φ : Pred → Pred} {p : Pred} (hfix : Φ p = p) (hge : Pred.le (gfpP Φ) p) :
    p = gfpP Φ :=
  Pred.le_antisymm (gfpP_greatest (by rw [hfix]; exact Pred.le_refl p)) hge

/-- the loop returns a state satisfying every invariant of the transformer, and the
transformer maps that state to itself -/
theorem fpLoop_inv {t : BDD → Option BDD} {P : BDD → Prop}
    (hP : ∀ x y, P x → t x = some y → P y) :
    ∀ (k : Nat) (a s : BDD), P a → Formula.fpLoop t k a = some s → P s ∧ t s = some s := by
  intro k
  induction k with
  | zero => intro a s _ h; simp [Formula.fpLoop] at h
  | succ k ih =>
    intro a s ha h
    simp only [Formula.fpLoop] at h
    split at h
    · simp at h
    · rename_i snew hs
      split at h
      · rename_i heq
        cases h
        exact ⟨ha, by rw [hs, heq]⟩
      · exact ih snew s (hP a snew ha hs) h

end Rsbdd
