/-
Lemmas for Thm/C16I: `records` on a text made of lines with terminators.
-/
import Rsbdd.Model.Gen.CsvInput
import Rsbdd.Proofs.CliRead2

namespace Rsbdd.Gen.CsvInput
open Rsbdd.Cli.Text

/-- characters that are not terminators accumulate -/
theorem records_run : ∀ (s rest acc : List Char), (∀ c ∈ s, isTerm c = false) →
    records (s ++ rest) acc = records rest (s.reverse ++ acc)
  | [], rest, acc, _ => by simp
  | c :: s, rest, acc, h => by
    have hc : isTerm c = false := h c (by simp)
    have ih := records_run s rest (c :: acc) (fun d hd => h d (by simp [hd]))
    simp only [List.cons_append, records, hc, Bool.false_eq_true, if_false]
    rw [ih]; simp

/-- a run of terminators after an empty accumulator is skipped -/
theorem records_terms_empty : ∀ (t rest : List Char), (∀ c ∈ t, isTerm c = true) →
    records (t ++ rest) [] = records rest []
  | [], rest, _ => by simp
  | c :: t, rest, h => by
    have hc : isTerm c = true := h c (by simp)
    simp only [List.cons_append, records, hc, if_true, List.isEmpty_nil]
    exact records_terms_empty t rest (fun d hd => h d (by simp [hd]))

/-- a non-empty record followed by a non-empty run of terminators -/
theorem records_line (s t rest : List Char) (hs : ∀ c ∈ s, isTerm c = false) (hne : s ≠ [])
    (ht : ∀ c ∈ t, isTerm c = true) (htne : t ≠ []) :
    records (s ++ t ++ rest) [] = s :: records rest [] := by
  rw [List.append_assoc, records_run s (t ++ rest) [] hs]
  cases t with
  | nil => exact absurd rfl htne
  | cons c t =>
    have hc : isTerm c = true := ht c (by simp)
    have hemp : (s.reverse ++ []).isEmpty = false := by
      cases s with
      | nil => exact absurd rfl hne
      | cons a s => simp
    simp only [List.cons_append, records, hc, if_true, hemp, Bool.false_eq_true, if_false]
    rw [records_terms_empty t rest (fun d hd => ht d (by simp [hd]))]
    simp

/-- the last record may lack its terminator -/
theorem records_last (s : List Char) (hs : ∀ c ∈ s, isTerm c = false) (hne : s ≠ []) :
    records s [] = [s] := by
  have := records_run s [] [] hs
  simp only [List.append_nil] at this
  rw [this]
  cases s with
  | nil => exact absurd rfl hne
  | cons a s => simp [records]

theorem edgeOfRecord_line (a b : List Char) (ha : ',' ∉ a) (hb : ',' ∉ b) :
    edgeOfRecord (a ++ [','] ++ b) = some (a, b) := by
  unfold edgeOfRecord
  have h := splitAcc_opened ',' [b] a [] ha (by intro t ht; simp at ht; subst ht; exact hb)
  simp only [List.flatMap_cons, List.flatMap_nil, List.append_nil, List.reverse_nil, List.nil_append] at h
  have e : a ++ [','] ++ b = a ++ ',' :: b := by simp
  rw [e, h]

end Rsbdd.Gen.CsvInput
