import Rsbdd.Proofs.LexChunks
import Rsbdd.Model.Gen.SudokuText
namespace Rsbdd
open Parser C11 Gen.Sudoku
open Gen.Queens (natStr comment)

/-- the name `_c_is_d` as a string -/
def varStr (c d : Nat) : String := String.ofList (varName c d)

theorem ascii_word_i : (mkCh 'i').wordLike = true := by simp [mkCh, Ch.wordLike, asciiCls]
theorem ascii_word_s : (mkCh 's').wordLike = true := by simp [mkCh, Ch.wordLike, asciiCls]
theorem ascii_word_us : (mkCh '_').wordLike = true := by simp [mkCh, Ch.wordLike, asciiCls]

theorem varName_eq (c d : Nat) : varName c d = '_' :: (natStr c ++ ('_' :: 'i' :: 's' :: '_' :: natStr d)) := by
  show ('_' :: natStr c ++ ['_', 'i', 's', '_']) ++ natStr d = _
  simp

theorem varName_identW (c d : Nat) : IdentW (chs (varName c d)) := by
  rw [varName_eq]
  refine ⟨by simp, ?_, ?_⟩
  · intro x hx
    simp only [chs_cons, chs_append, List.mem_cons, List.mem_append] at hx
    rcases hx with rfl | hx | rfl | rfl | rfl | rfl | hx
    · exact ascii_word_us
    · exact natStr_wordLike c x hx
    · exact ascii_word_us
    · exact ascii_word_i
    · exact ascii_word_s
    · exact ascii_word_us
    · exact natStr_wordLike d x hx
  · intro x hx
    simp only [chs_cons, List.head?_cons, Option.some.injEq] at hx
    subst hx
    exact ⟨by simp [mkCh, asciiCls], by decide⟩

theorem chars_chs (w : List Char) : chars (chs w) = String.ofList w := by
  unfold chars chs
  rw [List.map_map]
  have : ((fun x : Ch => x.c) ∘ mkCh) = id := by funext c; rfl
  rw [this, List.map_id]

/-- a name followed by a character outside `[\w']` -/
theorem lex_name (c d : Nat) (delim : Char) (hd : (mkCh delim).wordLike = false) (rest : List Char) :
    lexAll (chs (varName c d ++ delim :: rest)) = Lexeme.ident (varStr c d) :: lexAll (chs (delim :: rest)) := by
  have hI := varName_identW c d
  have e : chs (varName c d ++ delim :: rest) =
      mkCh '_' :: chs (natStr c ++ ('_' :: 'i' :: 's' :: '_' :: natStr d)) ++ mkCh delim :: chs rest := by
    rw [varName_eq]; simp
  have e2 : chs (varName c d) = mkCh '_' :: chs (natStr c ++ ('_' :: 'i' :: 's' :: '_' :: natStr d)) := by
    rw [varName_eq]; simp
  rw [e2] at hI
  rw [e, lexAll_word (mkCh '_') _ hI (by simp [mkCh]) (mkCh delim) hd (chs rest)]
  rw [← e2, chars_chs]
  rfl

theorem step_closeB (rest : List Ch) : scanStep (mkCh ']') rest = (some (.sym .closeSquare), rest) := step_close rest

/-- the lexemes of a comma-separated list of names -/
def itemsLex : List (Nat × Nat) → List Lexeme
  | [] => []
  | [p] => [Lexeme.ident (varStr p.1 p.2)]
  | p :: q :: r => Lexeme.ident (varStr p.1 p.2) :: Lexeme.sym .comma :: itemsLex (q :: r)

theorem lex_items : ∀ (cells : List (Nat × Nat)) (tail : List Char),
    lexAll (chs (joinComma (cells.map (fun p => varName p.1 p.2)) ++ ']' :: tail)) =
      itemsLex cells ++ lexAll (chs (']' :: tail))
  | [], tail => by simp [joinComma, itemsLex]
  | [p], tail => by
    simp only [List.map_cons, List.map_nil, joinComma, itemsLex, List.singleton_append]
    exact lex_name p.1 p.2 ']' (by simp [mkCh, Ch.wordLike, asciiCls]) tail
  | p :: q :: r, tail => by
    have ih := lex_items (q :: r) tail
    simp only [List.map_cons, joinComma, itemsLex, List.append_assoc, List.cons_append] at ih ⊢
    rw [lex_name p.1 p.2 ',' (by simp [mkCh, Ch.wordLike, asciiCls])]
    rw [chs_cons, lexAll_cons, step_comma]
    simp only [Option.toList_some, List.cons_append, List.nil_append]
    rw [chs_cons, lexAll_cons, step_space]
    simp only [Option.toList_none, List.nil_append]
    rw [ih]

end Rsbdd
