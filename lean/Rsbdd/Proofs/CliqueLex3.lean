import Rsbdd.Proofs.CliqueLex2
namespace Rsbdd
open Parser C11 Gen.Clique
open Gen.Sudoku (joinComma)
open Gen.Queens (comment)

/-- the lexemes of a comma-separated list of names -/
def namesLex : List (List Char) → List Lexeme
  | [] => []
  | [w] => [Lexeme.ident (String.ofList w)]
  | w :: x :: r => Lexeme.ident (String.ofList w) :: Lexeme.sym .comma :: namesLex (x :: r)

/-- `w₁, w₂, …, wₖ` followed by a character `d` that is no name character (and, for the empty list, anything) -/
theorem lex_names (d : Char) (hd : (mkCh d).wordLike = false) : ∀ (ws : List (List Char)) (tail : List Char),
    (∀ w ∈ ws, WordOk w) →
    lexAll (chs (joinComma ws ++ d :: tail)) = namesLex ws ++ lexAll (chs (d :: tail))
  | [], tail, _ => by simp [joinComma, namesLex]
  | [w], tail, h => by
    simp only [joinComma, namesLex, List.singleton_append]
    exact lex_word w (h w (by simp)) d hd tail
  | w :: x :: r, tail, h => by
    have ih := lex_names d hd (x :: r) tail (fun y hy => h y (by simp [hy]))
    simp only [joinComma, namesLex, List.append_assoc, List.cons_append] at ih ⊢
    rw [lex_word w (h w (by simp)) ',' notWord_comma]
    simp only [chs_cons]
    rw [lexAll_cons, step_comma]; simp only [Option.toList_some, List.cons_append, List.nil_append]
    rw [lexAll_cons, step_space]; simp only [Option.toList_none, List.nil_append]
    rw [ih]
    simp

theorem forall_wordOk : WordOk "forall".toList := by
  refine ⟨⟨by decide, ?_, ?_⟩, ?_⟩
  · intro x hx
    have : "forall".toList = ['f', 'o', 'r', 'a', 'l', 'l'] := rfl
    rw [this] at hx
    simp only [chs_cons, chs_nil, List.mem_cons, List.not_mem_nil, or_false] at hx
    rcases hx with rfl | rfl | rfl | rfl | rfl | rfl <;> simp [mkCh, Ch.wordLike, asciiCls]
  · intro x hx
    have : "forall".toList = ['f', 'o', 'r', 'a', 'l', 'l'] := rfl
    rw [this] at hx
    simp only [chs_cons, List.head?_cons, Option.some.injEq] at hx
    subst hx
    exact ⟨by simp [mkCh, asciiCls], by decide⟩
  · intro x hx
    have : "forall".toList = ['f', 'o', 'r', 'a', 'l', 'l'] := rfl
    rw [this] at hx
    simp only [chs_cons, List.head?_cons, Option.some.injEq] at hx
    subst hx
    simp [mkCh]

theorem true_wordOk : WordOk "true".toList := by
  refine ⟨⟨by decide, ?_, ?_⟩, ?_⟩
  · intro x hx
    have : "true".toList = ['t', 'r', 'u', 'e'] := rfl
    rw [this] at hx
    simp only [chs_cons, chs_nil, List.mem_cons, List.not_mem_nil, or_false] at hx
    rcases hx with rfl | rfl | rfl | rfl <;> simp [mkCh, Ch.wordLike, asciiCls]
  · intro x hx
    have : "true".toList = ['t', 'r', 'u', 'e'] := rfl
    rw [this] at hx
    simp only [chs_cons, List.head?_cons, Option.some.injEq] at hx
    subst hx
    exact ⟨by simp [mkCh, asciiCls], by decide⟩
  · intro x hx
    have : "true".toList = ['t', 'r', 'u', 'e'] := rfl
    rw [this] at hx
    simp only [chs_cons, List.head?_cons, Option.some.injEq] at hx
    subst hx
    simp [mkCh]

end Rsbdd
