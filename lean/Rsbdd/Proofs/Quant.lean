import Rsbdd.Proofs.Derived

namespace Rsbdd
namespace BDD

/-! ### Support -/

theorem mem_support_mk {x v : Nat} {t f : BDD} (h : x ∈ support (mk t v f)) :
    x = v ∨ x ∈ support t ∨ x ∈ support f := by
  unfold mk at h; split at h
  · exact Or.inr (Or.inl h)
  · simpa [support] using h

theorem support_mkConst (b : Bool) : support (mkConst b) = [] := by cases b <;> rfl

theorem mem_support_and {x : Nat} {a b : BDD} (h : x ∈ support (and a b)) :
    x ∈ support a ∨ x ∈ support b := by
  fun_induction and a b <;> grind [mem_support_mk, support, support_mkConst]

theorem mem_support_or {x : Nat} {a b : BDD} (h : x ∈ support (or a b)) :
    x ∈ support a ∨ x ∈ support b := by
  fun_induction or a b <;> grind [mem_support_mk, support, support_mkConst]

theorem mem_support_not {x : Nat} {a : BDD} (h : x ∈ support (not a)) : x ∈ support a := by
  fun_induction not a <;> grind [mem_support_mk, support, support_mkConst]

theorem le_of_mem_support {lo x : Nat} {b : BDD} (hb : OrdFrom lo b) (h : x ∈ support b) :
    lo ≤ x := by
  induction b generalizing lo with
  | F => simp [support] at h
  | T => simp [support] at h
  | node t v f iht ihf =>
    obtain ⟨h1, h2, h3⟩ := hb
    simp [support] at h
    rcases h with h | h | h
    · omega
    · have := iht h2 h; omega
    · have := ihf h3 h; omega

theorem mem_support_existsImpl {x s : Nat} {b : BDD} (h : x ∈ support (existsImpl s b)) :
    x ∈ support b := by
  induction b with
  | F => exact h
  | T => exact h
  | node t v f iht ihf =>
    unfold existsImpl at h; split at h
    · rcases mem_support_or h with h | h <;> simp [support, h]
    · rcases mem_support_mk h with h | h | h
      · simp [support, h]
      · simp [support, iht h]
      · simp [support, ihf h]

theorem not_mem_support_existsImpl {lo s : Nat} {b : BDD} (hb : OrdFrom lo b) :
    s ∉ support (existsImpl s b) := by
  induction b generalizing lo with
  | F => simp [existsImpl, support]
  | T => simp [existsImpl, support]
  | node t v f iht ihf =>
    obtain ⟨h1, h2, h3⟩ := hb
    unfold existsImpl; split
    · subst_vars; intro h
      rcases mem_support_or h with h | h
      · have := le_of_mem_support h2 h; omega
      · have := le_of_mem_support h3 h; omega
    · intro h
      rcases mem_support_mk h with h | h | h
      · omega
      · exact iht h2 h
      · exact ihf h3 h

theorem mem_support_exists {x : Nat} {V : List Nat} {b : BDD} (h : x ∈ support (exists_ V b)) :
    x ∈ support b := by
  induction V with
  | nil => exact h
  | cons s ss ih => exact ih (mem_support_existsImpl h)

/-! ### Quantifiers: ordered / reduced -/

theorem ordFrom_exists {lo : Nat} (V : List Nat) {b : BDD} (hb : OrdFrom lo b) :
    OrdFrom lo (exists_ V b) := by
  induction V with
  | nil => exact hb
  | cons s ss ih => exact ordFrom_existsImpl ih

theorem reduced_exists (V : List Nat) {b : BDD} (hb : Reduced b) : Reduced (exists_ V b) := by
  induction V with
  | nil => exact hb
  | cons s ss ih => exact reduced_existsImpl ih

theorem ordFrom_all {lo : Nat} (V : List Nat) {b : BDD} (hb : OrdFrom lo b) :
    OrdFrom lo (all V b) := ordFrom_not (ordFrom_exists V (ordFrom_not hb))

theorem reduced_all (V : List Nat) {b : BDD} (hb : Reduced b) : Reduced (all V b) :=
  reduced_not (reduced_exists V (reduced_not hb))

/-! ### Quantifiers: denotation -/

theorem eval_existsImpl {lo : Nat} (s : Nat) {b : BDD} (hb : OrdFrom lo b) (σ : Asg) :
    eval (existsImpl s b) σ = (eval b (upd σ s true) || eval b (upd σ s false)) := by
  induction b generalizing lo with
  | F => rfl
  | T => rfl
  | node t v f iht ihf =>
    obtain ⟨h1, h2, h3⟩ := hb
    unfold existsImpl; split
    · subst_vars
      simp [eval_or, eval_upd_of_ord h2, eval_upd_of_ord h3]
    · rename_i hne
      simp only [eval_mk, eval_node, iht h2, ihf h3, upd_other σ _ hne]
      cases σ v <;> simp

theorem agreeOff_cons_iff {s : Nat} {ss : List Nat} {σ σ' : Asg} :
    AgreeOff (s :: ss) σ σ' ↔ AgreeOff ss (upd σ s (σ' s)) σ' := by
  constructor
  · intro h w hw
    by_cases hws : w = s
    · subst hws; simp
    · rw [upd_other σ _ hws]; exact h w (by simp [hws, hw])
  · intro h w hw
    simp at hw
    have := h w hw.2
    rwa [upd_other σ _ hw.1] at this

theorem eval_exists {lo : Nat} (V : List Nat) {f : BDD} (hf : OrdFrom lo f) (σ : Asg) :
    eval (exists_ V f) σ = true ↔ ∃ σ', AgreeOff V σ σ' ∧ eval f σ' = true := by
  induction V generalizing σ with
  | nil =>
    constructor
    · intro h; exact ⟨σ, fun _ _ => rfl, h⟩
    · rintro ⟨σ', ha, h⟩
      have : σ' = σ := funext (fun w => ha w (by simp))
      rwa [this] at h
  | cons s ss ih =>
    simp only [exists_, eval_existsImpl s (ordFrom_exists ss hf), Bool.or_eq_true, ih]
    constructor
    · rintro (⟨σ', ha, h⟩ | ⟨σ', ha, h⟩)
      · refine ⟨σ', ?_, h⟩
        intro w hw; simp at hw
        have := ha w hw.2; rwa [upd_other σ _ hw.1] at this
      · refine ⟨σ', ?_, h⟩
        intro w hw; simp at hw
        have := ha w hw.2; rwa [upd_other σ _ hw.1] at this
    · rintro ⟨σ', ha, h⟩
      have := agreeOff_cons_iff.mp ha
      cases hx : σ' s
      · right; exact ⟨σ', by rwa [hx] at this, h⟩
      · left; exact ⟨σ', by rwa [hx] at this, h⟩

theorem eval_all {lo : Nat} (V : List Nat) {f : BDD} (hf : OrdFrom lo f) (σ : Asg) :
    eval (all V f) σ = true ↔ ∀ σ', AgreeOff V σ σ' → eval f σ' = true := by
  unfold all
  rw [eval_not]
  have := eval_exists V (ordFrom_not hf) σ
  constructor
  · intro h σ' ha
    cases hx : eval f σ'
    · exfalso
      have h2 : eval (exists_ V (not f)) σ = true := this.mpr ⟨σ', ha, by simp [eval_not, hx]⟩
      simp [h2] at h
    · rfl
  · intro h
    cases hx : eval (exists_ V (not f)) σ
    · rfl
    · obtain ⟨σ', ha, h2⟩ := this.mp hx
      simp [eval_not, h σ' ha] at h2

end BDD
end Rsbdd
