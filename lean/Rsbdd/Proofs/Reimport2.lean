import Rsbdd.Proofs.Reimport1
namespace Rsbdd.C11
open Parser Cli

structure Sep (sep : Ch) : Prop where
  notWord : sep.wordLike = false
  notSym : sep.c ∉ symHeads
  notDigit : sep.cls ≠ .digit
  notBrace : sep.c ≠ '{'
  notQuote : sep.c ≠ '"'

theorem takeWhile_run {α : Type} (p : α → Bool) : ∀ (w : List α) (s : α) (t : List α),
    (∀ x ∈ w, p x = true) → p s = false → (w ++ s :: t).takeWhile p = w ∧ (w ++ s :: t).dropWhile p = s :: t
  | [], s, t, _, hs => by simp [hs]
  | a :: w, s, t, hw, hs => by
    have ha := hw a (by simp)
    have := takeWhile_run p w s t (fun x hx => hw x (by simp [hx])) hs
    simp [ha, this.1, this.2]

theorem scan_nil (fuel : Nat) : scan fuel [] = [] := by cases fuel <;> simp [scan]

theorem scan_sep (sep : Ch) (hs : Sep sep) (fuel : Nat) (cs : List Ch) : scan (fuel + 1) (sep :: cs) = scan fuel cs := by
  rw [scan]
  have hm := (matchSymbol_none_iff sep cs).mpr hs.notSym
  have hd : (sep.cls == Cls.digit) = false := by simpa using hs.notDigit
  have hb : (sep.c == '{') = false := by simpa using hs.notBrace
  have hq : (sep.c == '"') = false := by simpa using hs.notQuote
  simp [hm, hd, hb, hq, hs.notWord]

theorem scan_word (w : List Ch) (hw : IdentW w) (hb : ∀ x, w.head? = some x → x.c ≠ '{')
    (sep : Ch) (hs : Sep sep) (fuel : Nat) (cs : List Ch) :
    scan (fuel + 1) (w ++ sep :: cs) = Lexeme.ident (chars w) :: scan fuel (sep :: cs) := by
  cases w with
  | nil => exact absurd rfl hw.ne
  | cons x w' =>
    obtain ⟨hd, hsym⟩ := hw.head x rfl
    have hbx := hb x rfl
    have hwx : x.wordLike = true := hw.word x (by simp)
    have hrun := takeWhile_run Ch.wordLike (x :: w') sep cs hw.word hs.notWord
    rw [List.cons_append, scan]
    have hm := (matchSymbol_none_iff x (w' ++ sep :: cs)).mpr hsym
    have hd' : (x.cls == Cls.digit) = false := by simpa using hd
    have hb' : (x.c == '{') = false := by simpa using hbx
    rw [List.cons_append] at hrun
    simp only [hm, hd', hb', Bool.false_eq_true, if_false, hwx, if_true, hrun.1, hrun.2]

theorem rescan (sep : Ch) (hs : Sep sep) : ∀ (names : List (List Ch)) (fuel : Nat),
    (∀ w ∈ names, IdentW w ∧ ∀ x, w.head? = some x → x.c ≠ '{') → 2 * names.length ≤ fuel →
    scan fuel (names.flatMap (fun w => w ++ [sep])) = names.map (fun w => Lexeme.ident (chars w))
  | [], fuel, _, _ => by simp [scan_nil]
  | w :: ws, fuel, hn, hf => by
    obtain ⟨f, rfl⟩ : ∃ f, fuel = f + 2 := ⟨fuel - 2, by simp at hf; omega⟩
    obtain ⟨hw, hb⟩ := hn w (by simp)
    simp only [List.flatMap_cons, List.map_cons, List.append_assoc, List.singleton_append]
    rw [scan_word w hw hb sep hs, scan_sep sep hs]
    rw [rescan sep hs ws f (fun w' hw' => hn w' (by simp [hw'])) (by simp at hf; omega)]

end Rsbdd.C11
