import Rsbdd.Proofs.CliRead4
namespace Rsbdd.Cli.Text

structure OutputOk (o : Output) : Prop where
  ordering : ∀ n ∈ o.ordering, NameOk n
  header : ∀ ls, o.header = some ls → ∀ n ∈ ls, NameOk n
  rows : o.header = none → o.rows = []
  vlines : ∀ l ∈ o.vlines, ∀ n ∈ l, NameOk n

def tableLines (o : Output) : List (List (List Char)) :=
  match o.header with
  | none => []
  | some labels => headerSegs labels :: ruleSegs labels :: o.rows.map (rowSegs (labels.map width))

def linesOf (o : Output) : List (List Char) :=
  o.ordering.map (·.toList) ++ (tableLines o).map barLine ++ o.vlines.map (fun l => joinCommaSp l ++ [';'])

theorem render_eq (o : Output) : render o = (linesOf o).flatMap (· ++ ['\n']) := by
  unfold render linesOf tableLines vLine
  cases hh : o.header with
  | none => simp [List.flatMap_map]
  | some labels =>
    simp only [List.flatMap_append, List.flatMap_map, List.map_cons, List.flatMap_cons, headerLine_eq, sepLine_eq,
      List.map_map, List.append_assoc]
    have e1 : List.flatMap (rowLine (List.map width labels)) o.rows =
        List.flatMap (fun a => (barLine ∘ rowSegs (List.map width labels)) a ++ ['\n']) o.rows := by
      congr 1; funext r; exact rowLine_eq _ r
    rw [e1]; rfl

theorem nl_not_mem_padded (s : List Char) (w e : Nat) (hs : Clean s) : '\n' ∉ padded s w e := by
  intro h
  simp only [padded, padRight, List.mem_cons, List.mem_append, List.mem_replicate] at h
  rcases h with (h | h | h) | h
  · exact absurd h (by decide)
  · exact (hs _ h).1 rfl
  · exact absurd h.2 (by decide)
  · exact absurd h.2 (by decide)

theorem nl_not_mem_barLine (segs : List (List Char)) (h : ∀ s ∈ segs, '\n' ∉ s) : '\n' ∉ barLine segs := by
  intro hm
  simp only [barLine, List.mem_cons, List.mem_flatMap, List.mem_append, List.not_mem_nil, or_false] at hm
  rcases hm with e | ⟨s, hs, hm | e⟩
  · exact absurd e (by decide)
  · exact h s hs hm
  · exact absurd e (by decide)

theorem nl_not_mem_lines (o : Output) (ok : OutputOk o) : ∀ l ∈ linesOf o, '\n' ∉ l := by
  intro l hl
  simp only [linesOf, List.mem_append, List.mem_map] at hl
  rcases hl with (⟨n, hn, rfl⟩ | ⟨segs, hs, rfl⟩) | ⟨names, hn, rfl⟩
  · exact fun hm => ((ok.ordering n hn).2 _ hm).1 rfl
  · apply nl_not_mem_barLine
    unfold tableLines at hs
    cases hh : o.header with
    | none => simp [hh] at hs
    | some labels =>
      simp only [hh, List.mem_cons, List.mem_map] at hs
      rcases hs with rfl | rfl | ⟨r, _, rfl⟩
      · intro s hs
        obtain ⟨n, hn, rfl⟩ := List.mem_map.mp hs
        exact nl_not_mem_padded _ _ _ (ok.header labels hh n hn).2
      · intro s hs
        obtain ⟨n, _, rfl⟩ := List.mem_map.mp hs
        simp
      · intro s hs
        simp only [rowSegs, List.mem_append, List.mem_singleton] at hs
        rcases hs with hs | rfl
        · obtain ⟨t, w, e, rfl, ht⟩ := cellSegs_clean _ _ s hs
          exact nl_not_mem_padded _ _ _ ht
        · exact nl_not_mem_padded _ _ _ (clean_boolText _)
  · intro hm
    rcases List.mem_append.mp hm with hm | hm
    · exact (clean_join names (ok.vlines names hn) _ hm).1 rfl
    · simp at hm

/-- what each line of the output is read as -/
def classified (o : Output) : List Line :=
  o.ordering.map .r ++
  (match o.header with
   | none => []
   | some labels => .table (labels.map (·.toList)) :: .table (ruleSegs labels) ::
       o.rows.map (fun r => .table (r.cells.map cellText ++ [boolText r.result]))) ++
  o.vlines.map .v

theorem classify_lines (o : Output) (ok : OutputOk o) : allSome ((linesOf o).map classify) = some (classified o) := by
  unfold linesOf classified
  rw [List.map_append, List.map_append]
  apply allSome_append
  · apply allSome_append
    · rw [List.map_map]
      exact allSome_map _ _ _ (fun n hn => classify_rLine n (ok.ordering n hn))
    · unfold tableLines
      cases hh : o.header with
      | none => rfl
      | some labels =>
        simp only [List.map_cons, allSome, classify_header labels (ok.header labels hh), classify_rule, List.map_map]
        rw [allSome_map (classify ∘ barLine ∘ rowSegs (List.map width labels))
          (fun r => Line.table (r.cells.map cellText ++ [boolText r.result])) o.rows
          (fun r _ => classify_row _ r)]
        rfl
  · rw [List.map_map]
    exact allSome_map _ _ _ (fun l hl => classify_vLine l (ok.vlines l hl))

end Rsbdd.Cli.Text
