/-
Renaming the variable ids of a diagram and of the variable table: an id renaming that is strictly
increasing on the variables in play keeps diagrams canonical, commutes with `extract_vars`, the sort by
id, the free-variable test and the truth-table recursion.
-/
import Rsbdd.Thm.C11
import Rsbdd.Thm.C10
import Rsbdd.Proofs.TableSpec
namespace Rsbdd
open BDD Formula Parser Grammar Cli

/-! ### renaming a diagram -/

def renameB (p : Nat → Nat) : BDD → BDD
  | .F => .F
  | .T => .T
  | .node t v f => .node (renameB p t) (p v) (renameB p f)

theorem eval_renameB (p : Nat → Nat) : ∀ (b : BDD) (σ : Asg), eval (renameB p b) σ = eval b (fun v => σ (p v))
  | .F, _ => rfl
  | .T, _ => rfl
  | .node t v f, σ => by simp only [renameB, eval, eval_renameB p t σ, eval_renameB p f σ]

theorem support_ge_of_ordFrom : ∀ {lo : Nat} {b : BDD}, OrdFrom lo b → ∀ w ∈ support b, lo ≤ w
  | _, .F, _, w, h => by simp [support] at h
  | _, .T, _, w, h => by simp [support] at h
  | lo, .node t v f, ho, w, h => by
    simp only [OrdFrom] at ho
    simp only [support, List.mem_cons, List.mem_append] at h
    rcases h with rfl | h | h
    · exact ho.1
    · have := support_ge_of_ordFrom ho.2.1 w h; omega
    · have := support_ge_of_ordFrom ho.2.2 w h; omega

/-- a renaming that is strictly increasing on the variables of an ordered diagram keeps it ordered -/
theorem ordFrom_renameB (p : Nat → Nat) : ∀ {lo lo' : Nat} (b : BDD), OrdFrom lo b →
    (∀ u ∈ support b, ∀ w ∈ support b, u < w → p u < p w) → (∀ w ∈ support b, lo' ≤ p w) →
    OrdFrom lo' (renameB p b)
  | _, _, .F, _, _, _ => trivial
  | _, _, .T, _, _, _ => trivial
  | lo, lo', .node t v f, ho, hm, hl => by
    simp only [OrdFrom] at ho
    simp only [renameB, OrdFrom]
    refine ⟨hl v (by simp [support]), ?_, ?_⟩
    · apply ordFrom_renameB p t ho.2.1
      · exact fun u hu w hw h => hm u (by simp [support, hu]) w (by simp [support, hw]) h
      · intro w hw
        have := support_ge_of_ordFrom ho.2.1 w hw
        have := hm v (by simp [support]) w (by simp [support, hw]) (by omega)
        omega
    · apply ordFrom_renameB p f ho.2.2
      · exact fun u hu w hw h => hm u (by simp [support, hu]) w (by simp [support, hw]) h
      · intro w hw
        have := support_ge_of_ordFrom ho.2.2 w hw
        have := hm v (by simp [support]) w (by simp [support, hw]) (by omega)
        omega

theorem renameB_inj {p : Nat → Nat} (hp : ∀ a b, p a = p b → a = b) : ∀ (a b : BDD), renameB p a = renameB p b → a = b
  | .F, b, h => by cases b <;> simp [renameB] at h ⊢
  | .T, b, h => by cases b <;> simp [renameB] at h ⊢
  | .node t v f, b, h => by
    cases b with
    | F => simp [renameB] at h
    | T => simp [renameB] at h
    | node t' v' f' =>
      simp only [renameB, BDD.node.injEq] at h
      rw [renameB_inj hp t t' h.1, hp v v' h.2.1, renameB_inj hp f f' h.2.2]

theorem reduced_renameB {p : Nat → Nat} (hp : ∀ a b, p a = p b → a = b) : ∀ (b : BDD), Reduced b → Reduced (renameB p b)
  | .F, _ => trivial
  | .T, _ => trivial
  | .node t v f, h => by
    simp only [Reduced] at h
    simp only [renameB, Reduced]
    exact ⟨fun e => h.1 (renameB_inj hp t f e), reduced_renameB hp t h.2.1, reduced_renameB hp f h.2.2⟩

theorem colOf_map {p : Nat → Nat} (hp : ∀ a b, p a = p b → a = b) : ∀ (cols : List Nat) (s : Nat),
    colOf (cols.map p) (p s) = colOf cols s
  | [], _ => rfl
  | c :: cs, s => by
    simp only [List.map_cons, colOf, colOf_map hp cs s]
    by_cases h : c = s
    · simp [h]
    · have : p c ≠ p s := fun e => h (hp _ _ e)
      simp [h, this]

/-- the printed rows do not change when columns and diagram are renamed together -/
theorem tableRows_rename {p : Nat → Nat} (hp : ∀ a b, p a = p b → a = b) (cols : List Nat) (flt : Filter) :
    ∀ (b : BDD) (vars : List Cell), tableRows (cols.map p) flt (renameB p b) vars = tableRows cols flt b vars
  | .F, _ => rfl
  | .T, _ => rfl
  | .node t v f, vars => by
    simp only [renameB, tableRows, colOf_map hp]
    cases colOf cols v with
    | none => rfl
    | some i => simp only [tableRows_rename hp cols flt t, tableRows_rename hp cols flt f]

theorem trueVarRows_rename {p : Nat → Nat} (hp : ∀ a b, p a = p b → a = b) (cols : List Nat) (names : List String) :
    ∀ (b : BDD) (vals : List Cell), trueVarRows (cols.map p) names (renameB p b) vals = trueVarRows cols names b vals
  | .F, _ => rfl
  | .T, _ => rfl
  | .node t v f, vals => by
    simp only [renameB, trueVarRows, colOf_map hp]
    cases colOf cols v with
    | none => rfl
    | some i => simp only [trueVarRows_rename hp cols names t, trueVarRows_rename hp cols names f]


/-! ### the variable table under a renaming of the ids -/

def renPair (p : Nat → Nat) (x : String × Nat) : String × Nat := (x.1, p x.2)

theorem extractVars_rename {p : Nat → Nat} (hp : ∀ a b, p a = p b → a = b) (ts : List Token) :
    extractVars (ts.map (renTok p)) = (extractVars ts).map (renPair p) := by
  unfold extractVars
  have key : ∀ (ts : List Token) (acc : List (String × Nat)),
      (ts.map (renTok p)).foldl (fun acc t => match t with
        | .var n id => if acc.any (fun q => q.2 == id) then acc else acc ++ [(n, id)]
        | _ => acc) (acc.map (renPair p)) =
      (ts.foldl (fun acc t => match t with
        | .var n id => if acc.any (fun q => q.2 == id) then acc else acc ++ [(n, id)]
        | _ => acc) acc).map (renPair p) := by
    intro ts
    induction ts with
    | nil => intro acc; rfl
    | cons t ts ih =>
      intro acc
      simp only [List.map_cons, List.foldl_cons]
      by_cases hv : ∃ n i, t = .var n i
      · obtain ⟨n, i, rfl⟩ := hv
        simp only [renTok_var]
        have hany : (acc.map (renPair p)).any (fun q => q.2 == p i) = acc.any (fun q => q.2 == i) := by
          rw [List.any_map]
          congr 1
          funext q
          simp only [Function.comp, renPair]
          rw [Bool.eq_iff_iff]
          simp only [beq_iff_eq]
          exact ⟨fun e => hp _ _ e, fun e => by rw [e]⟩
        rw [hany]
        by_cases ha : acc.any (fun q => q.2 == i) = true
        · simp only [ha, if_true]; exact ih acc
        · simp only [ha, Bool.false_eq_true, if_false]
          have := ih (acc ++ [(n, i)])
          simpa [renPair] using this
      · have h1 : renTok p t = t := renTok_of_not_var p (fun n i e => hv ⟨n, i, e⟩)
        rw [h1]
        cases t <;> first | exact ih acc | exact absurd ⟨_, _, rfl⟩ hv
  have := key ts []
  simp only [List.map_nil] at this
  exact this

theorem insertById_rename {p : Nat → Nat} (x : String × Nat) : ∀ (l : List (String × Nat)),
    (∀ y ∈ l, (x.2 < y.2 ↔ p x.2 < p y.2)) →
    insertById (renPair p x) (l.map (renPair p)) = (insertById x l).map (renPair p)
  | [], _ => rfl
  | y :: ys, h => by
    have hy := h y (by simp)
    simp only [List.map_cons, insertById, renPair]
    by_cases c : x.2 < y.2
    · simp [c, hy.mp c, renPair]
    · have c' : ¬ p x.2 < p y.2 := fun e => c (hy.mpr e)
      simp only [c, c', if_false, List.map_cons, renPair]
      rw [← insertById_rename x ys (fun z hz => h z (by simp [hz]))]
      rfl

theorem sortById_rename {p : Nat → Nat} : ∀ (l : List (String × Nat)),
    (∀ x ∈ l, ∀ y ∈ l, (x.2 < y.2 ↔ p x.2 < p y.2)) →
    sortById (l.map (renPair p)) = (sortById l).map (renPair p)
  | [], _ => rfl
  | x :: xs, h => by
    simp only [sortById, List.map_cons, List.foldr_cons]
    have ih := sortById_rename xs (fun a ha b hb => h a (by simp [ha]) b (by simp [hb]))
    simp only [sortById] at ih
    rw [ih]
    apply insertById_rename
    intro y hy
    have hy' : y ∈ xs := mem_sortById.mp hy
    exact h x (by simp) y (by simp [hy'])

mutual
theorem varIsFree_rename {p : Nat → Nat} (hp : ∀ a b, p a = p b → a = b) (x : Nat) :
    ∀ f : Formula, varIsFree (p x) (renameF p f) = varIsFree x f
  | .var v => by
    simp only [renameF, varIsFree]
    rw [Bool.eq_iff_iff]
    simp only [beq_iff_eq]
    exact ⟨fun e => hp _ _ e, fun e => by rw [e]⟩
  | .true_ => rfl
  | .false_ => rfl
  | .ref _ => rfl
  | .subtree _ => rfl
  | .not f => by simp only [renameF, varIsFree, varIsFree_rename hp x f]
  | .quant q vs f => by
    simp only [renameF, varIsFree, varIsFree_rename hp x f]
    have : (vs.map p).contains (p x) = vs.contains x := by
      induction vs with
      | nil => rfl
      | cons v vs ih =>
        simp only [List.map_cons, List.contains_cons, ih]
        congr 1
        rw [Bool.eq_iff_iff]
        simp only [beq_iff_eq]
        exact ⟨fun e => hp _ _ e, fun e => by rw [e]⟩
    rw [this]
  | .fix v i f => by
    simp only [renameF, varIsFree, varIsFree_rename hp x f]
    congr 1
    rw [Bool.eq_iff_iff]
    simp only [bne_iff_ne, ne_eq]
    exact ⟨fun h e => h (by rw [e]), fun h e => h (hp _ _ e)⟩
  | .bin _ a b => by simp only [renameF, varIsFree, varIsFree_rename hp x a, varIsFree_rename hp x b]
  | .ite a b c => by
    simp only [renameF, varIsFree, varIsFree_rename hp x a, varIsFree_rename hp x b, varIsFree_rename hp x c]
  | .cntConst _ fs _ => by simp only [renameF, varIsFree, varIsFreeL_rename hp x fs]
  | .cntVar _ l r => by simp only [renameF, varIsFree, varIsFreeL_rename hp x l, varIsFreeL_rename hp x r]
theorem varIsFreeL_rename {p : Nat → Nat} (hp : ∀ a b, p a = p b → a = b) (x : Nat) :
    ∀ fs : List Formula, varIsFreeL (p x) (renameFL p fs) = varIsFreeL x fs
  | [] => rfl
  | f :: fs => by simp only [renameFL, varIsFreeL, varIsFree_rename hp x f, varIsFreeL_rename hp x fs]
end


end Rsbdd

