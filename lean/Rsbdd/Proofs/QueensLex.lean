import Rsbdd.Proofs.ScanStep
import Rsbdd.Model.Gen.QueensText
namespace Rsbdd
open Parser Gen.Queens C11

/-- an ASCII character with the class the regex crate gives it (`asciiCls`, pinned against the crate by the harness) -/
def mkCh (c : Char) : Ch := ⟨c, asciiCls c⟩
def chs (cs : List Char) : List Ch := cs.map mkCh

@[simp] theorem chs_nil : chs [] = [] := rfl
@[simp] theorem chs_cons (c : Char) (cs : List Char) : chs (c :: cs) = mkCh c :: chs cs := rfl
@[simp] theorem chs_append (a b : List Char) : chs (a ++ b) = chs a ++ chs b := by simp [chs]

theorem step_space (rest : List Ch) : scanStep (mkCh ' ') rest = (none, rest) := by
  have hm := (matchSymbol_none_iff (mkCh ' ') rest).mpr (by decide)
  unfold scanStep; rw [hm]; simp [mkCh, asciiCls, Ch.wordLike]
theorem step_nl (rest : List Ch) : scanStep (mkCh '\n') rest = (none, rest) := by
  have hm := (matchSymbol_none_iff (mkCh '\n') rest).mpr (by decide)
  unfold scanStep; rw [hm]; simp [mkCh, asciiCls, Ch.wordLike]

theorem step_open (rest : List Ch) : scanStep (mkCh '[') rest = (some (.sym .openSquare), rest) := by
  simp [scanStep, mkCh, matchSymbol, symbolTable, stripPrefix]
theorem step_close (rest : List Ch) : scanStep (mkCh ']') rest = (some (.sym .closeSquare), rest) := by
  simp [scanStep, mkCh, matchSymbol, symbolTable, stripPrefix]
theorem step_comma (rest : List Ch) : scanStep (mkCh ',') rest = (some (.sym .comma), rest) := by
  simp [scanStep, mkCh, matchSymbol, symbolTable, stripPrefix]
theorem step_amp (rest : List Ch) : scanStep (mkCh '&') rest = (some (.sym .and), rest) := by
  simp [scanStep, mkCh, matchSymbol, symbolTable, stripPrefix]
theorem step_le (rest : List Ch) :
    scanStep (mkCh '<') (mkCh '=' :: mkCh ' ' :: rest) = (some (.sym .impliesInv), mkCh ' ' :: rest) := by
  simp [scanStep, mkCh, matchSymbol, symbolTable, stripPrefix]
theorem step_eq (rest : List Ch) :
    scanStep (mkCh '=') (mkCh ' ' :: rest) = (some (.sym .eq), mkCh ' ' :: rest) := by
  simp [scanStep, mkCh, matchSymbol, symbolTable, stripPrefix]

theorem step_one (rest : List Ch) :
    scanStep (mkCh '1') (mkCh ' ' :: rest) = (some (.num [mkCh '1']), mkCh ' ' :: rest) := by
  have hm := (matchSymbol_none_iff (mkCh '1') (mkCh ' ' :: rest)).mpr (by decide)
  unfold scanStep; rw [hm]; simp [mkCh, asciiCls]


theorem dropWhile_notQuote (body : List Char) (h : '"' ∉ body) (rest : List Ch) :
    (chs body ++ mkCh '"' :: rest).dropWhile (fun y => y.c != '"') = mkCh '"' :: rest := by
  induction body with
  | nil => simp [mkCh]
  | cons b bs ih =>
    have hb : b ≠ '"' := fun e => h (by simp [e])
    have hbs : '"' ∉ bs := fun e => h (by simp [e])
    simp [mkCh, hb] at ih ⊢
    exact ih hbs

theorem step_comment (body : List Char) (h : '"' ∉ body) (rest : List Ch) :
    scanStep (mkCh '"') (chs body ++ mkCh '"' :: rest) = (none, rest) := by
  have hm := (matchSymbol_none_iff (mkCh '"') (chs body ++ mkCh '"' :: rest)).mpr (by decide)
  unfold scanStep; rw [hm]
  have hd := dropWhile_notQuote body h rest
  have e1 : ((mkCh '"').cls == Cls.digit) = false := by simp [mkCh, asciiCls]
  have e2 : ((mkCh '"').c == '{') = false := by simp [mkCh]
  have e3 : (mkCh '"').wordLike = false := by simp [mkCh, Ch.wordLike, asciiCls]
  have e4 : ((mkCh '"').c == '"') = true := by simp [mkCh]
  simp only [e1, e2, e3, e4, Bool.false_eq_true, if_false, if_true, hd]

theorem digit_wordLike (c : Char) (h : c.isDigit = true) : (mkCh c).wordLike = true := by
  simp [mkCh, Ch.wordLike, asciiCls, h]

theorem natStr_wordLike (k : Nat) : ∀ x ∈ chs (natStr k), x.wordLike = true := by
  intro x hx
  simp only [chs, natStr, List.mem_map] at hx
  obtain ⟨c, hc, rfl⟩ := hx
  rw [Nat.toList_repr] at hc
  exact digit_wordLike c (Nat.isDigit_of_mem_toDigits (by decide) (by decide) hc)

theorem step_cell (k : Nat) (rest : List Ch) :
    scanStep (mkCh 'v') (chs ('_' :: natStr k) ++ mkCh ',' :: rest) =
      (some (.ident (String.ofList (cellName k))), mkCh ',' :: rest) := by
  have hm := (matchSymbol_none_iff (mkCh 'v') (chs ('_' :: natStr k) ++ mkCh ',' :: rest)).mpr (by decide)
  have hword : ∀ x ∈ mkCh 'v' :: chs ('_' :: natStr k), x.wordLike = true := by
    intro x hx
    rcases List.mem_cons.mp hx with rfl | hx
    · simp [mkCh, Ch.wordLike, asciiCls]
    · simp only [chs_cons, List.mem_cons] at hx
      rcases hx with rfl | hx
      · simp [mkCh, Ch.wordLike, asciiCls]
      · exact natStr_wordLike k x hx
  have hrun := takeWhile_run Ch.wordLike (mkCh 'v' :: chs ('_' :: natStr k)) (mkCh ',') rest hword
    (by simp [mkCh, Ch.wordLike, asciiCls])
  rw [List.cons_append] at hrun
  unfold scanStep; rw [hm]
  have hv1 : ((mkCh 'v').cls == Cls.digit) = false := by simp [mkCh, asciiCls]
  have hv2 : ((mkCh 'v').c == '{') = false := by simp [mkCh]
  have hv3 : (mkCh 'v').wordLike = true := by simp [mkCh, Ch.wordLike, asciiCls]
  simp only [hv1, hv2, hv3, Bool.false_eq_true, if_false, if_true, hrun.1, hrun.2]
  have hc : (fun x : Ch => x.c) ∘ mkCh = id := by funext c; rfl
  simp [chars, cellName, chs, mkCh, hc]

theorem step_true (rest : List Ch) :
    scanStep (mkCh 't') (mkCh 'r' :: mkCh 'u' :: mkCh 'e' :: mkCh '\n' :: rest) =
      (some (.ident "true"), mkCh '\n' :: rest) := by
  have hm := (matchSymbol_none_iff (mkCh 't') (mkCh 'r' :: mkCh 'u' :: mkCh 'e' :: mkCh '\n' :: rest)).mpr (by decide)
  unfold scanStep; rw [hm]
  simp [mkCh, asciiCls, Ch.wordLike, chars]


/-! ### chunks of the generator's text -/

theorem lex_nl (rest : List Char) : lexAll (chs ('\n' :: rest)) = lexAll (chs rest) := by
  rw [chs_cons, lexAll_cons, step_nl]; rfl

theorem lex_comment (body : String) (h : '"' ∉ body.toList) (rest : List Char) :
    lexAll (chs (comment body ++ rest)) = lexAll (chs rest) := by
  unfold comment
  simp only [List.cons_append, List.append_assoc, chs_cons, chs_append, List.nil_append]
  rw [lexAll_cons, step_comment body.toList h]
  simp only [Option.toList_none, List.nil_append]
  rw [lexAll_cons, step_nl]; rfl

/-- the lexemes of one cell list: name, comma, name, comma, … -/
def cellsLex (ks : List Nat) : List Lexeme :=
  ks.flatMap (fun k => [Lexeme.ident (String.ofList (cellName k)), Lexeme.sym .comma])

theorem lex_cell_one (k : Nat) (tail : List Char) :
    lexAll (chs (cellName k ++ ',' :: tail)) =
      [Lexeme.ident (String.ofList (cellName k)), Lexeme.sym .comma] ++ lexAll (chs tail) := by
  have e : chs (cellName k ++ ',' :: tail) = mkCh 'v' :: (chs ('_' :: natStr k) ++ mkCh ',' :: chs tail) := by
    simp [cellName]
  rw [e, lexAll_cons, step_cell]
  simp only [Option.toList_some, List.cons_append, List.nil_append]
  rw [lexAll_cons, step_comma]
  simp

theorem lex_cells : ∀ (ks : List Nat) (rest : List Char),
    lexAll (chs (ks.flatMap (fun k => cellName k ++ [',']) ++ rest)) = cellsLex ks ++ lexAll (chs rest)
  | [], rest => by simp [cellsLex]
  | k :: ks, rest => by
    have e : (k :: ks).flatMap (fun k => cellName k ++ [',']) ++ rest =
        cellName k ++ ',' :: (ks.flatMap (fun k => cellName k ++ [',']) ++ rest) := by simp
    rw [e, lex_cell_one, lex_cells ks rest]
    simp [cellsLex]

def opLex (op : CntOp) : Lexeme := match op with
  | .exactly => .sym .eq
  | _ => .sym .impliesInv

/-- the lexemes of one constraint line -/
def lineLex (c : Constraint) : List Lexeme :=
  Lexeme.sym .openSquare :: cellsLex c.cells ++ [Lexeme.sym .closeSquare, opLex c.op, Lexeme.num [mkCh '1'], Lexeme.sym .and]

theorem lex_tail_le (rest : List Char) :
    lexAll (chs ("] <= 1 &\n".toList ++ rest)) =
      [Lexeme.sym .closeSquare, Lexeme.sym .impliesInv, Lexeme.num [mkCh '1'], Lexeme.sym .and] ++ lexAll (chs rest) := by
  show lexAll (chs (']' :: ' ' :: '<' :: '=' :: ' ' :: '1' :: ' ' :: '&' :: '\n' :: rest)) = _
  simp only [chs_cons]
  rw [lexAll_cons, step_close]; simp only [Option.toList_some, List.cons_append, List.nil_append]
  rw [lexAll_cons, step_space]; simp only [Option.toList_none, List.nil_append]
  rw [lexAll_cons, step_le]; simp only [Option.toList_some, List.cons_append, List.nil_append]
  rw [lexAll_cons, step_space]; simp only [Option.toList_none, List.nil_append]
  rw [lexAll_cons, step_one]; simp only [Option.toList_some, List.cons_append, List.nil_append]
  rw [lexAll_cons, step_space]; simp only [Option.toList_none, List.nil_append]
  rw [lexAll_cons, step_amp]; simp only [Option.toList_some, List.cons_append, List.nil_append]
  rw [lexAll_cons, step_nl]; simp only [Option.toList_none, List.nil_append]

theorem lex_tail_eq (rest : List Char) :
    lexAll (chs ("] = 1 &\n".toList ++ rest)) =
      [Lexeme.sym .closeSquare, Lexeme.sym .eq, Lexeme.num [mkCh '1'], Lexeme.sym .and] ++ lexAll (chs rest) := by
  show lexAll (chs (']' :: ' ' :: '=' :: ' ' :: '1' :: ' ' :: '&' :: '\n' :: rest)) = _
  simp only [chs_cons]
  rw [lexAll_cons, step_close]; simp only [Option.toList_some, List.cons_append, List.nil_append]
  rw [lexAll_cons, step_space]; simp only [Option.toList_none, List.nil_append]
  rw [lexAll_cons, step_eq]; simp only [Option.toList_some, List.cons_append, List.nil_append]
  rw [lexAll_cons, step_space]; simp only [Option.toList_none, List.nil_append]
  rw [lexAll_cons, step_one]; simp only [Option.toList_some, List.cons_append, List.nil_append]
  rw [lexAll_cons, step_space]; simp only [Option.toList_none, List.nil_append]
  rw [lexAll_cons, step_amp]; simp only [Option.toList_some, List.cons_append, List.nil_append]
  rw [lexAll_cons, step_nl]; simp only [Option.toList_none, List.nil_append]

theorem lex_line (c : Constraint) (rest : List Char) :
    lexAll (chs (lineOf c ++ rest)) = lineLex c ++ lexAll (chs rest) := by
  unfold lineOf lineLex
  simp only [List.cons_append, List.append_assoc, chs_cons]
  rw [lexAll_cons, step_open]
  simp only [Option.toList_some, List.cons_append, List.nil_append]
  rw [lex_cells]
  cases c.op <;> simp only [opLex] <;> first | rw [lex_tail_eq] | rw [lex_tail_le]
  all_goals simp

theorem lex_lines : ∀ (cs : List Constraint) (rest : List Char),
    lexAll (chs (linesOf cs ++ rest)) = cs.flatMap lineLex ++ lexAll (chs rest)
  | [], rest => by simp [linesOf]
  | c :: cs, rest => by
    have := lex_lines cs rest
    simp only [linesOf, List.flatMap_cons, List.append_assoc] at this ⊢
    rw [lex_line, this]

theorem lex_true : lexAll (chs "true\n".toList) = [Lexeme.ident "true"] := by
  show lexAll (chs ('t' :: 'r' :: 'u' :: 'e' :: '\n' :: [])) = _
  simp only [chs_cons, chs_nil]
  rw [lexAll_cons, step_true]; simp only [Option.toList_some, List.cons_append, List.nil_append]
  rw [lexAll_cons, step_nl]; simp [lexAll_nil]

/-- the lexemes of the whole output: the constraint lines in order, then `true` -/
theorem lex_text (version : String) (hv : '"' ∉ version.toList) (n : Nat) :
    lexAll (chs (text version n)) = (constraints n).flatMap lineLex ++ [Lexeme.ident "true"] := by
  unfold text constraints
  have hq : ∀ s : String, '"' ∉ s.toList → ∀ rest, lexAll (chs (comment s ++ rest)) = lexAll (chs rest) :=
    fun s h rest => lex_comment s h rest
  have hhdr : '"' ∉ ("Generated by n-queens-gen version " ++ version ++ " queens=" ++ Nat.repr n ++ " ").toList := by
    simp only [String.toList_append, List.mem_append, not_or]
    refine ⟨⟨⟨⟨by decide, hv⟩, by decide⟩, ?_⟩, by decide⟩
    intro h
    rw [Nat.toList_repr] at h
    have := Nat.isDigit_of_mem_toDigits (by decide) (by decide) h
    simp [Char.isDigit] at this
  simp only [List.append_assoc]
  rw [hq _ hhdr, List.singleton_append, lex_nl]
  rw [hq _ (by decide), lex_lines, List.singleton_append, lex_nl, lex_lines, List.singleton_append, lex_nl]
  rw [hq _ (by decide), lex_lines, List.singleton_append, lex_nl, lex_lines, List.singleton_append, lex_nl]
  rw [hq _ (by decide), lex_lines, List.singleton_append, lex_nl]
  rw [hq _ (by decide), lex_lines, List.singleton_append, lex_nl]
  rw [hq _ (by decide), lex_true]
  simp [List.flatMap_append]

end Rsbdd
