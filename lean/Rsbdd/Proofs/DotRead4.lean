import Rsbdd.Proofs.DotRead3
import Rsbdd.Proofs.CliRead3
namespace Rsbdd.DotText
open Cli.Text (splitAcc allSome)

/-- what `dot::Id::new` accepts apart from the first-character rule: letters, digits, underscore -/
def idChar (c : Char) : Bool :=
  ('a' ≤ c && c ≤ 'z') || ('A' ≤ c && c ≤ 'Z') || c == '_' || ('0' ≤ c && c ≤ '9')

def IdOk (s : List Char) : Prop := ∀ c ∈ s, idChar c = true

theorem idChar_not_special {c : Char} (h : idChar c = true) : c ≠ ' ' ∧ c ≠ '[' ∧ c ≠ '\n' := by
  refine ⟨?_, ?_, ?_⟩ <;> (intro e; subst e; revert h; decide)

theorem stripPrefix_append (p s : List Char) : stripPrefix p (p ++ s) = some s := by
  unfold stripPrefix
  have : p.isPrefixOf (p ++ s) = true := by
    rw [List.isPrefixOf_iff_prefix]; exact List.prefix_append p s
  simp [this]

theorem stripSuffix_append (p s : List Char) : stripSuffix p (s ++ p) = some s := by
  unfold stripSuffix
  rw [List.reverse_append, stripPrefix_append]
  simp

theorem splitBracket_found : ∀ (head rest acc : List Char), '[' ∉ head →
    splitBracket (head ++ '[' :: rest) acc = some (acc.reverse ++ head, rest)
  | [], rest, acc, _ => by simp [splitBracket]
  | c :: head, rest, acc, h => by
    have hc : c ≠ '[' := fun e => h (by simp [e])
    have := splitBracket_found head rest (c :: acc) (fun hm => h (List.mem_cons_of_mem _ hm))
    simp [splitBracket, hc, this]

theorem stripPrefix_arrow_none (c : Char) (cs : List Char) (hc : c ≠ ' ') : stripPrefix arrow (c :: cs) = none := by
  unfold stripPrefix arrow
  simp [List.isPrefixOf, hc.symm]

theorem splitArrow_none : ∀ (s acc : List Char), ' ' ∉ s → splitArrow s acc = none
  | [], _, _ => rfl
  | c :: cs, acc, h => by
    have hc : c ≠ ' ' := fun e => h (by simp [e])
    simp [splitArrow, stripPrefix_arrow_none c cs hc, splitArrow_none cs (c :: acc) (fun hm => h (List.mem_cons_of_mem _ hm))]

theorem splitArrow_found : ∀ (a b acc : List Char), ' ' ∉ a →
    splitArrow (a ++ arrow ++ b) acc = some (acc.reverse ++ a, b)
  | [], b, acc, _ => by
    have : splitArrow (arrow ++ b) acc = some (acc.reverse, b) := by
      have h := stripPrefix_append arrow b
      have e : arrow ++ b = ' ' :: ('-' :: '>' :: ' ' :: b) := rfl
      rw [e] at h ⊢
      simp only [splitArrow, h]
    simpa using this
  | c :: a, b, acc, h => by
    have hc : c ≠ ' ' := fun e => h (by simp [e])
    have ih := splitArrow_found a b (c :: acc) (fun hm => h (List.mem_cons_of_mem _ hm))
    simp only [List.cons_append, splitArrow, stripPrefix_arrow_none c _ hc]
    simp only [List.append_assoc] at ih ⊢
    rw [ih]; simp

theorem readStmt_node (id label : List Char) (hid : IdOk id) :
    readStmt ((nodeLine (id, label)).dropLast) = some (.node id label) := by
  have hnb : '[' ∉ id := fun h => (idChar_not_special (hid _ h)).2.1 rfl
  have hns : ' ' ∉ id := fun h => (idChar_not_special (hid _ h)).1 rfl
  have e : nodeLine (id, label) =
      (indent ++ (id ++ '[' :: (['l', 'a', 'b', 'e', 'l', '=', '"'] ++ (escape label ++ ['"', ']', ';'])))) ++ ['\n'] := by
    simp [nodeLine, labelAttr, indent]
  rw [e, List.dropLast_concat]
  unfold readStmt
  rw [stripPrefix_append]
  simp only
  rw [splitBracket_found _ _ _ hnb]
  simp only [List.reverse_nil, List.nil_append]
  rw [stripPrefix_append]
  simp only
  rw [stripSuffix_append]
  simp only
  rw [unescape_escape]
  simp only
  rw [splitArrow_none _ _ hns]

theorem readStmt_edge (a b label : List Char) (ha : IdOk a) (hb : IdOk b) :
    readStmt ((edgeLine (a, b, label)).dropLast) = some (.edge a b label) := by
  have hnb : '[' ∉ a ++ arrow ++ b := by
    intro h
    simp only [List.mem_append] at h
    rcases h with (h | h) | h
    · exact (idChar_not_special (ha _ h)).2.1 rfl
    · revert h; decide
    · exact (idChar_not_special (hb _ h)).2.1 rfl
  have hns : ' ' ∉ a := fun h => (idChar_not_special (ha _ h)).1 rfl
  have e : edgeLine (a, b, label) =
      (indent ++ ((a ++ arrow ++ b) ++ '[' :: (['l', 'a', 'b', 'e', 'l', '=', '"'] ++ (escape label ++ ['"', ']', ';'])))) ++ ['\n'] := by
    simp [edgeLine, labelAttr, indent]
  rw [e, List.dropLast_concat]
  unfold readStmt
  rw [stripPrefix_append]
  simp only
  rw [splitBracket_found _ _ _ hnb]
  simp only [List.reverse_nil, List.nil_append]
  rw [stripPrefix_append]
  simp only
  rw [stripSuffix_append]
  simp only
  rw [unescape_escape]
  simp only
  rw [splitArrow_found _ _ _ hns]
  simp

end Rsbdd.DotText
