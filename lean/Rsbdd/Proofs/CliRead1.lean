import Rsbdd.Model.CliText
namespace Rsbdd.Cli.Text

theorem splitAcc_end (d : Char) : ∀ (s acc : List Char), d ∉ s → splitAcc d s acc = [acc.reverse ++ s]
  | [], acc, _ => by simp [splitAcc]
  | c :: cs, acc, h => by
    have hc : c ≠ d := fun e => h (by simp [e])
    have := splitAcc_end d cs (c :: acc) (fun hm => h (List.mem_cons_of_mem _ hm))
    simp [splitAcc, hc, this]

theorem splitAcc_sep (d : Char) : ∀ (s rest acc : List Char), d ∉ s →
    splitAcc d (s ++ d :: rest) acc = (acc.reverse ++ s) :: splitAcc d rest []
  | [], rest, acc, _ => by simp [splitAcc]
  | c :: cs, rest, acc, h => by
    have hc : c ≠ d := fun e => h (by simp [e])
    have := splitAcc_sep d cs rest (c :: acc) (fun hm => h (List.mem_cons_of_mem _ hm))
    simp [splitAcc, hc, this]

/-- text made of segments each closed by `d` splits back into those segments -/
theorem splitAcc_segs (d : Char) : ∀ (segs : List (List Char)) (rest : List Char), (∀ s ∈ segs, d ∉ s) →
    splitAcc d (segs.flatMap (· ++ [d]) ++ rest) [] = segs ++ splitAcc d rest []
  | [], rest, _ => by simp
  | s :: segs, rest, h => by
    have h1 := splitAcc_sep d s (segs.flatMap (· ++ [d]) ++ rest) [] (h s (by simp))
    have h2 := splitAcc_segs d segs rest (fun s' hs' => h s' (by simp [hs']))
    simp only [List.flatMap_cons, List.append_assoc, List.cons_append, List.nil_append]
    simp only [List.reverse_nil, List.nil_append] at h1
    rw [h1, h2]

theorem allSome_map {α β : Type} (f : α → Option β) (g : α → β) : ∀ (l : List α), (∀ a ∈ l, f a = some (g a)) →
    allSome (l.map f) = some (l.map g)
  | [], _ => rfl
  | a :: l, h => by
    simp [allSome, h a (by simp), allSome_map f g l (fun b hb => h b (by simp [hb]))]

theorem trimCell_pad (a b : Nat) (s : List Char) (hs : ' ' ∉ s) :
    trimCell (List.replicate a ' ' ++ s ++ List.replicate b ' ') = some s := by
  have h1 : ∀ (a : Nat) (t : List Char), (List.replicate a ' ' ++ t).dropWhile (· == ' ') = t.dropWhile (· == ' ') := by
    intro a t; induction a with
    | zero => simp
    | succ a ih => simp [List.replicate_succ, ih]
  have h2 : ∀ (s : List Char), ' ' ∉ s → ∀ b, (s ++ List.replicate b ' ').dropWhile (· == ' ') = (s ++ List.replicate b ' ') ∨ s = [] := by
    intro s hs b
    cases s with
    | nil => right; rfl
    | cons c cs =>
      left
      have : c ≠ ' ' := fun e => hs (by simp [e])
      simp [List.dropWhile, this]
  have h3 : ∀ (s : List Char), ' ' ∉ s → ∀ b, (s ++ List.replicate b ' ').takeWhile (· != ' ') = s := by
    intro s; induction s with
    | nil => intro _ b; cases b <;> simp [List.replicate_succ, List.takeWhile]
    | cons c cs ih =>
      intro hs b
      have : c ≠ ' ' := fun e => hs (by simp [e])
      simp [List.takeWhile, this, ih (fun hm => hs (List.mem_cons_of_mem _ hm)) b]
  have h4 : ∀ (s : List Char), ' ' ∉ s → ∀ b, (s ++ List.replicate b ' ').dropWhile (· != ' ') = List.replicate b ' ' := by
    intro s; induction s with
    | nil => intro _ b; cases b <;> simp [List.replicate_succ, List.dropWhile]
    | cons c cs ih =>
      intro hs b
      have : c ≠ ' ' := fun e => hs (by simp [e])
      simp [List.dropWhile, this, ih (fun hm => hs (List.mem_cons_of_mem _ hm)) b]
  unfold trimCell
  rw [List.append_assoc, h1]
  rcases h2 s hs b with e | e
  · simp only [e, h3 s hs b, h4 s hs b]; simp
  · subst e
    have : (([] : List Char) ++ List.replicate b ' ').dropWhile (· == ' ') = [] := by
      induction b with
      | zero => rfl
      | succ b ih => simp [List.replicate_succ]
    rw [this]; simp

end Rsbdd.Cli.Text
