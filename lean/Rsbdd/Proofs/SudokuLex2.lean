import Rsbdd.Proofs.SudokuLex1
namespace Rsbdd
open Parser C11 Gen.Sudoku
open Gen.Queens (natStr comment)

/-- one constraint line of the output: a hint `_c_is_d &` or a list `[…] = 1 &` -/
inductive SLine where
  | hint (c d : Nat)
  | list (cells : List (Nat × Nat))

def SLine.chars : SLine → List Char
  | .hint c d => varName c d ++ " &\n".toList
  | .list cells => listLine cells

def SLine.lex : SLine → List Lexeme
  | .hint c d => [Lexeme.ident (varStr c d), Lexeme.sym .and]
  | .list cells => Lexeme.sym .openSquare :: itemsLex cells ++
      [Lexeme.sym .closeSquare, Lexeme.sym .eq, Lexeme.num [mkCh '1'], Lexeme.sym .and]

theorem lex_sline (l : SLine) (rest : List Char) : lexAll (chs (l.chars ++ rest)) = l.lex ++ lexAll (chs rest) := by
  cases l with
  | hint c d =>
    show lexAll (chs ((varName c d ++ [' ', '&', '\n']) ++ rest)) = _
    have e : (varName c d ++ [' ', '&', '\n']) ++ rest = varName c d ++ ' ' :: ('&' :: '\n' :: rest) := by simp
    rw [e, lex_name c d ' ' (by simp [mkCh, Ch.wordLike, asciiCls])]
    simp only [chs_cons]
    rw [lexAll_cons, step_space]; simp only [Option.toList_none, List.nil_append]
    rw [lexAll_cons, step_amp]; simp only [Option.toList_some, List.cons_append, List.nil_append]
    rw [lexAll_cons, step_nl]; simp [SLine.lex]
  | list cells =>
    simp only [SLine.chars, listLine, SLine.lex, List.cons_append, List.append_assoc, chs_cons]
    rw [lexAll_cons, step_open]
    simp only [Option.toList_some, List.cons_append, List.nil_append]
    have e : joinComma (cells.map (fun p => varName p.1 p.2)) ++ ("] = 1 &\n".toList ++ rest) =
        joinComma (cells.map (fun p => varName p.1 p.2)) ++ ']' :: (" = 1 &\n".toList ++ rest) := rfl
    rw [e, lex_items]
    have e2 : (']' :: (" = 1 &\n".toList ++ rest)) = "] = 1 &\n".toList ++ rest := rfl
    rw [e2, lex_tail_eq]
    simp

theorem lex_slines : ∀ (ls : List SLine) (rest : List Char),
    lexAll (chs (ls.flatMap SLine.chars ++ rest)) = ls.flatMap SLine.lex ++ lexAll (chs rest)
  | [], rest => by simp
  | l :: ls, rest => by
    have := lex_slines ls rest
    simp only [List.flatMap_cons, List.append_assoc] at this ⊢
    rw [lex_sline, this]

end Rsbdd
