import Rsbdd.Proofs.CliqueParse
import Rsbdd.Thm.C08
namespace Rsbdd.C16
open Parser C11 Gen.Clique Grammar Formula BDD
open Gen.Sudoku (joinComma)

/-- what the theorem assumes of the vertex names `nm v` and of the copy prefix `pre` (for the vertices `vs`) -/
structure NamesOk (nm : Nat → List Char) (pre : List Char) (vs : List Nat) : Prop where
  own : ∀ v ∈ vs, WordOk (nm v) ∧ NotKeyword (String.ofList (nm v))
  copy : ∀ v ∈ vs, WordOk (pre ++ nm v) ∧ NotKeyword (String.ofList (pre ++ nm v))
  inj : ∀ v ∈ vs, ∀ w ∈ vs, nm v = nm w → v = w
  fresh : ∀ v ∈ vs, ∀ w ∈ vs, pre ++ nm v ≠ nm w

/-- the ordering that numbers the name of `v` as `vid v` and the name of its copy as `cid v` -/
def nameOrdering (nm : Nat → List Char) (pre : List Char) (vs : List Nat) (vid cid : Nat → Nat) : List (String × Nat) :=
  vs.map (fun v => (String.ofList (nm v), vid v)) ++ vs.map (fun v => (String.ofList (pre ++ nm v), cid v))

theorem ofList_inj {a b : List Char} (h : String.ofList a = String.ofList b) : a = b := by
  have := congrArg String.toList h
  simpa using this

theorem nameOrdering_ok {nm : Nat → List Char} {pre : List Char} {vs : List Nat} (hn : NamesOk nm pre vs)
    (vid cid : Nat → Nat)
    (hvid : ∀ a ∈ vs, ∀ b ∈ vs, vid a = vid b → a = b)
    (hcid : ∀ a ∈ vs, ∀ b ∈ vs, cid a = cid b → a = b)
    (hdisj : ∀ a ∈ vs, ∀ b ∈ vs, vid a ≠ cid b) : OrderingOk (nameOrdering nm pre vs vid cid) := by
  rintro ⟨a, i⟩ hp ⟨b, j⟩ hq
  simp only [nameOrdering, List.mem_append, List.mem_map] at hp hq
  simp only
  rcases hp with ⟨v, hv, e1⟩ | ⟨v, hv, e1⟩ <;> rcases hq with ⟨w, hw, e2⟩ | ⟨w, hw, e2⟩ <;> cases e1 <;> cases e2
  · constructor
    · intro h; rw [hn.inj v hv w hw (ofList_inj h)]
    · intro h; rw [hvid v hv w hw h]
  · constructor
    · intro h; exact absurd (ofList_inj h).symm (hn.fresh w hw v hv)
    · intro h; exact absurd h (hdisj v hv w hw)
  · constructor
    · intro h; exact absurd (ofList_inj h) (hn.fresh v hv w hw)
    · intro h; exact absurd h.symm (hdisj w hw v hv)
  · constructor
    · intro h
      have := ofList_inj h
      rw [hn.inj v hv w hw (List.append_cancel_left this)]
    · intro h; rw [hcid v hv w hw h]


/-! ### the canonical tokens -/

def ownToks (ns : Nat → String) (vid : Nat → Nat) (comp : List (Nat × Nat)) : List Token :=
  if comp.isEmpty then [Token.true_, Token.and]
  else comp.flatMap (fun p => pairToks (vid p.1) (vid p.2) (ns p.1) (ns p.2) ++ [Token.and])

def copiesToks (cs : Nat → String) (cid : Nat → Nat) : List (Nat × Nat) → List Token
  | [] => []
  | [p] => pairToks (cid p.1) (cid p.2) (cs p.1) (cs p.2)
  | p :: q :: r => pairToks (cid p.1) (cid p.2) (cs p.1) (cs p.2) ++ Token.and :: copiesToks cs cid (q :: r)

def maxToks (ns cs : Nat → String) (vid cid : Nat → Nat) (comp : List (Nat × Nat)) (vs : List Nat) : List Token :=
  Token.forall_ :: varsToks (vs.map (fun v => (cs v, cid v))) ++ [Token.hash, Token.openParen] ++
    (if comp.isEmpty then [Token.true_] else copiesToks cs cid comp) ++
    [Token.closeParen, Token.implies, Token.openSquare] ++ varsToks (vs.map (fun v => (ns v, vid v))) ++
    [Token.closeSquare, Token.geq, Token.openSquare] ++ varsToks (vs.map (fun v => (cs v, cid v))) ++ [Token.closeSquare]

theorem tokOf_ident (vt : VarTable) (w : String) (i : Nat) (hk : NotKeyword w) (h : vt.lookup w = some i) :
    tokOf vt (Lexeme.ident w) = Token.var w i := by
  unfold NotKeyword at hk
  simp only [tokOf, hk, h, Option.getD_some]

theorem tok_pair (vt : VarTable) (a b : List Char) (ia ib : Nat)
    (ka : NotKeyword (String.ofList a)) (kb : NotKeyword (String.ofList b))
    (ha : vt.lookup (String.ofList a) = some ia) (hb : vt.lookup (String.ofList b) = some ib) :
    (pairLex a b).map (tokOf vt) = pairToks ia ib (String.ofList a) (String.ofList b) := by
  simp only [pairLex, pairToks, List.map_cons, List.map_nil, tokOf_ident vt _ _ ka ha, tokOf_ident vt _ _ kb hb]
  simp [tokOf]

theorem tok_names (vt : VarTable) (nm : Nat → List Char) (idf : Nat → Nat) : ∀ (vs : List Nat),
    (∀ v ∈ vs, NotKeyword (String.ofList (nm v)) ∧ vt.lookup (String.ofList (nm v)) = some (idf v)) →
    (namesLex (vs.map nm)).map (tokOf vt) = varsToks (vs.map (fun v => (String.ofList (nm v), idf v)))
  | [], _ => rfl
  | [v], h => by
    obtain ⟨k, l⟩ := h v (by simp)
    simp [namesLex, varsToks, tokOf_ident vt _ _ k l]
  | v :: w :: r, h => by
    obtain ⟨k, l⟩ := h v (by simp)
    have ih := tok_names vt nm idf (w :: r) (fun x hx => h x (by simp [hx]))
    simp only [List.map_cons, namesLex, varsToks, tokOf_ident vt _ _ k l] at ih ⊢
    rw [ih]
    simp [tokOf]

theorem tok_copies (vt : VarTable) (cp : Nat → List Char) (cid : Nat → Nat) : ∀ (comp : List (Nat × Nat)),
    (∀ p ∈ comp, (NotKeyword (String.ofList (cp p.1)) ∧ vt.lookup (String.ofList (cp p.1)) = some (cid p.1)) ∧
                 (NotKeyword (String.ofList (cp p.2)) ∧ vt.lookup (String.ofList (cp p.2)) = some (cid p.2))) →
    (copiesLex cp comp).map (tokOf vt) = copiesToks (fun v => String.ofList (cp v)) cid comp
  | [], _ => rfl
  | [p], h => by
    obtain ⟨⟨ka, la⟩, ⟨kb, lb⟩⟩ := h p (by simp)
    simp only [copiesLex, copiesToks]
    exact tok_pair vt _ _ _ _ ka kb la lb
  | p :: q :: r, h => by
    obtain ⟨⟨ka, la⟩, ⟨kb, lb⟩⟩ := h p (by simp)
    have ih := tok_copies vt cp cid (q :: r) (fun x hx => h x (by simp [hx]))
    simp only [copiesLex, copiesToks, List.map_append, List.map_cons, tok_pair vt _ _ _ _ ka kb la lb, ih]
    simp [tokOf]


/-! ### every lexeme of the output becomes a token -/

def LexOk (vt : VarTable) : Lexeme → Prop
  | .ident n => NotKeyword n → (vt.lookup n).isSome = true
  | .num ds => (parseNumber ds).isSome = true
  | _ => True

def AllOk (vt : VarTable) (ls : List Lexeme) : Prop := ∀ l ∈ ls, LexOk vt l

theorem allOk_append {vt : VarTable} {a b : List Lexeme} (ha : AllOk vt a) (hb : AllOk vt b) : AllOk vt (a ++ b) := by
  intro l hl; rcases List.mem_append.mp hl with h | h; exact ha l h; exact hb l h

theorem allOk_cons {vt : VarTable} {x : Lexeme} {a : List Lexeme} (hx : LexOk vt x) (ha : AllOk vt a) : AllOk vt (x :: a) := by
  intro l hl; rcases List.mem_cons.mp hl with h | h; rw [h]; exact hx; exact ha l h

theorem allOk_nil {vt : VarTable} : AllOk vt [] := by intro l hl; simp at hl

theorem lexOk_sym (vt : VarTable) (t : Token) : LexOk vt (Lexeme.sym t) := trivial
theorem lexOk_kw (vt : VarTable) (n : String) (h : ¬ NotKeyword n) : LexOk vt (Lexeme.ident n) := fun hk => absurd hk h
theorem lexOk_name (vt : VarTable) (n : String) (i : Nat) (h : vt.lookup n = some i) : LexOk vt (Lexeme.ident n) :=
  fun _ => by rw [h]; rfl

theorem toTokens_allOk (ls : List Lexeme) (vt : VarTable) (h : AllOk vt ls) :
    toTokens ls vt = some (ls.map (tokOf vt)) :=
  toTokens_fixed ls vt (fun _ hn => h _ hn) (fun _ hd => h _ hd)

theorem allOk_pair (vt : VarTable) (a b : List Char) (ia ib : Nat)
    (ha : vt.lookup (String.ofList a) = some ia) (hb : vt.lookup (String.ofList b) = some ib) : AllOk vt (pairLex a b) := by
  unfold pairLex
  exact allOk_cons (lexOk_sym _ _) (allOk_cons (lexOk_sym _ _) (allOk_cons (lexOk_name _ _ _ ha)
    (allOk_cons (lexOk_sym _ _) (allOk_cons (lexOk_name _ _ _ hb) (allOk_cons (lexOk_sym _ _) allOk_nil)))))

theorem allOk_names (vt : VarTable) (nm : Nat → List Char) (idf : Nat → Nat) : ∀ (vs : List Nat),
    (∀ v ∈ vs, vt.lookup (String.ofList (nm v)) = some (idf v)) → AllOk vt (namesLex (vs.map nm))
  | [], _ => allOk_nil
  | [v], h => by
    simp only [List.map_cons, List.map_nil, namesLex]
    exact allOk_cons (lexOk_name _ _ _ (h v (by simp))) allOk_nil
  | v :: w :: r, h => by
    have ih := allOk_names vt nm idf (w :: r) (fun x hx => h x (by simp [hx]))
    simp only [List.map_cons, namesLex] at ih ⊢
    exact allOk_cons (lexOk_name _ _ _ (h v (by simp))) (allOk_cons (lexOk_sym _ _) ih)

theorem allOk_copies (vt : VarTable) (cp : Nat → List Char) (cid : Nat → Nat) : ∀ (comp : List (Nat × Nat)),
    (∀ p ∈ comp, vt.lookup (String.ofList (cp p.1)) = some (cid p.1) ∧ vt.lookup (String.ofList (cp p.2)) = some (cid p.2)) →
    AllOk vt (copiesLex cp comp)
  | [], _ => allOk_nil
  | [p], h => by
    simp only [copiesLex]
    exact allOk_pair vt _ _ _ _ (h p (by simp)).1 (h p (by simp)).2
  | p :: q :: r, h => by
    have ih := allOk_copies vt cp cid (q :: r) (fun x hx => h x (by simp [hx]))
    simp only [copiesLex]
    exact allOk_append (allOk_pair vt _ _ _ _ (h p (by simp)).1 (h p (by simp)).2) (allOk_cons (lexOk_sym _ _) ih)


/-! ### the whole text -/

theorem lex_clique (version : String) (hv : '"' ∉ version.toList) (nm : Nat → List Char) (pre : List Char)
    (comp : List (Nat × Nat)) (vs : List Nat) (all : Bool) (hn : NamesOk nm pre vs)
    (hcomp : ∀ p ∈ comp, p.1 ∈ vs ∧ p.2 ∈ vs) :
    lexAll (chs (textOf version nm pre comp vs all)) =
      ownLex nm comp ++ (if all then [Lexeme.ident "true"] else maxLex nm (fun v => pre ++ nm v) comp vs) := by
  have hc : ∀ s : String, '"' ∉ s.toList → ∀ rest, lexAll (chs (Gen.Queens.comment s ++ rest)) = lexAll (chs rest) :=
    fun s h rest => lex_comment s h rest
  have hhdr : '"' ∉ ("Generated by max-clique-gen version " ++ version).toList := by
    simp only [String.toList_append, List.mem_append, not_or]
    exact ⟨by decide, hv⟩
  have hown : ∀ p ∈ comp, WordOk (nm p.1) ∧ WordOk (nm p.2) :=
    fun p hp => ⟨(hn.own _ (hcomp p hp).1).1, (hn.own _ (hcomp p hp).2).1⟩
  have hcopy : ∀ p ∈ comp, WordOk (pre ++ nm p.1) ∧ WordOk (pre ++ nm p.2) :=
    fun p hp => ⟨(hn.copy _ (hcomp p hp).1).1, (hn.copy _ (hcomp p hp).2).1⟩
  unfold textOf
  simp only [List.append_assoc, List.cons_append, List.nil_append]
  have ho := fun rest => lex_own nm comp rest hown
  simp only [List.append_assoc, List.cons_append] at ho
  rw [hc _ hhdr, lex_nl, hc _ (by decide), hc _ (by decide), lex_nl, ho, lex_nl]
  cases all with
  | true =>
    simp only [if_true]
    rw [lex_true]
  | false =>
    simp only [Bool.false_eq_true, if_false]
    rw [hc _ (by decide), lex_nl]
    have := lex_max nm (fun v => pre ++ nm v) comp vs (fun v hv' => (hn.own v hv').1) (fun v hv' => (hn.copy v hv').1) hcopy
    simp only [List.append_assoc, List.cons_append, List.nil_append] at this
    rw [this]

end Rsbdd.C16
