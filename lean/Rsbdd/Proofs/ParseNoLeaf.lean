/-
The parser never produces a diagram leaf: by recursion on the grammar derivation (and the
parser is sound for the grammar).  This is what makes the `unimplemented!()` arms of
`var_is_free` / `replace_var` unreachable from the tool.
-/
import Rsbdd.Proofs.ParseSound
import Rsbdd.Proofs.FreeVars

namespace Rsbdd
open Grammar

mutual
def NoLeaf : Formula → Prop
  | .not f => NoLeaf f
  | .quant _ _ f => NoLeaf f
  | .cntConst _ fs _ => NoLeafL fs
  | .cntVar _ l r => NoLeafL l ∧ NoLeafL r
  | .fix _ _ t => NoLeaf t
  | .ite c t e => NoLeaf c ∧ NoLeaf t ∧ NoLeaf e
  | .bin _ l r => NoLeaf l ∧ NoLeaf r
  | .subtree _ => False
  | _ => True
def NoLeafL : List Formula → Prop
  | [] => True
  | f :: fs => NoLeaf f ∧ NoLeafL fs
end

mutual
theorem closed_noLeaf : ∀ {ts f}, Closed ts f → NoLeaf f
  | _, _, .paren h => sub_noLeaf h
  | _, _, .cntConst h _ => by simp only [NoLeaf]; exact flist_noLeaf h
  | _, _, .cntVar h1 _ h2 => by simp only [NoLeaf]; exact ⟨flist_noLeaf h1, flist_noLeaf h2⟩
  | _, _, .true_ => by simp [NoLeaf]
  | _, _, .false_ => by simp [NoLeaf]
  | _, _, .ref => by simp [NoLeaf]
  | _, _, .var => by simp [NoLeaf]
  | _, _, .not h => by simp only [NoLeaf]; exact closed_noLeaf h
theorem open_noLeaf : ∀ {ts f}, Open ts f → NoLeaf f
  | _, _, .exists_ _ h => by simp only [NoLeaf]; exact sub_noLeaf h
  | _, _, .forall_ _ h => by simp only [NoLeaf]; exact sub_noLeaf h
  | _, _, .lfp h => by simp only [NoLeaf]; exact sub_noLeaf h
  | _, _, .gfp h => by simp only [NoLeaf]; exact sub_noLeaf h
  | _, _, .ite h1 h2 h3 => by simp only [NoLeaf]; exact ⟨sub_noLeaf h1, sub_noLeaf h2, sub_noLeaf h3⟩
  | _, _, .not h => by simp only [NoLeaf]; exact open_noLeaf h
theorem sub_noLeaf : ∀ {ts f}, Sub ts f → NoLeaf f
  | _, _, .closed h => closed_noLeaf h
  | _, _, .open_ h => open_noLeaf h
  | _, _, .bin h1 _ h2 => by simp only [NoLeaf]; exact ⟨closed_noLeaf h1, sub_noLeaf h2⟩
theorem flist_noLeaf : ∀ {ts fs}, FList ts fs → NoLeafL fs
  | _, _, .mk h => items_noLeaf h
theorem items_noLeaf : ∀ {ts fs}, Items ts fs → NoLeafL fs
  | _, _, .nil => by simp [NoLeafL]
  | _, _, .one h => by simp only [NoLeafL]; exact ⟨sub_noLeaf h, trivial⟩
  | _, _, .cons h1 h2 => by simp only [NoLeafL]; exact ⟨sub_noLeaf h1, items_noLeaf h2⟩
end

end Rsbdd
