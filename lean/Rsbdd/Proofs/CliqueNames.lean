import Rsbdd.Proofs.CliqueDerive
namespace Rsbdd.C16
open Parser C11 Gen.Clique

/-- a run of ASCII letters, digits and underscores that does not start with a digit is one name lexeme -/
theorem wordOk_ascii (w : List Char) (hne : w ≠ [])
    (hall : ∀ c ∈ w, (c.isAlpha || c.isDigit || c == '_') = true)
    (hhead : ∀ c, w.head? = some c → c.isDigit = false) : WordOk w := by
  have hword : ∀ c ∈ w, (mkCh c).wordLike = true := by
    intro c hc
    have := hall c hc
    simp only [mkCh, Ch.wordLike, asciiCls]
    by_cases hd : c.isDigit = true
    · simp [hd]
    · by_cases ha : (c.isAlpha || c == '_') = true
      · simp [hd, ha]
      · simp only [Bool.or_eq_true, not_or, Bool.not_eq_true] at ha hd this
        rcases this with (h | h) | h
        · simp [ha.1] at h
        · simp [hd] at h
        · simp [ha.2] at h
  refine ⟨⟨by simpa [chs] using hne, ?_, ?_⟩, ?_⟩
  · intro x hx
    obtain ⟨c, hc, rfl⟩ := List.mem_map.mp hx
    exact hword c hc
  · intro x hx
    cases w with
    | nil => exact absurd rfl hne
    | cons c w' =>
      simp only [chs_cons, List.head?_cons, Option.some.injEq] at hx
      subst hx
      have hd := hhead c rfl
      have hc := hall c (by simp)
      refine ⟨by simp only [mkCh, asciiCls, hd]; simp only [Bool.false_eq_true, if_false]; split <;> simp, ?_⟩
      -- a letter, digit or underscore starts no symbol
      simp only [mkCh]
      intro hm
      have hsym : ∀ x ∈ symHeads, (x.isAlpha || x.isDigit || x == '_') = false := by decide
      rw [hsym c hm] at hc
      exact absurd hc (by simp)
  · intro x hx
    cases w with
    | nil => exact absurd rfl hne
    | cons c w' =>
      simp only [chs_cons, List.head?_cons, Option.some.injEq] at hx
      subst hx
      have hc := hall c (by simp)
      simp only [mkCh]
      intro h; subst h; simp at hc

end Rsbdd.C16
