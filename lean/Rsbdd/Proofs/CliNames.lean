import Rsbdd.Proofs.CliRead6
import Rsbdd.Proofs.Reimport4
namespace Rsbdd.C10
open BDD Cli Formula Parser Cli.Text

theorem nameOk_star : NameOk "*" := by
  refine ⟨by decide, ?_⟩
  intro c hc
  have : c = '*' := by simpa using hc
  subst this; decide

theorem nameOk_append_star {n : String} (h : NameOk n) : NameOk (n ++ "*") := by
  refine ⟨?_, ?_⟩
  · simp [String.toList_append]
  · intro c hc
    simp only [String.toList_append, List.mem_append] at hc
    rcases hc with hc | hc
    · exact h.2 c hc
    · exact nameOk_star.2 c hc

theorem lineOf_names : ∀ (vals : List Cell) (names : List String), (∀ n ∈ names, NameOk n) →
    ∀ n ∈ lineOf vals names, NameOk n
  | [], _, _, n, hn => by simp [lineOf] at hn
  | _ :: _, [], _, n, hn => by simp [lineOf] at hn
  | v :: vals, m :: names, h, n, hn => by
    have ih := lineOf_names vals names (fun k hk => h k (by simp [hk])) n
    unfold lineOf at hn ih
    simp only [List.zip_cons_cons, List.filterMap_cons] at hn
    cases v with
    | any =>
      simp only [List.mem_cons] at hn
      rcases hn with e | hn
      · rw [e]; exact nameOk_append_star (h m (by simp))
      · exact ih hn
    | t =>
      simp only [List.mem_cons] at hn
      rcases hn with e | hn
      · rw [e]; exact h m (by simp)
      · exact ih hn
    | f => exact ih hn

theorem trueVarRows_names (cols : List Nat) (names : List String) (h : ∀ n ∈ names, NameOk n) :
    ∀ (b : BDD) (vals : List Cell) (vl : List (List String)), trueVarRows cols names b vals = some vl →
      ∀ l ∈ vl, ∀ n ∈ l, NameOk n := by
  intro b
  induction b with
  | F => intro vals vl hv l hl; simp [trueVarRows] at hv; subst hv; simp at hl
  | T =>
    intro vals vl hv l hl
    simp [trueVarRows] at hv; subst hv
    simp at hl; subst hl
    exact lineOf_names vals names h
  | node lo s hi ihl ihh =>
    intro vals vl hv l hl
    simp only [trueVarRows] at hv
    split at hv
    · simp at hv
    · rename_i i _
      split at hv
      · rename_i a b' ha hb
        cases hv
        rcases List.mem_append.mp hl with hl | hl
        · exact ihh _ _ ha l hl
        · exact ihl _ _ hb l hl
      · simp at hv

/-- names scanned from a text whose separators of the output format are not word characters -/
theorem names_ok {cs : List Ch} {ord : List (String × Nat)} {ts : List Token} {p : ParsedInfo}
    (clsOf : Char → Cls) (hsep : ∀ c ∈ ['\n', '|', ' ', ';', ','], clsOf c = .other) (hbr : clsOf '{' = .other)
    (hcls : ∀ x ∈ cs, x.cls = clsOf x.c)
    (ho : OrderingOk ord) (ht : tokenize cs ord = some ts) (hp : newWithEnv ts = some p) :
    ∀ n ∈ p.vars.map (·.1), NameOk n := by
  intro n hn
  obtain ⟨_, hI, _⟩ := C11.vars_are_idents clsOf hbr hcls ho ht hp n hn
  refine ⟨?_, ?_⟩
  · intro e
    apply hI.ne
    simp [C11.reCh, e]
  · intro c hc
    have hw := hI.word ⟨c, clsOf c⟩ (by simp only [C11.reCh, List.mem_map]; exact ⟨c, hc, rfl⟩)
    have key : ∀ d ∈ ['\n', '|', ' ', ';', ','], c ≠ d := by
      intro d hd e
      subst e
      have := hsep c hd
      simp only [Ch.wordLike, this] at hw
      simp only [List.mem_cons, List.not_mem_nil, or_false] at hd
      rcases hd with rfl | rfl | rfl | rfl | rfl <;> simp at hw
    exact ⟨key _ (by simp), key _ (by simp), key _ (by simp), key _ (by simp), key _ (by simp)⟩

end Rsbdd.C10
