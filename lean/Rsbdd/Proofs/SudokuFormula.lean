import Rsbdd.Proofs.SudokuParse
import Rsbdd.Thm.C08
namespace Rsbdd.C17
open Parser C11 Gen.Sudoku Grammar Formula BDD
open Gen.Queens (natStr comment)

theorem filterMap_congr' {α β : Type} {f g : α → Option β} : ∀ (l : List α), (∀ a ∈ l, f a = g a) → l.filterMap f = l.filterMap g
  | [], _ => rfl
  | a :: l, h => by
    simp only [List.filterMap_cons]
    rw [h a (by simp), filterMap_congr' l (fun b hb => h b (by simp [hb]))]

theorem hints_eq (root : Nat) (puzzle : List Char) (vid : Nat → Nat → Nat) :
    hints root (digitsOf puzzle) vid = (hintsL root puzzle).map (SLine.formula vid) := by
  unfold hints hintsL
  rw [List.map_filterMap]
  apply filterMap_congr'
  intro i _
  simp only [digitsOf, List.getElem?_map]
  cases h : puzzle[i]? with
  | none => rfl
  | some ch =>
    simp only [Option.map_some, digitOf]
    by_cases hd : ch.isDigit = true <;> simp [hd, SLine.formula]

theorem formula_eq (root : Nat) (puzzle : List Char) (vid : Nat → Nat → Nat) :
    formula root (digitsOf puzzle) vid =
      (allLines root puzzle).foldr (fun l acc => .bin .and (l.formula vid) acc) .true_ := by
  have hmap : (allLines root puzzle).map (SLine.formula vid) =
      hints root (digitsOf puzzle) vid ++ cellConstraints root vid ++ rowColConstraints root vid ++ boxConstraints root vid := by
    unfold allLines
    rw [List.map_append, List.map_append, List.map_append, hints_eq]
    congr 1
    · congr 1
      · congr 1
        simp [cellsL, cellConstraints, SLine.formula, List.map_map, Function.comp_def]
      · simp [rowColL, rowColConstraints, SLine.formula, List.map_flatMap]
    · simp [boxL, boxConstraints, SLine.formula, List.map_flatMap, List.map_map, Function.comp_def]
  unfold formula
  rw [← hmap, List.foldr_map]

end Rsbdd.C17
