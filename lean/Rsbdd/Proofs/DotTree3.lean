import Rsbdd.Proofs.DotTree2
namespace Rsbdd.DotText
open Dot
open Gen.Queens (natStr)
open Cli.Text (joinCommaSp namesOfV NameOk Clean namesOfV_join)

theorem ofList_toList (n : String) : String.ofList n.toList = n := by simp

theorem readHead_simple : readHead (headText .not) = some .not ∧ readHead (headText .ite) = some .ite ∧
    readHead (headText .false_) = some .false_ ∧ readHead (headText .true_) = some .true_ ∧
    readHead (headText .subtree) = some .subtree := by decide

theorem readHead_bin (op : BinOp) : readHead (headText (.bin op)) = some (.bin op) := by cases op <;> decide
theorem readHead_cntVar (op : CntOp) : readHead (headText (.cntVar op)) = some (.cntVar op) := by cases op <;> decide

theorem readHead_var (n : String) : readHead (headText (.var n)) = some (.var n) := by
  simp [readHead, headText, stripPrefix, List.isPrefixOf]

theorem readHead_ref (n : String) : readHead (headText (.ref n)) = some (.ref n) := by
  simp [readHead, headText, stripPrefix, List.isPrefixOf]

theorem readHead_fix (n : String) (g : Bool) : readHead (headText (.fix n g)) = some (.fix n g) := by
  cases g <;> simp [readHead, headText, stripPrefix, List.isPrefixOf]

theorem readHead_quant (q : Quant) (ns : List String) (h : ∀ n ∈ ns, NameOk n) :
    readHead (headText (.quant q ns)) = some (.quant q ns) := by
  have hs : stripSuffix [']'] (joinCommaSp ns ++ [']']) = some (joinCommaSp ns) := stripSuffix_append _ _
  have hn := namesOfV_join ns h
  cases q <;> simp [readHead, headText, quantText, stripPrefix, List.isPrefixOf, hs, hn]

theorem readHead_cntConst (op : CntOp) (n : Nat) : readHead (headText (.cntConst op n)) = some (.cntConst op n) := by
  have hd := readDec_natStr n
  cases op <;>
    simp [readHead, headText, cntText, binText, stripPrefix, List.isPrefixOf, binOfText, cntOfText, List.takeWhile, hd]

end Rsbdd.DotText
