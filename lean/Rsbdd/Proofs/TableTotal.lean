/-
`to_free_index` never fails on a variable the evaluated diagram tests: such a variable has a
free occurrence (Proofs/FreeVars), a free occurrence comes from a `Var` token of the text
(recursion on the grammar derivation), so it is listed in `vars`, passes the `var_is_free`
filter, and is found among the free variables.
-/
import Rsbdd.Proofs.ParseNoLeaf

namespace Rsbdd
open Grammar Formula BDD

mutual
/-- with references allowed: a free occurrence makes `var_is_free` answer true -/
theorem fv_imp_varIsFree (z : Nat) : ∀ f : Formula, NoLeaf f → FV z f → varIsFree z f = true
  | .var v, _, h => by simp only [FV] at h; simp [varIsFree, h]
  | .not f, hn, h => by simp only [varIsFree]; exact fv_imp_varIsFree z f hn h
  | .quant _ vs f, hn, h => by
    simp only [FV] at h
    have := fv_imp_varIsFree z f hn h.2
    simp [varIsFree, this, h.1]
  | .cntConst _ fs _, hn, h => by simp only [varIsFree]; exact fvl_imp_varIsFreeL z fs hn h
  | .cntVar _ l r, hn, h => by
    simp only [FV] at h
    simp only [varIsFree, Bool.or_eq_true]
    exact h.elim (fun a => Or.inl (fvl_imp_varIsFreeL z l hn.1 a)) (fun a => Or.inr (fvl_imp_varIsFreeL z r hn.2 a))
  | .fix v _ t, hn, h => by
    simp only [FV] at h
    rcases h with ⟨hv, ht⟩ | hl
    · simp [varIsFree, hv, fv_imp_varIsFree z t hn ht]
    · exact absurd hl (not_leafV_of_noLeaf z t hn)
  | .ite c t e, hn, h => by
    simp only [FV] at h
    simp only [varIsFree, Bool.or_eq_true]
    rcases h with h | h | h
    · exact Or.inl (Or.inl (fv_imp_varIsFree z c hn.1 h))
    · exact Or.inl (Or.inr (fv_imp_varIsFree z t hn.2.1 h))
    · exact Or.inr (fv_imp_varIsFree z e hn.2.2 h)
  | .bin _ l r, hn, h => by
    simp only [FV] at h
    simp only [varIsFree, Bool.or_eq_true]
    exact h.elim (fun a => Or.inl (fv_imp_varIsFree z l hn.1 a)) (fun a => Or.inr (fv_imp_varIsFree z r hn.2 a))
  | .subtree _, hn, _ => by simp [NoLeaf] at hn
  | .ref _, _, _ => by simp [varIsFree]
  | .false_, _, h => by simp [FV] at h
  | .true_, _, h => by simp [FV] at h
theorem fvl_imp_varIsFreeL (z : Nat) : ∀ fs : List Formula, NoLeafL fs → FVL z fs → varIsFreeL z fs = true
  | [], _, h => by simp [FVL] at h
  | f :: fs, hn, h => by
    simp only [FVL] at h
    simp only [varIsFreeL, Bool.or_eq_true]
    exact h.elim (fun a => Or.inl (fv_imp_varIsFree z f hn.1 a)) (fun a => Or.inr (fvl_imp_varIsFreeL z fs hn.2 a))
theorem not_leafV_of_noLeaf (z : Nat) : ∀ f : Formula, NoLeaf f → ¬ LeafV z f
  | .not f, h => by simp only [LeafV]; exact not_leafV_of_noLeaf z f h
  | .quant _ vs f, h => by simp only [LeafV]; exact fun h' => not_leafV_of_noLeaf z f h h'.2
  | .cntConst _ fs _, h => by simp only [LeafV]; exact not_leafVL_of_noLeafL z fs h
  | .cntVar _ l r, h => by
    simp only [LeafV]
    exact fun h' => h'.elim (not_leafVL_of_noLeafL z l h.1) (not_leafVL_of_noLeafL z r h.2)
  | .fix _ _ t, h => by simp only [LeafV]; exact not_leafV_of_noLeaf z t h
  | .ite c t e, h => by
    simp only [LeafV]
    exact fun h' => h'.elim (not_leafV_of_noLeaf z c h.1)
      (fun h'' => h''.elim (not_leafV_of_noLeaf z t h.2.1) (not_leafV_of_noLeaf z e h.2.2))
  | .bin _ l r, h => by
    simp only [LeafV]
    exact fun h' => h'.elim (not_leafV_of_noLeaf z l h.1) (not_leafV_of_noLeaf z r h.2)
  | .subtree _, h => by simp [NoLeaf] at h
  | .ref _, _ => by simp [LeafV]
  | .false_, _ => by simp [LeafV]
  | .true_, _ => by simp [LeafV]
  | .var _, _ => by simp [LeafV]
theorem not_leafVL_of_noLeafL (z : Nat) : ∀ fs : List Formula, NoLeafL fs → ¬ LeafVL z fs
  | [], _ => by simp [LeafVL]
  | f :: fs, h => by
    simp only [LeafVL]
    exact fun h' => h'.elim (not_leafV_of_noLeaf z f h.1) (not_leafVL_of_noLeafL z fs h.2)
end

mutual
theorem ordLeaves_of_noLeaf : ∀ f : Formula, NoLeaf f → OrdLeaves f
  | .not f, h => by simp only [OrdLeaves]; exact ordLeaves_of_noLeaf f h
  | .quant _ _ f, h => by simp only [OrdLeaves]; exact ordLeaves_of_noLeaf f h
  | .cntConst _ fs _, h => by simp only [OrdLeaves]; exact ordLeavesL_of_noLeafL fs h
  | .cntVar _ l r, h => by
    simp only [OrdLeaves]; exact ⟨ordLeavesL_of_noLeafL l h.1, ordLeavesL_of_noLeafL r h.2⟩
  | .fix _ _ t, h => by simp only [OrdLeaves]; exact ordLeaves_of_noLeaf t h
  | .ite c t e, h => by
    simp only [OrdLeaves]
    exact ⟨ordLeaves_of_noLeaf c h.1, ordLeaves_of_noLeaf t h.2.1, ordLeaves_of_noLeaf e h.2.2⟩
  | .bin _ l r, h => by
    simp only [OrdLeaves]; exact ⟨ordLeaves_of_noLeaf l h.1, ordLeaves_of_noLeaf r h.2⟩
  | .subtree _, h => by simp [NoLeaf] at h
  | .ref _, _ => by simp [OrdLeaves]
  | .false_, _ => by simp [OrdLeaves]
  | .true_, _ => by simp [OrdLeaves]
  | .var _, _ => by simp [OrdLeaves]
theorem ordLeavesL_of_noLeafL : ∀ fs : List Formula, NoLeafL fs → OrdLeavesL fs
  | [], _ => by simp [OrdLeavesL]
  | f :: fs, h => by
    simp only [OrdLeavesL]; exact ⟨ordLeaves_of_noLeaf f h.1, ordLeavesL_of_noLeafL fs h.2⟩
end

/-- some `Var` token with id `z` occurs in the list -/
def HasVarTok (z : Nat) (ts : List Token) : Prop := ∃ n, Token.var n z ∈ ts

theorem hasVarTok_append_left {z : Nat} {a b : List Token} (h : HasVarTok z a) : HasVarTok z (a ++ b) :=
  h.elim (fun n hn => ⟨n, by simp [hn]⟩)
theorem hasVarTok_append_right {z : Nat} {a b : List Token} (h : HasVarTok z b) : HasVarTok z (a ++ b) :=
  h.elim (fun n hn => ⟨n, by simp [hn]⟩)
theorem hasVarTok_cons {z : Nat} {t : Token} {a : List Token} (h : HasVarTok z a) : HasVarTok z (t :: a) :=
  h.elim (fun n hn => ⟨n, by simp [hn]⟩)

mutual
theorem closed_fv_tok (z : Nat) : ∀ {ts f}, Closed ts f → FV z f → HasVarTok z ts
  | _, _, .paren h, hf => hasVarTok_cons (hasVarTok_append_left (sub_fv_tok z h hf))
  | _, _, .cntConst h _, hf => by
    simp only [FV] at hf; exact hasVarTok_append_left (flist_fv_tok z h hf)
  | _, _, .cntVar h1 _ h2, hf => by
    simp only [FV] at hf
    rcases hf with hf | hf
    · exact hasVarTok_append_left (flist_fv_tok z h1 hf)
    · exact hasVarTok_append_right (hasVarTok_cons (flist_fv_tok z h2 hf))
  | _, _, .true_, hf => by simp [FV] at hf
  | _, _, .false_, hf => by simp [FV] at hf
  | _, _, .ref, hf => by simp [FV] at hf
  | _, _, @Closed.var n id, hf => by simp only [FV] at hf; subst hf; exact ⟨n, by simp⟩
  | _, _, .not h, hf => by simp only [FV] at hf; exact hasVarTok_cons (closed_fv_tok z h hf)
theorem open_fv_tok (z : Nat) : ∀ {ts f}, Open ts f → FV z f → HasVarTok z ts
  | _, _, .exists_ _ h, hf => by
    simp only [FV] at hf
    exact hasVarTok_cons (hasVarTok_append_right (hasVarTok_cons (sub_fv_tok z h hf.2)))
  | _, _, .forall_ _ h, hf => by
    simp only [FV] at hf
    exact hasVarTok_cons (hasVarTok_append_right (hasVarTok_cons (sub_fv_tok z h hf.2)))
  | _, _, .lfp h, hf => by
    simp only [FV] at hf
    rcases hf with hf | hl
    · exact hasVarTok_cons (hasVarTok_cons (hasVarTok_cons (sub_fv_tok z h hf.2)))
    · exact absurd hl (not_leafV_of_noLeaf z _ (sub_noLeaf h))
  | _, _, .gfp h, hf => by
    simp only [FV] at hf
    rcases hf with hf | hl
    · exact hasVarTok_cons (hasVarTok_cons (hasVarTok_cons (sub_fv_tok z h hf.2)))
    · exact absurd hl (not_leafV_of_noLeaf z _ (sub_noLeaf h))
  | _, _, .ite h1 h2 h3, hf => by
    simp only [FV] at hf
    rcases hf with hf | hf | hf
    · exact hasVarTok_cons (hasVarTok_append_left (hasVarTok_append_left (sub_fv_tok z h1 hf)))
    · exact hasVarTok_cons (hasVarTok_append_left (hasVarTok_append_right (hasVarTok_cons (sub_fv_tok z h2 hf))))
    · exact hasVarTok_cons (hasVarTok_append_right (hasVarTok_cons (sub_fv_tok z h3 hf)))
  | _, _, .not h, hf => by simp only [FV] at hf; exact hasVarTok_cons (open_fv_tok z h hf)
theorem sub_fv_tok (z : Nat) : ∀ {ts f}, Sub ts f → FV z f → HasVarTok z ts
  | _, _, .closed h, hf => closed_fv_tok z h hf
  | _, _, .open_ h, hf => open_fv_tok z h hf
  | _, _, .bin h1 _ h2, hf => by
    simp only [FV] at hf
    rcases hf with hf | hf
    · exact hasVarTok_append_left (closed_fv_tok z h1 hf)
    · exact hasVarTok_append_right (hasVarTok_cons (sub_fv_tok z h2 hf))
theorem flist_fv_tok (z : Nat) : ∀ {ts fs}, FList ts fs → FVL z fs → HasVarTok z ts
  | _, _, .mk h, hf => hasVarTok_cons (hasVarTok_append_left (items_fv_tok z h hf))
theorem items_fv_tok (z : Nat) : ∀ {ts fs}, Items ts fs → FVL z fs → HasVarTok z ts
  | _, _, .nil, hf => by simp [FVL] at hf
  | _, _, .one h, hf => by
    simp only [FVL] at hf
    rcases hf with hf | hf
    · exact sub_fv_tok z h hf
    · simp [FVL] at hf
  | _, _, .cons h1 h2, hf => by
    simp only [FVL] at hf
    rcases hf with hf | hf
    · exact hasVarTok_append_left (sub_fv_tok z h1 hf)
    · exact hasVarTok_append_right (hasVarTok_cons (items_fv_tok z h2 hf))
end

end Rsbdd

namespace Rsbdd
open Grammar Formula BDD Parser

theorem extractVars_foldl_mem (z : Nat) : ∀ (ts : List Token) (acc : List (String × Nat)),
    ((∃ p ∈ acc, p.2 = z) ∨ HasVarTok z ts) →
    ∃ p ∈ ts.foldl (fun acc t => match t with
      | .var n id => if acc.any (fun p => p.2 == id) then acc else acc ++ [(n, id)]
      | _ => acc) acc, p.2 = z := by
  intro ts
  induction ts with
  | nil =>
    intro acc h
    rcases h with h | ⟨n, hn⟩
    · exact h
    · simp at hn
  | cons t ts ih =>
    intro acc h
    simp only [List.foldl_cons]
    apply ih
    rcases h with ⟨p, hp, hz⟩ | ⟨n, hn⟩
    · left
      cases t <;> try exact ⟨p, hp, hz⟩
      rename_i nm id
      simp only
      split
      · exact ⟨p, hp, hz⟩
      · exact ⟨p, by simp [hp], hz⟩
    · simp at hn
      rcases hn with rfl | hn
      · left
        simp only
        split
        · rename_i hany
          simp only [List.any_eq_true, beq_iff_eq] at hany
          obtain ⟨p, hp, hz⟩ := hany
          exact ⟨p, hp, hz⟩
        · exact ⟨(n, z), by simp, rfl⟩
      · right; exact ⟨n, hn⟩

theorem mem_insertById {x y : String × Nat} {l : List (String × Nat)} :
    y ∈ insertById x l ↔ y = x ∨ y ∈ l := by
  induction l with
  | nil => simp [insertById]
  | cons a as ih =>
    simp only [insertById]
    split
    · simp
    · simp [ih]; constructor
      · rintro (h | h | h)
        · exact Or.inr (Or.inl h)
        · exact Or.inl h
        · exact Or.inr (Or.inr h)
      · rintro (h | h | h)
        · exact Or.inr (Or.inl h)
        · exact Or.inl h
        · exact Or.inr (Or.inr h)

theorem mem_sortById {y : String × Nat} {l : List (String × Nat)} : y ∈ sortById l ↔ y ∈ l := by
  induction l with
  | nil => simp [sortById]
  | cons a as ih =>
    simp only [sortById, List.foldr_cons] at ih ⊢
    rw [mem_insertById, ih]; simp

/-- the column lookup succeeds for every variable the evaluated diagram tests: the
"… is not a free variable" / index-out-of-bounds panic of the printing code cannot fire -/
theorem toFreeIndex_total {cs : List Ch} {ord : List (String × Nat)} {ts : List Token}
    {p : ParsedInfo} {iters fuel : Nat} {b : BDD}
    (ht : tokenize cs ord = some ts) (hp : newWithEnv ts = some p)
    (he : evalF iters fuel p.formula = some b) :
    ∀ z ∈ support b, (toFreeIndex p z).isSome = true := by
  intro z hz
  unfold newWithEnv at hp
  split at hp
  · simp at hp
  · rename_i f hf
    cases hp
    simp only at he
    obtain ⟨pre, hd, hs⟩ := parse_text_sound ht hf
    have hnl := sub_noLeaf hs
    have hfv := ((support_free_aux iters fuel).1 f b (ordLeaves_of_noLeaf f hnl) he).2 z hz
    have hfree := fv_imp_varIsFree z f hnl hfv
    have htok : HasVarTok z ts := by rw [hd]; exact hasVarTok_append_left (sub_fv_tok z hs hfv)
    obtain ⟨q, hq, hqz⟩ := extractVars_foldl_mem z ts [] (Or.inr htok)
    have hq' : q ∈ sortById (extractVars ts) := mem_sortById.mpr hq
    simp only [toFreeIndex]
    rw [List.findIdx?_isSome]
    simp only [List.any_eq_true, beq_iff_eq]
    exact ⟨q, by simp [List.mem_filter, hq', hqz, hfree], hqz⟩

end Rsbdd
