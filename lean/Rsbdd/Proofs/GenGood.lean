/-
The formulas the generators emit contain no fixed points and no diagram leaves: the evaluator
terminates on them and its answer denotes their meaning (C01 composed with the generators).
-/
import Rsbdd.Thm.C01
import Rsbdd.Proofs.GenSem

namespace Rsbdd
open BDD Formula

theorem goodFL_map_var (cells : List Nat) : GoodFL (cells.map Formula.var) := by
  induction cells with
  | nil => simp [GoodFL]
  | cons c cs ih => simp [GoodFL, GoodF, ih]

theorem goodF_conj (fs : List Formula) (h : ∀ f ∈ fs, GoodF f) :
    GoodF (fs.foldr (fun f acc => .bin .and f acc) .true_) := by
  induction fs with
  | nil => simp [GoodF]
  | cons f fs ih =>
    simp only [List.foldr_cons, GoodF]
    exact ⟨h f (by simp), ih (fun g hg => h g (by simp [hg]))⟩

theorem noFixL_map_var (cells : List Nat) : C01.NoFixL (cells.map Formula.var) := by
  induction cells with
  | nil => simp [C01.NoFixL]
  | cons c cs ih => simp [C01.NoFixL, C01.NoFix, ih]

theorem noFix_conj (fs : List Formula) (h : ∀ f ∈ fs, C01.NoFix f) :
    C01.NoFix (fs.foldr (fun f acc => .bin .and f acc) .true_) := by
  induction fs with
  | nil => simp [C01.NoFix]
  | cons f fs ih =>
    simp only [List.foldr_cons, C01.NoFix]
    exact ⟨h f (by simp), ih (fun g hg => h g (by simp [hg]))⟩

/-- a formula without fixed points whose leaves are good: the evaluator returns, and what it
returns is a canonical diagram of the formula's meaning -/
theorem solved (f : Formula) (hg : GoodF f) (hn : C01.NoFix f) (iters : Nat) :
    ∃ b, evalF iters (depth f) f = some b ∧ ROBDD b ∧ ∀ σ, (eval b σ = true ↔ Sem f FEnv.empty σ) := by
  obtain ⟨b, hb⟩ := C01.evalF_total_nofix iters f hn
  exact ⟨b, hb, C01.evalF_sound iters _ f hg b hb⟩

end Rsbdd
