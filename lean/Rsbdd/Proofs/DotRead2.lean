import Rsbdd.Proofs.DotRead1
namespace Rsbdd.DotText

theorem unescape_escapeChar (c : Char) (rest : List Char) :
    unescape (escapeChar c ++ rest) = (unescape rest).map (c :: ·) := by
  unfold escapeChar
  split
  · rename_i h; subst h; simp only [List.cons_append, List.nil_append]; conv => lhs; rw [unescape.eq_def]
    simp
  split
  · rename_i h; subst h; simp only [List.cons_append, List.nil_append]; conv => lhs; rw [unescape.eq_def]
    simp
  split
  · rename_i h; subst h; simp only [List.cons_append, List.nil_append]; conv => lhs; rw [unescape.eq_def]
    simp
  split
  · rename_i h; subst h; simp only [List.cons_append, List.nil_append]; conv => lhs; rw [unescape.eq_def]
    simp
  split
  · rename_i h; subst h; simp only [List.cons_append, List.nil_append]; conv => lhs; rw [unescape.eq_def]
    simp
  split
  · rename_i h; subst h; simp only [List.cons_append, List.nil_append]; conv => lhs; rw [unescape.eq_def]
    simp
  split
  · rename_i h1 h2 h3 h4 h5 h6 h7
    rw [List.singleton_append]; conv => lhs; rw [unescape.eq_def]
    simp [h6]
  · simp only [List.cons_append, List.nil_append, List.append_assoc, List.singleton_append]
    conv => lhs; rw [unescape.eq_def]
    simp only [ite_true]
    have hx := readHex_toHex c.toNat rest
    rw [if_neg (by decide), if_neg (by decide), if_neg (by decide), if_neg (by decide), if_neg (by decide),
      if_neg (by decide)]
    split
    · rename_i n rest' heq
      rw [hx] at heq
      cases heq
      simp [Char.ofNat_toNat]
    · rename_i heq
      rw [hx] at heq
      cases heq

end Rsbdd.DotText
