import Rsbdd.Model.DotText
namespace Rsbdd.DotText

theorem hexDigit_facts : ∀ d : Fin 16, hexDigit d.val ≠ '}' ∧ hexVal (hexDigit d.val) = some d.val ∧
    hexDigit d.val ≠ '\n' := by decide

theorem readHex_digits : ∀ (fuel n : Nat), n < fuel → ∀ (acc : Nat) (tail : List Char),
    readHex (hexDigits fuel n ++ tail) acc = readHex tail (acc * 16 ^ (hexDigits fuel n).length + n)
  | 0, _, h, _, _ => by omega
  | fuel + 1, n, h, acc, tail => by
    unfold hexDigits
    split
    · rename_i hn
      obtain ⟨h1, h2, _⟩ := hexDigit_facts ⟨n, hn⟩
      simp only at h1 h2
      simp [readHex, h1, h2]
    · rename_i hn
      have hlt : n / 16 < fuel := by omega
      have hm : n % 16 < 16 := Nat.mod_lt _ (by decide)
      obtain ⟨h1, h2, _⟩ := hexDigit_facts ⟨n % 16, hm⟩
      simp only at h1 h2
      rw [List.append_assoc, readHex_digits fuel (n / 16) hlt]
      simp only [List.singleton_append, readHex, h1, ite_false, h2, List.length_append, List.length_singleton]
      congr 1
      rw [Nat.pow_succ]
      have := Nat.div_add_mod n 16
      rw [Nat.add_mul, Nat.mul_assoc]
      omega

theorem readHex_toHex (n : Nat) (rest : List Char) : readHex (toHex n ++ '}' :: rest) 0 = some (n, rest) := by
  unfold toHex
  rw [readHex_digits (n + 1) n (by omega)]
  simp [readHex]

theorem nl_not_mem_hexDigits : ∀ (fuel n : Nat), '\n' ∉ hexDigits fuel n
  | 0, _ => by simp [hexDigits]
  | fuel + 1, n => by
    unfold hexDigits
    split
    · rename_i hn
      have := (hexDigit_facts ⟨n, hn⟩).2.2
      simp only at this
      simp [Ne.symm this]
    · have hm : n % 16 < 16 := Nat.mod_lt _ (by decide)
      have := (hexDigit_facts ⟨n % 16, hm⟩).2.2
      simp only at this
      simp [nl_not_mem_hexDigits fuel (n / 16), Ne.symm this]

end Rsbdd.DotText
