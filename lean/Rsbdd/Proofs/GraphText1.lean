import Rsbdd.Model.Gen.GraphText
import Rsbdd.Proofs.CliRead6
namespace Rsbdd.Gen.GraphText
open Cli.Text (splitAcc allSome splitAcc_segs allSome_map)

/-- vertex names as the tools print them: not empty, free of the separators of both formats -/
def VName (s : List Char) : Prop := s ≠ [] ∧ ∀ c ∈ s, c ≠ ',' ∧ c ≠ '\n' ∧ c ≠ ' '

theorem splitFirst_found (d : Char) : ∀ (a rest acc : List Char), d ∉ a →
    splitFirst d (a ++ d :: rest) acc = some (acc.reverse ++ a, rest)
  | [], rest, acc, _ => by simp [splitFirst]
  | c :: a, rest, acc, h => by
    have hc : c ≠ d := fun e => h (by simp [e])
    have := splitFirst_found d a rest (c :: acc) (fun hm => h (List.mem_cons_of_mem _ hm))
    simp [splitFirst, hc, this]

theorem readCsvLine_line (e : Edge) (h1 : VName e.1) (h2 : VName e.2) :
    readCsvLine (e.1 ++ [','] ++ e.2) = some e := by
  have hs := splitFirst_found ',' e.1 e.2 [] (fun hm => (h1.2 _ hm).1 rfl)
  simp only [List.append_assoc, List.singleton_append, List.reverse_nil, List.nil_append] at hs ⊢
  unfold readCsvLine
  rw [hs]
  have hb : ',' ∉ e.2 := fun hm => (h2.2 _ hm).1 rfl
  simp [h1.1, h2.1, hb]

theorem csvLine_eq (e : Edge) : csvLine e = (e.1 ++ [','] ++ e.2) ++ ['\n'] := by simp [csvLine]

/-- the edge list `random_graph_gen` prints is read back exactly -/
theorem readCsv_csvText (es : List Edge) (h : ∀ e ∈ es, VName e.1 ∧ VName e.2) : readCsv (csvText es) = some es := by
  have htext : csvText es = (es.map (fun e => e.1 ++ [','] ++ e.2)).flatMap (· ++ ['\n']) := by
    simp only [csvText, List.flatMap_map]
    congr 1
  have hsplit := splitAcc_segs '\n' (es.map (fun e => e.1 ++ [','] ++ e.2)) [] (by
    intro l hl
    obtain ⟨e, he, rfl⟩ := List.mem_map.mp hl
    intro hm
    simp only [List.mem_append, List.mem_singleton] at hm
    rcases hm with (hm | hm) | hm
    · exact ((h e he).1.2 _ hm).2.1 rfl
    · exact absurd hm (by decide)
    · exact ((h e he).2.2 _ hm).2.1 rfl)
  simp only [List.append_nil, splitAcc, List.reverse_nil] at hsplit
  unfold readCsv
  rw [htext, hsplit]
  simp only [List.getLast?_append, List.getLast?_singleton, Option.some_or, List.dropLast_concat, ne_eq,
    not_true_eq_false, ite_false, List.map_map]
  have := allSome_map (readCsvLine ∘ fun (e : Edge) => e.1 ++ [','] ++ e.2) id es
    (fun e he => readCsvLine_line e (h e he).1 (h e he).2)
  simpa using this

end Rsbdd.Gen.GraphText
