import Rsbdd.Proofs.QueensLex
namespace Rsbdd
open Parser C11

/-- a name at the current position: the scanner takes the whole run up to the first character outside `[\w']` -/
theorem scanStep_word (x : Ch) (w' : List Ch) (hw : IdentW (x :: w')) (hb : x.c ≠ '{')
    (d : Ch) (hd : d.wordLike = false) (rest : List Ch) :
    scanStep x (w' ++ d :: rest) = (some (.ident (chars (x :: w'))), d :: rest) := by
  obtain ⟨hdig, hsym⟩ := hw.head x rfl
  have hm := (matchSymbol_none_iff x (w' ++ d :: rest)).mpr hsym
  have hrun := takeWhile_run Ch.wordLike (x :: w') d rest hw.word hd
  rw [List.cons_append] at hrun
  have hv1 : (x.cls == Cls.digit) = false := by simpa using hdig
  have hv2 : (x.c == '{') = false := by simpa using hb
  have hv3 : x.wordLike = true := hw.word x (by simp)
  unfold scanStep; rw [hm]
  simp only [hv1, hv2, hv3, Bool.false_eq_true, if_false, if_true, hrun.1, hrun.2]

theorem lexAll_word (x : Ch) (w' : List Ch) (hw : IdentW (x :: w')) (hb : x.c ≠ '{')
    (d : Ch) (hd : d.wordLike = false) (rest : List Ch) :
    lexAll (x :: w' ++ d :: rest) = Lexeme.ident (chars (x :: w')) :: lexAll (d :: rest) := by
  rw [List.cons_append, lexAll_cons, scanStep_word x w' hw hb d hd rest]
  rfl

/-- a comment whose body is any run of characters (of any classes) without a double quote -/
theorem step_commentCh (body : List Ch) (h : ∀ y ∈ body, y.c ≠ '"') (rest : List Ch) :
    scanStep (mkCh '"') (body ++ mkCh '"' :: rest) = (none, rest) := by
  have hd : (body ++ mkCh '"' :: rest).dropWhile (fun y => y.c != '"') = mkCh '"' :: rest := by
    induction body with
    | nil => simp [mkCh]
    | cons b bs ih =>
      have hb : b.c ≠ '"' := h b (by simp)
      simp [hb] at ih ⊢
      exact ih (fun y hy => h y (by simp [hy]))
  have hm := (matchSymbol_none_iff (mkCh '"') (body ++ mkCh '"' :: rest)).mpr (by decide)
  unfold scanStep; rw [hm]
  have e1 : ((mkCh '"').cls == Cls.digit) = false := by simp [mkCh, asciiCls]
  have e2 : ((mkCh '"').c == '{') = false := by simp [mkCh]
  have e3 : (mkCh '"').wordLike = false := by simp [mkCh, Ch.wordLike, asciiCls]
  have e4 : ((mkCh '"').c == '"') = true := by simp [mkCh]
  simp only [e1, e2, e3, e4, Bool.false_eq_true, if_false, if_true, hd]

theorem lex_commentCh (body : List Ch) (h : ∀ y ∈ body, y.c ≠ '"') (rest : List Ch) :
    lexAll (mkCh '"' :: body ++ mkCh '"' :: mkCh '\n' :: rest) = lexAll rest := by
  rw [List.cons_append, lexAll_cons, step_commentCh body h]
  simp only [Option.toList_none, List.nil_append]
  rw [lexAll_cons, step_nl]; rfl

end Rsbdd
