import Rsbdd.Proofs.SudokuLex1
import Rsbdd.Model.Gen.CliqueText
namespace Rsbdd
open Parser C11 Gen.Clique
open Gen.Sudoku (joinComma)
open Gen.Queens (comment)

/-- a run of characters that the scanner reads as one name -/
structure WordOk (w : List Char) : Prop where
  ident : IdentW (chs w)
  brace : ∀ x, (chs w).head? = some x → x.c ≠ '{'

theorem lex_word (w : List Char) (hw : WordOk w) (d : Char) (hd : (mkCh d).wordLike = false) (rest : List Char) :
    lexAll (chs (w ++ d :: rest)) = Lexeme.ident (String.ofList w) :: lexAll (chs (d :: rest)) := by
  cases w with
  | nil => exact absurd rfl hw.ident.ne
  | cons x w' =>
    have e : chs ((x :: w') ++ d :: rest) = mkCh x :: chs w' ++ mkCh d :: chs rest := by simp
    have hI : IdentW (mkCh x :: chs w') := by simpa using hw.ident
    rw [e, lexAll_word (mkCh x) (chs w') hI (hw.brace (mkCh x) (by simp)) (mkCh d) hd (chs rest)]
    have : mkCh x :: chs w' = chs (x :: w') := by simp
    rw [this, chars_chs]
    rfl

theorem step_minus (rest : List Ch) : scanStep (mkCh '-') rest = (some (.sym .not), rest) := by
  simp [scanStep, mkCh, matchSymbol, symbolTable, stripPrefix]
theorem step_openP (rest : List Ch) : scanStep (mkCh '(') rest = (some (.sym .openParen), rest) := by
  simp [scanStep, mkCh, matchSymbol, symbolTable, stripPrefix]
theorem step_closeP (rest : List Ch) : scanStep (mkCh ')') rest = (some (.sym .closeParen), rest) := by
  simp [scanStep, mkCh, matchSymbol, symbolTable, stripPrefix]
theorem step_hash (rest : List Ch) : scanStep (mkCh '#') rest = (some (.sym .hash), rest) := by
  simp [scanStep, mkCh, matchSymbol, symbolTable, stripPrefix]
theorem step_implies (rest : List Ch) :
    scanStep (mkCh '=') (mkCh '>' :: rest) = (some (.sym .implies), rest) := by
  simp [scanStep, mkCh, matchSymbol, symbolTable, stripPrefix]
theorem step_geq (rest : List Ch) :
    scanStep (mkCh '>') (mkCh '=' :: rest) = (some (.sym .geq), rest) := by
  simp [scanStep, mkCh, matchSymbol, symbolTable, stripPrefix]

end Rsbdd
