import Rsbdd.Proofs.SudokuLex4
import Rsbdd.Proofs.QueensOrd
namespace Rsbdd
open Parser C11 Gen.Sudoku Grammar Formula
open Gen.Queens (natStr comment)

theorem varStr_notKeyword (c d : Nat) : NotKeyword (varStr c d) := by
  unfold NotKeyword
  rw [Option.map_eq_none_iff, List.find?_eq_none]
  intro p hp
  simp only [beq_iff_eq, varStr]
  intro h
  have : p.1.toList = varName c d := by rw [h, String.toList_ofList]
  rw [varName_eq] at this
  simp only [keywordTable, List.mem_cons, List.not_mem_nil, or_false] at hp
  rcases hp with rfl | rfl | rfl | rfl | rfl | rfl | rfl | rfl | rfl | rfl | rfl | rfl | rfl | rfl | rfl | rfl | rfl | rfl | rfl | rfl | rfl | rfl | rfl <;> simp at this

/-- digits contain no underscore, so the first underscore after the leading one ends the cell number -/
theorem natStr_append_us_inj {a b : Nat} {r s : List Char}
    (h : natStr a ++ '_' :: r = natStr b ++ '_' :: s) : a = b ∧ r = s := by
  have key : ∀ (x y : List Char) (r s : List Char), '_' ∉ x → '_' ∉ y → x ++ '_' :: r = y ++ '_' :: s → x = y ∧ r = s := by
    intro x
    induction x with
    | nil =>
      intro y r s _ hy h
      cases y with
      | nil => simp at h; exact ⟨rfl, h⟩
      | cons c y => simp at h; exact absurd (by simp [← h.1]) hy
    | cons c x ih =>
      intro y r s hx hy h
      cases y with
      | nil => simp at h; exact absurd (by simp [h.1]) hx
      | cons c' y =>
        simp only [List.cons_append, List.cons.injEq] at h
        obtain ⟨e1, e2⟩ := ih y r s (fun m => hx (by simp [m])) (fun m => hy (by simp [m])) h.2
        exact ⟨by rw [h.1, e1], e2⟩
  have ha : '_' ∉ natStr a := by unfold natStr; rw [Nat.toList_repr]; exact Nat.underscore_not_in_toDigits
  have hb : '_' ∉ natStr b := by unfold natStr; rw [Nat.toList_repr]; exact Nat.underscore_not_in_toDigits
  obtain ⟨e, er⟩ := key _ _ r s ha hb h
  exact ⟨natStr_inj e, er⟩

theorem varStr_inj {c d c' d' : Nat} (h : varStr c d = varStr c' d') : c = c' ∧ d = d' := by
  have := congrArg String.toList h
  simp only [varStr, String.toList_ofList] at this
  rw [varName_eq, varName_eq] at this
  simp only [List.cons.injEq, true_and] at this
  obtain ⟨e1, e2⟩ := natStr_append_us_inj this
  simp only [List.cons.injEq, true_and] at e2
  exact ⟨e1, natStr_inj e2⟩

end Rsbdd
