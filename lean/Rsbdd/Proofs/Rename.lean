/-
Renaming of variable ids.

 * `sem_rename`: the meaning of a formula does not depend on how its variables are numbered
   (for a bijection of the ids; free, bound and fixed-point names alike);
 * `sub_rename`: the grammar does not look at ids — renaming the ids of the tokens renames the tree;
 * `tokenize_lockstep`: two tokenizations of one text (under two orderings) differ only in the ids;
 * `exists_bij_of_pairs`: a finite one-to-one correspondence of ids extends to a bijection.
-/
import Rsbdd.Proofs.SemSubst
import Rsbdd.Proofs.ParseNoLeaf
import Rsbdd.Proofs.ParseComplete
import Rsbdd.Proofs.VarIds

set_option linter.unusedSimpArgs false
namespace Rsbdd
open BDD Formula Parser Grammar

structure Bij where
  f : Nat → Nat
  g : Nat → Nat
  fg : ∀ x, f (g x) = x
  gf : ∀ x, g (f x) = x

theorem Bij.inj (π : Bij) {a b : Nat} (h : π.f a = π.f b) : a = b := by
  have := congrArg π.g h; rwa [π.gf, π.gf] at this

def swapN (c b x : Nat) : Nat := if x = c then b else if x = b then c else x

theorem swapN_swapN (c b x : Nat) : swapN c b (swapN c b x) = x := by
  unfold swapN
  by_cases h1 : x = c
  · subst h1
    by_cases h2 : b = x
    · simp [h2]
    · simp [h2]
  · by_cases h2 : x = b
    · subst h2; simp [h1]
    · simp [h1, h2]

def Bij.id : Bij := ⟨fun x => x, fun x => x, fun _ => rfl, fun _ => rfl⟩

/-- post-compose with a transposition -/
def Bij.thenSwap (π : Bij) (c b : Nat) : Bij :=
  ⟨fun x => swapN c b (π.f x), fun y => π.g (swapN c b y),
   fun x => by simp [π.fg, swapN_swapN], fun x => by simp [swapN_swapN, π.gf]⟩

/-- a finite one-to-one correspondence between ids extends to a bijection of all ids -/
theorem exists_bij_of_pairs : ∀ (ps : List (Nat × Nat)),
    (∀ p ∈ ps, ∀ q ∈ ps, (p.1 = q.1 ↔ p.2 = q.2)) → ∃ π : Bij, ∀ p ∈ ps, π.f p.1 = p.2
  | [], _ => ⟨Bij.id, fun p hp => by cases hp⟩
  | (a, b) :: ps, h => by
    obtain ⟨π0, h0⟩ := exists_bij_of_pairs ps (fun p hp q hq => h p (by simp [hp]) q (by simp [hq]))
    by_cases hex : ∃ p ∈ ps, p.1 = a
    · obtain ⟨p, hp, hpa⟩ := hex
      have hb : p.2 = b := (h p (by simp [hp]) (a, b) (by simp)).mp hpa
      refine ⟨π0, fun q hq => ?_⟩
      rcases List.mem_cons.mp hq with rfl | hq'
      · rw [← hpa, ← hb]; exact h0 p hp
      · exact h0 q hq'
    · have hnb : ∀ p ∈ ps, p.2 ≠ b := by
        intro p hp e
        exact hex ⟨p, hp, (h p (by simp [hp]) (a, b) (by simp)).mpr e⟩
      refine ⟨π0.thenSwap (π0.f a) b, fun q hq => ?_⟩
      rcases List.mem_cons.mp hq with rfl | hq'
      · simp [Bij.thenSwap, swapN]
      · have hq1 : q.1 ≠ a := fun e => hex ⟨q, hq', e⟩
        have e0 := h0 q hq'
        have hne1 : q.2 ≠ π0.f a := by
          intro e
          rw [← e0] at e
          exact hq1 (π0.inj e)
        have hne2 := hnb q hq'
        simp only [Bij.thenSwap, e0, swapN, hne1, hne2, if_false]


mutual
/-- the formula with every variable id (free, bound, fixed-point name) renamed -/
def renameF (p : Nat → Nat) : Formula → Formula
  | .var v => .var (p v)
  | .quant q vs f => .quant q (vs.map p) (renameF p f)
  | .fix x i f => .fix (p x) i (renameF p f)
  | .ite a b c => .ite (renameF p a) (renameF p b) (renameF p c)
  | .not f => .not (renameF p f)
  | .bin op l r => .bin op (renameF p l) (renameF p r)
  | .cntConst op fs n => .cntConst op (renameFL p fs) n
  | .cntVar op l r => .cntVar op (renameFL p l) (renameFL p r)
  | .ref n => .ref n
  | .true_ => .true_
  | .false_ => .false_
  | .subtree b => .subtree b
def renameFL (p : Nat → Nat) : List Formula → List Formula
  | [] => []
  | f :: fs => renameF p f :: renameFL p fs
end

/-- a predicate on the renamed side, from one on the original side -/
def trPred (π : Bij) (r : Pred) : Pred := fun σ' => r (fun v => σ' (π.f v))
/-- … and back -/
def trPredInv (π : Bij) (r' : Pred) : Pred := fun τ => r' (fun w => τ (π.g w))

theorem trPred_inv (π : Bij) (r' : Pred) : trPred π (trPredInv π r') = r' := by
  funext σ'
  simp only [trPred, trPredInv, π.fg]

def trEnv (π : Bij) (ρ : FEnv) : FEnv := fun y => (ρ (π.g y)).map (trPred π)

theorem trEnv_empty (π : Bij) : trEnv π FEnv.empty = FEnv.empty := by
  funext y; simp [trEnv, FEnv.empty]

theorem trEnv_set (π : Bij) (ρ : FEnv) (x : Nat) (r : Pred) :
    trEnv π (ρ.set x r) = (trEnv π ρ).set (π.f x) (trPred π r) := by
  funext y
  simp only [trEnv, FEnv.set]
  by_cases h : y = π.f x
  · subst h; simp [π.gf]
  · have : π.g y ≠ x := fun e => h (by rw [← e, π.fg])
    simp [h, this]

theorem trEnv_remove (π : Bij) (ρ : FEnv) (vs : List Nat) :
    trEnv π (ρ.remove vs) = (trEnv π ρ).remove (vs.map π.f) := by
  funext y
  simp only [trEnv, FEnv.remove]
  by_cases h : y ∈ vs.map π.f
  · obtain ⟨v, hv, rfl⟩ := List.mem_map.mp h
    simp only [π.gf, hv, if_true, h, Option.map_none]
  · have : π.g y ∉ vs := fun e => h (List.mem_map.mpr ⟨_, e, π.fg y⟩)
    simp [h, this]

theorem binop_sem_congr (op : BinOp) {p p' q q' : Prop} (hp : p ↔ p') (hq : q ↔ q') :
    op.sem p q ↔ op.sem p' q' := by
  cases op <;> simp only [BinOp.sem, hp, hq]

mutual
/-- the meaning of a formula does not depend on how its variables are numbered -/
theorem sem_rename (π : Bij) : ∀ (f : Formula), NoLeaf f → ∀ (ρ : FEnv) (σ' : Asg),
    (Sem (renameF π.f f) (trEnv π ρ) σ' ↔ Sem f ρ (fun v => σ' (π.f v)))
  | .false_, _, _, _ => by simp [renameF, Sem]
  | .true_, _, _, _ => by simp [renameF, Sem]
  | .ref _, _, _, _ => by simp [renameF, Sem]
  | .subtree _, h, _, _ => by simp [NoLeaf] at h
  | .var v, _, ρ, σ' => by
    simp only [renameF, Sem, trEnv, π.gf]
    cases ρ v with
    | none => simp
    | some r => simp [trPred]
  | .not f, h, ρ, σ' => by
    simp only [renameF, Sem]
    exact not_congr (sem_rename π f h ρ σ')
  | .bin op l r, h, ρ, σ' => by
    simp only [renameF, Sem]
    exact binop_sem_congr op (sem_rename π l h.1 ρ σ') (sem_rename π r h.2 ρ σ')
  | .ite c t e, h, ρ, σ' => by
    simp only [renameF, Sem]
    rw [sem_rename π c h.1 ρ σ', sem_rename π t h.2.1 ρ σ', sem_rename π e h.2.2 ρ σ']
  | .cntConst op fs n, h, ρ, σ' => by
    simp only [renameF, Sem]
    constructor
    · rintro ⟨k, hk, ho⟩; exact ⟨k, (semCount_rename π fs h ρ σ' k).mp hk, ho⟩
    · rintro ⟨k, hk, ho⟩; exact ⟨k, (semCount_rename π fs h ρ σ' k).mpr hk, ho⟩
  | .cntVar op l r, h, ρ, σ' => by
    simp only [renameF, Sem]
    constructor
    · rintro ⟨k₁, k₂, h1, h2, ho⟩
      exact ⟨k₁, k₂, (semCount_rename π l h.1 ρ σ' k₁).mp h1, (semCount_rename π r h.2 ρ σ' k₂).mp h2, ho⟩
    · rintro ⟨k₁, k₂, h1, h2, ho⟩
      exact ⟨k₁, k₂, (semCount_rename π l h.1 ρ σ' k₁).mpr h1, (semCount_rename π r h.2 ρ σ' k₂).mpr h2, ho⟩
  | .quant .exists_ vs f, h, ρ, σ' => by
    simp only [renameF, Sem, ← trEnv_remove]
    constructor
    · rintro ⟨σ'', hag, hs⟩
      refine ⟨fun v => σ'' (π.f v), ?_, (sem_rename π f h (ρ.remove vs) σ'').mp hs⟩
      intro w hw
      exact hag (π.f w) (fun e => by
        obtain ⟨v, hv, ev⟩ := List.mem_map.mp e
        exact hw (π.inj ev ▸ hv))
    · rintro ⟨τ, hag, hs⟩
      refine ⟨fun w => τ (π.g w), ?_, ?_⟩
      · intro w hw
        have : π.g w ∉ vs := fun e => hw (List.mem_map.mpr ⟨_, e, π.fg w⟩)
        have := hag (π.g w) this
        simpa [π.fg] using this
      · apply (sem_rename π f h (ρ.remove vs) _).mpr
        simpa [π.gf] using hs
  | .quant .forall_ vs f, h, ρ, σ' => by
    simp only [renameF, Sem, ← trEnv_remove]
    constructor
    · intro hall τ hag
      have := hall (fun w => τ (π.g w)) (by
        intro w hw
        have : π.g w ∉ vs := fun e => hw (List.mem_map.mpr ⟨_, e, π.fg w⟩)
        have := hag (π.g w) this
        simpa [π.fg] using this)
      have := (sem_rename π f h (ρ.remove vs) _).mp this
      simpa [π.gf] using this
    · intro hall σ'' hag
      apply (sem_rename π f h (ρ.remove vs) σ'').mpr
      apply hall
      intro w hw
      exact hag (π.f w) (fun e => by
        obtain ⟨v, hv, ev⟩ := List.mem_map.mp e
        exact hw (π.inj ev ▸ hv))
  | .fix x false t, h, ρ, σ' => by
    simp only [renameF, Sem]
    constructor
    · intro hall r hr
      have := hall (trPred π r) (by
        intro σ'' hs
        rw [← trEnv_set] at hs
        exact hr _ ((sem_rename π t h (ρ.set x r) σ'').mp hs))
      exact this
    · intro hall r' hr'
      have := hall (trPredInv π r') (by
        intro τ hs
        have e : τ = fun v => (fun w => τ (π.g w)) (π.f v) := by funext v; simp [π.gf]
        rw [e] at hs
        have := (sem_rename π t h (ρ.set x (trPredInv π r')) (fun w => τ (π.g w))).mpr hs
        rw [trEnv_set, trPred_inv] at this
        exact hr' _ this)
      simpa [trPredInv, π.fg] using this
  | .fix x true t, h, ρ, σ' => by
    simp only [renameF, Sem]
    constructor
    · rintro ⟨r', hr', hσ⟩
      refine ⟨trPredInv π r', ?_, by simpa [trPredInv, π.fg] using hσ⟩
      intro τ hτ
      have e : τ = fun v => (fun w => τ (π.g w)) (π.f v) := by funext v; simp [π.gf]
      rw [e]
      apply (sem_rename π t h (ρ.set x (trPredInv π r')) (fun w => τ (π.g w))).mp
      rw [trEnv_set, trPred_inv]
      exact hr' _ hτ
    · rintro ⟨r, hr, hσ⟩
      refine ⟨trPred π r, ?_, hσ⟩
      intro σ'' hs
      rw [← trEnv_set]
      exact (sem_rename π t h (ρ.set x r) σ'').mpr (hr _ hs)
theorem semCount_rename (π : Bij) : ∀ (fs : List Formula), NoLeafL fs → ∀ (ρ : FEnv) (σ' : Asg) (k : Nat),
    (SemCount (renameFL π.f fs) (trEnv π ρ) σ' k ↔ SemCount fs ρ (fun v => σ' (π.f v)) k)
  | [], _, _, _, _ => by simp [renameFL, SemCount]
  | f :: fs, h, ρ, σ', k => by
    simp only [renameFL, SemCount]
    rw [sem_rename π f h.1 ρ σ', semCount_rename π fs h.2 ρ σ' k]
    constructor
    · rintro (⟨h1, k', e, h2⟩ | ⟨h1, h2⟩)
      · exact Or.inl ⟨h1, k', e, (semCount_rename π fs h.2 ρ σ' k').mp h2⟩
      · exact Or.inr ⟨h1, h2⟩
    · rintro (⟨h1, k', e, h2⟩ | ⟨h1, h2⟩)
      · exact Or.inl ⟨h1, k', e, (semCount_rename π fs h.2 ρ σ' k').mpr h2⟩
      · exact Or.inr ⟨h1, h2⟩
end


/-- a token with its variable id renamed -/
def renTok (p : Nat → Nat) : Token → Token
  | .var n id => .var n (p id)
  | t => t

@[simp] theorem renTok_openParen (p : Nat → Nat) : renTok p .openParen = .openParen := rfl
@[simp] theorem renTok_closeParen (p : Nat → Nat) : renTok p .closeParen = .closeParen := rfl
@[simp] theorem renTok_true_ (p : Nat → Nat) : renTok p .true_ = .true_ := rfl
@[simp] theorem renTok_false_ (p : Nat → Nat) : renTok p .false_ = .false_ := rfl
@[simp] theorem renTok_not (p : Nat → Nat) : renTok p .not = .not := rfl
@[simp] theorem renTok_exists_ (p : Nat → Nat) : renTok p .exists_ = .exists_ := rfl
@[simp] theorem renTok_forall_ (p : Nat → Nat) : renTok p .forall_ = .forall_ := rfl
@[simp] theorem renTok_hash (p : Nat → Nat) : renTok p .hash = .hash := rfl
@[simp] theorem renTok_lfp (p : Nat → Nat) : renTok p .lfp = .lfp := rfl
@[simp] theorem renTok_gfp (p : Nat → Nat) : renTok p .gfp = .gfp := rfl
@[simp] theorem renTok_if_ (p : Nat → Nat) : renTok p .if_ = .if_ := rfl
@[simp] theorem renTok_then_ (p : Nat → Nat) : renTok p .then_ = .then_ := rfl
@[simp] theorem renTok_else_ (p : Nat → Nat) : renTok p .else_ = .else_ := rfl
@[simp] theorem renTok_openSquare (p : Nat → Nat) : renTok p .openSquare = .openSquare := rfl
@[simp] theorem renTok_closeSquare (p : Nat → Nat) : renTok p .closeSquare = .closeSquare := rfl
@[simp] theorem renTok_comma (p : Nat → Nat) : renTok p .comma = .comma := rfl
@[simp] theorem renTok_var (p : Nat → Nat) (n : String) (id : Nat) : renTok p (.var n id) = .var n (p id) := rfl
@[simp] theorem renTok_countable (p : Nat → Nat) (n : Nat) : renTok p (.countable n) = .countable n := rfl
@[simp] theorem renTok_reference (p : Nat → Nat) (n : String) : renTok p (.reference n) = .reference n := rfl

theorem binOpOf_renTok (p : Nat → Nat) (t : Token) : Grammar.binOpOf (renTok p t) = Grammar.binOpOf t := by
  cases t <;> rfl
theorem cntOpOf_renTok (p : Nat → Nat) (t : Token) : Grammar.cntOpOf (renTok p t) = Grammar.cntOpOf t := by
  cases t <;> rfl

theorem vars_rename (p : Nat → Nat) : ∀ {vs ids}, Vars vs ids → Vars (vs.map (renTok p)) (ids.map p)
  | _, _, .nil => .nil
  | _, _, .one => .one
  | _, _, .cons h => by
    simp only [List.map_cons, renTok_openParen, renTok_closeParen, renTok_true_, renTok_false_, renTok_not, renTok_exists_, renTok_forall_, renTok_hash, renTok_lfp, renTok_gfp, renTok_if_, renTok_then_, renTok_else_, renTok_openSquare, renTok_closeSquare, renTok_comma, renTok_var, renTok_countable, renTok_reference]
    exact .cons (vars_rename p h)

mutual
theorem closed_rename (p : Nat → Nat) : ∀ {ts f}, Closed ts f → Closed (ts.map (renTok p)) (renameF p f)
  | _, _, .paren h => by
    simp only [List.map_cons, List.map_append, List.map_nil, renTok_openParen, renTok_closeParen, renTok_true_, renTok_false_, renTok_not, renTok_exists_, renTok_forall_, renTok_hash, renTok_lfp, renTok_gfp, renTok_if_, renTok_then_, renTok_else_, renTok_openSquare, renTok_closeSquare, renTok_comma, renTok_var, renTok_countable, renTok_reference]
    exact .paren (sub_rename p h)
  | _, _, .cntConst hl ho => by
    simp only [List.map_cons, List.map_append, List.map_nil, renTok_openParen, renTok_closeParen, renTok_true_, renTok_false_, renTok_not, renTok_exists_, renTok_forall_, renTok_hash, renTok_lfp, renTok_gfp, renTok_if_, renTok_then_, renTok_else_, renTok_openSquare, renTok_closeSquare, renTok_comma, renTok_var, renTok_countable, renTok_reference, renameF]
    exact .cntConst (flist_rename p hl) (by rw [cntOpOf_renTok]; exact ho)
  | _, _, .cntVar hl ho hr => by
    simp only [List.map_cons, List.map_append, renameF]
    exact .cntVar (flist_rename p hl) (by rw [cntOpOf_renTok]; exact ho) (flist_rename p hr)
  | _, _, .true_ => by simp only [List.map_cons, List.map_nil, renTok_openParen, renTok_closeParen, renTok_true_, renTok_false_, renTok_not, renTok_exists_, renTok_forall_, renTok_hash, renTok_lfp, renTok_gfp, renTok_if_, renTok_then_, renTok_else_, renTok_openSquare, renTok_closeSquare, renTok_comma, renTok_var, renTok_countable, renTok_reference, renameF]; exact .true_
  | _, _, .false_ => by simp only [List.map_cons, List.map_nil, renTok_openParen, renTok_closeParen, renTok_true_, renTok_false_, renTok_not, renTok_exists_, renTok_forall_, renTok_hash, renTok_lfp, renTok_gfp, renTok_if_, renTok_then_, renTok_else_, renTok_openSquare, renTok_closeSquare, renTok_comma, renTok_var, renTok_countable, renTok_reference, renameF]; exact .false_
  | _, _, .ref => by simp only [List.map_cons, List.map_nil, renTok_openParen, renTok_closeParen, renTok_true_, renTok_false_, renTok_not, renTok_exists_, renTok_forall_, renTok_hash, renTok_lfp, renTok_gfp, renTok_if_, renTok_then_, renTok_else_, renTok_openSquare, renTok_closeSquare, renTok_comma, renTok_var, renTok_countable, renTok_reference, renameF]; exact .ref
  | _, _, .var => by simp only [List.map_cons, List.map_nil, renTok_openParen, renTok_closeParen, renTok_true_, renTok_false_, renTok_not, renTok_exists_, renTok_forall_, renTok_hash, renTok_lfp, renTok_gfp, renTok_if_, renTok_then_, renTok_else_, renTok_openSquare, renTok_closeSquare, renTok_comma, renTok_var, renTok_countable, renTok_reference, renameF]; exact .var
  | _, _, .not h => by
    simp only [List.map_cons, renTok_openParen, renTok_closeParen, renTok_true_, renTok_false_, renTok_not, renTok_exists_, renTok_forall_, renTok_hash, renTok_lfp, renTok_gfp, renTok_if_, renTok_then_, renTok_else_, renTok_openSquare, renTok_closeSquare, renTok_comma, renTok_var, renTok_countable, renTok_reference, renameF]
    exact .not (closed_rename p h)
theorem open_rename (p : Nat → Nat) : ∀ {ts f}, Open ts f → Open (ts.map (renTok p)) (renameF p f)
  | _, _, .exists_ hv hs => by
    simp only [List.map_cons, List.map_append, renTok_openParen, renTok_closeParen, renTok_true_, renTok_false_, renTok_not, renTok_exists_, renTok_forall_, renTok_hash, renTok_lfp, renTok_gfp, renTok_if_, renTok_then_, renTok_else_, renTok_openSquare, renTok_closeSquare, renTok_comma, renTok_var, renTok_countable, renTok_reference, renameF]
    exact .exists_ (vars_rename p hv) (sub_rename p hs)
  | _, _, .forall_ hv hs => by
    simp only [List.map_cons, List.map_append, renTok_openParen, renTok_closeParen, renTok_true_, renTok_false_, renTok_not, renTok_exists_, renTok_forall_, renTok_hash, renTok_lfp, renTok_gfp, renTok_if_, renTok_then_, renTok_else_, renTok_openSquare, renTok_closeSquare, renTok_comma, renTok_var, renTok_countable, renTok_reference, renameF]
    exact .forall_ (vars_rename p hv) (sub_rename p hs)
  | _, _, .lfp hs => by
    simp only [List.map_cons, renTok_openParen, renTok_closeParen, renTok_true_, renTok_false_, renTok_not, renTok_exists_, renTok_forall_, renTok_hash, renTok_lfp, renTok_gfp, renTok_if_, renTok_then_, renTok_else_, renTok_openSquare, renTok_closeSquare, renTok_comma, renTok_var, renTok_countable, renTok_reference, renameF]
    exact .lfp (sub_rename p hs)
  | _, _, .gfp hs => by
    simp only [List.map_cons, renTok_openParen, renTok_closeParen, renTok_true_, renTok_false_, renTok_not, renTok_exists_, renTok_forall_, renTok_hash, renTok_lfp, renTok_gfp, renTok_if_, renTok_then_, renTok_else_, renTok_openSquare, renTok_closeSquare, renTok_comma, renTok_var, renTok_countable, renTok_reference, renameF]
    exact .gfp (sub_rename p hs)
  | _, _, .ite hc ht he => by
    simp only [List.map_cons, List.map_append, renTok_openParen, renTok_closeParen, renTok_true_, renTok_false_, renTok_not, renTok_exists_, renTok_forall_, renTok_hash, renTok_lfp, renTok_gfp, renTok_if_, renTok_then_, renTok_else_, renTok_openSquare, renTok_closeSquare, renTok_comma, renTok_var, renTok_countable, renTok_reference, renameF]
    exact .ite (sub_rename p hc) (sub_rename p ht) (sub_rename p he)
  | _, _, .not h => by
    simp only [List.map_cons, renTok_openParen, renTok_closeParen, renTok_true_, renTok_false_, renTok_not, renTok_exists_, renTok_forall_, renTok_hash, renTok_lfp, renTok_gfp, renTok_if_, renTok_then_, renTok_else_, renTok_openSquare, renTok_closeSquare, renTok_comma, renTok_var, renTok_countable, renTok_reference, renameF]
    exact .not (open_rename p h)
theorem sub_rename (p : Nat → Nat) : ∀ {ts f}, Sub ts f → Sub (ts.map (renTok p)) (renameF p f)
  | _, _, .closed h => .closed (closed_rename p h)
  | _, _, .open_ h => .open_ (open_rename p h)
  | _, _, .bin hl ho hr => by
    simp only [List.map_cons, List.map_append, renameF]
    exact .bin (closed_rename p hl) (by rw [binOpOf_renTok]; exact ho) (sub_rename p hr)
theorem flist_rename (p : Nat → Nat) : ∀ {ts fs}, FList ts fs → FList (ts.map (renTok p)) (renameFL p fs)
  | _, _, .mk h => by
    simp only [List.map_cons, List.map_append, List.map_nil, renTok_openParen, renTok_closeParen, renTok_true_, renTok_false_, renTok_not, renTok_exists_, renTok_forall_, renTok_hash, renTok_lfp, renTok_gfp, renTok_if_, renTok_then_, renTok_else_, renTok_openSquare, renTok_closeSquare, renTok_comma, renTok_var, renTok_countable, renTok_reference]
    exact .mk (items_rename p h)
theorem items_rename (p : Nat → Nat) : ∀ {ts fs}, Items ts fs → Items (ts.map (renTok p)) (renameFL p fs)
  | _, _, .nil => .nil
  | _, _, .one h => by simp only [renameFL]; exact .one (sub_rename p h)
  | _, _, .cons h hi => by
    simp only [List.map_cons, List.map_append, renTok_openParen, renTok_closeParen, renTok_true_, renTok_false_, renTok_not, renTok_exists_, renTok_forall_, renTok_hash, renTok_lfp, renTok_gfp, renTok_if_, renTok_then_, renTok_else_, renTok_openSquare, renTok_closeSquare, renTok_comma, renTok_var, renTok_countable, renTok_reference, renameFL]
    exact .cons (sub_rename p h) (items_rename p hi)
end


/-- a token with its variable id forgotten -/
def eraseId : Token → Token
  | .var n _ => .var n 0
  | t => t

/-- two tokenizations of the same lexemes differ only in the ids of the variables -/
theorem toTokens_lockstep : ∀ (ls : List Lexeme) (vt1 vt2 : VarTable) (ts1 ts2 : List Token),
    toTokens ls vt1 = some ts1 → toTokens ls vt2 = some ts2 → ts1.map eraseId = ts2.map eraseId
  | [], _, _, ts1, ts2, h1, h2 => by
    simp [toTokens] at h1 h2; subst h1; subst h2; rfl
  | .sym t :: ls, vt1, vt2, ts1, ts2, h1, h2 => by
    simp only [toTokens, Option.map_eq_some_iff] at h1 h2
    obtain ⟨r1, hr1, rfl⟩ := h1
    obtain ⟨r2, hr2, rfl⟩ := h2
    simp [toTokens_lockstep ls vt1 vt2 r1 r2 hr1 hr2]
  | .ref n :: ls, vt1, vt2, ts1, ts2, h1, h2 => by
    simp only [toTokens, Option.map_eq_some_iff] at h1 h2
    obtain ⟨r1, hr1, rfl⟩ := h1
    obtain ⟨r2, hr2, rfl⟩ := h2
    simp [toTokens_lockstep ls vt1 vt2 r1 r2 hr1 hr2]
  | .num ds :: ls, vt1, vt2, ts1, ts2, h1, h2 => by
    simp only [toTokens] at h1 h2
    cases hn : parseNumber ds with
    | none => simp [hn] at h1
    | some n =>
      simp only [hn, Option.map_eq_some_iff] at h1 h2
      obtain ⟨r1, hr1, rfl⟩ := h1
      obtain ⟨r2, hr2, rfl⟩ := h2
      simp [toTokens_lockstep ls vt1 vt2 r1 r2 hr1 hr2]
  | .ident name :: ls, vt1, vt2, ts1, ts2, h1, h2 => by
    simp only [toTokens] at h1 h2
    cases hk : (keywordTable.find? (fun p => p.1 == name)).map (·.2) with
    | some t =>
      simp only [hk, Option.map_eq_some_iff] at h1 h2
      obtain ⟨r1, hr1, rfl⟩ := h1
      obtain ⟨r2, hr2, rfl⟩ := h2
      simp [toTokens_lockstep ls vt1 vt2 r1 r2 hr1 hr2]
    | none =>
      simp only [hk] at h1 h2
      -- whatever the two tables say, both sides put a variable token with this name
      have key : ∀ (vt : VarTable) (ts : List Token),
          (match vt.lookup name with
            | some id => (toTokens ls vt).map (.var name id :: ·)
            | none => (toTokens ls { map := (name, vt.counter) :: vt.map, counter := vt.counter + 1 }).map (.var name vt.counter :: ·)) = some ts →
          ∃ vt' id r, toTokens ls vt' = some r ∧ ts = .var name id :: r := by
        intro vt ts h
        split at h
        · simp only [Option.map_eq_some_iff] at h
          obtain ⟨r, hr, rfl⟩ := h; exact ⟨_, _, r, hr, rfl⟩
        · simp only [Option.map_eq_some_iff] at h
          obtain ⟨r, hr, rfl⟩ := h; exact ⟨_, _, r, hr, rfl⟩
      obtain ⟨vt1', i1, r1, hr1, rfl⟩ := key vt1 ts1 h1
      obtain ⟨vt2', i2, r2, hr2, rfl⟩ := key vt2 ts2 h2
      simp [eraseId, toTokens_lockstep ls vt1' vt2' r1 r2 hr1 hr2]

theorem tokenize_lockstep {cs : List Ch} {o1 o2 : List (String × Nat)} {ts1 ts2 : List Token}
    (h1 : tokenize cs o1 = some ts1) (h2 : tokenize cs o2 = some ts2) : ts1.map eraseId = ts2.map eraseId := by
  simp only [tokenize, Option.map_eq_some_iff] at h1 h2
  obtain ⟨r1, hr1, rfl⟩ := h1
  obtain ⟨r2, hr2, rfl⟩ := h2
  simp [toTokens_lockstep _ _ _ r1 r2 hr1 hr2]


theorem eraseId_of_not_var {t : Token} (h : ∀ n i, t ≠ .var n i) : eraseId t = t := by
  cases t <;> first | rfl | exact absurd rfl (h _ _)

theorem renTok_of_not_var (p : Nat → Nat) {t : Token} (h : ∀ n i, t ≠ .var n i) : renTok p t = t := by
  cases t <;> first | rfl | exact absurd rfl (h _ _)

/-- token lists that agree up to ids, with ids related by `p`, are renamings of each other -/
theorem map_renTok_of_lockstep (p : Nat → Nat) : ∀ (l1 l2 : List Token), l1.map eraseId = l2.map eraseId →
    (∀ n i j, Token.var n i ∈ l1 → Token.var n j ∈ l2 → p i = j) → l2 = l1.map (renTok p)
  | [], l2, h, _ => by
    cases l2 with
    | nil => rfl
    | cons b l2 => simp at h
  | a :: l1, l2, h, hp => by
    cases l2 with
    | nil => simp at h
    | cons b l2 =>
      simp only [List.map_cons, List.cons.injEq] at h
      obtain ⟨hab, htl⟩ := h
      have ih := map_renTok_of_lockstep p l1 l2 htl
        (fun n i j hi hj => hp n i j (List.mem_cons_of_mem _ hi) (List.mem_cons_of_mem _ hj))
      simp only [List.map_cons, ← ih, List.cons.injEq, and_true]
      by_cases ha : ∃ n i, a = .var n i
      · obtain ⟨n, i, rfl⟩ := ha
        by_cases hb : ∃ n' j, b = .var n' j
        · obtain ⟨n', j, rfl⟩ := hb
          simp only [eraseId, Token.var.injEq, and_true] at hab
          subst hab
          simp only [renTok_var]
          rw [hp n i j (by simp) (by simp)]
        · have := eraseId_of_not_var (t := b) (fun n i e => hb ⟨n, i, e⟩)
          rw [this] at hab
          exact absurd ⟨n, 0, hab.symm⟩ hb
      · have e1 := eraseId_of_not_var (t := a) (fun n i e => ha ⟨n, i, e⟩)
        rw [renTok_of_not_var p (fun n i e => ha ⟨n, i, e⟩)]
        by_cases hb : ∃ n' j, b = .var n' j
        · obtain ⟨n', j, rfl⟩ := hb
          rw [e1] at hab
          exact absurd ⟨n', 0, hab⟩ ha
        · have e2 := eraseId_of_not_var (t := b) (fun n i e => hb ⟨n, i, e⟩)
          rw [e1, e2] at hab; exact hab.symm

end Rsbdd
