import Rsbdd.Proofs.Robdd

namespace Rsbdd
namespace BDD

/-! ### Derived connectives: denotation -/

theorem eval_implies (a b : BDD) (σ : Asg) :
    eval (implies a b) σ = (!(eval a σ) || eval b σ) := by
  simp [implies, eval_or, eval_not]

theorem eval_ite (a b c : BDD) (σ : Asg) :
    eval (ite a b c) σ = if eval a σ then eval b σ else eval c σ := by
  simp [ite, eval_and, eval_implies, eval_not]; cases eval a σ <;> simp

theorem eval_eq (a b : BDD) (σ : Asg) : eval (eq a b) σ = (eval a σ == eval b σ) := by
  simp [eq, eval_and, eval_implies]; cases eval a σ <;> cases eval b σ <;> rfl

theorem eval_xor (a b : BDD) (σ : Asg) : eval (xor a b) σ = (eval a σ != eval b σ) := by
  simp [xor, eval_and, eval_or, eval_not]; cases eval a σ <;> cases eval b σ <;> rfl

theorem eval_nor (a b : BDD) (σ : Asg) : eval (nor a b) σ = !(eval a σ || eval b σ) := by
  simp [nor, eval_and, eval_not]

theorem eval_nand (a b : BDD) (σ : Asg) : eval (nand a b) σ = !(eval a σ && eval b σ) := by
  simp [nand, eval_and, eval_not]

/-! ### Derived connectives: ordered / reduced -/

theorem ordFrom_implies {lo : Nat} {a b : BDD} (ha : OrdFrom lo a) (hb : OrdFrom lo b) :
    OrdFrom lo (implies a b) := ordFrom_or (ordFrom_not ha) hb
theorem reduced_implies {a b : BDD} (ha : Reduced a) (hb : Reduced b) :
    Reduced (implies a b) := reduced_or (reduced_not ha) hb

theorem ordFrom_ite {lo : Nat} {a b c : BDD} (ha : OrdFrom lo a) (hb : OrdFrom lo b)
    (hc : OrdFrom lo c) : OrdFrom lo (ite a b c) :=
  ordFrom_and (ordFrom_implies ha hb) (ordFrom_implies (ordFrom_not ha) hc)
theorem reduced_ite {a b c : BDD} (ha : Reduced a) (hb : Reduced b) (hc : Reduced c) :
    Reduced (ite a b c) :=
  reduced_and (reduced_implies ha hb) (reduced_implies (reduced_not ha) hc)

theorem ordFrom_eq {lo : Nat} {a b : BDD} (ha : OrdFrom lo a) (hb : OrdFrom lo b) :
    OrdFrom lo (eq a b) := ordFrom_and (ordFrom_implies ha hb) (ordFrom_implies hb ha)
theorem reduced_eq {a b : BDD} (ha : Reduced a) (hb : Reduced b) : Reduced (eq a b) :=
  reduced_and (reduced_implies ha hb) (reduced_implies hb ha)

theorem ordFrom_xor {lo : Nat} {a b : BDD} (ha : OrdFrom lo a) (hb : OrdFrom lo b) :
    OrdFrom lo (xor a b) :=
  ordFrom_or (ordFrom_and (ordFrom_not ha) hb) (ordFrom_and ha (ordFrom_not hb))
theorem reduced_xor {a b : BDD} (ha : Reduced a) (hb : Reduced b) : Reduced (xor a b) :=
  reduced_or (reduced_and (reduced_not ha) hb) (reduced_and ha (reduced_not hb))

theorem ordFrom_nor {lo : Nat} {a b : BDD} (ha : OrdFrom lo a) (hb : OrdFrom lo b) :
    OrdFrom lo (nor a b) := ordFrom_and (ordFrom_not ha) (ordFrom_not hb)
theorem reduced_nor {a b : BDD} (ha : Reduced a) (hb : Reduced b) : Reduced (nor a b) :=
  reduced_and (reduced_not ha) (reduced_not hb)

theorem ordFrom_nand {lo : Nat} {a b : BDD} (ha : OrdFrom lo a) (hb : OrdFrom lo b) :
    OrdFrom lo (nand a b) := ordFrom_not (ordFrom_and ha hb)
theorem reduced_nand {a b : BDD} (ha : Reduced a) (hb : Reduced b) : Reduced (nand a b) :=
  reduced_not (reduced_and ha hb)

theorem ordFrom_var (lo s : Nat) (h : lo ≤ s) : OrdFrom lo (var s) := by
  unfold var; exact ordFrom_mk h (by simp) (by simp)
theorem reduced_var (s : Nat) : Reduced (var s) := by
  unfold var; exact reduced_mk (by simp) (by simp)

/-! ### Counting -/

theorem eval_cmpCount (cmp : Int → Bool) (bs : List BDD) (n : Int) (σ : Asg) :
    eval (cmpCount cmp bs n) σ = cmp (n - (count bs σ : Nat)) := by
  induction bs generalizing n with
  | nil => simp [cmpCount, count]
  | cons b bs ih =>
    simp only [cmpCount, eval_ite, ih, count, List.filter_cons]
    cases h : eval b σ <;> simp
    congr 1; omega

theorem ordFrom_cmpCount {lo : Nat} (cmp : Int → Bool) {bs : List BDD}
    (h : ∀ b ∈ bs, OrdFrom lo b) (n : Int) : OrdFrom lo (cmpCount cmp bs n) := by
  induction bs generalizing n with
  | nil => simp [cmpCount]
  | cons b bs ih =>
    exact ordFrom_ite (h b (by simp)) (ih (fun x hx => h x (by simp [hx])) _)
      (ih (fun x hx => h x (by simp [hx])) _)

theorem reduced_cmpCount (cmp : Int → Bool) {bs : List BDD}
    (h : ∀ b ∈ bs, Reduced b) (n : Int) : Reduced (cmpCount cmp bs n) := by
  induction bs generalizing n with
  | nil => simp [cmpCount]
  | cons b bs ih =>
    exact reduced_ite (h b (by simp)) (ih (fun x hx => h x (by simp [hx])) _)
      (ih (fun x hx => h x (by simp [hx])) _)

theorem eval_cmpCountCompare (cmp : List BDD → Int → BDD) (as bs : List BDD) (n : Int)
    (σ : Asg) :
    eval (cmpCountCompare cmp as bs n) σ = eval (cmp bs (n + (count as σ : Nat))) σ := by
  induction as generalizing n with
  | nil => simp [cmpCountCompare, count]
  | cons a as ih =>
    simp only [cmpCountCompare, eval_ite, ih, count, List.filter_cons]
    cases h : eval a σ <;> simp
    congr 2; omega

theorem ordFrom_cmpCountCompare {lo : Nat} {cmp : List BDD → Int → BDD} {as bs : List BDD}
    (hcmp : ∀ n, OrdFrom lo (cmp bs n))
    (h : ∀ b ∈ as, OrdFrom lo b) (n : Int) : OrdFrom lo (cmpCountCompare cmp as bs n) := by
  induction as generalizing n with
  | nil => exact hcmp n
  | cons b as ih =>
    exact ordFrom_ite (h b (by simp)) (ih (fun x hx => h x (by simp [hx])) _)
      (ih (fun x hx => h x (by simp [hx])) _)

theorem reduced_cmpCountCompare {cmp : List BDD → Int → BDD} {as bs : List BDD}
    (hcmp : ∀ n, Reduced (cmp bs n))
    (h : ∀ b ∈ as, Reduced b) (n : Int) : Reduced (cmpCountCompare cmp as bs n) := by
  induction as generalizing n with
  | nil => exact hcmp n
  | cons b as ih =>
    exact reduced_ite (h b (by simp)) (ih (fun x hx => h x (by simp [hx])) _)
      (ih (fun x hx => h x (by simp [hx])) _)

end BDD
end Rsbdd
