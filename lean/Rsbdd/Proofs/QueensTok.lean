import Rsbdd.Proofs.QueensLex
import Rsbdd.Proofs.Reimport4
import Rsbdd.Thm.C08
namespace Rsbdd
open Parser Gen.Queens C11 Grammar

/-- the token a lexeme becomes under a table that already knows every name -/
def tokOf (vt : VarTable) : Lexeme → Token
  | .sym t => t
  | .ref n => .reference n
  | .num ds => .countable ((parseNumber ds).getD 0)
  | .ident name =>
    match (keywordTable.find? (fun p => p.1 == name)).map (·.2) with
    | some t => t
    | none => .var name ((vt.lookup name).getD 0)

theorem toTokens_fixed : ∀ (ls : List Lexeme) (vt : VarTable),
    (∀ name, Lexeme.ident name ∈ ls → NotKeyword name → (vt.lookup name).isSome = true) →
    (∀ ds, Lexeme.num ds ∈ ls → (parseNumber ds).isSome = true) →
    toTokens ls vt = some (ls.map (tokOf vt))
  | [], vt, _, _ => by simp [toTokens]
  | .sym t :: ls, vt, h1, h2 => by
    simp only [toTokens, List.map_cons, tokOf]
    rw [toTokens_fixed ls vt (fun n hn => h1 n (by simp [hn])) (fun d hd => h2 d (by simp [hd]))]; rfl
  | .ref r :: ls, vt, h1, h2 => by
    simp only [toTokens, List.map_cons, tokOf]
    rw [toTokens_fixed ls vt (fun n hn => h1 n (by simp [hn])) (fun d hd => h2 d (by simp [hd]))]; rfl
  | .num ds :: ls, vt, h1, h2 => by
    have hp := h2 ds (by simp)
    obtain ⟨k, hk⟩ := Option.isSome_iff_exists.mp hp
    simp only [toTokens, List.map_cons, tokOf, hk, Option.getD_some]
    rw [toTokens_fixed ls vt (fun n hn => h1 n (by simp [hn])) (fun d hd => h2 d (by simp [hd]))]; rfl
  | .ident name :: ls, vt, h1, h2 => by
    have ih := toTokens_fixed ls vt (fun n hn => h1 n (by simp [hn])) (fun d hd => h2 d (by simp [hd]))
    simp only [toTokens, List.map_cons, tokOf]
    cases hk : (keywordTable.find? (fun p => p.1 == name)).map (·.2) with
    | some t => simp only [ih]; rfl
    | none =>
      have := h1 name (by simp) hk
      obtain ⟨i, hi⟩ := Option.isSome_iff_exists.mp this
      simp only [hi, ih, Option.getD_some]; rfl

end Rsbdd
