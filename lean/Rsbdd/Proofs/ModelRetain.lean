import Rsbdd.Proofs.Quant

namespace Rsbdd
namespace BDD

/-! ### `model` -/

theorem var_eq_node (v : Nat) : var v = node T v F := by
  simp [var, mk, mkConst]

theorem not_var_eq_node (v : Nat) : not (var v) = node F v T := by
  simp [var_eq_node, not, mk, mkConst]

theorem and_var_of_ord {v : Nat} {c : BDD} (hc : OrdFrom (v + 1) c) (hne : c ≠ F) :
    and c (var v) = node c v F := by
  rw [var_eq_node]
  cases c with
  | F => exact absurd rfl hne
  | T => simp [and]
  | node ct cv cf =>
    have h1 : ¬ cv < v := by have := hc.1; omega
    have h2 : v < cv := by have := hc.1; omega
    rw [and]; simp [h1, h2, and, mk, mkConst]

theorem and_not_var_of_ord {v : Nat} {c : BDD} (hc : OrdFrom (v + 1) c) (hne : c ≠ F) :
    and (not (var v)) c = node F v c := by
  rw [not_var_eq_node]
  cases c with
  | F => exact absurd rfl hne
  | T => simp [and]
  | node ct cv cf =>
    have h2 : v < cv := by have := hc.1; omega
    rw [and]; simp [h2, and, mk, mkConst]

theorem model_node_def (t f : BDD) (v : Nat) :
    model (node t v f) =
      if model t ≠ F then and (model t) (var v)
      else if model f ≠ F then and (not (var v)) (model f) else F := by
  by_cases h1 : model t = F <;> by_cases h2 : model f = F <;> simp [model, h1, h2]

/-- structural characterisation of `model` on ordered diagrams -/
theorem model_node {v : Nat} {t f : BDD} (ht : OrdFrom (v + 1) (model t))
    (hf : OrdFrom (v + 1) (model f)) :
    model (node t v f) =
      if model t ≠ F then node (model t) v F
      else if model f ≠ F then node F v (model f) else F := by
  rw [model_node_def]
  split
  · rename_i h; exact and_var_of_ord ht h
  · split
    · rename_i h; exact and_not_var_of_ord hf h
    · rfl

theorem ordFrom_model {lo : Nat} {f : BDD} (hf : OrdFrom lo f) : OrdFrom lo (model f) := by
  induction f generalizing lo with
  | F => trivial
  | T => trivial
  | node t v f' iht ihf =>
    obtain ⟨h1, h2, h3⟩ := hf
    rw [model_node (iht h2) (ihf h3)]
    split
    · exact ⟨h1, iht h2, trivial⟩
    · split
      · exact ⟨h1, trivial, ihf h3⟩
      · trivial

theorem reduced_model {lo : Nat} {f : BDD} (hf : OrdFrom lo f) : Reduced (model f) := by
  induction f generalizing lo with
  | F => trivial
  | T => trivial
  | node t v f' iht ihf =>
    obtain ⟨h1, h2, h3⟩ := hf
    rw [model_node (ordFrom_model h2) (ordFrom_model h3)]
    split
    · rename_i h; exact ⟨h, iht h2, trivial⟩
    · split
      · rename_i h; exact ⟨fun e => h e.symm, trivial, ihf h3⟩
      · trivial

theorem isCube_model {lo : Nat} {f : BDD} (hf : OrdFrom lo f) (hne : model f ≠ F) :
    IsCube (model f) := by
  induction f generalizing lo with
  | F => exact absurd rfl hne
  | T => trivial
  | node t v f' iht ihf =>
    obtain ⟨h1, h2, h3⟩ := hf
    rw [model_node (ordFrom_model h2) (ordFrom_model h3)] at hne ⊢
    split
    · rename_i h; exact Or.inl ⟨rfl, iht h2 h⟩
    · rename_i h
      rw [if_neg h] at hne
      split
      · rename_i h'; exact Or.inr ⟨rfl, ihf h3 h'⟩
      · rename_i h'; rw [if_neg h'] at hne; exact absurd rfl hne

theorem eval_model_imp (f : BDD) (σ : Asg) (h : eval (model f) σ = true) : eval f σ = true := by
  induction f with
  | F => exact h
  | T => rfl
  | node t v f' iht ihf =>
    rw [model_node_def] at h
    split at h
    · simp [eval_and] at h; simp [h.2, iht h.1]
    · split at h
      · simp [eval_and, eval_not] at h; simp [h.1, ihf h.2]
      · simp at h

theorem mem_support_model {lo x : Nat} {f : BDD} (hf : OrdFrom lo f) (h : x ∈ support (model f)) :
    x ∈ support f := by
  induction f generalizing lo with
  | F => exact h
  | T => exact h
  | node t v f' iht ihf =>
    obtain ⟨h1, h2, h3⟩ := hf
    rw [model_node (ordFrom_model h2) (ordFrom_model h3)] at h
    split at h
    · simp [support] at h ⊢; rcases h with h | h
      · exact Or.inl h
      · exact Or.inr (Or.inl (iht h2 h))
    · split at h
      · simp [support] at h ⊢; rcases h with h | h
        · exact Or.inl h
        · exact Or.inr (Or.inr (ihf h3 h))
      · simp [support] at h

theorem model_eq_F_of_unsat {lo : Nat} {f : BDD} (ho : OrdFrom lo f) (hr : Reduced f)
    (h : ∀ σ, eval f σ = false) : model f = F := by
  rw [const_false_of_robdd ho hr h]; rfl

theorem unsat_of_model_eq_F {lo : Nat} {f : BDD} (ho : OrdFrom lo f) (h : model f = F) :
    ∀ σ, eval f σ = false := by
  induction f generalizing lo with
  | F => intro σ; rfl
  | T => simp [model] at h
  | node t v f' iht ihf =>
    obtain ⟨h1, h2, h3⟩ := ho
    rw [model_node (ordFrom_model h2) (ordFrom_model h3)] at h
    split at h
    · simp at h
    · rename_i ht
      split at h
      · simp at h
      · rename_i hf
        simp at ht hf
        intro σ; simp [iht h2 ht σ, ihf h3 hf σ]

/-! ### `infer` -/

theorem infer_eq_tt_iff (a : BDD) (v : Nat) :
    infer a v = (true, true) ↔ implies a (var v) = T := by
  unfold infer; split <;> simp_all

/-! ### `retain` -/

theorem isConst_iff (b : BDD) : b.isConst = true ↔ b = T ∨ b = F := by
  cases b <;> simp [isConst, isChoice]

theorem ordFrom_retainAux {lo : Nat} (ft : Bool) {f : BDD} (hf : OrdFrom lo f) :
    OrdFrom lo (retainAux ft f) := by
  induction f generalizing lo with
  | F => trivial
  | T => trivial
  | node l s r ihl ihr =>
    obtain ⟨h1, h2, h3⟩ := hf
    have hl := ihl h2; have hr := ihr h3
    have hmk := ordFrom_mk h1 hl hr
    simp only [retainAux]
    split
    · split
      · exact ordFrom_mono (by omega) hr
      · exact hmk
    · split
      · split
        · exact ordFrom_mono (by omega) hl
        · exact hmk
      · exact hmk

theorem reduced_retainAux (ft : Bool) {f : BDD} (hf : Reduced f) : Reduced (retainAux ft f) := by
  induction f with
  | F => trivial
  | T => trivial
  | node l s r ihl ihr =>
    obtain ⟨_, h2, h3⟩ := hf
    have hl := ihl h2; have hr := ihr h3
    have hmk : Reduced (mk (retainAux ft l) s (retainAux ft r)) := reduced_mk hl hr
    simp only [retainAux]
    split
    · split
      · exact hr
      · exact hmk
    · split
      · split
        · exact hl
        · exact hmk
      · exact hmk

theorem mem_support_retainAux {x : Nat} (ft : Bool) {f : BDD} (h : x ∈ support (retainAux ft f)) :
    x ∈ support f := by
  induction f with
  | F => exact h
  | T => exact h
  | node l s r ihl ihr =>
    have hmk : x ∈ support (mk (retainAux ft l) s (retainAux ft r)) → x ∈ support (node l s r) := by
      intro h
      rcases mem_support_mk h with h | h | h
      · simp [support, h]
      · simp [support, ihl h]
      · simp [support, ihr h]
    simp only [retainAux] at h
    split at h
    · split at h
      · simp [support, ihr h]
      · exact hmk h
    · split at h
      · split at h
        · simp [support, ihl h]
        · exact hmk h
      · exact hmk h

/-- filter True: the result is implied by the source -/
theorem eval_retainAux_true (f : BDD) (σ : Asg) (h : eval f σ = true) :
    eval (retainAux true f) σ = true := by
  induction f with
  | F => exact h
  | T => rfl
  | node l s r ihl ihr =>
    have hmk : eval (mk (retainAux true l) s (retainAux true r)) σ = true := by
      rw [eval_mk]; rw [eval_node] at h
      split <;> rename_i hs <;> simp [hs] at h
      · exact ihl h
      · exact ihr h
    simp only [retainAux]
    split
    · rename_i hc
      split
      · rename_i hx
        -- left is the constant `F`
        simp only [Bool.and_eq_true, isConst_iff] at hc
        have hlF : retainAux true l = F := by
          rcases hc.1 with e | e
          · simp [e, isTrue] at hx
          · exact e
        rw [eval_node] at h
        split at h
        · have := ihl h; rw [hlF] at this; simp at this
        · exact ihr h
      · exact hmk
    · split
      · rename_i hc
        split
        · rename_i hx
          simp only [Bool.and_eq_true, isConst_iff] at hc
          have hrF : retainAux true r = F := by
            rcases hc.1 with e | e
            · simp [e, isTrue] at hx
            · exact e
          rw [eval_node] at h
          split at h
          · exact ihl h
          · have := ihr h; rw [hrF] at this; simp at this
        · exact hmk
      · exact hmk

/-- filter False: the result implies the source -/
theorem eval_retainAux_false (f : BDD) (σ : Asg) (h : eval (retainAux false f) σ = true) :
    eval f σ = true := by
  induction f with
  | F => exact h
  | T => rfl
  | node l s r ihl ihr =>
    have hmk : eval (mk (retainAux false l) s (retainAux false r)) σ = true →
        eval (node l s r) σ = true := by
      intro h
      rw [eval_mk] at h; rw [eval_node]
      split <;> rename_i hs <;> simp [hs] at h
      · exact ihl h
      · exact ihr h
    simp only [retainAux] at h
    split at h
    · rename_i hc
      split at h
      · rename_i hx
        -- left is the constant `T`
        simp only [Bool.and_eq_true, isConst_iff] at hc
        have hlT : retainAux false l = T := by
          rcases hc.1 with e | e
          · exact e
          · simp [e, isTrue] at hx
        rw [eval_node]
        split
        · apply ihl; rw [hlT]; rfl
        · exact ihr h
      · exact hmk h
    · split at h
      · rename_i hc
        split at h
        · rename_i hx
          simp only [Bool.and_eq_true, isConst_iff] at hc
          have hrT : retainAux false r = T := by
            rcases hc.1 with e | e
            · exact e
            · simp [e, isTrue] at hx
          rw [eval_node]
          split
          · exact ihl h
          · apply ihr; rw [hrT]; rfl
        · exact hmk h
      · exact hmk h

end BDD
end Rsbdd
