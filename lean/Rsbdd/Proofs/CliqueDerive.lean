import Rsbdd.Proofs.CliqueCanon
namespace Rsbdd.C16
open Parser C11 Gen.Clique Grammar Formula BDD
open Gen.Sudoku (joinComma)

theorem allOk_flatMap {α : Type} {vt : VarTable} (f : α → List Lexeme) : ∀ (l : List α), (∀ a ∈ l, AllOk vt (f a)) → AllOk vt (l.flatMap f)
  | [], _ => allOk_nil
  | a :: l, h => by
    simp only [List.flatMap_cons]
    exact allOk_append (h a (by simp)) (allOk_flatMap f l (fun b hb => h b (by simp [hb])))

theorem not_notKeyword_true : ¬ NotKeyword "true" := by unfold NotKeyword; decide
theorem not_notKeyword_forall : ¬ NotKeyword "forall" := by unfold NotKeyword; decide
theorem tokOf_true (vt : VarTable) : tokOf vt (Lexeme.ident "true") = Token.true_ := by simp [tokOf, keywordTable]
theorem tokOf_forall (vt : VarTable) : tokOf vt (Lexeme.ident "forall") = Token.forall_ := by simp [tokOf, keywordTable]

theorem copiesToks_eq (cs : Nat → String) (cid : Nat → Nat) : ∀ (comp : List (Nat × Nat)),
    copiesToks cs cid comp =
      (match comp.map (fun p => (pairToks (cid p.1) (cid p.2) (cs p.1) (cs p.2),
          Formula.not (.bin .and (.var (cid p.1)) (.var (cid p.2))))) with
       | [] => []
       | c :: r => c.1 ++ r.flatMap (fun d => Token.and :: d.1))
  | [] => rfl
  | [p] => by simp [copiesToks]
  | p :: q :: r => by
    have ih := copiesToks_eq cs cid (q :: r)
    simp only [copiesToks, List.map_cons] at ih ⊢
    rw [ih]
    simp [List.flatMap_cons]


theorem nonEdge_eq (comp : List (Nat × Nat)) (var : Nat → Nat) :
    nonEdgeConstraints comp var =
      if comp.isEmpty then [Formula.true_]
      else comp.map (fun p => Formula.not (.bin .and (.var (var p.1)) (.var (var p.2)))) := by
  unfold nonEdgeConstraints
  split
  · rfl
  · apply List.map_congr_left
    rintro ⟨a, b⟩ _
    rfl

/-- the tree the canonical tokens derive, for any list `comp` of complement edges -/
def formulaOf (comp : List (Nat × Nat)) (vs : List Nat) (all : Bool) (vid cid : Nat → Nat) : Formula :=
  let own := nonEdgeConstraints comp vid
  if all then conj own .true_
  else
    conj own
      (.quant .forall_ (vs.map cid)
        (.bin .implies (antecedent (nonEdgeConstraints comp cid))
          (.cntVar .atLeast (vs.map (fun v => .var (vid v))) (vs.map (fun v => .var (cid v))))))

theorem formula_eq_formulaOf (edges : List (Nat × Nat)) (vs : List Nat) (u all : Bool) (vid cid : Nat → Nat) :
    formula edges vs u all vid cid = formulaOf (complement edges vs u) vs all vid cid := rfl

theorem sub_max (ns cs : Nat → String) (vid cid : Nat → Nat) (comp : List (Nat × Nat)) (vs : List Nat) :
    Sub (maxToks ns cs vid cid comp vs)
      (.quant .forall_ (vs.map cid)
        (.bin .implies (antecedent (nonEdgeConstraints comp cid))
          (.cntVar .atLeast (vs.map (fun v => .var (vid v))) (vs.map (fun v => .var (cid v)))))) := by
  -- the antecedent
  have hbody : Sub (if comp.isEmpty then [Token.true_] else copiesToks cs cid comp) (antecedent (nonEdgeConstraints comp cid)) := by
    by_cases he : comp.isEmpty = true
    · rw [nonEdge_eq]
      simp only [he, if_true, antecedent_single]
      exact Sub.closed Closed.true_
    · rw [nonEdge_eq]
      simp only [he, Bool.false_eq_true, if_false]
      rw [copiesToks_eq]
      have hne : comp.map (fun p => (pairToks (cid p.1) (cid p.2) (cs p.1) (cs p.2),
          Formula.not (.bin .and (.var (cid p.1)) (.var (cid p.2))))) ≠ [] := by
        cases comp with
        | nil => simp at he
        | cons _ _ => simp
      have := sub_antecedent _ hne (by
        intro c hc
        obtain ⟨p, _, rfl⟩ := List.mem_map.mp hc
        exact closed_pair _ _ _ _)
      simp only [List.map_map, Function.comp_def] at this
      exact this
  have hN : FList (Token.openSquare :: varsToks (vs.map (fun v => (ns v, vid v))) ++ [Token.closeSquare])
      (vs.map (fun v => Formula.var (vid v))) := by
    have := FList.mk (items_varsToks (vs.map (fun v => (ns v, vid v))))
    simpa [List.map_map, Function.comp_def] using this
  have hC : FList (Token.openSquare :: varsToks (vs.map (fun v => (cs v, cid v))) ++ [Token.closeSquare])
      (vs.map (fun v => Formula.var (cid v))) := by
    have := FList.mk (items_varsToks (vs.map (fun v => (cs v, cid v))))
    simpa [List.map_map, Function.comp_def] using this
  have hcnt := Closed.cntVar hN (o := Token.geq) (op := CntOp.atLeast) rfl hC
  have himp := Sub.bin (Closed.paren hbody) (o := Token.implies) (op := BinOp.implies) rfl (Sub.closed hcnt)
  have hV := vars_varsToks (vs.map (fun v => (cs v, cid v)))
  have := Sub.open_ (Open.forall_ hV himp)
  simpa [maxToks, List.map_map, Function.comp_def, List.append_assoc] using this

/-- the canonical token list derives the formula -/
theorem sub_clique (ns cs : Nat → String) (vid cid : Nat → Nat) (comp : List (Nat × Nat)) (vs : List Nat) (all : Bool) :
    Sub (ownToks ns vid comp ++ (if all then [Token.true_] else maxToks ns cs vid cid comp vs))
      (formulaOf comp vs all vid cid) := by
  -- the own constraints as closed terms
  let own : List (List Token × Formula) :=
    if comp.isEmpty then [([Token.true_], Formula.true_)]
    else comp.map (fun p => (pairToks (vid p.1) (vid p.2) (ns p.1) (ns p.2), Formula.not (.bin .and (.var (vid p.1)) (.var (vid p.2)))))
  have hclosed : ∀ c ∈ own, Closed c.1 c.2 := by
    intro c hc
    simp only [own] at hc
    split at hc
    · simp only [List.mem_singleton] at hc; subst hc; exact Closed.true_
    · obtain ⟨p, _, rfl⟩ := List.mem_map.mp hc; exact closed_pair _ _ _ _
  have htoks : own.flatMap (fun c => c.1 ++ [Token.and]) = ownToks ns vid comp := by
    simp only [own, ownToks]
    split
    · simp
    · simp [List.flatMap_map]
  have hforms : own.map (·.2) = nonEdgeConstraints comp vid := by
    rw [nonEdge_eq]
    simp only [own]
    split
    · simp
    · simp [List.map_map, Function.comp_def]
  unfold formulaOf
  cases all with
  | true =>
    simp only [if_true]
    have := sub_conj own [Token.true_] .true_ hclosed (Sub.closed Closed.true_)
    rw [htoks, hforms] at this
    exact this
  | false =>
    simp only [Bool.false_eq_true, if_false]
    have := sub_conj own _ _ hclosed (sub_max ns cs vid cid comp vs)
    rw [htoks, hforms] at this
    exact this

end Rsbdd.C16
