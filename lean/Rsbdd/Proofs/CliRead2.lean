import Rsbdd.Proofs.CliRead1
namespace Rsbdd.Cli.Text

/-- characters that cannot occur in a name: the separators of the output format -/
def Clean (s : List Char) : Prop := ∀ c ∈ s, c ≠ '\n' ∧ c ≠ '|' ∧ c ≠ ' ' ∧ c ≠ ';' ∧ c ≠ ','

def NameOk (n : String) : Prop := n.toList ≠ [] ∧ Clean n.toList

theorem clean_cellText (c : Cell) : Clean (cellText c) := by
  cases c <;> (intro x hx; simp [cellText] at hx; rcases hx with rfl | rfl | rfl | rfl | rfl <;> decide)

theorem clean_boolText (b : Bool) : Clean (boolText b) := by
  cases b <;> (intro x hx; simp [boolText] at hx; rcases hx with rfl | rfl | rfl | rfl | rfl <;> decide)

theorem cellOfText_cellText (c : Cell) : cellOfText (cellText c) = some c := by cases c <;> decide
theorem boolOfText_boolText (b : Bool) : boolOfText (boolText b) = some b := by cases b <;> decide

/-! ### one table line -/

/-- a padded cell: one blank, the text, blanks up to the width, `extra` further blanks -/
def padded (s : List Char) (w extra : Nat) : List Char := (' ' :: padRight s w) ++ List.replicate extra ' '

theorem trimCell_padded (s : List Char) (w extra : Nat) (hs : Clean s) : trimCell (padded s w extra) = some s := by
  have : padded s w extra = List.replicate 1 ' ' ++ s ++ List.replicate ((w - s.length) + extra) ' ' := by
    simp [padded, padRight]
  rw [this]
  exact trimCell_pad _ _ s (fun h => (hs _ h).2.2.1 rfl)

theorem bar_not_mem_padded (s : List Char) (w extra : Nat) (hs : Clean s) : '|' ∉ padded s w extra := by
  intro h
  simp only [padded, padRight, List.mem_cons, List.mem_append, List.mem_replicate] at h
  rcases h with (h | h | h) | h
  · exact absurd h (by decide)
  · exact (hs _ h).2.1 rfl
  · exact absurd h.2 (by decide)
  · exact absurd h.2 (by decide)

/-- a table line made of cells each closed by `|` reads back as the trimmed cells -/
theorem cellsOfLine_segs (segs : List (List Char)) (g : List Char → List Char)
    (h1 : ∀ s ∈ segs, '|' ∉ s) (h2 : ∀ s ∈ segs, trimCell s = some (g s)) :
    cellsOfLine (segs.flatMap (· ++ ['|'])) = some (segs.map g) := by
  have hs := splitAcc_segs '|' segs [] h1
  simp only [List.append_nil] at hs
  unfold cellsOfLine
  simp only [hs, splitAcc, List.reverse_nil]
  simp only [List.getLast?_append, List.getLast?_singleton, Option.some_or, List.dropLast_concat, ite_true]
  exact allSome_map _ _ _ h2

theorem trimCell_dashes (k : Nat) : trimCell (List.replicate k '-') = some (List.replicate k '-') := by
  have := trimCell_pad 0 0 (List.replicate k '-') (by simp)
  simpa using this

theorem flatMap_prefix_suffix {α : Type} (d : Char) (f : α → List Char) : ∀ l : List α,
    l.flatMap (fun x => d :: f x) ++ [d] = d :: l.flatMap (fun x => f x ++ [d])
  | [] => rfl
  | a :: l => by
    simp only [List.flatMap_cons, List.cons_append, List.append_assoc]
    rw [flatMap_prefix_suffix d f l]
    simp

/-- `splitAcc` on text whose segments are opened (not closed) by `d` -/
theorem splitAcc_opened (d : Char) : ∀ (segs : List (List Char)) (s acc : List Char), d ∉ s → (∀ t ∈ segs, d ∉ t) →
    splitAcc d (s ++ segs.flatMap (d :: ·)) acc = (acc.reverse ++ s) :: segs
  | [], s, acc, hs, _ => by simpa using splitAcc_end d s acc hs
  | t :: segs, s, acc, hs, h => by
    simp only [List.flatMap_cons, List.cons_append]
    rw [splitAcc_sep d s _ acc hs]
    have := splitAcc_opened d segs t [] (h t (by simp)) (fun u hu => h u (by simp [hu]))
    simp only [List.reverse_nil, List.nil_append] at this
    rw [this]

end Rsbdd.Cli.Text
