import Rsbdd.Proofs.CliRead3
namespace Rsbdd.Cli.Text

/-! ### `-v` and `-r` lines -/

theorem joinCommaSp_eq : ∀ (a : String) (rest : List String),
    joinCommaSp (a :: rest) = a.toList ++ (rest.map (fun n => ' ' :: n.toList)).flatMap (',' :: ·)
  | a, [] => by simp [joinCommaSp]
  | a, b :: rest => by
    simp only [joinCommaSp, joinCommaSp_eq b rest]
    simp

theorem namesOfV_join (names : List String) (h : ∀ n ∈ names, NameOk n) : namesOfV (joinCommaSp names) = some names := by
  cases names with
  | nil => simp [namesOfV, joinCommaSp]
  | cons a rest =>
    have ha := h a (by simp)
    have hne : joinCommaSp (a :: rest) ≠ [] := by
      rw [joinCommaSp_eq]
      intro e
      exact ha.1 (List.append_eq_nil_iff.mp e).1
    have hsplit := splitAcc_opened ',' (rest.map (fun n => ' ' :: n.toList)) a.toList []
      (fun hm => (ha.2 _ hm).2.2.2.2 rfl) (by
        intro t ht
        obtain ⟨n, hn, rfl⟩ := List.mem_map.mp ht
        intro hm
        rcases List.mem_cons.mp hm with e | hm
        · exact absurd e (by decide)
        · exact ((h n (by simp [hn])).2 _ hm).2.2.2.2 rfl)
    unfold namesOfV
    rw [if_neg hne, joinCommaSp_eq, hsplit]
    simp only [List.reverse_nil, List.nil_append, List.map_map]
    rw [allSome_map _ id rest (by intro n _; simp)]
    simp

theorem clean_join : ∀ (names : List String), (∀ n ∈ names, NameOk n) →
    ∀ c ∈ joinCommaSp names, c ≠ '\n' ∧ c ≠ '|' ∧ c ≠ ';'
  | [], _, c, hc => by simp [joinCommaSp] at hc
  | [a], h, c, hc => by
    have := (h a (by simp)).2 c (by simpa [joinCommaSp] using hc)
    exact ⟨this.1, this.2.1, this.2.2.2.1⟩
  | a :: b :: rest, h, c, hc => by
    simp only [joinCommaSp, List.mem_append, List.mem_cons, List.not_mem_nil, or_false] at hc
    rcases hc with (hc | rfl | rfl) | hc
    · have := (h a (by simp)).2 c hc
      exact ⟨this.1, this.2.1, this.2.2.2.1⟩
    · decide
    · decide
    · exact clean_join (b :: rest) (fun n hn => h n (by simp [hn])) c hc

theorem classify_vLine (names : List String) (h : ∀ n ∈ names, NameOk n) :
    classify (joinCommaSp names ++ [';']) = some (.v names) := by
  have hc := clean_join names h
  have hlast : (joinCommaSp names ++ [';']).getLast? = some ';' := by simp
  have hdrop : (joinCommaSp names ++ [';']).dropLast = joinCommaSp names := by simp
  cases hj : joinCommaSp names with
  | nil =>
    rw [hj] at hlast hdrop
    have := namesOfV_join names h
    rw [hj] at this
    simp only [classify, List.nil_append]
    simp [this]
  | cons x xs =>
    have hx : x ≠ '|' := (hc x (by rw [hj]; simp)).2.1
    have := namesOfV_join names h
    rw [hj] at hlast hdrop this
    unfold classify
    split
    · rename_i rest heq
      simp only [List.cons_append, List.cons.injEq] at heq
      exact absurd heq.1 hx
    · rw [if_pos hlast, hdrop, this]; rfl

theorem classify_rLine (n : String) (h : NameOk n) : classify n.toList = some (.r n) := by
  obtain ⟨hne, hcl⟩ := h
  unfold classify
  split
  · rename_i rest heq
    exact absurd rfl (hcl '|' (by rw [heq]; simp)).2.1
  · have hlast : n.toList.getLast? ≠ some ';' := by
      intro e
      have := List.mem_of_getLast? e
      exact (hcl _ this).2.2.2.1 rfl
    rw [if_neg hlast, if_neg hne]
    simp

end Rsbdd.Cli.Text
