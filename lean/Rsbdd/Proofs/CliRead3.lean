import Rsbdd.Proofs.CliRead2
namespace Rsbdd.Cli.Text

/-! ### the lines of the output, one by one -/

def headerSegs (labels : List String) : List (List Char) := labels.map (fun n => padded n.toList (1 + width n) 0)
def ruleSegs (labels : List String) : List (List Char) := labels.map (fun n => List.replicate (width n + 2) '-')
def cellSegs : List Cell → List Nat → List (List Char)
  | [], _ => []
  | c :: cs, ws => padded (cellText c) (ws.headD 0) 1 :: cellSegs cs ws.tail
def rowSegs (widths : List Nat) (r : Row) : List (List Char) :=
  cellSegs r.cells widths ++ [padded (boolText r.result) ((widths.drop r.cells.length).headD 0) 1]

def barLine (segs : List (List Char)) : List Char := '|' :: segs.flatMap (· ++ ['|'])

theorem headerLine_eq (labels : List String) : headerLine labels = barLine (headerSegs labels) ++ ['\n'] := by
  simp [headerLine, barLine, headerSegs, List.flatMap_map, padded]

theorem sepLine_eq (labels : List String) : sepLine labels = barLine (ruleSegs labels) ++ ['\n'] := by
  unfold sepLine barLine ruleSegs
  have := flatMap_prefix_suffix '|' (fun n : String => List.replicate (width n + 2) '-') labels
  rw [List.flatMap_map]
  rw [show (['|', '\n'] : List Char) = ['|'] ++ ['\n'] from rfl, ← List.append_assoc, this]

theorem cellsText_eq : ∀ (cs : List Cell) (ws : List Nat), cellsText cs ws = (cellSegs cs ws).flatMap (· ++ ['|'])
  | [], _ => rfl
  | c :: cs, ws => by
    simp only [cellsText, cellSegs, List.flatMap_cons, cellsText_eq cs ws.tail]
    simp [padded]

theorem rowLine_eq (widths : List Nat) (r : Row) : rowLine widths r = barLine (rowSegs widths r) ++ ['\n'] := by
  simp [rowLine, barLine, rowSegs, cellsText_eq, padded]

theorem cellSegs_clean : ∀ (cs : List Cell) (ws : List Nat), ∀ s ∈ cellSegs cs ws, ∃ t w e, s = padded t w e ∧ Clean t
  | [], _, s, h => by simp [cellSegs] at h
  | c :: cs, ws, s, h => by
    simp only [cellSegs, List.mem_cons] at h
    rcases h with rfl | h
    · exact ⟨_, _, _, rfl, clean_cellText c⟩
    · exact cellSegs_clean cs ws.tail s h

theorem cellSegs_trim : ∀ (cs : List Cell) (ws : List Nat), allSome ((cellSegs cs ws).map trimCell) = some (cs.map cellText)
  | [], _ => rfl
  | c :: cs, ws => by
    simp [cellSegs, allSome, trimCell_padded _ _ _ (clean_cellText c), cellSegs_trim cs ws.tail]

theorem allSome_append {α : Type} : ∀ (a b : List (Option α)) (x y : List α), allSome a = some x → allSome b = some y →
    allSome (a ++ b) = some (x ++ y)
  | [], b, x, y, ha, hb => by simp [allSome] at ha; subst ha; simpa using hb
  | none :: a, b, x, y, ha, hb => by simp [allSome] at ha
  | some v :: a, b, x, y, ha, hb => by
    simp only [allSome, Option.map_eq_some_iff] at ha
    obtain ⟨x', hx', rfl⟩ := ha
    simp [allSome, allSome_append a b x' y hx' hb]

/-- text of the form `|cell|cell|…|` with no `|` inside the cells reads back as its trimmed cells -/
theorem classify_barLine (segs : List (List Char)) (out : List (List Char))
    (h1 : ∀ s ∈ segs, '|' ∉ s) (h2 : allSome (segs.map trimCell) = some out) :
    classify (barLine segs) = some (.table out) := by
  have hs := splitAcc_segs '|' segs [] h1
  simp only [List.append_nil] at hs
  simp only [classify, barLine, cellsOfLine, hs, splitAcc, List.reverse_nil]
  simp [h2]

theorem classify_header (labels : List String) (h : ∀ n ∈ labels, NameOk n) :
    classify (barLine (headerSegs labels)) = some (.table (labels.map (·.toList))) := by
  apply classify_barLine
  · intro s hs
    obtain ⟨n, hn, rfl⟩ := List.mem_map.mp hs
    exact bar_not_mem_padded _ _ _ (h n hn).2
  · unfold headerSegs
    rw [List.map_map]
    exact allSome_map _ _ _ (fun n hn => trimCell_padded _ _ _ (h n hn).2)

theorem classify_rule (labels : List String) :
    classify (barLine (ruleSegs labels)) = some (.table (ruleSegs labels)) := by
  apply classify_barLine
  · intro s hs
    obtain ⟨n, _, rfl⟩ := List.mem_map.mp hs
    simp
  · have := allSome_map trimCell id (ruleSegs labels) (by
      intro s hs
      obtain ⟨n, _, rfl⟩ := List.mem_map.mp hs
      exact trimCell_dashes _)
    simpa using this

theorem classify_row (widths : List Nat) (r : Row) :
    classify (barLine (rowSegs widths r)) = some (.table (r.cells.map cellText ++ [boolText r.result])) := by
  apply classify_barLine
  · intro s hs
    simp only [rowSegs, List.mem_append, List.mem_singleton] at hs
    rcases hs with hs | rfl
    · obtain ⟨t, w, e, rfl, ht⟩ := cellSegs_clean _ _ s hs
      exact bar_not_mem_padded _ _ _ ht
    · exact bar_not_mem_padded _ _ _ (clean_boolText _)
  · unfold rowSegs
    rw [List.map_append]
    apply allSome_append _ _ _ _ (cellSegs_trim _ _)
    simp [allSome, trimCell_padded _ _ _ (clean_boolText r.result)]

theorem rowOfCells_row (r : Row) : rowOfCells (r.cells.map cellText ++ [boolText r.result]) = some r := by
  unfold rowOfCells
  simp only [List.getLast?_append, List.getLast?_singleton, Option.some_or, List.dropLast_concat]
  rw [List.map_map, allSome_map (cellOfText ∘ cellText) id r.cells (fun c _ => cellOfText_cellText c), boolOfText_boolText]
  simp

end Rsbdd.Cli.Text
