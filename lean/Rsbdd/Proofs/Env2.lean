import Rsbdd.Proofs.Env

namespace Rsbdd
namespace Env
open PBDD

/-- the fixed-point loop with an environment-threading transformer that refines a pure one
(in every environment extending `base`) -/
theorem fpM_post {base : Env} {tM : PBDD → M PBDD} {t : BDD → BDD}
    (ht : ∀ (x : PBDD) (env : Env), Inv env → Ext base env → Good env.table x → Post env (tM x env) (t x.erase)) :
    ∀ (k : Nat) (s : PBDD) (env : Env), Inv env → Ext base env → Good env.table s →
      let r := fpM tM k s env
      Inv r.2 ∧ Ext env r.2 ∧ r.1.map PBDD.erase = BDD.fpIter t k s.erase ∧
        ∀ p, r.1 = some p → Good r.2.table p := by
  intro k
  induction k with
  | zero => intro s env h _ _; exact ⟨h, Ext.refl _, rfl, fun p hp => by simp [fpM] at hp⟩
  | succ k ih =>
    intro s env h hx hs
    have p1 := ht s env h hx hs
    simp only [fpM, BDD.fpIter]
    by_cases he : (tM s env).1.erase = s.erase
    · have he' : t s.erase = s.erase := by rw [← p1.erase]; exact he
      simp only [he, he', if_true]
      exact ⟨p1.inv, p1.ext, rfl, fun p hp => by cases hp; exact p1.good_of_ext hs⟩
    · have he' : ¬ t s.erase = s.erase := by rw [← p1.erase]; exact he
      simp only [he, he', if_false]
      obtain ⟨i1, i2, i3, i4⟩ := ih (tM s env).1 (tM s env).2 p1.inv (hx.trans p1.ext) p1.good
      exact ⟨i1, p1.ext.trans i2, by rw [i3, p1.erase], i4⟩

theorem modelM_node_eq (p : Nat) (t : PBDD) (v : Nat) (f : PBDD) (env : Env) :
    modelM (.node p t v f) env =
      (let r1 := modelM t env
       let r2 := modelM f r1.2
       let r3 := mkConstM false r2.2
       if r1.1.erase ≠ r3.1.erase then
         let r4 := varM v r3.2
         andM r1.1 r4.1 r4.2
       else
         let r3' := mkConstM false r3.2
         if r2.1.erase ≠ r3'.1.erase then
           let r4 := varM v r3'.2
           let r5 := notM r4.1 r4.2
           andM r5.1 r2.1 r5.2
         else mkConstM false r3'.2) := by
  simp only [modelM]

theorem modelM_post (a : PBDD) : ∀ env, Inv env → Good env.table a →
    Post env (modelM a env) (BDD.model a.erase) := by
  induction a with
  | F p => intro env h ha; exact ⟨h, Ext.refl _, ha, rfl⟩
  | T p => intro env h ha; exact ⟨h, Ext.refl _, ha, rfl⟩
  | node p t v f iht ihf =>
    intro env h ha
    have p1 := iht env h ha.left
    have p2 := ihf _ p1.inv (p1.good_of_ext ha.right)
    have p3 := mkConstM_post false _ p2.inv
    have p3' := mkConstM_post false _ p3.inv
    rw [modelM_node_eq]
    have hpure : BDD.model (PBDD.node p t v f).erase =
        (if BDD.model t.erase ≠ BDD.mkConst false then BDD.and (BDD.model t.erase) (BDD.var v)
         else if BDD.model f.erase ≠ BDD.mkConst false then BDD.and (BDD.not (BDD.var v)) (BDD.model f.erase)
         else BDD.mkConst false) := by
      simp only [PBDD.erase, BDD.model]
    rw [hpure]
    dsimp only
    by_cases hl : (modelM t env).1.erase ≠ (mkConstM false (modelM f (modelM t env).2).2).1.erase
    · have hl' : BDD.model t.erase ≠ BDD.mkConst false := by rw [← p1.erase, ← p3.erase]; exact hl
      rw [if_pos hl, if_pos hl']
      have p4 := varM_post v _ p3.inv
      have p5 := andM_post (modelM t env).1 (varM v (mkConstM false (modelM f (modelM t env).2).2).2).1 _ p4.inv
        (p4.good_of_ext (p3.good_of_ext (p2.good_of_ext p1.good))) p4.good
      refine Post.seq p1 (Post.seq p2 (Post.seq p3 (Post.seq p4 ?_)))
      simpa [p1.erase, p4.erase] using p5
    · have hl' : ¬ BDD.model t.erase ≠ BDD.mkConst false := by rw [← p1.erase, ← p3.erase]; exact hl
      rw [if_neg hl, if_neg hl']
      by_cases hr : (modelM f (modelM t env).2).1.erase ≠
          (mkConstM false (mkConstM false (modelM f (modelM t env).2).2).2).1.erase
      · have hr' : BDD.model f.erase ≠ BDD.mkConst false := by rw [← p2.erase, ← p3'.erase]; exact hr
        rw [if_pos hr, if_pos hr']
        have p4 := varM_post v _ p3'.inv
        have p5 := notM_post _ _ p4.inv p4.good
        have p6 := andM_post _ (modelM f (modelM t env).2).1 _ p5.inv p5.good
          (p5.good_of_ext (p4.good_of_ext (p3'.good_of_ext (p3.good_of_ext p2.good))))
        refine Post.seq p1 (Post.seq p2 (Post.seq p3 (Post.seq p3' (Post.seq p4 (Post.seq p5 ?_)))))
        simpa [p2.erase, p4.erase, p5.erase] using p6
      · have hr' : ¬ BDD.model f.erase ≠ BDD.mkConst false := by rw [← p2.erase, ← p3'.erase]; exact hr
        rw [if_neg hr, if_neg hr']
        have p4 := mkConstM_post false _ p3'.inv
        exact Post.seq p1 (Post.seq p2 (Post.seq p3 (Post.seq p3' p4)))

theorem isChoiceP_erase (p : PBDD) : isChoiceP p = p.erase.isChoice := by cases p <;> rfl
theorem isTrueP_erase (p : PBDD) : isTrueP p = p.erase.isTrue := by
  cases p <;> simp [isTrueP, PBDD.erase, BDD.isTrue]

theorem retainAuxM_post (ft : Bool) (a : PBDD) : ∀ env, Inv env → Good env.table a →
    Post env (retainAuxM ft a env) (BDD.retainAux ft a.erase) := by
  induction a with
  | F p => intro env h ha; exact ⟨h, Ext.refl _, ha, rfl⟩
  | T p => intro env h ha; exact ⟨h, Ext.refl _, ha, rfl⟩
  | node p l s r ihl ihr =>
    intro env h ha
    have p1 := ihl env h ha.left
    have p2 := ihr _ p1.inv (p1.good_of_ext ha.right)
    have pm := mkChoiceM_post (retainAuxM ft l env).1 s (retainAuxM ft r (retainAuxM ft l env).2).1 _ p2.inv
      (p2.good_of_ext p1.good) p2.good
    have hmk : Post env (mkChoiceM (retainAuxM ft l env).1 s (retainAuxM ft r (retainAuxM ft l env).2).1
        (retainAuxM ft r (retainAuxM ft l env).2).2)
        (BDD.mk (BDD.retainAux ft l.erase) s (BDD.retainAux ft r.erase)) :=
      Post.seq p1 (Post.seq p2 (by simpa [p1.erase, p2.erase] using pm))
    have hleft : Post env ((retainAuxM ft l env).1, (retainAuxM ft r (retainAuxM ft l env).2).2)
        (BDD.retainAux ft l.erase) :=
      ⟨p2.inv, p1.ext.trans p2.ext, p2.good_of_ext p1.good, p1.erase⟩
    have hright : Post env ((retainAuxM ft r (retainAuxM ft l env).2).1, (retainAuxM ft r (retainAuxM ft l env).2).2)
        (BDD.retainAux ft r.erase) :=
      ⟨p2.inv, p1.ext.trans p2.ext, p2.good, p2.erase⟩
    have hM : retainAuxM ft (.node p l s r) env =
        (let r1 := retainAuxM ft l env
         let r2 := retainAuxM ft r r1.2
         if (!(isChoiceP r1.1) && isChoiceP r2.1) = true then
           (if (isTrueP r1.1 != ft) = true then (r2.1, r2.2) else mkChoiceM r1.1 s r2.1 r2.2)
         else if (!(isChoiceP r2.1) && isChoiceP r1.1) = true then
           (if (isTrueP r2.1 != ft) = true then (r1.1, r2.2) else mkChoiceM r1.1 s r2.1 r2.2)
         else mkChoiceM r1.1 s r2.1 r2.2) := by
      simp only [retainAuxM]
    rw [hM]
    dsimp only
    simp only [PBDD.erase, BDD.retainAux, BDD.isConst, isChoiceP_erase, isTrueP_erase, p1.erase, p2.erase]
    by_cases c1 : (!(BDD.retainAux ft l.erase).isChoice && (BDD.retainAux ft r.erase).isChoice) = true
    · simp only [c1, ↓reduceIte]
      by_cases c2 : ((BDD.retainAux ft l.erase).isTrue != ft) = true
      · simp only [c2, ↓reduceIte]; exact hright
      · simp only [c2, ↓reduceIte]; exact hmk
    · simp only [c1, ↓reduceIte]
      by_cases c3 : (!(BDD.retainAux ft r.erase).isChoice && (BDD.retainAux ft l.erase).isChoice) = true
      · simp only [c3, ↓reduceIte]
        by_cases c4 : ((BDD.retainAux ft r.erase).isTrue != ft) = true
        · simp only [c4, ↓reduceIte]; exact hleft
        · simp only [c4, ↓reduceIte]; exact hmk
      · simp only [c3, ↓reduceIte]; exact hmk

theorem retainM_post (a : PBDD) (flt : BDD.Filter) (env : Env) (h : Inv env) (ha : Good env.table a) :
    Post env (retainM a flt env) (BDD.retain a.erase flt) := by
  cases flt with
  | any => exact ⟨h, Ext.refl _, ha, rfl⟩
  | true_ => exact retainAuxM_post _ a env h ha
  | false_ => exact retainAuxM_post _ a env h ha

/-- `find` on a handle of this environment returns the handle itself -/
theorem findM_post (a : PBDD) (env : Env) (h : Inv env) (ha : Good env.table a) :
    Post env (findM a env) a.erase := by
  simp only [findM, ha.lookup_self]
  exact ⟨h, Ext.refl _, ha, rfl⟩

/-- `clean` has no effect on a handle of this environment (as the source comment says) -/
theorem cleanM_post (a : PBDD) (hr : a.erase.Reduced) (env : Env) (h : Inv env) (ha : Good env.table a) :
    Post env (cleanM a env) a.erase := by
  cases a with
  | F p => exact findM_post _ env h ha
  | T p => exact findM_post _ env h ha
  | node p l s r =>
    simp only [cleanM]
    have p1 := findM_post l env h ha.left
    have p2 := findM_post r _ p1.inv (p1.good_of_ext ha.right)
    have p3 := mkChoiceM_post (findM l env).1 s (findM r (findM l env).2).1 _ p2.inv (p2.good_of_ext p1.good) p2.good
    refine Post.seq p1 (Post.seq p2 ?_)
    have hne : l.erase ≠ r.erase := hr.1
    simpa [p1.erase, p2.erase, PBDD.erase, BDD.mk, hne] using p3

theorem inferM_post (a : PBDD) (b : Nat) (env : Env) (h : Inv env) (ha : Good env.table a) :
    Inv (inferM a b env).2 ∧ Ext env (inferM a b env).2 ∧ (inferM a b env).1 = BDD.infer a.erase b := by
  have p1 := varM_post b env h
  have p2 := impliesM_post a (varM b env).1 _ p1.inv (p1.good_of_ext ha) p1.good
  refine ⟨p2.inv, p1.ext.trans p2.ext, ?_⟩
  simp only [inferM, BDD.infer]
  rw [← p1.erase, ← p2.erase]
  cases (impliesM a (varM b env).1 (varM b env).2).1 <;> rfl

end Env
end Rsbdd
