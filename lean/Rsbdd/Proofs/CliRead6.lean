import Rsbdd.Proofs.CliRead5
namespace Rsbdd.Cli.Text

theorem ofList_toList_map (l : List String) : l.map (fun n => String.ofList n.toList) = l := by
  induction l with
  | nil => rfl
  | cons a l ih => simp [ih]

theorem filterMap_some' {α β : Type} (f : α → β) (l : List α) : l.filterMap (fun x => some (f x)) = l.map f := by
  induction l with
  | nil => rfl
  | cons a l ih => simp [ih]

theorem filterMap_const_none {α β : Type} (l : List α) : l.filterMap (fun _ => (none : Option β)) = [] := by
  induction l with
  | nil => rfl
  | cons a l ih => simp

/-- the reader inverts the printer: standard output, read back, is the output it was printed from -/
theorem read_render (o : Output) (ok : OutputOk o) : readStdout (render o) = some o := by
  have hsplit := splitAcc_segs '\n' (linesOf o) [] (nl_not_mem_lines o ok)
  simp only [List.append_nil, splitAcc, List.reverse_nil] at hsplit
  have hcl := classify_lines o ok
  unfold readStdout
  simp only [render_eq, hsplit, List.getLast?_append, List.getLast?_singleton, Option.some_or, List.dropLast_concat,
    ne_eq, not_true_eq_false, ite_false, hcl]
  unfold classified
  obtain ⟨ord, hdr, rows, vl⟩ := o
  cases hdr with
  | none =>
    have hr : rows = [] := ok.rows rfl
    subst hr
    simp [List.filterMap_append, List.filterMap_map, Function.comp_def, filterMap_const_none]
  | some labels =>
    simp only [List.filterMap_append, List.filterMap_map, Function.comp_def, List.filterMap_cons,
      List.filterMap_some, filterMap_const_none, List.nil_append, List.append_nil]
    have hd : ((ruleSegs labels).all isDashes &&
        decide ((ruleSegs labels).length = (List.map (fun x => x.toList) labels).length)) = true := by
      simp only [Bool.and_eq_true, List.all_eq_true, decide_eq_true_eq]
      refine ⟨?_, by simp [ruleSegs]⟩
      intro s hs
      obtain ⟨n, _, rfl⟩ := List.mem_map.mp hs
      simp [isDashes, width]
    have hrows : allSome (List.map rowOfCells
        (List.map (fun x : Row => List.map cellText x.cells ++ [boolText x.result]) rows)) = some rows := by
      rw [List.map_map]
      have := allSome_map (rowOfCells ∘ fun (x : Row) => List.map cellText x.cells ++ [boolText x.result]) id rows
        (fun r _ => rowOfCells_row r)
      simpa using this
    rw [if_pos hd, filterMap_some', hrows]
    have := ofList_toList_map labels
    simp [Function.comp_def, this]

end Rsbdd.Cli.Text
