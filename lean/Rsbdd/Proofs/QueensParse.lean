import Rsbdd.Proofs.QueensTok
namespace Rsbdd
open Parser Gen.Queens C11 Grammar Formula

/-- the name of cell `k` as the tokenizer reads it -/
def cellStr (k : Nat) : String := String.ofList (cellName k)

theorem cellStr_notKeyword (k : Nat) : NotKeyword (cellStr k) := by
  unfold NotKeyword
  rw [Option.map_eq_none_iff, List.find?_eq_none]
  intro p hp
  simp only [beq_iff_eq, cellStr, cellName]
  intro h
  have : p.1.toList = 'v' :: '_' :: natStr k := by rw [h, String.toList_ofList]
  simp only [keywordTable, List.mem_cons, List.not_mem_nil, or_false] at hp
  rcases hp with rfl | rfl | rfl | rfl | rfl | rfl | rfl | rfl | rfl | rfl | rfl | rfl | rfl | rfl | rfl | rfl | rfl | rfl | rfl | rfl | rfl | rfl | rfl <;> simp at this

theorem natStr_inj {a b : Nat} (h : natStr a = natStr b) : a = b := by
  unfold natStr at h
  rw [Nat.toList_repr, Nat.toList_repr] at h
  have := congrArg (fun l => Nat.ofDigitChars 10 l 0) h
  simpa [Nat.ofDigitChars_ten_toDigits] using this

theorem cellStr_inj {a b : Nat} (h : cellStr a = cellStr b) : a = b := by
  have := congrArg String.toList h
  simp only [cellStr, String.toList_ofList, cellName, List.cons.injEq, true_and] at this
  exact natStr_inj this

/-- the tokens of one constraint line, the name `v_k` numbered `k` -/
def lineToks (c : Constraint) : List Token :=
  Token.openSquare :: c.cells.flatMap (fun k => [Token.var (cellStr k) k, Token.comma]) ++
    [Token.closeSquare, (match c.op with | .exactly => Token.eq | _ => Token.impliesInv), Token.countable 1, Token.and]

theorem items_cells : ∀ (ks : List Nat),
    Items (ks.flatMap (fun k => [Token.var (cellStr k) k, Token.comma])) (ks.map Formula.var)
  | [] => Items.nil
  | k :: ks => by
    have := Items.cons (ts := [Token.var (cellStr k) k]) (Sub.closed Closed.var) (items_cells ks)
    simpa using this

/-- the tokens of the constraint lines followed by `true` derive the conjunction -/
theorem sub_lines : ∀ (cs : List Constraint),
    (∀ c ∈ cs, c.bound = 1 ∧ (c.op = .atMost ∨ c.op = .exactly)) →
    Sub (cs.flatMap lineToks ++ [Token.true_]) (cs.foldr (fun c acc => .bin .and c.toFormula acc) .true_)
  | [], _ => Sub.closed Closed.true_
  | c :: cs, h => by
    obtain ⟨hb, hop⟩ := h c (by simp)
    have ih := sub_lines cs (fun c' hc' => h c' (by simp [hc']))
    have hfl : FList (Token.openSquare :: c.cells.flatMap (fun k => [Token.var (cellStr k) k, Token.comma]) ++ [Token.closeSquare])
        (c.cells.map Formula.var) := FList.mk (items_cells c.cells)
    have hcl : Closed ((Token.openSquare :: c.cells.flatMap (fun k => [Token.var (cellStr k) k, Token.comma]) ++ [Token.closeSquare]) ++
        [(match c.op with | .exactly => Token.eq | _ => Token.impliesInv), Token.countable 1]) (Formula.cntConst c.op (c.cells.map Formula.var) 1) := by
      apply Closed.cntConst hfl
      rcases hop with e | e <;> rw [e] <;> rfl
    have := Sub.bin hcl (o := Token.and) (op := BinOp.and) rfl ih
    have hc : c.toFormula = Formula.cntConst c.op (c.cells.map Formula.var) 1 := by simp [Constraint.toFormula, hb]
    simp only [List.flatMap_cons, List.foldr_cons, lineToks, hc]
    simpa [List.append_assoc] using this

end Rsbdd
