/-
Meaning of the formulas the generators emit: a right-nested conjunction of counting
constraints over variables holds exactly when every constraint's count compares as written.
-/
import Rsbdd.Spec.Sem
import Rsbdd.Proofs.Fix

namespace Rsbdd
open BDD

/-- the number of listed variables that are true -/
def trueCount (cells : List Nat) (σ : Asg) : Nat := (cells.filter (fun v => σ v)).length

theorem semCount_vars (cells : List Nat) (σ : Asg) :
    ∀ k, SemCount (cells.map Formula.var) FEnv.empty σ k ↔ trueCount cells σ = k := by
  induction cells with
  | nil => intro k; simp [SemCount, trueCount]; exact eq_comm
  | cons c cs ih =>
    intro k
    simp only [List.map_cons, SemCount, Sem, FEnv.empty, trueCount, List.filter_cons]
    cases hc : σ c
    · simp [ih, trueCount]
    · simp only [if_true, List.length_cons]
      constructor
      · rintro (⟨_, k', rfl, hk'⟩ | ⟨h, _⟩)
        · have := (ih k').mp hk'; simp only [trueCount] at this; rw [this]
        · simp at h
      · intro h
        left
        refine ⟨trivial, (cs.filter (fun v => σ v)).length, h.symm, (ih _).mpr rfl⟩

/-- a counting constraint over plain variables -/
theorem sem_cntConst_vars (op : CntOp) (cells : List Nat) (k : Nat) (σ : Asg) :
    Sem (.cntConst op (cells.map Formula.var) k) FEnv.empty σ ↔ op.sem (trueCount cells σ) k := by
  simp only [Sem]
  constructor
  · rintro ⟨j, hj, hop⟩; rw [(semCount_vars cells σ j).mp hj]; exact hop
  · intro h; exact ⟨_, (semCount_vars cells σ _).mpr rfl, h⟩

/-- a right-nested conjunction ending in `true` -/
theorem sem_conj (fs : List Formula) (ρ : FEnv) (σ : Asg) :
    Sem (fs.foldr (fun f acc => .bin .and f acc) .true_) ρ σ ↔ ∀ f ∈ fs, Sem f ρ σ := by
  induction fs with
  | nil => simp [Sem]
  | cons f fs ih => simp [Sem, BinOp.sem, ih]

/-! ### counting over `f 0 … f (m-1)` -/

theorem trueCount_append (l₁ l₂ : List Nat) (σ : Asg) :
    trueCount (l₁ ++ l₂) σ = trueCount l₁ σ + trueCount l₂ σ := by
  simp [trueCount]

theorem trueCount_range_succ (m : Nat) (f : Nat → Nat) (σ : Asg) :
    trueCount ((List.range (m + 1)).map f) σ =
      trueCount ((List.range m).map f) σ + (if σ (f m) then 1 else 0) := by
  rw [List.range_succ, List.map_append, trueCount_append]
  congr 1
  simp only [trueCount, List.map_cons, List.map_nil, List.filter_cons, List.filter_nil]
  split <;> rfl

theorem trueCount_range_zero_iff (m : Nat) (f : Nat → Nat) (σ : Asg) :
    trueCount ((List.range m).map f) σ = 0 ↔ ∀ a, a < m → σ (f a) = false := by
  induction m with
  | zero => simp [trueCount]
  | succ m ih =>
    rw [trueCount_range_succ]
    constructor
    · intro h a ha
      have h1 : trueCount ((List.range m).map f) σ = 0 := by omega
      by_cases ham : a = m
      · subst ham
        cases hσ : σ (f a) with
        | false => rfl
        | true => simp [hσ] at h
      · exact (ih.mp h1) a (by omega)
    · intro h
      have h1 := ih.mpr (fun a ha => h a (by omega))
      have h2 := h m (by omega)
      simp [h1, h2]

/-- at most one of `f 0 … f (m-1)` is true iff no two positions are both true -/
theorem trueCount_range_le_one (m : Nat) (f : Nat → Nat) (σ : Asg) :
    trueCount ((List.range m).map f) σ ≤ 1 ↔
      ∀ a b, a < b → b < m → ¬ (σ (f a) = true ∧ σ (f b) = true) := by
  induction m with
  | zero => simp [trueCount]
  | succ m ih =>
    rw [trueCount_range_succ]
    constructor
    · intro h a b hab hb
      by_cases hbm : b = m
      · subst hbm
        rintro ⟨ha, hb'⟩
        simp only [hb', if_true] at h
        have h0 : trueCount ((List.range b).map f) σ = 0 := by omega
        have := (trueCount_range_zero_iff b f σ).mp h0 a hab
        rw [this] at ha; cases ha
      · exact ih.mp (by omega) a b hab (by omega)
    · intro h
      have h1 := ih.mpr (fun a b hab hb => h a b hab (by omega))
      cases hσ : σ (f m) with
      | false => simp; exact h1
      | true =>
        simp only [if_true]
        have : trueCount ((List.range m).map f) σ = 0 := by
          rw [trueCount_range_zero_iff]
          intro a ha
          cases hσa : σ (f a) with
          | false => rfl
          | true => exact absurd ⟨hσa, hσ⟩ (h a m ha (by omega))
        omega

theorem trueCount_map_eq_filter (m : Nat) (f : Nat → Nat) (σ : Asg) :
    trueCount ((List.range m).map f) σ = ((List.range m).filter (fun a => σ (f a))).length := by
  simp [trueCount, List.filter_map, Function.comp_def]

theorem no_two {m : Nat} {f : Nat → Nat} {σ : Asg} (h : trueCount ((List.range m).map f) σ ≤ 1)
    {a b : Nat} (ha : a < m) (hb : b < m) (hab : a ≠ b) (qa : σ (f a) = true) (qb : σ (f b) = true) : False := by
  rcases Nat.lt_or_gt_of_ne hab with h' | h'
  · exact (trueCount_range_le_one m f σ).mp h a b h' hb ⟨qa, qb⟩
  · exact (trueCount_range_le_one m f σ).mp h b a h' ha ⟨qb, qa⟩


/-- exactly one of `f 0 … f (m-1)` is true iff some position is and no two are -/
theorem trueCount_range_eq_one (m : Nat) (f : Nat → Nat) (σ : Asg) :
    trueCount ((List.range m).map f) σ = 1 ↔
      (∃ a, a < m ∧ σ (f a) = true) ∧ ∀ a b, a < b → b < m → ¬ (σ (f a) = true ∧ σ (f b) = true) := by
  rw [← trueCount_range_le_one]
  have hz := trueCount_range_zero_iff m f σ
  constructor
  · intro h
    refine ⟨?_, by omega⟩
    apply Classical.byContradiction
    intro hne
    have : trueCount ((List.range m).map f) σ = 0 := hz.mpr (fun a ha => by
      cases hσ : σ (f a) with
      | false => rfl
      | true => exact absurd ⟨a, ha, hσ⟩ hne)
    omega
  · rintro ⟨⟨a, ha, hσ⟩, hle⟩
    have : trueCount ((List.range m).map f) σ ≠ 0 := by
      intro h0
      have := hz.mp h0 a ha
      rw [this] at hσ; cases hσ
    omega

theorem trueCount_map (vs : List Nat) (f : Nat → Nat) (σ : Asg) :
    trueCount (vs.map f) σ = (vs.filter (fun v => σ (f v))).length := by
  simp [trueCount, List.filter_map, Function.comp_def]

end Rsbdd
