/-
Meaning of the formulas the generators emit: a right-nested conjunction of counting
constraints over variables holds exactly when every constraint's count compares as written.
-/
import Rsbdd.Spec.Sem
import Rsbdd.Proofs.Fix

namespace Rsbdd
open BDD

/-- the number of listed variables that are true -/
def trueCount (cells : List Nat) (σ : Asg) : Nat := (cells.filter (fun v => σ v)).length

theorem semCount_vars (cells : List Nat) (σ : Asg) :
    ∀ k, SemCount (cells.map Formula.var) FEnv.empty σ k ↔ trueCount cells σ = k := by
  induction cells with
  | nil => intro k; simp [SemCount, trueCount]; exact eq_comm
  | cons c cs ih =>
    intro k
    simp only [List.map_cons, SemCount, Sem, FEnv.empty, trueCount, List.filter_cons]
    cases hc : σ c
    · simp [ih, trueCount]
    · simp only [if_true, List.length_cons]
      constructor
      · rintro (⟨_, k', rfl, hk'⟩ | ⟨h, _⟩)
        · have := (ih k').mp hk'; simp only [trueCount] at this; rw [this]
        · simp at h
      · intro h
        left
        refine ⟨trivial, (cs.filter (fun v => σ v)).length, h.symm, (ih _).mpr rfl⟩

/-- a counting constraint over plain variables -/
theorem sem_cntConst_vars (op : CntOp) (cells : List Nat) (k : Nat) (σ : Asg) :
    Sem (.cntConst op (cells.map Formula.var) k) FEnv.empty σ ↔ op.sem (trueCount cells σ) k := by
  simp only [Sem]
  constructor
  · rintro ⟨j, hj, hop⟩; rw [(semCount_vars cells σ j).mp hj]; exact hop
  · intro h; exact ⟨_, (semCount_vars cells σ _).mpr rfl, h⟩

/-- a right-nested conjunction ending in `true` -/
theorem sem_conj (fs : List Formula) (ρ : FEnv) (σ : Asg) :
    Sem (fs.foldr (fun f acc => .bin .and f acc) .true_) ρ σ ↔ ∀ f ∈ fs, Sem f ρ σ := by
  induction fs with
  | nil => simp [Sem]
  | cons f fs ih => simp [Sem, BinOp.sem, ih]

end Rsbdd
