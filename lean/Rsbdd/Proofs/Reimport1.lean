import Rsbdd.Thm.C11E
namespace Rsbdd.C11
open Parser Cli

def symHeads : List Char := symbolTable.filterMap (·.1.toList.head?)

theorem symHeads_single : ∀ a ∈ symHeads, ∃ e ∈ symbolTable, e.1.toList = [a] := by decide

theorem symbol_heads : symbolTable.all (fun e => match e.1.toList with | [] => false | a :: _ => symHeads.contains a) = true := by
  decide

theorem matchSymbol_none_iff (x : Ch) (cs : List Ch) : matchSymbol (x :: cs) = none ↔ x.c ∉ symHeads := by
  unfold matchSymbol
  rw [List.findSome?_eq_none_iff]
  constructor
  · intro h hx
    obtain ⟨e, he, hl⟩ := symHeads_single x.c hx
    have := h e he
    obtain ⟨s, t⟩ := e
    simp only at hl
    simp [hl, stripPrefix] at this
  · intro hx e he
    obtain ⟨s, t⟩ := e
    have := List.all_eq_true.mp symbol_heads (s, t) he
    simp only at this
    cases hs : s.toList with
    | nil => rw [hs] at this; simp at this
    | cons a p =>
      rw [hs] at this
      simp only [List.contains_eq_mem, decide_eq_true_eq] at this
      have hne : x.c ≠ a := fun e => hx (e ▸ this)
      simp only [hs]
      simp [stripPrefix, hne]

theorem stripPrefix_suffix : ∀ (p : List Char) (cs rest : List Ch), stripPrefix p cs = some rest → rest <:+ cs
  | [], cs, rest, h => by simp [stripPrefix] at h; subst h; exact List.suffix_refl _
  | a :: p, [], rest, h => by simp [stripPrefix] at h
  | a :: p, x :: cs, rest, h => by
    simp only [stripPrefix] at h
    split at h
    · exact (stripPrefix_suffix p cs rest h).trans (List.suffix_cons x cs)
    · simp at h

theorem matchSymbol_suffix {cs rest : List Ch} {t : Token} (h : matchSymbol cs = some (t, rest)) : rest <:+ cs := by
  unfold matchSymbol at h
  obtain ⟨e, _, he⟩ := List.exists_of_findSome?_eq_some h
  obtain ⟨s, t'⟩ := e
  simp only [Option.map_eq_some_iff] at he
  obtain ⟨r, hr, hp⟩ := he
  cases hp
  exact stripPrefix_suffix _ _ _ hr

theorem takeWhile_all {α : Type} (p : α → Bool) : ∀ (l : List α) (y : α), y ∈ l.takeWhile p → p y = true
  | [], _, h => by simp at h
  | a :: l, y, h => by
    simp only [List.takeWhile_cons] at h
    split at h
    · rename_i ha
      rcases List.mem_cons.mp h with rfl | h'
      · exact ha
      · exact takeWhile_all p l y h'
    · simp at h

structure IdentW (w : List Ch) : Prop where
  ne : w ≠ []
  word : ∀ x ∈ w, x.wordLike = true
  head : ∀ x, w.head? = some x → x.cls ≠ .digit ∧ x.c ∉ symHeads

theorem scan_ident (P : Ch → Prop) : ∀ (fuel : Nat) (cs : List Ch) (n : String), (∀ x ∈ cs, P x) →
    Lexeme.ident n ∈ scan fuel cs → ∃ w, n = chars w ∧ IdentW w ∧ ∀ x ∈ w, P x
  | 0, _, _, _, h => by simp [scan] at h
  | fuel + 1, [], _, _, h => by simp [scan] at h
  | fuel + 1, x :: cs, n, hP, h => by
    rw [scan] at h
    split at h
    · rename_i t rest hm
      simp only [List.mem_cons, reduceCtorEq, false_or] at h
      exact scan_ident P fuel rest n (fun y hy => hP y ((matchSymbol_suffix hm).subset hy)) h
    · rename_i hm
      simp only at h
      split at h
      · simp only [List.mem_cons, reduceCtorEq, false_or] at h
        exact scan_ident P fuel _ n (fun y hy => hP y ((List.dropWhile_suffix _).subset hy)) h
      · rename_i hd
        split at h
        · rename_i w rest hr
          simp only [List.mem_cons, reduceCtorEq, false_or] at h
          refine scan_ident P fuel rest n (fun y hy => hP y ?_) h
          -- rest is a suffix of cs
          split at hr
          · split at hr
            · rename_i y rest' hdw
              split at hr
              · cases hr
                have : (y :: rest) <:+ cs := hdw ▸ List.dropWhile_suffix _
                exact List.mem_cons_of_mem _ (this.subset (List.mem_cons_of_mem _ hy))
              · simp at hr
            · simp at hr
          · simp at hr
        · split at h
          · rename_i hw
            simp only [List.mem_cons, Lexeme.ident.injEq] at h
            rcases h with h | h
            · refine ⟨(x :: cs).takeWhile Ch.wordLike, h, ⟨?_, ?_, ?_⟩, ?_⟩
              · simp [hw]
              · intro y hy; exact takeWhile_all _ _ y hy
              · intro y hy
                simp only [List.takeWhile_cons, hw, if_true, List.head?_cons, Option.some.injEq] at hy
                subst hy
                exact ⟨by simpa using hd, (matchSymbol_none_iff x cs).mp hm⟩
              · intro y hy; exact hP y ((List.takeWhile_prefix _).subset hy)
            · exact scan_ident P fuel _ n (fun y hy => hP y ((List.dropWhile_suffix _).subset hy)) h
          · split at h
            · rename_i rest hr
              refine scan_ident P fuel rest n (fun y hy => hP y ?_) h
              split at hr
              · split at hr
                · rename_i z rest' hdw
                  cases hr
                  have : (z :: rest) <:+ cs := hdw ▸ List.dropWhile_suffix _
                  exact List.mem_cons_of_mem _ (this.subset (List.mem_cons_of_mem _ hy))
                · simp at hr
              · simp at hr
            · exact scan_ident P fuel cs n (fun y hy => hP y (List.mem_cons_of_mem _ hy)) h

end Rsbdd.C11
