import Rsbdd.Proofs.DotTree1
namespace Rsbdd.DotText
open Dot
open Gen.Queens (natStr)
open Cli.Text (joinCommaSp namesOfV NameOk Clean namesOfV_join)

theorem natStr_head_digit (n : Nat) : ∃ c rest, natStr n = c :: rest ∧ c.isDigit = true := by
  cases h : natStr n with
  | nil => exact absurd h (natStr_ne_nil n)
  | cons c rest => exact ⟨c, rest, rfl, natStr_digits n c (by rw [h]; simp)⟩

theorem readELabel_elabelText (l : ELabel) : readELabel (elabelText l) = some l := by
  cases l with
  | l => decide
  | r => decide
  | plain => decide
  | if_ => decide
  | then_ => decide
  | else_ => decide
  | idx j =>
    have hs : stripSuffix ['}'] (natStr j ++ ['}']) = some (natStr j) := stripSuffix_append _ _
    simp [elabelText, readELabel, hs, readDec_natStr]
  | lidx j =>
    have hs : stripSuffix ['}'] (natStr j ++ ['}']) = some (natStr j) := stripSuffix_append _ _
    simp [elabelText, readELabel, hs, readDec_natStr]
  | ridx j =>
    have hs : stripSuffix ['}'] (natStr j ++ ['}']) = some (natStr j) := stripSuffix_append _ _
    simp [elabelText, readELabel, hs, readDec_natStr]

end Rsbdd.DotText
