import Rsbdd.Proofs.QueensParse
namespace Rsbdd
open Parser Gen.Queens C11 Grammar Formula

theorem lookup_of_mem {vt : VarTable} (h : vt.Inv) {n : String} {i : Nat} (hm : (n, i) ∈ vt.map) :
    vt.lookup n = some i := by
  unfold VarTable.lookup
  cases hf : vt.map.find? (fun p => p.1 == n) with
  | none =>
    rw [List.find?_eq_none] at hf
    have := hf (n, i) hm
    simp at this
  | some p =>
    have hp := List.mem_of_find?_eq_some hf
    have hn := List.find?_some hf
    simp only [beq_iff_eq] at hn
    have := (h.inj p hp (n, i) hm).mp hn
    simp [this]

theorem preload_mem_aux (n : String) : ∀ (ord : List (String × Nat)) (vt : VarTable),
    ((∃ i, (n, i) ∈ ord) ∨ (∃ i, (n, i) ∈ vt.map)) →
    ∃ i, (n, i) ∈ (ord.foldl (fun t (x : String × Nat) =>
        { map := (x.1, x.2) :: t.map.filter (fun p => p.1 != x.1),
          counter := if x.2 ≥ t.counter then x.2 + 1 else t.counter : VarTable }) vt).map := by
  intro ord
  induction ord with
  | nil =>
    intro vt h
    rcases h with ⟨i, hi⟩ | h
    · simp at hi
    · simpa using h
  | cons x xs ih =>
    intro vt h
    simp only [List.foldl_cons]
    apply ih
    by_cases hx : x.1 = n
    · right; exact ⟨x.2, by simp [← hx]⟩
    · rcases h with ⟨i, hi⟩ | ⟨i, hi⟩
      · rcases List.mem_cons.mp hi with e | hi'
        · exact absurd (by rw [← e]) hx
        · left; exact ⟨i, hi'⟩
      · right; refine ⟨i, ?_⟩
        simp only [List.mem_cons, List.mem_filter, bne_iff_ne, ne_eq]
        right; exact ⟨hi, fun e => hx e.symm⟩

/-- a listed name is found in the pre-loaded table with the listed id -/
theorem preload_lookup {ord : List (String × Nat)} (ho : OrderingOk ord) {n : String} {i : Nat}
    (hm : (n, i) ∈ ord) : (VarTable.preload ord).lookup n = some i := by
  have hinv := preload_inv ho
  obtain ⟨i', hi'⟩ := preload_mem_aux n ord {} (Or.inl ⟨i, hm⟩)
  have hi'' : (n, i') ∈ (VarTable.preload ord).map := hi'
  have key := preload_inv_aux ord {} (by intro p hp; simp at hp)
  have hin : (n, i') ∈ ord := by
    have := (key (n, i') hi').1
    simpa using this
  have : i' = i := (ho _ hin _ hm).mp rfl
  subst this
  exact lookup_of_mem hinv hi''

end Rsbdd
