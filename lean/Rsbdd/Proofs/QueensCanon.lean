import Rsbdd.Proofs.QueensOrd
import Rsbdd.Thm.C15
namespace Rsbdd.C15
open Parser Gen.Queens C11 Grammar Formula BDD

/-- the ordering that numbers the name `v_k` as `k` (every cell the constraints mention) -/
def cellOrdering (n : Nat) : List (String × Nat) :=
  ((constraints n).flatMap (·.cells)).map (fun k => (cellStr k, k))

theorem cellOrdering_ok (n : Nat) : OrderingOk (cellOrdering n) := by
  rintro ⟨a, i⟩ hp ⟨b, j⟩ hq
  simp only [cellOrdering, List.mem_map] at hp hq
  obtain ⟨k, _, hk⟩ := hp
  obtain ⟨l, _, hl⟩ := hq
  cases hk; cases hl
  simp only
  exact ⟨fun h => cellStr_inj h, fun h => by rw [h]⟩

theorem constraints_shape (n : Nat) : ∀ c ∈ constraints n, c.bound = 1 ∧ (c.op = .atMost ∨ c.op = .exactly) := by
  intro c hc
  simp only [constraints, diag1a, diag1b, diag2a, diag2b, rows, cols, List.mem_append, List.mem_map] at hc
  rcases hc with ((((⟨i, _, rfl⟩ | ⟨i, _, rfl⟩) | ⟨i, _, rfl⟩) | ⟨i, _, rfl⟩) | ⟨i, _, rfl⟩) | ⟨i, _, rfl⟩ <;> simp

theorem tokOf_cell (vt : VarTable) (k : Nat) (h : vt.lookup (cellStr k) = some k) :
    tokOf vt (Lexeme.ident (cellStr k)) = Token.var (cellStr k) k := by
  have hnk := cellStr_notKeyword k
  unfold NotKeyword at hnk
  simp only [tokOf, hnk, h, Option.getD_some]

/-- the canonical tokens: what the lexemes of the output become when `v_k` is numbered `k` -/
theorem tok_line (vt : VarTable) (c : Constraint) (hb : c.op = .atMost ∨ c.op = .exactly)
    (hl : ∀ k ∈ c.cells, vt.lookup (cellStr k) = some k) :
    (lineLex c).map (tokOf vt) = lineToks c := by
  have hcells : ∀ ks : List Nat, (∀ k ∈ ks, vt.lookup (cellStr k) = some k) →
      (cellsLex ks).map (tokOf vt) = ks.flatMap (fun k => [Token.var (cellStr k) k, Token.comma]) := by
    intro ks
    induction ks with
    | nil => intro _; rfl
    | cons k ks ih =>
      intro h
      have hk := tokOf_cell vt k (h k (by simp))
      have e : cellsLex (k :: ks) = Lexeme.ident (cellStr k) :: Lexeme.sym Token.comma :: cellsLex ks := rfl
      rw [e, List.map_cons, List.map_cons, hk, ih (fun k' hk' => h k' (by simp [hk']))]
      rfl
  unfold lineLex lineToks
  simp only [List.map_cons, List.map_append, hcells c.cells hl, List.map_nil]
  have h1 : parseNumber [mkCh '1'] = some 1 := by decide
  rcases hb with e | e <;> simp [tokOf, opLex, e, h1]


theorem ident_mem_lineLex {name : String} {c : Constraint} (h : Lexeme.ident name ∈ lineLex c) :
    ∃ k ∈ c.cells, name = cellStr k := by
  unfold lineLex at h
  rcases List.mem_cons.mp h with e | h
  · cases e
  · rcases List.mem_append.mp h with h | h
    · simp only [cellsLex, List.mem_flatMap, List.mem_cons, List.not_mem_nil, or_false] at h
      obtain ⟨k, hk, hm⟩ := h
      rcases hm with e | e
      · cases e; exact ⟨k, hk, rfl⟩
      · cases e
    · simp only [List.mem_cons, List.not_mem_nil, or_false] at h
      rcases h with e | e | e | e
      · cases e
      · unfold opLex at e; split at e <;> cases e
      · cases e
      · cases e

theorem num_mem_lineLex {ds : List Ch} {c : Constraint} (h : Lexeme.num ds ∈ lineLex c) : ds = [mkCh '1'] := by
  unfold lineLex at h
  rcases List.mem_cons.mp h with e | h
  · cases e
  · rcases List.mem_append.mp h with h | h
    · simp only [cellsLex, List.mem_flatMap, List.mem_cons, List.not_mem_nil, or_false] at h
      obtain ⟨k, _, hm⟩ := h
      rcases hm with e | e <;> cases e
    · simp only [List.mem_cons, List.not_mem_nil, or_false] at h
      rcases h with e | e | e | e
      · cases e
      · unfold opLex at e; split at e <;> cases e
      · cases e; rfl
      · cases e

end Rsbdd.C15
