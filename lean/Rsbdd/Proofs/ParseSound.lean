/-
Soundness of the parser model with respect to the grammar: whatever a `parse_*` function
accepts is a prefix of its input that the grammar derives, with the tree it returned.
Induction on the recursion budget.
-/
import Rsbdd.Model.Parser
import Rsbdd.Spec.Grammar

namespace Rsbdd
open Parser Grammar

theorem expect_some {t : Token} {ts rest : List Token} (h : expect t ts = some rest) :
    ts = t :: rest := by
  cases ts with
  | nil => simp [expect] at h
  | cons x xs =>
    simp only [expect] at h
    split at h
    · rename_i he; cases h; rw [he]
    · simp at h

theorem binOpOf_eq (t : Token) : Parser.binOpOf t = Grammar.binOpOf t := by cases t <;> rfl
theorem cntOpOf_eq (t : Token) : Parser.cntOpOf t = Grammar.cntOpOf t := by cases t <;> rfl

theorem parseVarName_some {ts rest : List Token} {id : Nat} (h : parseVarName ts = some (id, rest)) :
    ∃ n, ts = .var n id :: rest := by
  cases ts with
  | nil => simp [parseVarName] at h
  | cons x xs =>
    cases x <;> simp [parseVarName] at h
    rename_i n i
    exact ⟨n, by rw [h.1, h.2]⟩

theorem parseVarList_sound : ∀ (fuel : Nat) (ts : List Token) (vs : List Nat) (rest : List Token),
    parseVarList fuel ts = some (vs, rest) → ∃ pre, ts = pre ++ rest ∧ Vars pre vs := by
  intro fuel
  induction fuel with
  | zero => intro ts vs rest h; simp [parseVarList] at h
  | succ n ih =>
    intro ts vs rest h
    simp only [parseVarList] at h
    split at h
    · cases h; exact ⟨[], rfl, .nil⟩
    · split at h
      · simp at h
      · rename_i v r1 hv
        obtain ⟨name, rfl⟩ := parseVarName_some hv
        split at h
        · split at h
          · simp at h
          · rename_i r2 he
            have := expect_some he; subst this
            split at h
            · simp at h
            · rename_i vs' r3 hr
              cases h
              obtain ⟨pre, rfl, hp⟩ := ih _ _ _ hr
              exact ⟨.var name v :: .comma :: pre, rfl, .cons hp⟩
        · cases h; exact ⟨[.var name v], rfl, .one⟩

/-- the remaining input does not start with a binary operator -/
def NoBinopHead : List Token → Prop
  | [] => True
  | t :: _ => Grammar.binOpOf t = none

/-- the statement proved for every budget -/
structure SoundAt (fuel : Nat) : Prop where
  simple : ∀ ts f rest, parseSimple fuel ts = some (f, rest) →
    ∃ pre, ts = pre ++ rest ∧ (Closed pre f ∨ (Open pre f ∧ NoBinopHead rest))
  sub : ∀ ts f rest, parseSub fuel ts = some (f, rest) →
    ∃ pre, ts = pre ++ rest ∧ Sub pre f ∧ NoBinopHead rest
  quant : ∀ q ts f rest, parseQuant fuel q ts = some (f, rest) →
    ∃ vs ids body fb, ts = vs ++ .hash :: body ++ rest ∧ Vars vs ids ∧ Sub body fb ∧
      f = .quant q ids fb ∧ NoBinopHead rest
  fix : ∀ i ts f rest, parseFix fuel i ts = some (f, rest) →
    ∃ n id body fb, ts = .var n id :: .hash :: body ++ rest ∧ Sub body fb ∧ f = .fix id i fb ∧
      NoBinopHead rest
  list : ∀ ts fs rest, parseList fuel ts = some (fs, rest) → ∃ pre, ts = pre ++ rest ∧ FList pre fs
  items : ∀ ts fs rest, parseItems fuel ts = some (fs, rest) → ∃ pre, ts = pre ++ rest ∧ Items pre fs

theorem soundAt_zero : SoundAt 0 :=
  ⟨fun _ _ _ h => by simp [parseSimple] at h, fun _ _ _ h => by simp [parseSub] at h,
   fun _ _ _ _ h => by simp [parseQuant] at h, fun _ _ _ _ h => by simp [parseFix] at h,
   fun _ _ _ h => by simp [parseList] at h, fun _ _ _ h => by simp [parseItems] at h⟩

theorem soundAt_succ {n : Nat} (ih : SoundAt n) : SoundAt (n + 1) := by
  refine ⟨?_, ?_, ?_, ?_, ?_, ?_⟩
  · -- parseSimple
    intro ts f rest h
    rw [parseSimple.eq_def] at h
    simp only at h
    split at h
    · -- ( Sub )
      split at h
      · simp at h
      · rename_i f' r1 hs
        simp only [Option.map_eq_some_iff] at h
        obtain ⟨r2, he, hpair⟩ := h
        cases hpair
        have := expect_some he; subst this
        obtain ⟨pre, rfl, hp, _⟩ := ih.sub _ _ _ hs
        exact ⟨.openParen :: pre ++ [.closeParen], by simp, Or.inl (.paren hp)⟩
    · -- List cop (List | num)
      split at h
      · simp at h
      · rename_i l r1 hl
        obtain ⟨lpre, hts, hlp⟩ := ih.list _ _ _ hl
        split at h
        · simp at h
        · rename_i opTok r2
          split at h
          · simp at h
          · rename_i op hop
            rw [cntOpOf_eq] at hop
            split at h
            · split at h
              · simp at h
              · rename_i r r3 hr
                cases h
                obtain ⟨rpre, rfl, hrp⟩ := ih.list _ _ _ hr
                exact ⟨lpre ++ opTok :: rpre, by rw [hts]; simp, Or.inl (.cntVar hlp hop hrp)⟩
            · split at h
              · cases h
                exact ⟨lpre ++ [opTok, .countable _], by rw [hts]; simp, Or.inl (.cntConst hlp hop)⟩
              · simp at h
    · cases h; exact ⟨[.false_], rfl, Or.inl .false_⟩
    · cases h; exact ⟨[.true_], rfl, Or.inl .true_⟩
    · cases h; exact ⟨[.reference _], rfl, Or.inl .ref⟩
    · cases h; exact ⟨[.var _ _], rfl, Or.inl .var⟩
    · -- not
      split at h
      · simp at h
      · rename_i f' r1 hs
        cases h
        obtain ⟨pre, rfl, hp⟩ := ih.simple _ _ _ hs
        exact ⟨.not :: pre, rfl, hp.elim (fun c => Or.inl (.not c)) (fun o => Or.inr ⟨.not o.1, o.2⟩)⟩
    · obtain ⟨vs, ids, body, fb, rfl, hv, hb, rfl, hnb⟩ := ih.quant _ _ _ _ h
      exact ⟨.exists_ :: vs ++ .hash :: body, by simp, Or.inr ⟨.exists_ hv hb, hnb⟩⟩
    · obtain ⟨vs, ids, body, fb, rfl, hv, hb, rfl, hnb⟩ := ih.quant _ _ _ _ h
      exact ⟨.forall_ :: vs ++ .hash :: body, by simp, Or.inr ⟨.forall_ hv hb, hnb⟩⟩
    · obtain ⟨nm, id, body, fb, rfl, hb, rfl, hnb⟩ := ih.fix _ _ _ _ h
      exact ⟨.gfp :: .var nm id :: .hash :: body, by simp, Or.inr ⟨.gfp hb, hnb⟩⟩
    · obtain ⟨nm, id, body, fb, rfl, hb, rfl, hnb⟩ := ih.fix _ _ _ _ h
      exact ⟨.lfp :: .var nm id :: .hash :: body, by simp, Or.inr ⟨.lfp hb, hnb⟩⟩
    · -- if
      split at h
      · simp at h
      · rename_i c r1 hc
        split at h
        · simp at h
        · rename_i r2 he1
          have := expect_some he1; subst this
          split at h
          · simp at h
          · rename_i t r3 ht
            split at h
            · simp at h
            · rename_i r4 he2
              have := expect_some he2; subst this
              split at h
              · simp at h
              · rename_i e r5 hee
                cases h
                obtain ⟨pc, rfl, hpc, _⟩ := ih.sub _ _ _ hc
                obtain ⟨pt, rfl, hpt, _⟩ := ih.sub _ _ _ ht
                obtain ⟨pe, rfl, hpe, hnb⟩ := ih.sub _ _ _ hee
                exact ⟨.if_ :: pc ++ .then_ :: pt ++ .else_ :: pe, by simp,
                  Or.inr ⟨.ite hpc hpt hpe, hnb⟩⟩
    · simp at h
  · -- parseSub
    intro ts f rest h
    rw [parseSub.eq_def] at h
    simp only at h
    split at h
    · simp at h
    · rename_i l r1 hl
      obtain ⟨lpre, hts, hlp⟩ := ih.simple _ _ _ hl
      split at h
      · rename_i opTok r2
        split at h
        · rename_i op hop
          rw [binOpOf_eq] at hop
          split at h
          · simp at h
          · rename_i r r3 hr
            cases h
            obtain ⟨rpre, rfl, hrp, hnb⟩ := ih.sub _ _ _ hr
            -- the left operand is Closed: an Open term is never followed by an operator
            rcases hlp with hc | ⟨_, hno⟩
            · exact ⟨lpre ++ opTok :: rpre, by rw [hts]; simp, .bin hc hop hrp, hnb⟩
            · simp [NoBinopHead, hop] at hno
        · rename_i hop
          cases h
          have hnb : NoBinopHead (opTok :: r2) := by
            simp only [NoBinopHead]
            rw [← binOpOf_eq]
            exact hop
          exact ⟨lpre, hts, hlp.elim .closed (fun o => .open_ o.1), hnb⟩
      · cases h
        exact ⟨lpre, hts, hlp.elim .closed (fun o => .open_ o.1), trivial⟩
  · -- parseQuant
    intro q ts f rest h
    rw [parseQuant.eq_def] at h
    simp only at h
    split at h
    · simp at h
    · rename_i vs r1 hv
      obtain ⟨vpre, hts, hvp⟩ := parseVarList_sound _ _ _ _ hv
      split at h
      · simp at h
      · rename_i r2 he
        have := expect_some he; subst this
        split at h
        · simp at h
        · rename_i fb r3 hb
          cases h
          obtain ⟨bpre, rfl, hbp, hnb⟩ := ih.sub _ _ _ hb
          exact ⟨vpre, vs, bpre, fb, by rw [hts]; simp, hvp, hbp, rfl, hnb⟩
  · -- parseFix
    intro i ts f rest h
    rw [parseFix.eq_def] at h
    simp only at h
    split at h
    · simp at h
    · rename_i x r1 hx
      obtain ⟨nm, rfl⟩ := parseVarName_some hx
      split at h
      · simp at h
      · rename_i r2 he
        have := expect_some he; subst this
        split at h
        · simp at h
        · rename_i fb r3 hb
          cases h
          obtain ⟨bpre, rfl, hbp, hnb⟩ := ih.sub _ _ _ hb
          exact ⟨nm, x, bpre, fb, by simp, hbp, rfl, hnb⟩
  · -- parseList
    intro ts fs rest h
    rw [parseList.eq_def] at h
    simp only at h
    split at h
    · simp at h
    · rename_i r1 he
      have := expect_some he; subst this
      split at h
      · simp at h
      · rename_i fs' r2 hi
        simp only [Option.map_eq_some_iff] at h
        obtain ⟨r3, he2, hpair⟩ := h
        cases hpair
        have := expect_some he2; subst this
        obtain ⟨ipre, rfl, hip⟩ := ih.items _ _ _ hi
        exact ⟨.openSquare :: ipre ++ [.closeSquare], by simp, .mk hip⟩
  · -- parseItems
    intro ts fs rest h
    rw [parseItems.eq_def] at h
    simp only at h
    split at h
    · cases h; exact ⟨[], rfl, .nil⟩
    · split at h
      · simp at h
      · rename_i f' r1 hs
        obtain ⟨fpre, hts, hfp, _⟩ := ih.sub _ _ _ hs
        split at h
        · split at h
          · simp at h
          · rename_i r2 he
            have := expect_some he; subst this
            split at h
            · simp at h
            · rename_i fs' r3 hr
              cases h
              obtain ⟨ipre, rfl, hip⟩ := ih.items _ _ _ hr
              exact ⟨fpre ++ .comma :: ipre, by rw [hts]; simp, .cons hfp hip⟩
        · cases h; exact ⟨fpre, hts, .one hfp⟩

theorem soundAt (fuel : Nat) : SoundAt fuel := by
  induction fuel with
  | zero => exact soundAt_zero
  | succ n ih => exact soundAt_succ ih

/-- whatever the parser accepts is a sentence of the grammar, with the tree it built; the
parser reads up to the first `Eof` after the sentence and looks at nothing behind it -/
theorem parseFormula_sound' {ts : List Token} {f : Formula} (h : parseFormula ts = some f) :
    ∃ pre r, ts = pre ++ .eof :: r ∧ Sub pre f := by
  unfold parseFormula at h
  split at h
  · simp at h
  · rename_i f' rest hs
    split at h
    · rename_i r he
      cases h
      have := expect_some he
      obtain ⟨pre, rfl, hp, _⟩ := (soundAt _).sub _ _ _ hs
      exact ⟨pre, r, by rw [this], hp⟩
    · simp at h

/-! ### the tokenizer puts exactly one `Eof`, at the end -/

theorem mem_of_findSome? {α β : Type} {f : α → Option β} {l : List α} {b : β}
    (h : l.findSome? f = some b) : ∃ a ∈ l, f a = some b := by
  induction l with
  | nil => simp at h
  | cons a as ih =>
    simp only [List.findSome?] at h
    split at h
    · rename_i b' hb; cases h; exact ⟨a, by simp, hb⟩
    · obtain ⟨a', ha', hf⟩ := ih h; exact ⟨a', by simp [ha'], hf⟩

theorem symbolTable_no_eof : ∀ p ∈ symbolTable, p.2 ≠ Token.eof := by decide
theorem keywordTable_no_eof : ∀ p ∈ keywordTable, p.2 ≠ Token.eof := by decide

theorem matchSymbol_ne_eof {cs rest : List Ch} {t : Token} (h : matchSymbol cs = some (t, rest)) :
    t ≠ .eof := by
  unfold matchSymbol at h
  obtain ⟨⟨s, t'⟩, hm, hf⟩ := mem_of_findSome? h
  simp only [Option.map_eq_some_iff] at hf
  obtain ⟨r, _, hp⟩ := hf
  cases hp
  exact symbolTable_no_eof _ hm

theorem scan_no_eof : ∀ (fuel : Nat) (cs : List Ch), ∀ l ∈ scan fuel cs, ∀ t, l = Lexeme.sym t → t ≠ .eof := by
  intro fuel
  induction fuel with
  | zero => intro cs l hl; simp [scan] at hl
  | succ n ih =>
    intro cs l hl t ht
    cases cs with
    | nil => simp [scan] at hl
    | cons x xs =>
      simp only [scan] at hl
      split at hl
      · rename_i t' rest hm
        simp at hl
        rcases hl with rfl | hl
        · cases ht; exact matchSymbol_ne_eof hm
        · exact ih _ l hl t ht
      · split at hl
        · simp at hl
          rcases hl with rfl | hl
          · cases ht
          · exact ih _ l hl t ht
        · split at hl
          · simp at hl
            rcases hl with rfl | hl
            · cases ht
            · exact ih _ l hl t ht
          · split at hl
            · simp at hl
              rcases hl with rfl | hl
              · cases ht
              · exact ih _ l hl t ht
            · split at hl
              · exact ih _ l hl t ht
              · exact ih _ l hl t ht

theorem toTokens_no_eof : ∀ (ls : List Lexeme) (vt : VarTable) (ts : List Token),
    (∀ l ∈ ls, ∀ t, l = Lexeme.sym t → t ≠ .eof) → toTokens ls vt = some ts → Token.eof ∉ ts := by
  intro ls
  induction ls with
  | nil => intro vt ts _ h; simp [toTokens] at h; subst h; simp
  | cons l ls ih =>
    intro vt ts hl h
    have hl' : ∀ l' ∈ ls, ∀ t, l' = Lexeme.sym t → t ≠ .eof := fun l' hm => hl l' (by simp [hm])
    cases l with
    | sym t =>
      simp only [toTokens, Option.map_eq_some_iff] at h
      obtain ⟨ts', h', rfl⟩ := h
      have := ih vt ts' hl' h'
      have ht : t ≠ .eof := hl (.sym t) (by simp) t rfl
      simp [this, ht.symm]
    | ref n =>
      simp only [toTokens, Option.map_eq_some_iff] at h
      obtain ⟨ts', h', rfl⟩ := h
      have := ih vt ts' hl' h'
      simp [this]
    | num ds =>
      simp only [toTokens] at h
      split at h
      · simp at h
      · simp only [Option.map_eq_some_iff] at h
        obtain ⟨ts', h', rfl⟩ := h
        have := ih vt ts' hl' h'
        simp [this]
    | ident name =>
      simp only [toTokens] at h
      split at h
      · rename_i t hk
        simp only [Option.map_eq_some_iff] at h hk
        obtain ⟨ts', h', rfl⟩ := h
        obtain ⟨p, hp, rfl⟩ := hk
        have hmem : p ∈ keywordTable := List.mem_of_find?_eq_some hp
        have := ih vt ts' hl' h'
        have hne := keywordTable_no_eof p hmem
        simp [this, hne.symm]
      · split at h
        · simp only [Option.map_eq_some_iff] at h
          obtain ⟨ts', h', rfl⟩ := h
          have := ih vt ts' hl' h'
          simp [this]
        · simp only [Option.map_eq_some_iff] at h
          obtain ⟨ts', h', rfl⟩ := h
          have := ih _ ts' hl' h'
          simp [this]

theorem tokenize_eof {cs : List Ch} {ord : List (String × Nat)} {ts : List Token}
    (h : tokenize cs ord = some ts) : ∃ body, ts = body ++ [.eof] ∧ Token.eof ∉ body := by
  simp only [tokenize, Option.map_eq_some_iff] at h
  obtain ⟨body, hb, rfl⟩ := h
  exact ⟨body, rfl, toTokens_no_eof _ _ _ (scan_no_eof _ _) hb⟩

theorem eq_of_append_eof {pre r body : List Token} (h : pre ++ Token.eof :: r = body ++ [Token.eof])
    (hb : Token.eof ∉ body) : r = [] ∧ pre = body := by
  induction pre generalizing body with
  | nil =>
    cases body with
    | nil => simp at h; exact ⟨h, rfl⟩
    | cons b bs =>
      simp at h
      exact absurd h.1.symm (fun e => hb (by simp [e]))
  | cons p ps ih =>
    cases body with
    | nil =>
      simp at h
    | cons b bs =>
      simp at h
      have hb' : Token.eof ∉ bs := fun hm => hb (by simp [hm])
      obtain ⟨hr, hp⟩ := ih h.2 hb'
      exact ⟨hr, by rw [h.1, hp]⟩

/-- for the token list of any text: if the parser accepts it, it is a sentence of the grammar
and the tree is one the grammar assigns to it -/
theorem parse_text_sound {cs : List Ch} {ord : List (String × Nat)} {ts : List Token} {f : Formula}
    (ht : tokenize cs ord = some ts) (h : parseFormula ts = some f) : Derives ts f := by
  obtain ⟨body, rfl, hb⟩ := tokenize_eof ht
  obtain ⟨pre, r, he, hs⟩ := parseFormula_sound' h
  obtain ⟨hr, hp⟩ := eq_of_append_eof he.symm hb
  subst hp
  exact ⟨pre, rfl, hs⟩

end Rsbdd
