/-
Bound names never leak: the support of whatever `evalF` returns consists of variables with
a free occurrence in the formula.  For the intermediate formulas that the fixed-point loop
builds, a diagram leaf contributes its support; leaves are not affected by fixed-point
binders (substitution does not reach into them) but are by quantifiers.
-/
import Rsbdd.Proofs.SemSound

namespace Rsbdd
open BDD Formula

mutual
/-- `z` is tested by a diagram leaf of `f` that is not under a quantifier on `z` -/
def LeafV (z : Nat) : Formula → Prop
  | .quant _ vs f => z ∉ vs ∧ LeafV z f
  | .ite a b c => LeafV z a ∨ LeafV z b ∨ LeafV z c
  | .not f => LeafV z f
  | .bin _ a b => LeafV z a ∨ LeafV z b
  | .cntConst _ fs _ => LeafVL z fs
  | .cntVar _ l r => LeafVL z l ∨ LeafVL z r
  | .fix _ _ f => LeafV z f
  | .subtree b => z ∈ support b
  | .var _ => False
  | .true_ => False
  | .false_ => False
  | .ref _ => False
def LeafVL (z : Nat) : List Formula → Prop
  | [] => False
  | f :: fs => LeafV z f ∨ LeafVL z fs
end

mutual
/-- `z` has an occurrence in `f` that is not enclosed by a quantifier list or a fixed-point
binder on `z`, or is tested by a diagram leaf not under a quantifier on `z` -/
def FV (z : Nat) : Formula → Prop
  | .var v => v = z
  | .quant _ vs f => z ∉ vs ∧ FV z f
  | .ite a b c => FV z a ∨ FV z b ∨ FV z c
  | .not f => FV z f
  | .bin _ a b => FV z a ∨ FV z b
  | .cntConst _ fs _ => FVL z fs
  | .cntVar _ l r => FVL z l ∨ FVL z r
  | .fix v _ f => (v ≠ z ∧ FV z f) ∨ LeafV z f
  | .subtree b => z ∈ support b
  | .true_ => False
  | .false_ => False
  | .ref _ => False
def FVL (z : Nat) : List Formula → Prop
  | [] => False
  | f :: fs => FV z f ∨ FVL z fs
end

mutual
theorem leafV_replaceVar (z x : Nat) (y : BDD) :
    ∀ t : Formula, LeafV z (replaceVar x (.subtree y) t) → LeafV z t ∨ z ∈ support y
  | .var v, h => by
    by_cases hv : v = x
    · simp only [replaceVar, hv, if_true, LeafV] at h; exact Or.inr h
    · simp [replaceVar, hv, LeafV] at h
  | .quant q vs f, h => by
    by_cases hc : vs.contains x = true
    · simp only [replaceVar, hc, if_true] at h; exact Or.inl h
    · have hf : vs.contains x = false := by simpa using hc
      simp only [replaceVar, hf, Bool.false_eq_true, if_false, LeafV] at h
      rcases leafV_replaceVar z x y f h.2 with h' | h'
      · exact Or.inl (by simp only [LeafV]; exact ⟨h.1, h'⟩)
      · exact Or.inr h'
  | .fix v i f, h => by
    by_cases hv : v = x
    · simp only [replaceVar, hv, if_true] at h; exact Or.inl (by simpa [hv] using h)
    · simp only [replaceVar, hv, if_false, LeafV] at h
      rcases leafV_replaceVar z x y f h with h' | h'
      · exact Or.inl (by simp only [LeafV]; exact h')
      · exact Or.inr h'
  | .ite a b c, h => by
    simp only [replaceVar, LeafV] at h
    rcases h with h | h | h
    · rcases leafV_replaceVar z x y a h with h' | h'
      · exact Or.inl (by simp only [LeafV]; exact Or.inl h')
      · exact Or.inr h'
    · rcases leafV_replaceVar z x y b h with h' | h'
      · exact Or.inl (by simp only [LeafV]; exact Or.inr (Or.inl h'))
      · exact Or.inr h'
    · rcases leafV_replaceVar z x y c h with h' | h'
      · exact Or.inl (by simp only [LeafV]; exact Or.inr (Or.inr h'))
      · exact Or.inr h'
  | .not f, h => by
    simp only [replaceVar, LeafV] at h
    rcases leafV_replaceVar z x y f h with h' | h'
    · exact Or.inl (by simp only [LeafV]; exact h')
    · exact Or.inr h'
  | .bin op a b, h => by
    simp only [replaceVar, LeafV] at h
    rcases h with h | h
    · rcases leafV_replaceVar z x y a h with h' | h'
      · exact Or.inl (by simp only [LeafV]; exact Or.inl h')
      · exact Or.inr h'
    · rcases leafV_replaceVar z x y b h with h' | h'
      · exact Or.inl (by simp only [LeafV]; exact Or.inr h')
      · exact Or.inr h'
  | .cntConst op fs n, h => by
    simp only [replaceVar, LeafV] at h
    rcases leafVL_replaceVarL z x y fs h with h' | h'
    · exact Or.inl (by simp only [LeafV]; exact h')
    · exact Or.inr h'
  | .cntVar op l r, h => by
    simp only [replaceVar, LeafV] at h
    rcases h with h | h
    · rcases leafVL_replaceVarL z x y l h with h' | h'
      · exact Or.inl (by simp only [LeafV]; exact Or.inl h')
      · exact Or.inr h'
    · rcases leafVL_replaceVarL z x y r h with h' | h'
      · exact Or.inl (by simp only [LeafV]; exact Or.inr h')
      · exact Or.inr h'
  | .subtree c, h => by simp only [replaceVar] at h; exact Or.inl h
  | .true_, h => by simp [replaceVar, LeafV] at h
  | .false_, h => by simp [replaceVar, LeafV] at h
  | .ref n, h => by simp [replaceVar, LeafV] at h
theorem leafVL_replaceVarL (z x : Nat) (y : BDD) :
    ∀ fs : List Formula, LeafVL z (replaceVarL x (.subtree y) fs) → LeafVL z fs ∨ z ∈ support y
  | [], h => by simp [replaceVarL, LeafVL] at h
  | f :: fs, h => by
    simp only [replaceVarL, LeafVL] at h
    rcases h with h | h
    · rcases leafV_replaceVar z x y f h with h' | h'
      · exact Or.inl (by simp only [LeafVL]; exact Or.inl h')
      · exact Or.inr h'
    · rcases leafVL_replaceVarL z x y fs h with h' | h'
      · exact Or.inl (by simp only [LeafVL]; exact Or.inr h')
      · exact Or.inr h'
end

mutual
theorem fv_replaceVar (z x : Nat) (y : BDD) :
    ∀ t : Formula, FV z (replaceVar x (.subtree y) t) →
      (FV z t ∧ x ≠ z) ∨ LeafV z t ∨ z ∈ support y
  | .var v, h => by
    by_cases hv : v = x
    · simp only [replaceVar, hv, if_true, FV] at h; exact Or.inr (Or.inr h)
    · simp only [replaceVar, hv, if_false, FV] at h
      exact Or.inl ⟨by simp only [FV]; exact h, fun e => hv (h.trans e.symm)⟩
  | .quant q vs f, h => by
    by_cases hc : vs.contains x = true
    · simp only [replaceVar, hc, if_true] at h
      have hm : x ∈ vs := by simpa using hc
      have h' := h
      simp only [FV] at h'
      exact Or.inl ⟨h, fun e => h'.1 (e ▸ hm)⟩
    · have hf : vs.contains x = false := by simpa using hc
      simp only [replaceVar, hf, Bool.false_eq_true, if_false, FV] at h
      rcases fv_replaceVar z x y f h.2 with h' | h' | h'
      · exact Or.inl ⟨by simp only [FV]; exact ⟨h.1, h'.1⟩, h'.2⟩
      · exact Or.inr (Or.inl (by simp only [LeafV]; exact ⟨h.1, h'⟩))
      · exact Or.inr (Or.inr h')
  | .fix v i f, h => by
    by_cases hv : v = x
    · simp only [replaceVar, hv, if_true, FV] at h
      rcases h with h | h
      · exact Or.inl ⟨by simp only [FV, hv]; exact Or.inl h, h.1⟩
      · exact Or.inr (Or.inl (by simp only [LeafV]; exact h))
    · simp only [replaceVar, hv, if_false, FV] at h
      rcases h with h | h
      · rcases fv_replaceVar z x y f h.2 with h' | h' | h'
        · exact Or.inl ⟨by simp only [FV]; exact Or.inl ⟨h.1, h'.1⟩, h'.2⟩
        · exact Or.inr (Or.inl (by simp only [LeafV]; exact h'))
        · exact Or.inr (Or.inr h')
      · rcases leafV_replaceVar z x y f h with h' | h'
        · exact Or.inr (Or.inl (by simp only [LeafV]; exact h'))
        · exact Or.inr (Or.inr h')
  | .ite a b c, h => by
    simp only [replaceVar, FV] at h
    rcases h with h | h | h
    · rcases fv_replaceVar z x y a h with h' | h' | h'
      · exact Or.inl ⟨by simp only [FV]; exact Or.inl h'.1, h'.2⟩
      · exact Or.inr (Or.inl (by simp only [LeafV]; exact Or.inl h'))
      · exact Or.inr (Or.inr h')
    · rcases fv_replaceVar z x y b h with h' | h' | h'
      · exact Or.inl ⟨by simp only [FV]; exact Or.inr (Or.inl h'.1), h'.2⟩
      · exact Or.inr (Or.inl (by simp only [LeafV]; exact Or.inr (Or.inl h')))
      · exact Or.inr (Or.inr h')
    · rcases fv_replaceVar z x y c h with h' | h' | h'
      · exact Or.inl ⟨by simp only [FV]; exact Or.inr (Or.inr h'.1), h'.2⟩
      · exact Or.inr (Or.inl (by simp only [LeafV]; exact Or.inr (Or.inr h')))
      · exact Or.inr (Or.inr h')
  | .not f, h => by
    simp only [replaceVar, FV] at h
    rcases fv_replaceVar z x y f h with h' | h' | h'
    · exact Or.inl ⟨by simp only [FV]; exact h'.1, h'.2⟩
    · exact Or.inr (Or.inl (by simp only [LeafV]; exact h'))
    · exact Or.inr (Or.inr h')
  | .bin op a b, h => by
    simp only [replaceVar, FV] at h
    rcases h with h | h
    · rcases fv_replaceVar z x y a h with h' | h' | h'
      · exact Or.inl ⟨by simp only [FV]; exact Or.inl h'.1, h'.2⟩
      · exact Or.inr (Or.inl (by simp only [LeafV]; exact Or.inl h'))
      · exact Or.inr (Or.inr h')
    · rcases fv_replaceVar z x y b h with h' | h' | h'
      · exact Or.inl ⟨by simp only [FV]; exact Or.inr h'.1, h'.2⟩
      · exact Or.inr (Or.inl (by simp only [LeafV]; exact Or.inr h'))
      · exact Or.inr (Or.inr h')
  | .cntConst op fs n, h => by
    simp only [replaceVar, FV] at h
    rcases fvl_replaceVarL z x y fs h with h' | h' | h'
    · exact Or.inl ⟨by simp only [FV]; exact h'.1, h'.2⟩
    · exact Or.inr (Or.inl (by simp only [LeafV]; exact h'))
    · exact Or.inr (Or.inr h')
  | .cntVar op l r, h => by
    simp only [replaceVar, FV] at h
    rcases h with h | h
    · rcases fvl_replaceVarL z x y l h with h' | h' | h'
      · exact Or.inl ⟨by simp only [FV]; exact Or.inl h'.1, h'.2⟩
      · exact Or.inr (Or.inl (by simp only [LeafV]; exact Or.inl h'))
      · exact Or.inr (Or.inr h')
    · rcases fvl_replaceVarL z x y r h with h' | h' | h'
      · exact Or.inl ⟨by simp only [FV]; exact Or.inr h'.1, h'.2⟩
      · exact Or.inr (Or.inl (by simp only [LeafV]; exact Or.inr h'))
      · exact Or.inr (Or.inr h')
  | .subtree c, h => by
    simp only [replaceVar, FV] at h
    exact Or.inr (Or.inl (by simp only [LeafV]; exact h))
  | .true_, h => by simp [replaceVar, FV] at h
  | .false_, h => by simp [replaceVar, FV] at h
  | .ref n, h => by simp [replaceVar, FV] at h
theorem fvl_replaceVarL (z x : Nat) (y : BDD) :
    ∀ fs : List Formula, FVL z (replaceVarL x (.subtree y) fs) →
      (FVL z fs ∧ x ≠ z) ∨ LeafVL z fs ∨ z ∈ support y
  | [], h => by simp [replaceVarL, FVL] at h
  | f :: fs, h => by
    simp only [replaceVarL, FVL] at h
    rcases h with h | h
    · rcases fv_replaceVar z x y f h with h' | h' | h'
      · exact Or.inl ⟨by simp only [FVL]; exact Or.inl h'.1, h'.2⟩
      · exact Or.inr (Or.inl (by simp only [LeafVL]; exact Or.inl h'))
      · exact Or.inr (Or.inr h')
    · rcases fvl_replaceVarL z x y fs h with h' | h' | h'
      · exact Or.inl ⟨by simp only [FVL]; exact Or.inr h'.1, h'.2⟩
      · exact Or.inr (Or.inl (by simp only [LeafVL]; exact Or.inr h'))
      · exact Or.inr (Or.inr h')
end

end Rsbdd

namespace Rsbdd
open BDD Formula

/-! ### support of the derived operations -/

theorem mem_support_implies {x : Nat} {a b : BDD} (h : x ∈ support (implies a b)) :
    x ∈ support a ∨ x ∈ support b := by
  rcases mem_support_or h with h | h
  · exact Or.inl (mem_support_not h)
  · exact Or.inr h

theorem mem_support_ite {x : Nat} {a b c : BDD} (h : x ∈ support (BDD.ite a b c)) :
    x ∈ support a ∨ x ∈ support b ∨ x ∈ support c := by
  rcases mem_support_and h with h | h
  · rcases mem_support_implies h with h | h
    · exact Or.inl h
    · exact Or.inr (Or.inl h)
  · rcases mem_support_implies h with h | h
    · exact Or.inl (mem_support_not h)
    · exact Or.inr (Or.inr h)

theorem mem_support_binApply {x : Nat} (op : BinOp) {l r : BDD}
    (h : x ∈ support (binApply op l r)) : x ∈ support l ∨ x ∈ support r := by
  cases op <;> simp only [binApply, BDD.xor, BDD.nor, BDD.nand, BDD.eq] at h
  · exact mem_support_and h
  · exact mem_support_or h
  · rcases mem_support_or h with h | h
    · rcases mem_support_and h with h | h
      · exact Or.inl (mem_support_not h)
      · exact Or.inr h
    · rcases mem_support_and h with h | h
      · exact Or.inl h
      · exact Or.inr (mem_support_not h)
  · rcases mem_support_and h with h | h
    · exact Or.inl (mem_support_not h)
    · exact Or.inr (mem_support_not h)
  · exact mem_support_and (mem_support_not h)
  · exact mem_support_implies h
  · exact (mem_support_implies h).symm
  · rcases mem_support_and h with h | h
    · exact mem_support_implies h
    · exact (mem_support_implies h).symm

theorem mem_support_cmpCount {x : Nat} (cmp : Int → Bool) {bs : List BDD} {n : Int}
    (h : x ∈ support (cmpCount cmp bs n)) : ∃ b ∈ bs, x ∈ support b := by
  induction bs generalizing n with
  | nil => simp [cmpCount, support_mkConst] at h
  | cons b bs ih =>
    simp only [cmpCount] at h
    rcases mem_support_ite h with h | h | h
    · exact ⟨b, by simp, h⟩
    · obtain ⟨c, hc, hx⟩ := ih h; exact ⟨c, by simp [hc], hx⟩
    · obtain ⟨c, hc, hx⟩ := ih h; exact ⟨c, by simp [hc], hx⟩

theorem mem_support_cmpCountCompare {x : Nat} {cmp : List BDD → Int → BDD} {as bs : List BDD}
    (hcmp : ∀ n, x ∈ support (cmp bs n) → ∃ b ∈ bs, x ∈ support b) {n : Int}
    (h : x ∈ support (cmpCountCompare cmp as bs n)) :
    (∃ b ∈ as, x ∈ support b) ∨ (∃ b ∈ bs, x ∈ support b) := by
  induction as generalizing n with
  | nil => exact Or.inr (hcmp n h)
  | cons a as ih =>
    simp only [cmpCountCompare] at h
    rcases mem_support_ite h with h | h | h
    · exact Or.inl ⟨a, by simp, h⟩
    · rcases ih h with ⟨c, hc, hx⟩ | h'
      · exact Or.inl ⟨c, by simp [hc], hx⟩
      · exact Or.inr h'
    · rcases ih h with ⟨c, hc, hx⟩ | h'
      · exact Or.inl ⟨c, by simp [hc], hx⟩
      · exact Or.inr h'

theorem mem_support_cntConstApply {x : Nat} (op : CntOp) {bs : List BDD} {n : Nat}
    (h : x ∈ support (cntConstApply op bs n)) : ∃ b ∈ bs, x ∈ support b := by
  cases op <;> simp only [cntConstApply, amn, aln, exn] at h <;> exact mem_support_cmpCount _ h

theorem mem_support_cntVarApply {x : Nat} (op : CntOp) {l r : List BDD}
    (h : x ∈ support (cntVarApply op l r)) :
    (∃ b ∈ l, x ∈ support b) ∨ (∃ b ∈ r, x ∈ support b) := by
  have ha : ∀ n, x ∈ support (aln r n) → ∃ b ∈ r, x ∈ support b := fun n h => mem_support_cmpCount _ h
  have hm : ∀ n, x ∈ support (amn r n) → ∃ b ∈ r, x ∈ support b := fun n h => mem_support_cmpCount _ h
  cases op <;> simp only [cntVarApply, countLeq, countLt, countGeq, countGt, countEq] at h
  · exact mem_support_cmpCountCompare ha h
  · exact mem_support_cmpCountCompare ha h
  · exact mem_support_cmpCountCompare hm h
  · exact mem_support_cmpCountCompare hm h
  · rcases mem_support_and h with h | h
    · exact mem_support_cmpCountCompare ha h
    · exact mem_support_cmpCountCompare hm h

theorem not_mem_of_mem_support_exists {x : Nat} {vs : List Nat} {b : BDD} (hb : Ordered b)
    (h : x ∈ support (exists_ vs b)) : x ∉ vs := by
  induction vs with
  | nil => simp
  | cons s ss ih =>
    intro hx
    simp at hx
    by_cases hxs : x = s
    · subst hxs; exact not_mem_support_existsImpl (ordFrom_exists ss hb) h
    · have : x ∈ ss := by rcases hx with e | e; exact absurd e hxs; exact e
      exact ih (mem_support_existsImpl h) this

/-! ### ordered leaves -/

mutual
def OrdLeaves : Formula → Prop
  | .not f => OrdLeaves f
  | .quant _ _ f => OrdLeaves f
  | .cntConst _ fs _ => OrdLeavesL fs
  | .cntVar _ l r => OrdLeavesL l ∧ OrdLeavesL r
  | .fix _ _ t => OrdLeaves t
  | .ite c t e => OrdLeaves c ∧ OrdLeaves t ∧ OrdLeaves e
  | .bin _ l r => OrdLeaves l ∧ OrdLeaves r
  | .subtree b => Ordered b
  | .false_ => True
  | .true_ => True
  | .var _ => True
  | .ref _ => True
def OrdLeavesL : List Formula → Prop
  | [] => True
  | f :: fs => OrdLeaves f ∧ OrdLeavesL fs
end

mutual
theorem ordLeaves_replaceVar (x : Nat) {b : BDD} (hb : Ordered b) :
    ∀ (t : Formula), OrdLeaves t → OrdLeaves (replaceVar x (.subtree b) t)
  | .false_, _ => by simp [replaceVar, OrdLeaves]
  | .true_, _ => by simp [replaceVar, OrdLeaves]
  | .var v, _ => by
    by_cases h : v = x
    · simp [replaceVar, h, OrdLeaves, hb]
    · simp [replaceVar, h, OrdLeaves]
  | .ref _, _ => by simp [replaceVar, OrdLeaves]
  | .not f, h => by simp only [replaceVar, OrdLeaves] at h ⊢; exact ordLeaves_replaceVar x hb f h
  | .quant q vs f, h => by
    by_cases hc : vs.contains x = true
    · simp only [replaceVar, hc, if_true]; exact h
    · have hf : vs.contains x = false := by simpa using hc
      simp only [replaceVar, hf, Bool.false_eq_true, if_false, OrdLeaves] at h ⊢
      exact ordLeaves_replaceVar x hb f h
  | .cntConst op fs n, h => by
    simp only [replaceVar, OrdLeaves] at h ⊢; exact ordLeavesL_replaceVarL x hb fs h
  | .cntVar op l r, h => by
    simp only [replaceVar, OrdLeaves] at h ⊢
    exact ⟨ordLeavesL_replaceVarL x hb l h.1, ordLeavesL_replaceVarL x hb r h.2⟩
  | .fix v i f, h => by
    by_cases hv : v = x
    · simp only [replaceVar, hv, if_true]; subst hv; exact h
    · simp only [replaceVar, hv, if_false, OrdLeaves] at h ⊢
      exact ordLeaves_replaceVar x hb f h
  | .ite c t e, h => by
    simp only [replaceVar, OrdLeaves] at h ⊢
    exact ⟨ordLeaves_replaceVar x hb c h.1, ordLeaves_replaceVar x hb t h.2.1,
      ordLeaves_replaceVar x hb e h.2.2⟩
  | .bin op l r, h => by
    simp only [replaceVar, OrdLeaves] at h ⊢
    exact ⟨ordLeaves_replaceVar x hb l h.1, ordLeaves_replaceVar x hb r h.2⟩
  | .subtree c, h => by simp only [replaceVar]; exact h
theorem ordLeavesL_replaceVarL (x : Nat) {b : BDD} (hb : Ordered b) :
    ∀ (fs : List Formula), OrdLeavesL fs → OrdLeavesL (replaceVarL x (.subtree b) fs)
  | [], _ => by simp [replaceVarL, OrdLeavesL]
  | f :: fs, h => by
    simp only [replaceVarL, OrdLeavesL] at h ⊢
    exact ⟨ordLeaves_replaceVar x hb f h.1, ordLeavesL_replaceVarL x hb fs h.2⟩
end

theorem ordered_binApply (op : BinOp) {l r : BDD} (hl : Ordered l) (hr : Ordered r) :
    Ordered (binApply op l r) := by
  cases op <;> simp only [binApply]
  · exact ordFrom_and hl hr
  · exact ordFrom_or hl hr
  · exact ordFrom_xor hl hr
  · exact ordFrom_nor hl hr
  · exact ordFrom_nand hl hr
  · exact ordFrom_implies hl hr
  · exact ordFrom_implies hr hl
  · exact ordFrom_eq hl hr

theorem ordered_cntConstApply (op : CntOp) {bs : List BDD} (h : ∀ b ∈ bs, Ordered b) (n : Nat) :
    Ordered (cntConstApply op bs n) := by
  cases op <;> simp only [cntConstApply, amn, aln, exn] <;> exact ordFrom_cmpCount _ h _

theorem ordered_cntVarApply (op : CntOp) {l r : List BDD} (hl : ∀ b ∈ l, Ordered b)
    (hr : ∀ b ∈ r, Ordered b) : Ordered (cntVarApply op l r) := by
  have ha : ∀ n, OrdFrom 0 (aln r n) := fun n => ordFrom_cmpCount _ hr n
  have hm : ∀ n, OrdFrom 0 (amn r n) := fun n => ordFrom_cmpCount _ hr n
  cases op <;> simp only [cntVarApply, countLeq, countLt, countGeq, countGt, countEq]
  · exact ordFrom_cmpCountCompare ha hl 0
  · exact ordFrom_cmpCountCompare ha hl 1
  · exact ordFrom_cmpCountCompare hm hl 0
  · exact ordFrom_cmpCountCompare hm hl (-1)
  · exact ordFrom_and (ordFrom_cmpCountCompare ha hl 0) (ordFrom_cmpCountCompare hm hl 0)

/-- whatever the evaluator returns is ordered and tests only variables free in the formula;
no monotonicity hypothesis: this holds for every fixed point whose loop stops -/
theorem support_free_aux (iters : Nat) : ∀ fuel : Nat,
    (∀ f b, OrdLeaves f → evalF iters fuel f = some b → Ordered b ∧ ∀ z ∈ support b, FV z f) ∧
    (∀ fs bs, OrdLeavesL fs → evalFL iters fuel fs = some bs →
      (∀ b ∈ bs, Ordered b) ∧ ∀ b ∈ bs, ∀ z ∈ support b, FVL z fs) := by
  intro fuel
  induction fuel with
  | zero => exact ⟨fun f b _ h => by simp [evalF] at h, fun fs bs _ h => by simp [evalFL] at h⟩
  | succ fuel ih =>
    obtain ⟨ihF, ihL⟩ := ih
    constructor
    · intro f b hg h
      cases f with
      | false_ => simp [evalF] at h; subst h; exact ⟨trivial, fun z hz => by simp [support] at hz⟩
      | true_ => simp [evalF] at h; subst h; exact ⟨trivial, fun z hz => by simp [support] at hz⟩
      | ref n => simp [evalF] at h; subst h; exact ⟨trivial, fun z hz => by simp [support] at hz⟩
      | var v =>
        simp [evalF] at h; subst h
        exact ⟨ordFrom_var 0 v (Nat.zero_le _), fun z hz => by
          simp [var_eq_node, support] at hz; simp [FV, hz]⟩
      | subtree c => simp [evalF] at h; subst h; exact ⟨hg, fun z hz => by simpa [FV] using hz⟩
      | not g =>
        simp only [evalF, Option.map_eq_some_iff] at h
        obtain ⟨c, hc, rfl⟩ := h
        have := ihF g c hg hc
        exact ⟨ordFrom_not this.1, fun z hz => by simp only [FV]; exact this.2 z (mem_support_not hz)⟩
      | quant q vs g =>
        cases q with
        | exists_ =>
          simp only [evalF, Option.map_eq_some_iff] at h
          obtain ⟨c, hc, rfl⟩ := h
          have := ihF g c hg hc
          exact ⟨ordFrom_exists vs this.1, fun z hz => by
            simp only [FV]
            exact ⟨not_mem_of_mem_support_exists this.1 hz, this.2 z (mem_support_exists hz)⟩⟩
        | forall_ =>
          simp only [evalF, Option.map_eq_some_iff] at h
          obtain ⟨c, hc, rfl⟩ := h
          have := ihF g c hg hc
          exact ⟨ordFrom_all vs this.1, fun z hz => by
            simp only [FV]
            have hz' := mem_support_not hz
            exact ⟨not_mem_of_mem_support_exists (ordFrom_not this.1) hz',
              this.2 z (mem_support_not (mem_support_exists hz'))⟩⟩
      | cntConst op fs n =>
        simp only [evalF, Option.map_eq_some_iff] at h
        obtain ⟨bs, hbs, rfl⟩ := h
        have := ihL fs bs hg hbs
        exact ⟨ordered_cntConstApply op this.1 n, fun z hz => by
          simp only [FV]
          obtain ⟨c, hc, hx⟩ := mem_support_cntConstApply op hz
          exact this.2 c hc z hx⟩
      | cntVar op l r =>
        simp only [evalF] at h
        split at h
        · rename_i bl br hl hr
          cases h
          have h1 := ihL l bl hg.1 hl
          have h2 := ihL r br hg.2 hr
          exact ⟨ordered_cntVarApply op h1.1 h2.1, fun z hz => by
            simp only [FV]
            rcases mem_support_cntVarApply op hz with ⟨c, hc, hx⟩ | ⟨c, hc, hx⟩
            · exact Or.inl (h1.2 c hc z hx)
            · exact Or.inr (h2.2 c hc z hx)⟩
        · simp at h
      | ite c t e =>
        simp only [evalF] at h
        split at h
        · rename_i bc bt be hc ht he
          cases h
          have h1 := ihF c bc hg.1 hc
          have h2 := ihF t bt hg.2.1 ht
          have h3 := ihF e be hg.2.2 he
          exact ⟨ordFrom_ite h1.1 h2.1 h3.1, fun z hz => by
            simp only [FV]
            rcases mem_support_ite hz with h | h | h
            · exact Or.inl (h1.2 z h)
            · exact Or.inr (Or.inl (h2.2 z h))
            · exact Or.inr (Or.inr (h3.2 z h))⟩
        · simp at h
      | bin op l r =>
        simp only [evalF] at h
        split at h
        · rename_i bl br hl hr
          cases h
          have h1 := ihF l bl hg.1 hl
          have h2 := ihF r br hg.2 hr
          exact ⟨ordered_binApply op h1.1 h2.1, fun z hz => by
            simp only [FV]
            rcases mem_support_binApply op hz with h | h
            · exact Or.inl (h1.2 z h)
            · exact Or.inr (h2.2 z h)⟩
        · simp at h
      | fix x init t =>
        simp only [evalF] at h
        have hinv := fpLoop_inv
          (P := fun y => Ordered y ∧ ∀ z ∈ support y, FV z (.fix x init t))
          (t := fun y => evalF iters fuel (replaceVar x (.subtree y) t))
          (fun y y' hy hyy => by
            have := ihF _ y' (ordLeaves_replaceVar x hy.1 t hg) hyy
            refine ⟨this.1, fun z hz => ?_⟩
            rcases fv_replaceVar z x y t (this.2 z hz) with h' | h' | h'
            · simp only [FV]; exact Or.inl ⟨h'.2, h'.1⟩
            · simp only [FV]; exact Or.inr h'
            · exact hy.2 z h')
          iters (mkConst init) b
          ⟨ordFrom_mkConst 0 init, fun z hz => by simp [support_mkConst] at hz⟩ h
        exact hinv.1
    · intro fs bs hg h
      cases fs with
      | nil =>
        simp [evalFL] at h; subst h
        exact ⟨fun b hb => by simp at hb, fun b hb => by simp at hb⟩
      | cons f fs =>
        simp only [evalFL] at h
        split at h
        · rename_i b bs' hb hbs
          cases h
          have h1 := ihF f b hg.1 hb
          have h2 := ihL fs bs' hg.2 hbs
          refine ⟨fun c hc => ?_, fun c hc z hz => ?_⟩
          · simp at hc; rcases hc with rfl | hc
            · exact h1.1
            · exact h2.1 c hc
          · simp only [FVL]
            simp at hc; rcases hc with rfl | hc
            · exact Or.inl (h1.2 z hz)
            · exact Or.inr (h2.2 c hc z hz)
        · simp at h

end Rsbdd

namespace Rsbdd
open BDD Formula

mutual
/-- what the parser can produce and the tool can evaluate: no diagram leaf, no reference -/
def Parsed : Formula → Prop
  | .not f => Parsed f
  | .quant _ _ f => Parsed f
  | .cntConst _ fs _ => ParsedL fs
  | .cntVar _ l r => ParsedL l ∧ ParsedL r
  | .fix _ _ t => Parsed t
  | .ite c t e => Parsed c ∧ Parsed t ∧ Parsed e
  | .bin _ l r => Parsed l ∧ Parsed r
  | .subtree _ => False
  | .ref _ => False
  | .false_ => True
  | .true_ => True
  | .var _ => True
def ParsedL : List Formula → Prop
  | [] => True
  | f :: fs => Parsed f ∧ ParsedL fs
end

mutual
theorem not_leafV_of_parsed (z : Nat) : ∀ f : Formula, Parsed f → ¬ LeafV z f
  | .not f, h => by simp only [LeafV]; exact not_leafV_of_parsed z f h
  | .quant _ vs f, h => by simp only [LeafV]; exact fun h' => not_leafV_of_parsed z f h h'.2
  | .cntConst _ fs _, h => by simp only [LeafV]; exact not_leafVL_of_parsedL z fs h
  | .cntVar _ l r, h => by
    simp only [LeafV]
    exact fun h' => h'.elim (not_leafVL_of_parsedL z l h.1) (not_leafVL_of_parsedL z r h.2)
  | .fix _ _ t, h => by simp only [LeafV]; exact not_leafV_of_parsed z t h
  | .ite c t e, h => by
    simp only [LeafV]
    exact fun h' => h'.elim (not_leafV_of_parsed z c h.1)
      (fun h'' => h''.elim (not_leafV_of_parsed z t h.2.1) (not_leafV_of_parsed z e h.2.2))
  | .bin _ l r, h => by
    simp only [LeafV]
    exact fun h' => h'.elim (not_leafV_of_parsed z l h.1) (not_leafV_of_parsed z r h.2)
  | .subtree _, h => by simp [Parsed] at h
  | .ref _, h => by simp [Parsed] at h
  | .false_, _ => by simp [LeafV]
  | .true_, _ => by simp [LeafV]
  | .var _, _ => by simp [LeafV]
theorem not_leafVL_of_parsedL (z : Nat) : ∀ fs : List Formula, ParsedL fs → ¬ LeafVL z fs
  | [], _ => by simp [LeafVL]
  | f :: fs, h => by
    simp only [LeafVL]
    exact fun h' => h'.elim (not_leafV_of_parsed z f h.1) (not_leafVL_of_parsedL z fs h.2)
end

mutual
/-- the implementation's free-variable test is exactly "has a free occurrence" -/
theorem varIsFree_iff_fv (z : Nat) : ∀ f : Formula, Parsed f → (varIsFree z f = true ↔ FV z f)
  | .var v, _ => by simp [varIsFree, FV]
  | .not f, h => by simp only [varIsFree, FV]; exact varIsFree_iff_fv z f h
  | .quant _ vs f, h => by
    have := varIsFree_iff_fv z f h
    by_cases hc : vs.contains z = true
    · have hm : z ∈ vs := by simpa using hc
      simp [varIsFree, FV, hm]
    · have hm : z ∉ vs := by simpa using hc
      have hf : vs.contains z = false := by simpa using hc
      simp [varIsFree, FV, hm, hf, this]
  | .cntConst _ fs _, h => by simp only [varIsFree, FV]; exact varIsFreeL_iff_fvl z fs h
  | .cntVar _ l r, h => by
    simp only [varIsFree, FV, Bool.or_eq_true, varIsFreeL_iff_fvl z l h.1, varIsFreeL_iff_fvl z r h.2]
  | .fix v _ t, h => by
    have := varIsFree_iff_fv z t h
    have hl := not_leafV_of_parsed z t h
    simp [varIsFree, FV, this, hl]
  | .ite c t e, h => by
    simp only [varIsFree, FV, Bool.or_eq_true, varIsFree_iff_fv z c h.1, varIsFree_iff_fv z t h.2.1,
      varIsFree_iff_fv z e h.2.2, or_assoc]
  | .bin _ l r, h => by
    simp only [varIsFree, FV, Bool.or_eq_true, varIsFree_iff_fv z l h.1, varIsFree_iff_fv z r h.2]
  | .subtree _, h => by simp [Parsed] at h
  | .ref _, h => by simp [Parsed] at h
  | .false_, _ => by simp [varIsFree, FV]
  | .true_, _ => by simp [varIsFree, FV]
theorem varIsFreeL_iff_fvl (z : Nat) :
    ∀ fs : List Formula, ParsedL fs → (varIsFreeL z fs = true ↔ FVL z fs)
  | [], _ => by simp [varIsFreeL, FVL]
  | f :: fs, h => by
    simp only [varIsFreeL, FVL, Bool.or_eq_true, varIsFree_iff_fv z f h.1, varIsFreeL_iff_fvl z fs h.2]
end

mutual
theorem ordLeaves_of_parsed : ∀ f : Formula, Parsed f → OrdLeaves f
  | .not f, h => by simp only [OrdLeaves]; exact ordLeaves_of_parsed f h
  | .quant _ _ f, h => by simp only [OrdLeaves]; exact ordLeaves_of_parsed f h
  | .cntConst _ fs _, h => by simp only [OrdLeaves]; exact ordLeavesL_of_parsedL fs h
  | .cntVar _ l r, h => by
    simp only [OrdLeaves]; exact ⟨ordLeavesL_of_parsedL l h.1, ordLeavesL_of_parsedL r h.2⟩
  | .fix _ _ t, h => by simp only [OrdLeaves]; exact ordLeaves_of_parsed t h
  | .ite c t e, h => by
    simp only [OrdLeaves]
    exact ⟨ordLeaves_of_parsed c h.1, ordLeaves_of_parsed t h.2.1, ordLeaves_of_parsed e h.2.2⟩
  | .bin _ l r, h => by
    simp only [OrdLeaves]; exact ⟨ordLeaves_of_parsed l h.1, ordLeaves_of_parsed r h.2⟩
  | .subtree _, h => by simp [Parsed] at h
  | .ref _, h => by simp [Parsed] at h
  | .false_, _ => by simp [OrdLeaves]
  | .true_, _ => by simp [OrdLeaves]
  | .var _, _ => by simp [OrdLeaves]
theorem ordLeavesL_of_parsedL : ∀ fs : List Formula, ParsedL fs → OrdLeavesL fs
  | [], _ => by simp [OrdLeavesL]
  | f :: fs, h => by
    simp only [OrdLeavesL]; exact ⟨ordLeaves_of_parsed f h.1, ordLeavesL_of_parsedL fs h.2⟩
end

end Rsbdd
