/-
Completeness of the recursive-descent parser: every sentence of the grammar is accepted with the
tree the grammar assigns to it.  Closed terms are self-delimiting; an Open term or a sub-formula
is read to its end whenever the next token is not a binary operator.  The fuel bounds (4 per
token) are the ones `parseFormula` supplies.
-/
import Rsbdd.Proofs.ParseSound

namespace Rsbdd
open Parser Grammar

/-- the next token cannot continue a sub-formula as a binary operator -/
def Stop (rest : List Token) : Prop := ∀ t r, rest = t :: r → Grammar.binOpOf t = none

theorem stop_cons {t : Token} {r : List Token} (h : Grammar.binOpOf t = none) : Stop (t :: r) := by
  intro t' r' e; cases e; exact h

theorem vars_complete : ∀ {vs ids}, Vars vs ids → ∀ (rest : List Token) (fuel : Nat), vs.length + 1 ≤ fuel →
    parseVarList fuel (vs ++ .hash :: rest) = some (ids, .hash :: rest)
  | _, _, .nil, rest, fuel, h => by
    obtain ⟨k, rfl⟩ : ∃ k, fuel = k + 1 := ⟨fuel - 1, by simp at h; omega⟩
    simp [parseVarList, check]
  | _, _, .one, rest, fuel, h => by
    obtain ⟨k, rfl⟩ : ∃ k, fuel = k + 1 := ⟨fuel - 1, by simp at h; omega⟩
    simp [parseVarList, check, parseVarName]
  | _, _, .cons (rest := vs') hv, rest, fuel, h => by
    obtain ⟨k, rfl⟩ : ∃ k, fuel = k + 1 := ⟨fuel - 1, by simp at h; omega⟩
    have ih := vars_complete hv rest k (by simp at h; omega)
    simp [parseVarList, check, parseVarName, expect, ih]


theorem flist_head {l : List Token} {fs : List Formula} (h : FList l fs) : ∃ tl, l = .openSquare :: tl := by
  cases h with
  | mk hi => exact ⟨_, rfl⟩

/-- a sub-formula never starts with `]` -/
theorem closed_head : ∀ {ts f}, Closed ts f → ∃ t tl, ts = t :: tl ∧ t ≠ .closeSquare
  | _, _, .paren _ => ⟨_, _, rfl, by simp⟩
  | _, _, .cntConst hl _ => by obtain ⟨tl, rfl⟩ := flist_head hl; exact ⟨_, _, rfl, by simp⟩
  | _, _, .cntVar hl _ _ => by obtain ⟨tl, rfl⟩ := flist_head hl; exact ⟨_, _, rfl, by simp⟩
  | _, _, .true_ => ⟨_, _, rfl, by simp⟩
  | _, _, .false_ => ⟨_, _, rfl, by simp⟩
  | _, _, .ref => ⟨_, _, rfl, by simp⟩
  | _, _, .var => ⟨_, _, rfl, by simp⟩
  | _, _, .not _ => ⟨_, _, rfl, by simp⟩

theorem open_head : ∀ {ts f}, Open ts f → ∃ t tl, ts = t :: tl ∧ t ≠ .closeSquare
  | _, _, .exists_ _ _ => ⟨_, _, rfl, by simp⟩
  | _, _, .forall_ _ _ => ⟨_, _, rfl, by simp⟩
  | _, _, .lfp _ => ⟨_, _, rfl, by simp⟩
  | _, _, .gfp _ => ⟨_, _, rfl, by simp⟩
  | _, _, .ite _ _ _ => ⟨_, _, rfl, by simp⟩
  | _, _, .not _ => ⟨_, _, rfl, by simp⟩

theorem sub_head : ∀ {ts f}, Sub ts f → ∃ t tl, ts = t :: tl ∧ t ≠ .closeSquare
  | _, _, .closed h => closed_head h
  | _, _, .open_ h => open_head h
  | _, _, .bin hl _ _ => by
    obtain ⟨t, tl, rfl, ht⟩ := closed_head hl
    exact ⟨t, _, rfl, ht⟩

theorem fuel_succ {fuel n : Nat} (h : n + 1 ≤ fuel) : ∃ k, fuel = k + 1 := ⟨fuel - 1, by omega⟩

mutual
theorem closed_complete : ∀ {ts f}, Closed ts f → ∀ (rest : List Token) (fuel : Nat), 4 * ts.length ≤ fuel →
    parseSimple fuel (ts ++ rest) = some (f, rest)
  | _, _, .paren (ts := ts) hs, rest, fuel, h => by
    simp only [List.length_cons, List.length_append, List.length_nil] at h
    obtain ⟨k, rfl⟩ : ∃ k, fuel = k + 1 := ⟨fuel - 1, by omega⟩
    have ih := sub_complete hs (.closeParen :: rest) k (stop_cons rfl) (by omega)
    simp only [List.cons_append, List.append_assoc, List.nil_append, parseSimple, ih, expect, if_true, Option.map_some]
  | _, _, .cntConst (l := l) (o := o) (n := n) hl ho, rest, fuel, h => by
    simp only [List.length_cons, List.length_append, List.length_nil] at h
    obtain ⟨k, rfl⟩ : ∃ k, fuel = k + 1 := ⟨fuel - 1, by omega⟩
    have ih := flist_complete hl (o :: .countable n :: rest) k (by omega)
    obtain ⟨tl, hl_eq⟩ := flist_head hl
    rw [hl_eq] at ih
    simp only [hl_eq, List.cons_append, List.append_assoc, List.nil_append, parseSimple]
    simp only [List.cons_append] at ih
    rw [ih]
    simp only [cntOpOf_eq, ho, check]
    simp
  | _, _, .cntVar (l := l) (r := r) (o := o) hl ho hr, rest, fuel, h => by
    simp only [List.length_cons, List.length_append] at h
    obtain ⟨k, rfl⟩ : ∃ k, fuel = k + 1 := ⟨fuel - 1, by omega⟩
    have ih1 := flist_complete hl (o :: (r ++ rest)) k (by omega)
    have ih2 := flist_complete hr rest k (by omega)
    obtain ⟨tl, hl_eq⟩ := flist_head hl
    obtain ⟨tr, hr_eq⟩ := flist_head hr
    rw [hl_eq] at ih1
    rw [hr_eq] at ih2
    simp only [hl_eq, hr_eq, List.cons_append, List.append_assoc, parseSimple]
    simp only [List.cons_append] at ih1 ih2
    rw [hr_eq] at ih1
    simp only [List.cons_append] at ih1
    rw [ih1]
    simp only [cntOpOf_eq, ho, check, ih2]
    simp
  | _, _, .true_, rest, fuel, h => by
    obtain ⟨k, rfl⟩ : ∃ k, fuel = k + 1 := ⟨fuel - 1, by simp at h; omega⟩
    simp [parseSimple]
  | _, _, .false_, rest, fuel, h => by
    obtain ⟨k, rfl⟩ : ∃ k, fuel = k + 1 := ⟨fuel - 1, by simp at h; omega⟩
    simp [parseSimple]
  | _, _, .ref, rest, fuel, h => by
    obtain ⟨k, rfl⟩ : ∃ k, fuel = k + 1 := ⟨fuel - 1, by simp at h; omega⟩
    simp [parseSimple]
  | _, _, .var, rest, fuel, h => by
    obtain ⟨k, rfl⟩ : ∃ k, fuel = k + 1 := ⟨fuel - 1, by simp at h; omega⟩
    simp [parseSimple]
  | _, _, .not hc, rest, fuel, h => by
    simp only [List.length_cons] at h
    obtain ⟨k, rfl⟩ : ∃ k, fuel = k + 1 := ⟨fuel - 1, by omega⟩
    have ih := closed_complete hc rest k (by omega)
    simp only [List.cons_append, parseSimple, ih]
theorem open_complete : ∀ {ts f}, Open ts f → ∀ (rest : List Token) (fuel : Nat), Stop rest → 4 * ts.length ≤ fuel →
    parseSimple fuel (ts ++ rest) = some (f, rest)
  | _, _, .exists_ (vs := vs) (ts := ts) hv hs, rest, fuel, hstop, h => by
    simp only [List.length_cons, List.length_append] at h
    obtain ⟨k, rfl⟩ : ∃ k, fuel = k + 1 := ⟨fuel - 1, by omega⟩
    obtain ⟨k', rfl⟩ : ∃ k', k = k' + 1 := ⟨k - 1, by omega⟩
    have ihv := vars_complete hv (ts ++ rest) ((vs ++ .hash :: (ts ++ rest)).length + 1) (by simp)
    have ih := sub_complete hs rest k' hstop (by omega)
    simp only [List.cons_append, List.append_assoc, parseSimple, parseQuant, ihv, expect, if_true, ih]
  | _, _, .forall_ (vs := vs) (ts := ts) hv hs, rest, fuel, hstop, h => by
    simp only [List.length_cons, List.length_append] at h
    obtain ⟨k, rfl⟩ : ∃ k, fuel = k + 1 := ⟨fuel - 1, by omega⟩
    obtain ⟨k', rfl⟩ : ∃ k', k = k' + 1 := ⟨k - 1, by omega⟩
    have ihv := vars_complete hv (ts ++ rest) ((vs ++ .hash :: (ts ++ rest)).length + 1) (by simp)
    have ih := sub_complete hs rest k' hstop (by omega)
    simp only [List.cons_append, List.append_assoc, parseSimple, parseQuant, ihv, expect, if_true, ih]
  | _, _, .lfp (ts := ts) hs, rest, fuel, hstop, h => by
    simp only [List.length_cons] at h
    obtain ⟨k, rfl⟩ : ∃ k, fuel = k + 1 := ⟨fuel - 1, by omega⟩
    obtain ⟨k', rfl⟩ : ∃ k', k = k' + 1 := ⟨k - 1, by omega⟩
    have ih := sub_complete hs rest k' hstop (by omega)
    simp only [List.cons_append, parseSimple, parseFix, parseVarName, expect, if_true, ih]
  | _, _, .gfp (ts := ts) hs, rest, fuel, hstop, h => by
    simp only [List.length_cons] at h
    obtain ⟨k, rfl⟩ : ∃ k, fuel = k + 1 := ⟨fuel - 1, by omega⟩
    obtain ⟨k', rfl⟩ : ∃ k', k = k' + 1 := ⟨k - 1, by omega⟩
    have ih := sub_complete hs rest k' hstop (by omega)
    simp only [List.cons_append, parseSimple, parseFix, parseVarName, expect, if_true, ih]
  | _, _, .ite (c := c) (t := t) (e := e) hc ht he, rest, fuel, hstop, h => by
    simp only [List.length_cons, List.length_append] at h
    obtain ⟨k, rfl⟩ : ∃ k, fuel = k + 1 := ⟨fuel - 1, by omega⟩
    have ihc := sub_complete hc (.then_ :: (t ++ .else_ :: (e ++ rest))) k (stop_cons rfl) (by omega)
    have iht := sub_complete ht (.else_ :: (e ++ rest)) k (stop_cons rfl) (by omega)
    have ihe := sub_complete he rest k hstop (by omega)
    simp only [List.cons_append, List.append_assoc, parseSimple, ihc, expect, if_true, iht, ihe]
  | _, _, .not ho, rest, fuel, hstop, h => by
    simp only [List.length_cons] at h
    obtain ⟨k, rfl⟩ : ∃ k, fuel = k + 1 := ⟨fuel - 1, by omega⟩
    have ih := open_complete ho rest k hstop (by omega)
    simp only [List.cons_append, parseSimple, ih]
theorem sub_complete : ∀ {ts f}, Sub ts f → ∀ (rest : List Token) (fuel : Nat), Stop rest → 4 * ts.length + 1 ≤ fuel →
    parseSub fuel (ts ++ rest) = some (f, rest)
  | _, _, .closed hc, rest, fuel, hstop, h => by
    obtain ⟨k, rfl⟩ : ∃ k, fuel = k + 1 := ⟨fuel - 1, by omega⟩
    have ih := closed_complete hc rest k (by omega)
    simp only [parseSub, ih]
    cases rest with
    | nil => rfl
    | cons t r => simp only [binOpOf_eq, hstop t r rfl]
  | _, _, .open_ ho, rest, fuel, hstop, h => by
    obtain ⟨k, rfl⟩ : ∃ k, fuel = k + 1 := ⟨fuel - 1, by omega⟩
    have ih := open_complete ho rest k hstop (by omega)
    simp only [parseSub, ih]
    cases rest with
    | nil => rfl
    | cons t r => simp only [binOpOf_eq, hstop t r rfl]
  | _, _, .bin (l := l) (r := r) (o := o) hl ho hr, rest, fuel, hstop, h => by
    simp only [List.length_cons, List.length_append] at h
    obtain ⟨k, rfl⟩ : ∃ k, fuel = k + 1 := ⟨fuel - 1, by omega⟩
    have ih1 := closed_complete hl (o :: (r ++ rest)) k (by omega)
    have ih2 := sub_complete hr rest k hstop (by omega)
    simp only [List.append_assoc, List.cons_append, parseSub, ih1, binOpOf_eq, ho, ih2]
theorem flist_complete : ∀ {l fs}, FList l fs → ∀ (rest : List Token) (fuel : Nat), 4 * l.length ≤ fuel + 5 →
    parseList fuel (l ++ rest) = some (fs, rest)
  | _, _, .mk (ts := ts) hi, rest, fuel, h => by
    simp only [List.length_cons, List.length_append, List.length_nil] at h
    obtain ⟨k, rfl⟩ : ∃ k, fuel = k + 1 := ⟨fuel - 1, by omega⟩
    have ih := items_complete hi rest k (by omega)
    simp only [List.cons_append, List.append_assoc, List.nil_append, parseList, expect, if_true, ih, Option.map_some]
theorem items_complete : ∀ {ts fs}, Items ts fs → ∀ (rest : List Token) (fuel : Nat), 4 * ts.length + 2 ≤ fuel →
    parseItems fuel (ts ++ .closeSquare :: rest) = some (fs, .closeSquare :: rest)
  | _, _, .nil, rest, fuel, h => by
    obtain ⟨k, rfl⟩ : ∃ k, fuel = k + 1 := ⟨fuel - 1, by omega⟩
    simp [parseItems, check]
  | _, _, .one (ts := ts) hs, rest, fuel, h => by
    obtain ⟨k, rfl⟩ : ∃ k, fuel = k + 1 := ⟨fuel - 1, by omega⟩
    have ih := sub_complete hs (.closeSquare :: rest) k (stop_cons rfl) (by omega)
    obtain ⟨t, tl, rfl, hne⟩ := sub_head hs
    have hck : check .closeSquare (t :: tl ++ .closeSquare :: rest) = false := by simp [check, hne]
    simp only [parseItems, ih, check]
    simp [hne]
  | _, _, .cons (ts := ts) (rest := its) hs hi, rest, fuel, h => by
    simp only [List.length_cons, List.length_append] at h
    obtain ⟨k, rfl⟩ : ∃ k, fuel = k + 1 := ⟨fuel - 1, by omega⟩
    have ih1 := sub_complete hs (.comma :: (its ++ .closeSquare :: rest)) k (stop_cons rfl) (by omega)
    have ih2 := items_complete hi rest k (by omega)
    obtain ⟨t, tl, rfl, hne⟩ := sub_head hs
    have hck : check .closeSquare (t :: tl ++ .comma :: (its ++ .closeSquare :: rest)) = false := by simp [check, hne]
    simp only [List.append_assoc, List.cons_append] at hck ih1 ⊢
    simp only [parseItems, ih1, check, expect, if_true, ih2]
    simp [hne]
end


/-- every sentence of the grammar is accepted, with the tree the grammar assigns to it -/
theorem parseFormula_complete {ts : List Token} {f : Formula} (h : Derives ts f) : parseFormula ts = some f := by
  obtain ⟨pre, rfl, hs⟩ := h
  have := sub_complete hs [.eof] (4 * (pre ++ [Token.eof]).length + 8) (stop_cons rfl) (by simp; omega)
  unfold parseFormula
  rw [this]
  simp [expect]

end Rsbdd
