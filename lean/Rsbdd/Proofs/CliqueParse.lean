import Rsbdd.Proofs.CliqueLex4
import Rsbdd.Proofs.QueensOrd
import Rsbdd.Thm.C16
namespace Rsbdd
open Parser C11 Gen.Clique Grammar Formula
open Gen.Sudoku (joinComma)

theorem complement_subset (edges : List (Nat × Nat)) (vs : List Nat) (u : Bool) :
    ∀ p ∈ complement edges vs u, p.1 ∈ vs ∧ p.2 ∈ vs := by
  rintro ⟨a, b⟩ hp
  cases u with
  | false => have := (C16.mem_complement_directed edges vs a b).mp hp; exact ⟨this.1, this.2.1⟩
  | true => have := C16.complement_undirected_sound edges vs a b hp; exact ⟨this.1, this.2.1⟩

theorem antecedent_single (c : Formula) : antecedent [c] = c := by simp [antecedent, conj]

theorem antecedent_cons_cons (c d : Formula) (r : List Formula) :
    antecedent (c :: d :: r) = .bin .and c (antecedent (d :: r)) := by
  unfold antecedent
  have hne : (d :: r).reverse ≠ [] := by simp
  cases hr : (d :: r).reverse with
  | nil => exact absurd hr hne
  | cons last restRev =>
    have e : (c :: d :: r).reverse = last :: (restRev ++ [c]) := by
      rw [List.reverse_cons, hr]; rfl
    rw [e]
    simp [conj, List.reverse_append]

/-- tokens -/
def pairToks (ia ib : Nat) (a b : String) : List Token :=
  [Token.not, Token.openParen, Token.var a ia, Token.and, Token.var b ib, Token.closeParen]

def varsToks : List (String × Nat) → List Token
  | [] => []
  | [p] => [Token.var p.1 p.2]
  | p :: q :: r => Token.var p.1 p.2 :: Token.comma :: varsToks (q :: r)

theorem vars_varsToks : ∀ (l : List (String × Nat)), Grammar.Vars (varsToks l) (l.map (·.2))
  | [] => Grammar.Vars.nil
  | [p] => Grammar.Vars.one
  | p :: q :: r => by
    have := Grammar.Vars.cons (n := p.1) (id := p.2) (vars_varsToks (q :: r))
    simpa [varsToks] using this

theorem items_varsToks : ∀ (l : List (String × Nat)), Items (varsToks l) (l.map (fun p => Formula.var p.2))
  | [] => Items.nil
  | [p] => Items.one (Sub.closed Closed.var)
  | p :: q :: r => by
    have := Items.cons (ts := [Token.var p.1 p.2]) (Sub.closed Closed.var) (items_varsToks (q :: r))
    simpa [varsToks] using this

/-- `-(a & b)` is a closed term -/
theorem closed_pair (ia ib : Nat) (a b : String) :
    Closed (pairToks ia ib a b) (.not (.bin .and (.var ia) (.var ib))) := by
  have hs : Sub ([Token.var a ia] ++ Token.and :: [Token.var b ib]) (.bin .and (.var ia) (.var ib)) :=
    Sub.bin Closed.var rfl (Sub.closed Closed.var)
  have := Closed.not (Closed.paren hs)
  simpa [pairToks] using this

/-- `c₁ & c₂ & … & last` -/
theorem sub_conj : ∀ (cs : List (List Token × Formula)) (lastT : List Token) (last : Formula),
    (∀ c ∈ cs, Closed c.1 c.2) → Sub lastT last →
    Sub (cs.flatMap (fun c => c.1 ++ [Token.and]) ++ lastT) (conj (cs.map (·.2)) last)
  | [], lastT, last, _, hl => by simpa [conj] using hl
  | c :: cs, lastT, last, h, hl => by
    have ih := sub_conj cs lastT last (fun x hx => h x (by simp [hx])) hl
    have := Sub.bin (h c (by simp)) (o := Token.and) (op := BinOp.and) rfl ih
    simpa [conj, List.append_assoc] using this

/-- `c₁ & c₂ & … & cₖ` (k ≥ 1) as the antecedent -/
theorem sub_antecedent : ∀ (cs : List (List Token × Formula)), cs ≠ [] → (∀ c ∈ cs, Closed c.1 c.2) →
    Sub (match cs with | [] => [] | c :: r => c.1 ++ r.flatMap (fun d => Token.and :: d.1)) (antecedent (cs.map (·.2)))
  | [], h, _ => absurd rfl h
  | [c], _, h => by
    simp only [List.flatMap_nil, List.append_nil, List.map_cons, List.map_nil, antecedent_single]
    exact Sub.closed (h c (by simp))
  | c :: d :: r, _, h => by
    have ih := sub_antecedent (d :: r) (by simp) (fun x hx => h x (by simp [hx]))
    simp only [List.map_cons, antecedent_cons_cons] at ih ⊢
    have := Sub.bin (h c (by simp)) (o := Token.and) (op := BinOp.and) rfl ih
    simpa [List.flatMap_cons] using this

end Rsbdd
