import Rsbdd.Proofs.SudokuLex2
namespace Rsbdd
open Parser C11 Gen.Sudoku
open Gen.Queens (natStr comment)

theorem digit_natStr (ch : Char) (h : ch.isDigit = true) : natStr (ch.toNat - '0'.toNat) = [ch] := by
  have hr : 48 ≤ ch.toNat ∧ ch.toNat ≤ 57 := by
    simp only [Char.isDigit, Bool.and_eq_true, decide_eq_true_eq] at h
    have h1 := h.1; have h2 := h.2
    simp only [UInt32.le_iff_toNat_le] at h1 h2
    exact ⟨h1, h2⟩
  have hc : ch = Char.ofNat ch.toNat := (Char.ofNat_toNat ch).symm
  have cases : ch.toNat = 48 ∨ ch.toNat = 49 ∨ ch.toNat = 50 ∨ ch.toNat = 51 ∨ ch.toNat = 52 ∨ ch.toNat = 53 ∨
      ch.toNat = 54 ∨ ch.toNat = 55 ∨ ch.toNat = 56 ∨ ch.toNat = 57 := by omega
  rcases cases with e | e | e | e | e | e | e | e | e | e <;> (rw [hc, e]; decide)


/-! ### the constraint lines of the output, in order -/

def hintsL (root : Nat) (puzzle : List Char) : List SLine :=
  (List.range (root * root * (root * root))).filterMap (fun i => match puzzle[i]? with
    | some ch => if ch.isDigit then some (SLine.hint i (ch.toNat - '0'.toNat)) else none
    | none => none)

def cellsL (root : Nat) : List SLine :=
  (List.range (root * root * (root * root))).map (fun i => SLine.list ((List.range (root * root)).map (fun j => (i, j + 1))))

def rowColL (root : Nat) : List SLine :=
  (List.range (root * root)).flatMap (fun i => (List.range (root * root)).flatMap (fun k0 =>
    [SLine.list ((List.range (root * root)).map (fun j => (i * (root * root) + j, k0 + 1))),
     SLine.list ((List.range (root * root)).map (fun j => (j * (root * root) + i, k0 + 1)))]))

def boxL (root : Nat) : List SLine :=
  (List.range root).flatMap (fun i => (List.range root).flatMap (fun j =>
    (List.range (root * root)).map (fun k0 =>
      SLine.list ((List.range (root * root)).map (fun l =>
        ((i * root) * (root * root) + (j * root) + ((l / root) * (root * root) + (l % root)), k0 + 1))))))

def allLines (root : Nat) (puzzle : List Char) : List SLine :=
  hintsL root puzzle ++ cellsL root ++ rowColL root ++ boxL root

theorem flatMap_congr' {α β : Type} {f g : α → List β} : ∀ (l : List α), (∀ a ∈ l, f a = g a) → l.flatMap f = l.flatMap g
  | [], _ => rfl
  | a :: l, h => by
    simp only [List.flatMap_cons]
    rw [h a (by simp), flatMap_congr' l (fun b hb => h b (by simp [hb]))]

theorem flatMap_flatMap' {α β γ : Type} (f : α → List β) (g : β → List γ) : ∀ (l : List α),
    (l.flatMap f).flatMap g = l.flatMap (fun a => (f a).flatMap g)
  | [] => rfl
  | a :: l => by simp [List.flatMap_cons, List.flatMap_append, flatMap_flatMap' f g l]

theorem flatMap_filterMap {α β γ : Type} (f : α → Option β) (g : β → List γ) : ∀ l : List α,
    (l.filterMap f).flatMap g = l.flatMap (fun a => match f a with | some b => g b | none => [])
  | [] => rfl
  | a :: l => by
    simp only [List.filterMap_cons, List.flatMap_cons]
    cases h : f a with
    | none => simp [flatMap_filterMap f g l]
    | some b => simp [flatMap_filterMap f g l]

theorem hintLines_eq (root : Nat) (puzzle : List Char) :
    hintLines root puzzle = (hintsL root puzzle).flatMap SLine.chars := by
  unfold hintLines hintsL
  rw [flatMap_filterMap]
  apply flatMap_congr'
  intro i _
  cases h : puzzle[i]? with
  | none => rfl
  | some ch =>
    simp only
    by_cases hd : ch.isDigit = true
    · simp only [hd, if_true, SLine.chars, varName, digit_natStr ch hd]
    · simp [hd]

theorem cellLines_eq (root : Nat) : cellLines root = (cellsL root).flatMap SLine.chars := by
  simp [cellLines, cellsL, List.flatMap_map, SLine.chars]

theorem rowColLines_eq (root : Nat) : rowColLines root = (rowColL root).flatMap SLine.chars := by
  unfold rowColLines rowColL
  rw [flatMap_flatMap']
  apply flatMap_congr'
  intro i _
  rw [flatMap_flatMap']
  apply flatMap_congr'
  intro k0 _
  simp [SLine.chars]

theorem boxLines_eq (root : Nat) : boxLines root = (boxL root).flatMap SLine.chars := by
  unfold boxLines boxL
  rw [flatMap_flatMap']
  apply flatMap_congr'
  intro i _
  rw [flatMap_flatMap']
  apply flatMap_congr'
  intro j _
  simp [List.flatMap_map, SLine.chars]

end Rsbdd
