import Rsbdd.Proofs.CliqueLex1
namespace Rsbdd
open Parser C11 Gen.Clique
open Gen.Sudoku (joinComma)
open Gen.Queens (comment)

theorem notWord_space : (mkCh ' ').wordLike = false := by simp [mkCh, Ch.wordLike, asciiCls]
theorem notWord_comma : (mkCh ',').wordLike = false := by simp [mkCh, Ch.wordLike, asciiCls]
theorem notWord_closeB : (mkCh ']').wordLike = false := by simp [mkCh, Ch.wordLike, asciiCls]
theorem notWord_closeP : (mkCh ')').wordLike = false := by simp [mkCh, Ch.wordLike, asciiCls]
theorem notWord_nl : (mkCh '\n').wordLike = false := by simp [mkCh, Ch.wordLike, asciiCls]

theorem amp_eq : " & ".toList = [' ', '&', ' '] := rfl
theorem tail_eq : ") &\n".toList = [')', ' ', '&', '\n'] := rfl
theorem ind_eq : "  -(".toList = [' ', ' ', '-', '('] := rfl
theorem sep_eq : " &\n".toList = [' ', '&', '\n'] := rfl

/-- `- ( a & b )`: the six lexemes of one (own or copy) non-edge constraint -/
def pairLex (a b : List Char) : List Lexeme :=
  [Lexeme.sym .not, Lexeme.sym .openParen, Lexeme.ident (String.ofList a), Lexeme.sym .and,
   Lexeme.ident (String.ofList b), Lexeme.sym .closeParen]

/-- `-(a & b)` followed by anything (right-nested form) -/
theorem lex_pair (a b : List Char) (ha : WordOk a) (hb : WordOk b) (rest : List Char) :
    lexAll (chs ('-' :: '(' :: (a ++ ' ' :: '&' :: ' ' :: (b ++ ')' :: rest)))) = pairLex a b ++ lexAll (chs rest) := by
  simp only [chs_cons]
  rw [lexAll_cons, step_minus]; simp only [Option.toList_some, List.cons_append, List.nil_append]
  rw [lexAll_cons, step_openP]; simp only [Option.toList_some, List.cons_append, List.nil_append]
  rw [lex_word a ha ' ' notWord_space]
  simp only [chs_cons]
  rw [lexAll_cons, step_space]; simp only [Option.toList_none, List.nil_append]
  rw [lexAll_cons, step_amp]; simp only [Option.toList_some, List.cons_append, List.nil_append]
  rw [lexAll_cons, step_space]; simp only [Option.toList_none, List.nil_append]
  rw [lex_word b hb ')' notWord_closeP]
  simp only [chs_cons]
  rw [lexAll_cons, step_closeP]
  simp [pairLex]

/-- the own constraints: one line `-(a & b) &` per complement edge -/
theorem lex_ownLines (nm : Nat → List Char) : ∀ (comp : List (Nat × Nat)) (rest : List Char),
    (∀ p ∈ comp, WordOk (nm p.1) ∧ WordOk (nm p.2)) →
    lexAll (chs (comp.flatMap (fun p => '-' :: '(' :: nm p.1 ++ " & ".toList ++ nm p.2 ++ ") &\n".toList) ++ rest)) =
      comp.flatMap (fun p => pairLex (nm p.1) (nm p.2) ++ [Lexeme.sym .and]) ++ lexAll (chs rest)
  | [], rest, _ => by simp
  | p :: comp, rest, h => by
    obtain ⟨ha, hb⟩ := h p (by simp)
    have ih := lex_ownLines nm comp rest (fun q hq => h q (by simp [hq]))
    simp only [List.flatMap_cons, amp_eq, tail_eq, List.append_assoc, List.cons_append, List.nil_append] at ih ⊢
    rw [lex_pair _ _ ha hb]
    simp only [chs_cons]
    rw [lexAll_cons, step_space]; simp only [Option.toList_none, List.nil_append]
    rw [lexAll_cons, step_amp]; simp only [Option.toList_some, List.cons_append, List.nil_append]
    rw [lexAll_cons, step_nl]; simp only [Option.toList_none, List.nil_append]
    rw [ih]

/-- the lexemes of `c₁ &⏎ c₂ &⏎ … cₖ` (no `&` after the last) -/
def copiesLex (cp : Nat → List Char) : List (Nat × Nat) → List Lexeme
  | [] => []
  | [p] => pairLex (cp p.1) (cp p.2)
  | p :: q :: r => pairLex (cp p.1) (cp p.2) ++ Lexeme.sym .and :: copiesLex cp (q :: r)

theorem lex_copies (cp : Nat → List Char) : ∀ (comp : List (Nat × Nat)) (rest : List Char),
    (∀ p ∈ comp, WordOk (cp p.1) ∧ WordOk (cp p.2)) →
    lexAll (chs (joinAmp (comp.map (fun p => "  -(".toList ++ cp p.1 ++ " & ".toList ++ cp p.2 ++ [')'])) ++ '\n' :: rest)) =
      copiesLex cp comp ++ lexAll (chs rest)
  | [], rest, _ => by
    simp only [List.map_nil, joinAmp, copiesLex, List.nil_append]
    rw [lex_nl]
  | [p], rest, h => by
    obtain ⟨ha, hb⟩ := h p (by simp)
    simp only [List.map_cons, List.map_nil, joinAmp, copiesLex, ind_eq, amp_eq, List.append_assoc, List.cons_append, List.nil_append]
    simp only [chs_cons]
    rw [lexAll_cons, step_space]; simp only [Option.toList_none, List.nil_append]
    rw [lexAll_cons, step_space]; simp only [Option.toList_none, List.nil_append]
    have := lex_pair (cp p.1) (cp p.2) ha hb ('\n' :: rest)
    simp only [chs_cons] at this
    rw [this, lexAll_cons, step_nl]
    simp
  | p :: q :: r, rest, h => by
    obtain ⟨ha, hb⟩ := h p (by simp)
    have ih := lex_copies cp (q :: r) rest (fun x hx => h x (by simp [hx]))
    simp only [List.map_cons, joinAmp, copiesLex, ind_eq, amp_eq, sep_eq, List.append_assoc, List.cons_append, List.nil_append] at ih ⊢
    simp only [chs_cons]
    rw [lexAll_cons, step_space]; simp only [Option.toList_none, List.nil_append]
    rw [lexAll_cons, step_space]; simp only [Option.toList_none, List.nil_append]
    have := lex_pair (cp p.1) (cp p.2) ha hb
    simp only [chs_cons] at this
    rw [this]
    simp only [chs_cons]
    rw [lexAll_cons, step_space]; simp only [Option.toList_none, List.nil_append]
    rw [lexAll_cons, step_amp]; simp only [Option.toList_some, List.cons_append, List.nil_append]
    rw [lexAll_cons, step_nl]; simp only [Option.toList_none, List.nil_append]
    rw [ih]

end Rsbdd
