import Rsbdd.Proofs.Reimport2
namespace Rsbdd
open Parser

/-- one step of the scanner, without fuel: the lexeme produced at this position (if any) and the rest -/
def scanStep (x : Ch) (cs : List Ch) : Option Lexeme × List Ch :=
  match matchSymbol (x :: cs) with
  | some (t, rest) => (some (.sym t), rest)
  | none =>
    if x.cls == .digit then
      (some (.num ((x :: cs).takeWhile (·.cls == .digit))), (x :: cs).dropWhile (·.cls == .digit))
    else
      let refMatch : Option (List Ch × List Ch) :=
        if x.c == '{' then
          let w := cs.takeWhile Ch.wordLike
          match cs.dropWhile Ch.wordLike with
          | y :: rest => if !w.isEmpty && y.c == '}' then some (w, rest) else none
          | [] => none
        else none
      match refMatch with
      | some (w, rest) => (some (.ref (chars w)), rest)
      | none =>
        if x.wordLike then
          (some (.ident (chars ((x :: cs).takeWhile Ch.wordLike))), (x :: cs).dropWhile Ch.wordLike)
        else
          let commentMatch : Option (List Ch) :=
            if x.c == '"' then
              match cs.dropWhile (fun y => y.c != '"') with
              | _ :: rest => some rest
              | [] => none
            else none
          match commentMatch with
          | some rest => (none, rest)
          | none => (none, cs)

theorem scan_step (fuel : Nat) (x : Ch) (cs : List Ch) :
    scan (fuel + 1) (x :: cs) = (scanStep x cs).1.toList ++ scan fuel (scanStep x cs).2 := by
  rw [scan]
  unfold scanStep
  cases hm : matchSymbol (x :: cs) with
  | some p => obtain ⟨t, rest⟩ := p; simp
  | none =>
    simp only []
    by_cases hd : (x.cls == Cls.digit) = true
    · simp [hd]
    · simp only [hd, Bool.false_eq_true, if_false]
      generalize (if (x.c == '{') = true then
          match List.dropWhile Ch.wordLike cs with
          | y :: rest => if (!(List.takeWhile Ch.wordLike cs).isEmpty && y.c == '}') = true then some (List.takeWhile Ch.wordLike cs, rest) else none
          | [] => none
        else none : Option (List Ch × List Ch)) = rm
      cases rm with
      | some p => obtain ⟨w, rest⟩ := p; simp
      | none =>
        simp only []
        by_cases hw : x.wordLike = true
        · simp [hw]
        · simp only [hw, Bool.false_eq_true, if_false]
          generalize (if (x.c == '"') = true then
              match List.dropWhile (fun y => y.c != '"') cs with
              | _ :: rest => some rest
              | [] => none
            else none : Option (List Ch)) = cm
          cases cm <;> simp


theorem stripPrefix_length : ∀ (p : List Char) (cs rest : List Ch), stripPrefix p cs = some rest →
    rest.length + p.length = cs.length
  | [], cs, rest, h => by simp [stripPrefix] at h; subst h; simp
  | a :: p, [], rest, h => by simp [stripPrefix] at h
  | a :: p, x :: cs, rest, h => by
    simp only [stripPrefix] at h
    split at h
    · have := stripPrefix_length p cs rest h; simp; omega
    · simp at h

theorem symbol_nonempty : ∀ e ∈ symbolTable, 0 < e.1.toList.length := by decide

theorem matchSymbol_length {cs rest : List Ch} {t : Token} (h : matchSymbol cs = some (t, rest)) :
    rest.length < cs.length := by
  unfold matchSymbol at h
  obtain ⟨e, he, hf⟩ := List.exists_of_findSome?_eq_some h
  obtain ⟨s, t'⟩ := e
  simp only [Option.map_eq_some_iff] at hf
  obtain ⟨r, hr, hp⟩ := hf
  cases hp
  have := stripPrefix_length _ _ _ hr
  have := symbol_nonempty (s, t) he
  simp only at this
  omega

theorem dropWhile_length_le {α : Type} (p : α → Bool) (l : List α) : (l.dropWhile p).length ≤ l.length :=
  (List.dropWhile_suffix p).length_le

theorem scanStep_length (x : Ch) (cs : List Ch) : (scanStep x cs).2.length ≤ cs.length := by
  unfold scanStep
  cases hm : matchSymbol (x :: cs) with
  | some p =>
    obtain ⟨t, rest⟩ := p
    have := matchSymbol_length hm
    simp at this ⊢; omega
  | none =>
    simp only []
    by_cases hd : (x.cls == Cls.digit) = true
    · simp only [hd, if_true, List.dropWhile_cons]
      exact dropWhile_length_le _ _
    · simp only [hd, Bool.false_eq_true, if_false]
      split
      · rename_i w rest hr
        split at hr
        · split at hr
          · rename_i y rest' hdw
            split at hr
            · cases hr
              have := dropWhile_length_le Ch.wordLike cs
              rw [hdw] at this; simp at this ⊢; omega
            · simp at hr
          · simp at hr
        · simp at hr
      · by_cases hw : x.wordLike = true
        · simp only [hw, if_true, List.dropWhile_cons]
          exact dropWhile_length_le _ _
        · simp only [hw, Bool.false_eq_true, if_false]
          split
          · rename_i rest hr
            split at hr
            · split at hr
              · rename_i z rest' hdw
                cases hr
                have := dropWhile_length_le (fun y : Ch => y.c != '"') cs
                rw [hdw] at this; simp at this ⊢; omega
              · simp at hr
            · simp at hr
          · simp

/-- enough fuel is as good as any: the scanner's result does not depend on it -/
theorem scan_fuel : ∀ (fuel : Nat) (cs : List Ch), cs.length < fuel → scan fuel cs = scan (cs.length + 1) cs := by
  intro fuel
  induction fuel using Nat.strongRecOn with
  | _ fuel ih =>
    intro cs hlt
    cases cs with
    | nil => cases fuel <;> simp [scan]
    | cons x cs =>
      obtain ⟨f, rfl⟩ : ∃ f, fuel = f + 1 := ⟨fuel - 1, by simp at hlt; omega⟩
      rw [scan_step, List.length_cons, scan_step]
      have hl := scanStep_length x cs
      simp at hlt
      rw [ih f (by omega) _ (by omega), ih (cs.length + 1) (by omega) _ (by omega)]

/-- the lexemes of a text -/
def lexAll (cs : List Ch) : List Lexeme := scan (cs.length + 1) cs

theorem lexAll_nil : lexAll [] = [] := by simp [lexAll, scan]

theorem lexAll_cons (x : Ch) (cs : List Ch) :
    lexAll (x :: cs) = (scanStep x cs).1.toList ++ lexAll (scanStep x cs).2 := by
  unfold lexAll
  rw [List.length_cons, scan_step]
  congr 1
  exact scan_fuel _ _ (by have := scanStep_length x cs; omega)

end Rsbdd
