import Rsbdd.Proofs.QueensDefault
import Rsbdd.Proofs.PlainGood
namespace Rsbdd.C11
open Parser Grammar Formula BDD C15

/-- From a reading under a chosen ordering to the reading the tool makes by default.  If a text, tokenized with an
ordering `ord1`, gives the tokens of a sentence of the grammar with tree `f` (no fixed points), then tokenized with NO
ordering it is accepted as well, parses to the renamed tree, evaluates to an ordered reduced diagram, and that diagram
is true under `σ` exactly when `f` is true under `σ` read through the renaming `π` — where `π` sends the number a name
has under `ord1` to the number the default numbering gives it -/
theorem default_order_transfer {text : List Ch} {ord1 : List (String × Nat)} {toks : List Token} {f : Formula}
    (ho1 : OrderingOk ord1) (ht1 : tokenize text ord1 = some (toks ++ [Token.eof])) (hsub : Sub toks f)
    (hnf : C01.NoFix f) (iters : Nat) :
    ∃ (ts2 : List Token) (b : BDD) (π : Bij), tokenize text [] = some ts2 ∧
      parseFormula ts2 = some (renameF π.f f) ∧
      evalF iters (depth (renameF π.f f)) (renameF π.f f) = some b ∧ ROBDD b ∧
      (∀ m i j, Token.var m i ∈ toks → Token.var m j ∈ ts2 → π.f i = j) ∧
      (∀ m i, Token.var m i ∈ toks → Token.var m (π.f i) ∈ ts2) ∧
      ∀ σ : Asg, (eval b σ = true ↔ Sem f FEnv.empty (fun v => σ (π.f v))) := by
  have hsome : (tokenize text []).isSome = true := by
    have h1 : (tokenize text ord1).isSome = true := by rw [ht1]; rfl
    unfold tokenize at h1 ⊢
    simp only [Option.isSome_map] at h1 ⊢
    exact toTokens_isSome_indep _ _ _ h1
  obtain ⟨ts2, ht2⟩ := Option.isSome_iff_exists.mp hsome
  generalize hts1 : toks ++ [Token.eof] = ts1 at ht1
  have ho2 : OrderingOk ([] : List (String × Nat)) := by intro p hp; simp at hp
  have hinj1 := tokenize_ids_injective ho1 ht1
  have hinj2 := tokenize_ids_injective ho2 ht2
  obtain ⟨π, hπ⟩ := exists_bij_of_pairs (idPairs ts1 ts2) (by
    rintro ⟨i, j⟩ hp ⟨i', j'⟩ hq
    obtain ⟨m, a1, a2⟩ := mem_idPairs.mp hp
    obtain ⟨m', b1, b2⟩ := mem_idPairs.mp hq
    exact (hinj1 m i m' i' a1 b1).symm.trans (hinj2 m j m' j' a2 b2))
  have hπ' : ∀ m i j, Token.var m i ∈ ts1 → Token.var m j ∈ ts2 → π.f i = j :=
    fun m i j a b => hπ (i, j) (mem_idPairs.mpr ⟨m, a, b⟩)
  have hts : ts2 = ts1.map (renTok π.f) := map_renTok_of_lockstep π.f ts1 ts2 (tokenize_lockstep ht1 ht2) hπ'
  have hd2 : Derives ts2 (renameF π.f f) := by
    refine ⟨toks.map (renTok π.f), ?_, sub_rename π.f hsub⟩
    rw [hts, ← hts1]; simp [renTok]
  have hp2 := C08.parse_complete hd2
  have hnl : NoLeaf f := sub_noLeaf hsub
  have hnf2 : C01.NoFix (renameF π.f f) := noFix_rename π.f _ hnf
  have hnl2 : NoLeaf (renameF π.f f) := sub_noLeaf (sub_rename π.f hsub)
  have hg2 : GoodF (renameF π.f f) := goodF_plain _ hnf2 hnl2
  obtain ⟨b, hb, hr, hs⟩ := solved (renameF π.f f) hg2 hnf2 iters
  refine ⟨ts2, b, π, ht2, hp2, hb, hr, ?_, ?_, ?_⟩
  · intro m i j hi hj
    exact hπ' m i j (by rw [← hts1]; simp [hi]) hj
  · intro m i hi
    rw [hts]
    exact List.mem_map.mpr ⟨Token.var m i, by rw [← hts1]; simp [hi], by simp [renTok]⟩
  · intro σ
    rw [hs σ]
    have sr := sem_rename π f hnl FEnv.empty σ
    rw [trEnv_empty] at sr
    exact sr

end Rsbdd.C11
