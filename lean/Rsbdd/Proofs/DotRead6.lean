import Rsbdd.Proofs.DotRead5
namespace Rsbdd.DotText
open Cli.Text (splitAcc allSome splitAcc_segs allSome_map allSome_append filterMap_some' filterMap_const_none)

/-- the reader inverts the printer: a graph whose ids are ids (`dot::Id::new` accepts nothing else) is read back
from its DOT text, labels included whatever characters they contain -/
theorem read_render (g : TextGraph) (ok : GraphOk g) : readDot (render g) = some g := by
  have hsplit := splitAcc_segs '\n' (bodies g) [] (nl_not_mem_bodies g ok)
  simp only [List.append_nil, splitAcc, List.reverse_nil] at hsplit
  unfold readDot
  rw [render_eq, hsplit]
  unfold bodies
  simp only [List.cons_append]
  have hname : stripPrefix ['d', 'i', 'g', 'r', 'a', 'p', 'h', ' '] (headerBody g) = some (g.name ++ [' ', '{']) := by
    unfold headerBody
    rw [List.append_assoc, stripPrefix_append]
  rw [hname]
  simp only
  rw [stripSuffix_append]
  simp only
  generalize hN : g.nodes.map (fun n => (nodeLine n).dropLast) = N
  generalize hE : g.edges.map (fun e => (edgeLine e).dropLast) = E
  have hlen : (N ++ E ++ [['}']] ++ [[]]).length = (N ++ E).length + 2 := by simp; omega
  have htake : (N ++ E ++ [['}']] ++ [[]]).take ((N ++ E ++ [['}']] ++ [[]]).length - 2) = N ++ E := by
    rw [hlen, Nat.add_sub_cancel, List.append_assoc (N ++ E), List.take_left']
    rfl
  have hdrop : (N ++ E ++ [['}']] ++ [[]]).drop ((N ++ E ++ [['}']] ++ [[]]).length - 2) = [['}'], []] := by
    rw [hlen, Nat.add_sub_cancel, List.append_assoc (N ++ E), List.drop_left']
    · rfl
    · rfl
  rw [if_neg (by rw [hlen]; omega), hdrop, htake]
  simp only [ne_eq, not_true_eq_false, ite_false]
  have hstm : allSome ((N ++ E).map readStmt) =
      some (g.nodes.map (fun n => Stmt.node n.1 n.2) ++ g.edges.map (fun e => Stmt.edge e.1 e.2.1 e.2.2)) := by
    rw [List.map_append]
    apply allSome_append
    · rw [← hN, List.map_map]
      exact allSome_map _ _ _ (fun n hn => readStmt_node n.1 n.2 (ok.nodes n hn))
    · rw [← hE, List.map_map]
      exact allSome_map _ _ _ (fun e he => readStmt_edge e.1 e.2.1 e.2.2 (ok.edges e he).1 (ok.edges e he).2)
  rw [hstm]
  simp only [List.filterMap_append, List.filterMap_map, Function.comp_def, filterMap_const_none, filterMap_some',
    List.append_nil, List.nil_append, List.map_id']

end Rsbdd.DotText
