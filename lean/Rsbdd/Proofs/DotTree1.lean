import Rsbdd.Model.DotTree
import Rsbdd.Proofs.DotRead6
namespace Rsbdd.DotText
open Dot
open Gen.Queens (natStr)
open Cli.Text (joinCommaSp namesOfV NameOk Clean namesOfV_join)

theorem natStr_eq (n : Nat) : natStr n = Nat.toDigits 10 n := by
  unfold natStr; rw [Nat.toList_repr]

theorem natStr_digits (n : Nat) : ∀ c ∈ natStr n, c.isDigit = true := by
  intro c hc
  rw [natStr_eq] at hc
  exact Nat.isDigit_of_mem_toDigits (by decide) (by decide) hc

theorem natStr_ne_nil (n : Nat) : natStr n ≠ [] := by
  rw [natStr_eq]
  intro h
  have := congrArg List.length h
  have hl := Nat.length_toDigits_pos (b := 10) (n := n)
  simp at this

theorem readDec_natStr (n : Nat) : readDec (natStr n) = some n := by
  unfold readDec
  have h1 := natStr_ne_nil n
  have h2 : (natStr n).all Char.isDigit = true := List.all_eq_true.mpr (natStr_digits n)
  rw [if_pos ⟨h1, h2⟩, natStr_eq, Nat.ofDigitChars_ten_toDigits]

end Rsbdd.DotText
