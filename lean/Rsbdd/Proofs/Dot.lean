/-
Facts about the exported graphs: `unique` keeps a representative of everything, every
`position` lookup of the parse-tree export succeeds, every edge end-point of the diagram
export is a declared node.
-/
import Rsbdd.Model.Dot

namespace Rsbdd
namespace Dot

theorem uniqueBy_foldl {α β : Type} [DecidableEq β] (key : α → β) :
    ∀ (xs acc : List α),
      (∀ y, y ∈ xs.foldl (fun acc x => if acc.any (fun y => decide (key y = key x)) then acc else acc ++ [x]) acc →
        y ∈ acc ∨ y ∈ xs) ∧
      (∀ x, (x ∈ acc ∨ x ∈ xs) →
        ∃ y ∈ xs.foldl (fun acc x => if acc.any (fun y => decide (key y = key x)) then acc else acc ++ [x]) acc,
          key y = key x) := by
  intro xs
  induction xs with
  | nil =>
    intro acc
    exact ⟨fun y hy => Or.inl hy, fun x hx => by
      rcases hx with hx | hx
      · exact ⟨x, hx, rfl⟩
      · simp at hx⟩
  | cons a as ih =>
    intro acc
    simp only [List.foldl_cons]
    obtain ⟨h1, h2⟩ := ih (if acc.any (fun y => decide (key y = key a)) then acc else acc ++ [a])
    constructor
    · intro y hy
      rcases h1 y hy with h | h
      · split at h
        · exact Or.inl h
        · simp at h
          rcases h with h | rfl
          · exact Or.inl h
          · exact Or.inr (by simp)
      · exact Or.inr (by simp [h])
    · intro x hx
      by_cases hany : acc.any (fun y => decide (key y = key a)) = true
      · simp only [hany, if_true] at h2 ⊢
        rcases hx with hx | hx
        · exact h2 x (Or.inl hx)
        · simp at hx
          rcases hx with rfl | hx
          · simp only [List.any_eq_true, decide_eq_true_eq] at hany
            obtain ⟨y, hy, hk⟩ := hany
            obtain ⟨z, hz, hkz⟩ := h2 y (Or.inl hy)
            exact ⟨z, hz, hkz.trans hk⟩
          · exact h2 x (Or.inr hx)
      · simp only [hany, Bool.false_eq_true, if_false] at h2 ⊢
        rcases hx with hx | hx
        · exact h2 x (Or.inl (by simp [hx]))
        · simp at hx
          rcases hx with rfl | hx
          · exact h2 x (Or.inl (by simp))
          · exact h2 x (Or.inr hx)

theorem mem_of_mem_uniqueBy {α β : Type} [DecidableEq β] {key : α → β} {xs : List α} {y : α}
    (h : y ∈ uniqueBy key xs) : y ∈ xs := by
  have := (uniqueBy_foldl key xs []).1 y h
  simpa using this

theorem exists_mem_uniqueBy {α β : Type} [DecidableEq β] {key : α → β} {xs : List α} {x : α}
    (h : x ∈ xs) : ∃ y ∈ uniqueBy key xs, key y = key x :=
  (uniqueBy_foldl key xs []).2 x (Or.inr h)

/-! ### diagram export: every edge end-point is declared (filter Any) -/

/-- structural presence in the node list -/
def Declared (nodes : List PBDD) (n : PBDD) : Prop := ∃ m ∈ nodes, m.erase = n.erase

theorem declared_root (r : PBDD) : Declared (bddNodes .any r) r := by
  cases r with
  | F p => exact ⟨.F p, by simp [bddNodes, leafPasses], rfl⟩
  | T p => exact ⟨.T p, by simp [bddNodes, leafPasses], rfl⟩
  | node p l v f =>
    simp only [bddNodes]
    exact exists_mem_uniqueBy (by simp)

theorem declared_of_left {p : Nat} {l r n : PBDD} {v : Nat} (h : Declared (bddNodes .any l) n) :
    Declared (bddNodes .any (.node p l v r)) n := by
  obtain ⟨m, hm, he⟩ := h
  simp only [bddNodes]
  obtain ⟨y, hy, hk⟩ := exists_mem_uniqueBy (key := PBDD.erase)
    (xs := bddNodes .any l ++ [PBDD.node p l v r] ++ bddNodes .any r) (x := m) (by simp [hm])
  exact ⟨y, hy, hk.trans he⟩

theorem declared_of_right {p : Nat} {l r n : PBDD} {v : Nat} (h : Declared (bddNodes .any r) n) :
    Declared (bddNodes .any (.node p l v r)) n := by
  obtain ⟨m, hm, he⟩ := h
  simp only [bddNodes]
  obtain ⟨y, hy, hk⟩ := exists_mem_uniqueBy (key := PBDD.erase)
    (xs := bddNodes .any l ++ [PBDD.node p l v r] ++ bddNodes .any r) (x := m) (by simp [hm])
  exact ⟨y, hy, hk.trans he⟩

/-- every edge of the unfiltered export starts and ends at a declared node -/
theorem edges_declared : ∀ (r : PBDD) (e : Edge), e ∈ bddEdges .any r →
    Declared (bddNodes .any r) e.1 ∧ Declared (bddNodes .any r) e.2.2 := by
  intro r
  induction r with
  | F p => intro e he; simp [bddEdges] at he
  | T p => intro e he; simp [bddEdges] at he
  | node p l v r ihl ihr =>
    intro e he
    simp only [bddEdges] at he
    have hm := mem_of_mem_uniqueBy he
    simp only [edgeKept, if_true, List.mem_append, List.mem_cons, List.mem_nil_iff, or_false] at hm
    rcases hm with (hm | hm) | (rfl | rfl)
    · obtain ⟨h1, h2⟩ := ihl e hm
      exact ⟨declared_of_left h1, declared_of_left h2⟩
    · obtain ⟨h1, h2⟩ := ihr e hm
      exact ⟨declared_of_right h1, declared_of_right h2⟩
    · exact ⟨declared_root _, declared_of_left (declared_root l)⟩
    · exact ⟨declared_root _, declared_of_right (declared_root r)⟩

/-- no two declared nodes have the same structure -/
theorem uniqueBy_nodup_keys {α β : Type} [DecidableEq β] (key : α → β) (xs : List α) :
    ((uniqueBy key xs).map key).Nodup := by
  have : ∀ (xs acc : List α), (acc.map key).Nodup →
      ((xs.foldl (fun acc x => if acc.any (fun y => decide (key y = key x)) then acc else acc ++ [x]) acc).map key).Nodup := by
    intro xs
    induction xs with
    | nil => intro acc h; exact h
    | cons a as ih =>
      intro acc h
      simp only [List.foldl_cons]
      apply ih
      split
      · exact h
      · rename_i hany
        simp only [List.any_eq_true, decide_eq_true_eq, not_exists, not_and] at hany
        rw [List.map_append, List.nodup_append]
        refine ⟨h, by simp, ?_⟩
        intro b hb c hc
        simp at hc
        subst hc
        simp only [List.mem_map] at hb
        obtain ⟨y, hy, rfl⟩ := hb
        exact hany y hy
  exact this xs [] (by simp)

theorem bddNodes_distinct (flt : BDD.Filter) (r : PBDD) : ((bddNodes flt r).map PBDD.erase).Nodup := by
  cases r with
  | F p => simp only [bddNodes]; split <;> simp
  | T p => simp only [bddNodes]; split <;> simp
  | node p l v f => simp only [bddNodes]; exact uniqueBy_nodup_keys _ _

end Dot
end Rsbdd

namespace Rsbdd
namespace Dot

mutual
theorem feq_refl : ∀ f : Formula, feq f f = true
  | .false_ => by simp [feq]
  | .true_ => by simp [feq]
  | .var _ => by simp [feq]
  | .not f => by simp [feq, feq_refl f]
  | .quant _ _ f => by simp [feq, feq_refl f]
  | .cntConst _ fs _ => by simp [feq, feqL_refl fs]
  | .cntVar _ l r => by simp [feq, feqL_refl l, feqL_refl r]
  | .fix _ _ f => by simp [feq, feq_refl f]
  | .ite a b c => by simp [feq, feq_refl a, feq_refl b, feq_refl c]
  | .bin _ l r => by simp [feq, feq_refl l, feq_refl r]
  | .subtree _ => by simp [feq]
  | .ref _ => by simp [feq]
theorem feqL_refl : ∀ fs : List Formula, feqL fs fs = true
  | [] => by simp [feqL]
  | f :: fs => by simp [feqL, feq_refl f, feqL_refl fs]
end

/-- the direct children of a syntax-tree node, as the edge computation enumerates them -/
def children : Formula → List Formula
  | .bin _ l r => [l, r]
  | .quant _ _ f => [f]
  | .not f => [f]
  | .fix _ _ f => [f]
  | .cntConst _ fs _ => fs
  | .cntVar _ a b => a ++ b
  | .ite c t e => [c, t, e]
  | _ => []

theorem self_mem_treeNodes (f : Formula) : f ∈ treeNodes f := by
  cases f <;> simp [treeNodes]

mutual
theorem children_mem_treeNodes : ∀ (f n : Formula), n ∈ treeNodes f → ∀ c ∈ children n, c ∈ treeNodes f
  | .bin op l r, n, hn, c, hc => by
    simp only [treeNodes, List.mem_append, List.mem_cons, List.mem_nil_iff, or_false] at hn ⊢
    rcases hn with (hn | hn) | rfl
    · exact Or.inl (Or.inl (children_mem_treeNodes l n hn c hc))
    · exact Or.inl (Or.inr (children_mem_treeNodes r n hn c hc))
    · simp [children] at hc
      rcases hc with rfl | rfl
      · exact Or.inl (Or.inl (self_mem_treeNodes _))
      · exact Or.inl (Or.inr (self_mem_treeNodes _))
  | .quant q vs f, n, hn, c, hc => by
    simp only [treeNodes, List.mem_append, List.mem_cons, List.mem_nil_iff, or_false] at hn ⊢
    rcases hn with hn | rfl
    · exact Or.inl (children_mem_treeNodes f n hn c hc)
    · simp [children] at hc; subst hc; exact Or.inl (self_mem_treeNodes _)
  | .not f, n, hn, c, hc => by
    simp only [treeNodes, List.mem_append, List.mem_cons, List.mem_nil_iff, or_false] at hn ⊢
    rcases hn with hn | rfl
    · exact Or.inl (children_mem_treeNodes f n hn c hc)
    · simp [children] at hc; subst hc; exact Or.inl (self_mem_treeNodes _)
  | .fix v i f, n, hn, c, hc => by
    simp only [treeNodes, List.mem_append, List.mem_cons, List.mem_nil_iff, or_false] at hn ⊢
    rcases hn with hn | rfl
    · exact Or.inl (children_mem_treeNodes f n hn c hc)
    · simp [children] at hc; subst hc; exact Or.inl (self_mem_treeNodes _)
  | .cntConst op fs k, n, hn, c, hc => by
    simp only [treeNodes, List.mem_cons] at hn ⊢
    rcases hn with rfl | hn
    · simp only [children] at hc; exact Or.inr (mem_treeNodesL_of_mem fs c hc)
    · exact Or.inr (children_mem_treeNodesL fs n hn c hc)
  | .cntVar op a b, n, hn, c, hc => by
    simp only [treeNodes, List.mem_cons, List.mem_append] at hn ⊢
    rcases hn with rfl | hn | hn
    · simp only [children, List.mem_append] at hc
      rcases hc with hc | hc
      · exact Or.inr (Or.inl (mem_treeNodesL_of_mem a c hc))
      · exact Or.inr (Or.inr (mem_treeNodesL_of_mem b c hc))
    · exact Or.inr (Or.inl (children_mem_treeNodesL a n hn c hc))
    · exact Or.inr (Or.inr (children_mem_treeNodesL b n hn c hc))
  | .ite x t e, n, hn, c, hc => by
    simp only [treeNodes, List.mem_cons, List.mem_append] at hn ⊢
    rcases hn with rfl | (hn | hn) | hn
    · simp [children] at hc
      rcases hc with rfl | rfl | rfl
      · exact Or.inr (Or.inl (Or.inl (self_mem_treeNodes _)))
      · exact Or.inr (Or.inl (Or.inr (self_mem_treeNodes _)))
      · exact Or.inr (Or.inr (self_mem_treeNodes _))
    · exact Or.inr (Or.inl (Or.inl (children_mem_treeNodes x n hn c hc)))
    · exact Or.inr (Or.inl (Or.inr (children_mem_treeNodes t n hn c hc)))
    · exact Or.inr (Or.inr (children_mem_treeNodes e n hn c hc))
  | .false_, n, hn, c, hc => by simp [treeNodes] at hn; subst hn; simp [children] at hc
  | .true_, n, hn, c, hc => by simp [treeNodes] at hn; subst hn; simp [children] at hc
  | .var _, n, hn, c, hc => by simp [treeNodes] at hn; subst hn; simp [children] at hc
  | .subtree _, n, hn, c, hc => by simp [treeNodes] at hn; subst hn; simp [children] at hc
  | .ref _, n, hn, c, hc => by simp [treeNodes] at hn; subst hn; simp [children] at hc
theorem children_mem_treeNodesL : ∀ (fs : List Formula) (n : Formula), n ∈ treeNodesL fs →
    ∀ c ∈ children n, c ∈ treeNodesL fs
  | [], n, hn, _, _ => by simp [treeNodesL] at hn
  | f :: fs, n, hn, c, hc => by
    simp only [treeNodesL, List.mem_append] at hn ⊢
    rcases hn with hn | hn
    · exact Or.inl (children_mem_treeNodes f n hn c hc)
    · exact Or.inr (children_mem_treeNodesL fs n hn c hc)
theorem mem_treeNodesL_of_mem : ∀ (fs : List Formula) (c : Formula), c ∈ fs → c ∈ treeNodesL fs
  | [], _, h => by simp at h
  | f :: fs, c, h => by
    simp only [treeNodesL, List.mem_append]
    simp at h
    rcases h with rfl | h
    · exact Or.inl (self_mem_treeNodes _)
    · exact Or.inr (mem_treeNodesL_of_mem fs c h)
end

theorem uniqueF_foldl : ∀ (xs acc : List Formula),
    (∀ y, y ∈ xs.foldl (fun acc x => if acc.any (fun y => feq y x) then acc else acc ++ [x]) acc → y ∈ acc ∨ y ∈ xs) ∧
    (∀ x, (x ∈ acc ∨ x ∈ xs) →
      ∃ y ∈ xs.foldl (fun acc x => if acc.any (fun y => feq y x) then acc else acc ++ [x]) acc, feq y x = true) := by
  intro xs
  induction xs with
  | nil =>
    intro acc
    exact ⟨fun y hy => Or.inl hy, fun x hx => by
      rcases hx with hx | hx
      · exact ⟨x, hx, feq_refl x⟩
      · simp at hx⟩
  | cons a as ih =>
    intro acc
    simp only [List.foldl_cons]
    obtain ⟨h1, h2⟩ := ih (if acc.any (fun y => feq y a) then acc else acc ++ [a])
    constructor
    · intro y hy
      rcases h1 y hy with h | h
      · split at h
        · exact Or.inl h
        · simp at h
          rcases h with h | rfl
          · exact Or.inl h
          · exact Or.inr (by simp)
      · exact Or.inr (by simp [h])
    · intro x hx
      by_cases hany : acc.any (fun y => feq y a) = true
      · simp only [hany, if_true] at h2 ⊢
        rcases hx with hx | hx
        · exact h2 x (Or.inl hx)
        · simp at hx
          rcases hx with rfl | hx
          · simp only [List.any_eq_true] at hany
            obtain ⟨y, hy, hk⟩ := hany
            -- y is kept (it is in acc), and feq y x
            have hkeep : ∀ (zs : List Formula) (acc' : List Formula), y ∈ acc' →
                y ∈ zs.foldl (fun acc x => if acc.any (fun y => feq y x) then acc else acc ++ [x]) acc' := by
              intro zs
              induction zs with
              | nil => intro acc' h; exact h
              | cons z zs ihz =>
                intro acc' h
                simp only [List.foldl_cons]
                apply ihz
                split
                · exact h
                · simp [h]
            exact ⟨y, hkeep as acc hy, hk⟩
          · exact h2 x (Or.inr hx)
      · simp only [hany, Bool.false_eq_true, if_false] at h2 ⊢
        rcases hx with hx | hx
        · exact h2 x (Or.inl (by simp [hx]))
        · simp at hx
          rcases hx with rfl | hx
          · exact h2 x (Or.inl (by simp))
          · exact h2 x (Or.inr hx)

theorem position_isSome {nodes : List Formula} {c : Formula} (h : ∃ y ∈ nodes, feq y c = true) :
    (position nodes c).isSome = true := by
  unfold position
  rw [List.findIdx?_isSome]
  simp only [List.any_eq_true]
  exact h

theorem mapM_isSome_of_forall {α β : Type} (f : α → Option β) :
    ∀ (xs : List α), (∀ x ∈ xs, (f x).isSome = true) → (xs.mapM f).isSome = true := by
  intro xs
  induction xs with
  | nil => intro _; simp
  | cons a as ih =>
    intro h
    have ha := h a (by simp)
    have has := ih (fun x hx => h x (by simp [hx]))
    simp only [List.mapM_cons]
    cases hfa : f a with
    | none => simp [hfa] at ha
    | some b =>
      cases hr : as.mapM f with
      | none => simp [hr] at has
      | some bs => simp

/-- every `position` lookup of the parse-tree export succeeds (its `expect("cannot find
position")` cannot fire), for every syntax tree -/
theorem parseTree_total (f : Formula) : (parseTree f).isSome = true := by
  unfold parseTree
  simp only [Option.isSome_map]
  apply mapM_isSome_of_forall
  intro ⟨n, i⟩ hni
  have hn : n ∈ uniqueF (treeNodes f) := by
    have := List.mem_zipIdx hni
    simp at this
    rw [this.2]
    exact List.getElem_mem _
  have hn' : n ∈ treeNodes f := by
    have := (uniqueF_foldl (treeNodes f) []).1 n hn
    simpa using this
  have hchild : ∀ c ∈ children n, (position (uniqueF (treeNodes f)) c).isSome = true := by
    intro c hc
    apply position_isSome
    exact (uniqueF_foldl (treeNodes f) []).2 c (Or.inr (children_mem_treeNodes f n hn' c hc))
  cases n with
  | bin op l r =>
    simp only [treeEdgesOf]
    have h1 := hchild l (by simp [children]); have h2 := hchild r (by simp [children])
    cases hp1 : position (uniqueF (treeNodes f)) l <;> cases hp2 : position (uniqueF (treeNodes f)) r <;> simp_all
  | quant q vs g =>
    simp only [treeEdgesOf]
    have h1 := hchild g (by simp [children])
    cases hp1 : position (uniqueF (treeNodes f)) g <;> simp_all
  | not g =>
    simp only [treeEdgesOf]
    have h1 := hchild g (by simp [children])
    cases hp1 : position (uniqueF (treeNodes f)) g <;> simp_all
  | fix v b g =>
    simp only [treeEdgesOf]
    have h1 := hchild g (by simp [children])
    cases hp1 : position (uniqueF (treeNodes f)) g <;> simp_all
  | cntConst op fs k =>
    simp only [treeEdgesOf]
    apply mapM_isSome_of_forall
    intro ⟨c, j⟩ hcj
    have hc : c ∈ fs := by
      have := List.mem_zipIdx hcj; simp at this; rw [this.2]; exact List.getElem_mem _
    have := hchild c (by simpa [children] using hc)
    cases hp : position (uniqueF (treeNodes f)) c <;> simp_all
  | cntVar op a b =>
    simp only [treeEdgesOf]
    have ha : ((a.zipIdx).mapM (fun (x : Formula × Nat) => (position (uniqueF (treeNodes f)) x.1).map (fun p => (i, ELabel.lidx x.2, p)))).isSome = true := by
      apply mapM_isSome_of_forall
      intro ⟨c, j⟩ hcj
      have hc : c ∈ a := by
        have := List.mem_zipIdx hcj; simp at this; rw [this.2]; exact List.getElem_mem _
      have := hchild c (by simp [children, hc])
      cases hp : position (uniqueF (treeNodes f)) c <;> simp_all
    have hb : ((b.zipIdx).mapM (fun (x : Formula × Nat) => (position (uniqueF (treeNodes f)) x.1).map (fun p => (i, ELabel.ridx x.2, p)))).isSome = true := by
      apply mapM_isSome_of_forall
      intro ⟨c, j⟩ hcj
      have hc : c ∈ b := by
        have := List.mem_zipIdx hcj; simp at this; rw [this.2]; exact List.getElem_mem _
      have := hchild c (by simp [children, hc])
      cases hp : position (uniqueF (treeNodes f)) c <;> simp_all
    cases hx : (a.zipIdx).mapM (fun (x : Formula × Nat) => (position (uniqueF (treeNodes f)) x.1).map (fun p => (i, ELabel.lidx x.2, p))) with
    | none => simp [hx] at ha
    | some xa =>
      cases hy : (b.zipIdx).mapM (fun (x : Formula × Nat) => (position (uniqueF (treeNodes f)) x.1).map (fun p => (i, ELabel.ridx x.2, p))) with
      | none => simp [hy] at hb
      | some xb => simp [hx, hy]
  | ite c t e =>
    simp only [treeEdgesOf]
    have h1 := hchild c (by simp [children]); have h2 := hchild t (by simp [children]); have h3 := hchild e (by simp [children])
    cases hp1 : position (uniqueF (treeNodes f)) c <;> cases hp2 : position (uniqueF (treeNodes f)) t <;>
      cases hp3 : position (uniqueF (treeNodes f)) e <;> simp_all
  | false_ => simp [treeEdgesOf]
  | true_ => simp [treeEdgesOf]
  | var _ => simp [treeEdgesOf]
  | subtree _ => simp [treeEdgesOf]
  | ref _ => simp [treeEdgesOf]

end Dot
end Rsbdd
