/-
A syntactic sufficient criterion for monotonicity of a fixed-point body in its bound name:
the name occurs only under an even number of negations (counting the left of `=>`, the
right of `<=`, `nor`/`nand`, the lists of at-most comparisons, the right list of `>=` …
as negations), not in an if-condition, `xor`, `<=>` or an exactly-comparison.  This makes
the hypothesis `GoodF` of the soundness theorem checkable on concrete formulas.
-/
import Rsbdd.Proofs.SemSound

namespace Rsbdd
open BDD Formula

mutual
/-- `x` occurs only positively in the formula -/
def Pos (x : Nat) : Formula → Prop
  | .var _ => True
  | .not f => Neg x f
  | .quant _ vs f => x ∈ vs ∨ Pos x f
  | .fix v _ f => v = x ∨ Pos x f
  | .ite c t e => (Pos x c ∧ Neg x c) ∧ Pos x t ∧ Pos x e
  | .bin .and l r => Pos x l ∧ Pos x r
  | .bin .or l r => Pos x l ∧ Pos x r
  | .bin .implies l r => Neg x l ∧ Pos x r
  | .bin .impliesInv l r => Pos x l ∧ Neg x r
  | .bin .nor l r => Neg x l ∧ Neg x r
  | .bin .nand l r => Neg x l ∧ Neg x r
  | .bin .xor l r => (Pos x l ∧ Neg x l) ∧ (Pos x r ∧ Neg x r)
  | .bin .iff l r => (Pos x l ∧ Neg x l) ∧ (Pos x r ∧ Neg x r)
  | .cntConst .atLeast fs _ => PosL x fs
  | .cntConst .moreThan fs _ => PosL x fs
  | .cntConst .atMost fs _ => NegL x fs
  | .cntConst .lessThan fs _ => NegL x fs
  | .cntConst .exactly fs _ => PosL x fs ∧ NegL x fs
  | .cntVar .atLeast l r => PosL x l ∧ NegL x r
  | .cntVar .moreThan l r => PosL x l ∧ NegL x r
  | .cntVar .atMost l r => NegL x l ∧ PosL x r
  | .cntVar .lessThan l r => NegL x l ∧ PosL x r
  | .cntVar .exactly l r => (PosL x l ∧ NegL x l) ∧ (PosL x r ∧ NegL x r)
  | .subtree _ => True
  | .true_ => True
  | .false_ => True
  | .ref _ => True
/-- `x` occurs only negatively in the formula -/
def Neg (x : Nat) : Formula → Prop
  | .var v => v ≠ x
  | .not f => Pos x f
  | .quant _ vs f => x ∈ vs ∨ Neg x f
  | .fix v _ f => v = x ∨ Neg x f
  | .ite c t e => (Pos x c ∧ Neg x c) ∧ Neg x t ∧ Neg x e
  | .bin .and l r => Neg x l ∧ Neg x r
  | .bin .or l r => Neg x l ∧ Neg x r
  | .bin .implies l r => Pos x l ∧ Neg x r
  | .bin .impliesInv l r => Neg x l ∧ Pos x r
  | .bin .nor l r => Pos x l ∧ Pos x r
  | .bin .nand l r => Pos x l ∧ Pos x r
  | .bin .xor l r => (Pos x l ∧ Neg x l) ∧ (Pos x r ∧ Neg x r)
  | .bin .iff l r => (Pos x l ∧ Neg x l) ∧ (Pos x r ∧ Neg x r)
  | .cntConst .atLeast fs _ => NegL x fs
  | .cntConst .moreThan fs _ => NegL x fs
  | .cntConst .atMost fs _ => PosL x fs
  | .cntConst .lessThan fs _ => PosL x fs
  | .cntConst .exactly fs _ => PosL x fs ∧ NegL x fs
  | .cntVar .atLeast l r => NegL x l ∧ PosL x r
  | .cntVar .moreThan l r => NegL x l ∧ PosL x r
  | .cntVar .atMost l r => PosL x l ∧ NegL x r
  | .cntVar .lessThan l r => PosL x l ∧ NegL x r
  | .cntVar .exactly l r => (PosL x l ∧ NegL x l) ∧ (PosL x r ∧ NegL x r)
  | .subtree _ => True
  | .true_ => True
  | .false_ => True
  | .ref _ => True
def PosL (x : Nat) : List Formula → Prop
  | [] => True
  | f :: fs => Pos x f ∧ PosL x fs
def NegL (x : Nat) : List Formula → Prop
  | [] => True
  | f :: fs => Neg x f ∧ NegL x fs
end

theorem semCount_unique : ∀ (fs : List Formula) (ρ : FEnv) (σ : Asg) (k k' : Nat),
    SemCount fs ρ σ k → SemCount fs ρ σ k' → k = k'
  | [], _, _, k, k', h, h' => by simp only [SemCount] at h h'; omega
  | f :: fs, ρ, σ, k, k', h, h' => by
    simp only [SemCount] at h h'
    rcases h with ⟨hf, j, rfl, hj⟩ | ⟨hf, hk⟩ <;> rcases h' with ⟨hf', j', rfl, hj'⟩ | ⟨hf', hk'⟩
    · rw [semCount_unique fs ρ σ j j' hj hj']
    · exact absurd hf hf'
    · exact absurd hf' hf
    · exact semCount_unique fs ρ σ k k' hk hk'

theorem semCount_total : ∀ (fs : List Formula) (ρ : FEnv) (σ : Asg), ∃ k, SemCount fs ρ σ k
  | [], _, _ => ⟨0, by simp [SemCount]⟩
  | f :: fs, ρ, σ => by
    obtain ⟨k, hk⟩ := semCount_total fs ρ σ
    by_cases hf : Sem f ρ σ
    · exact ⟨k + 1, by simp only [SemCount]; exact Or.inl ⟨hf, k, rfl, hk⟩⟩
    · exact ⟨k, by simp only [SemCount]; exact Or.inr ⟨hf, hk⟩⟩

/-- monotone / antitone dependence of a formula's meaning on the value of `x` -/
def MonoIn (x : Nat) (t : Formula) : Prop :=
  ∀ (ρ : FEnv) (p q : Pred), Pred.le p q → Pred.le (Sem t (ρ.set x p)) (Sem t (ρ.set x q))
def AntiIn (x : Nat) (t : Formula) : Prop :=
  ∀ (ρ : FEnv) (p q : Pred), Pred.le p q → Pred.le (Sem t (ρ.set x q)) (Sem t (ρ.set x p))
def CountUp (x : Nat) (fs : List Formula) : Prop :=
  ∀ (ρ : FEnv) (p q : Pred), Pred.le p q → ∀ σ k, SemCount fs (ρ.set x p) σ k →
    ∃ k', k ≤ k' ∧ SemCount fs (ρ.set x q) σ k'
def CountDown (x : Nat) (fs : List Formula) : Prop :=
  ∀ (ρ : FEnv) (p q : Pred), Pred.le p q → ∀ σ k, SemCount fs (ρ.set x q) σ k →
    ∃ k', k ≤ k' ∧ SemCount fs (ρ.set x p) σ k'

theorem countUp_cons {x : Nat} {f : Formula} {fs : List Formula} (hf : MonoIn x f)
    (hfs : CountUp x fs) : CountUp x (f :: fs) := by
  intro ρ p q hpq σ k h
  simp only [SemCount] at h
  rcases h with ⟨h1, j, rfl, hj⟩ | ⟨h1, hk⟩
  · obtain ⟨j', hle, hj'⟩ := hfs ρ p q hpq σ j hj
    exact ⟨j' + 1, by omega, by simp only [SemCount]; exact Or.inl ⟨hf ρ p q hpq σ h1, j', rfl, hj'⟩⟩
  · obtain ⟨k', hle, hk'⟩ := hfs ρ p q hpq σ k hk
    by_cases h2 : Sem f (ρ.set x q) σ
    · exact ⟨k' + 1, by omega, by simp only [SemCount]; exact Or.inl ⟨h2, k', rfl, hk'⟩⟩
    · exact ⟨k', hle, by simp only [SemCount]; exact Or.inr ⟨h2, hk'⟩⟩

theorem countDown_cons {x : Nat} {f : Formula} {fs : List Formula} (hf : AntiIn x f)
    (hfs : CountDown x fs) : CountDown x (f :: fs) := by
  intro ρ p q hpq σ k h
  simp only [SemCount] at h
  rcases h with ⟨h1, j, rfl, hj⟩ | ⟨h1, hk⟩
  · obtain ⟨j', hle, hj'⟩ := hfs ρ p q hpq σ j hj
    exact ⟨j' + 1, by omega, by simp only [SemCount]; exact Or.inl ⟨hf ρ p q hpq σ h1, j', rfl, hj'⟩⟩
  · obtain ⟨k', hle, hk'⟩ := hfs ρ p q hpq σ k hk
    by_cases h2 : Sem f (ρ.set x p) σ
    · exact ⟨k' + 1, by omega, by simp only [SemCount]; exact Or.inl ⟨h2, k', rfl, hk'⟩⟩
    · exact ⟨k', hle, by simp only [SemCount]; exact Or.inr ⟨h2, hk'⟩⟩

/-- both up and down: the count does not depend on `x` -/
theorem count_const {x : Nat} {fs : List Formula} (hu : CountUp x fs) (hd : CountDown x fs)
    (ρ : FEnv) (p q : Pred) (hpq : Pred.le p q) (σ : Asg) (k : Nat) :
    SemCount fs (ρ.set x p) σ k ↔ SemCount fs (ρ.set x q) σ k := by
  constructor
  · intro h
    obtain ⟨k', hle, hk'⟩ := hu ρ p q hpq σ k h
    obtain ⟨k'', hle', hk''⟩ := hd ρ p q hpq σ k' hk'
    have := semCount_unique fs _ σ k k'' h hk''
    have : k = k' := by omega
    rw [this]; exact hk'
  · intro h
    obtain ⟨k', hle, hk'⟩ := hd ρ p q hpq σ k h
    obtain ⟨k'', hle', hk''⟩ := hu ρ p q hpq σ k' hk'
    have := semCount_unique fs _ σ k k'' h hk''
    have : k = k' := by omega
    rw [this]; exact hk'

end Rsbdd

namespace Rsbdd
open BDD Formula

theorem mono_quant_case {x : Nat} {vs : List Nat} {f : Formula} (ρ : FEnv) (p q : Pred)
    (hx : x ∈ vs) : Sem f ((ρ.set x p).remove vs) = Sem f ((ρ.set x q).remove vs) := by
  rw [FEnv.remove_set_of_mem ρ hx, FEnv.remove_set_of_mem ρ hx]

mutual
theorem pos_mono (x : Nat) : ∀ t : Formula, Pos x t → MonoIn x t
  | .var v, _ => by
    intro ρ p q hpq σ h
    by_cases hv : v = x
    · subst hv; simp only [Sem, FEnv.set, if_true] at h ⊢; exact hpq σ h
    · simp only [Sem, FEnv.set, hv, if_false] at h ⊢; exact h
  | .not f, h => by
    intro ρ p q hpq σ hs
    simp only [Sem] at hs ⊢
    exact fun h' => hs (neg_anti x f h ρ p q hpq σ h')
  | .quant qt vs f, h => by
    intro ρ p q hpq σ hs
    by_cases hx : x ∈ vs
    · cases qt <;> simp only [Sem, mono_quant_case ρ p q hx] at hs ⊢ <;> exact hs
    · have hf : Pos x f := h.resolve_left hx
      have ih := pos_mono x f hf (ρ.remove vs) p q hpq
      cases qt <;> simp only [Sem, FEnv.remove_set_of_not_mem ρ hx] at hs ⊢
      · obtain ⟨σ', ha, hs'⟩ := hs; exact ⟨σ', ha, ih σ' hs'⟩
      · exact fun σ' ha => ih σ' (hs σ' ha)
  | .fix v i f, h => by
    intro ρ p q hpq σ hs
    by_cases hv : v = x
    · subst hv
      cases i <;> simp only [Sem, FEnv.set_set_same] at hs ⊢ <;> exact hs
    · have hf : Pos x f := h.resolve_left hv
      have hvx : x ≠ v := fun e => hv e.symm
      have ih := fun r => pos_mono x f hf (ρ.set v r) p q hpq
      cases i <;> simp only [Sem, FEnv.set_set_comm ρ hvx] at hs ⊢
      · intro r hr
        exact hs r (fun σ' h' => hr σ' (ih r σ' h'))
      · obtain ⟨r, hr, hrσ⟩ := hs
        exact ⟨r, fun σ' h' => ih r σ' (hr σ' h'), hrσ⟩
  | .ite c t e, h => by
    intro ρ p q hpq σ hs
    simp only [Sem] at hs ⊢
    have hc1 := pos_mono x c h.1.1 ρ p q hpq σ
    have hc2 := neg_anti x c h.1.2 ρ p q hpq σ
    rcases hs with ⟨h1, h2⟩ | ⟨h1, h2⟩
    · exact Or.inl ⟨hc1 h1, pos_mono x t h.2.1 ρ p q hpq σ h2⟩
    · exact Or.inr ⟨fun h' => h1 (hc2 h'), pos_mono x e h.2.2 ρ p q hpq σ h2⟩
  | .bin op l r, h => by
    intro ρ p q hpq σ hs
    cases op <;> simp only [Pos] at h <;> simp only [Sem, BinOp.sem] at hs ⊢
    · exact ⟨pos_mono x l h.1 ρ p q hpq σ hs.1, pos_mono x r h.2 ρ p q hpq σ hs.2⟩
    · exact hs.elim (fun a => Or.inl (pos_mono x l h.1 ρ p q hpq σ a))
        (fun a => Or.inr (pos_mono x r h.2 ρ p q hpq σ a))
    · have l1 := pos_mono x l h.1.1 ρ p q hpq σ; have l2 := neg_anti x l h.1.2 ρ p q hpq σ
      have r1 := pos_mono x r h.2.1 ρ p q hpq σ; have r2 := neg_anti x r h.2.2 ρ p q hpq σ
      rcases hs with ⟨a, b⟩ | ⟨a, b⟩
      · exact Or.inl ⟨l1 a, fun c => b (r2 c)⟩
      · exact Or.inr ⟨fun c => a (l2 c), r1 b⟩
    · exact fun c => hs (c.elim (fun a => Or.inl (neg_anti x l h.1 ρ p q hpq σ a))
        (fun a => Or.inr (neg_anti x r h.2 ρ p q hpq σ a)))
    · exact fun c => hs ⟨neg_anti x l h.1 ρ p q hpq σ c.1, neg_anti x r h.2 ρ p q hpq σ c.2⟩
    · exact fun a => pos_mono x r h.2 ρ p q hpq σ (hs (neg_anti x l h.1 ρ p q hpq σ a))
    · exact fun a => pos_mono x l h.1 ρ p q hpq σ (hs (neg_anti x r h.2 ρ p q hpq σ a))
    · have l1 := pos_mono x l h.1.1 ρ p q hpq σ; have l2 := neg_anti x l h.1.2 ρ p q hpq σ
      have r1 := pos_mono x r h.2.1 ρ p q hpq σ; have r2 := neg_anti x r h.2.2 ρ p q hpq σ
      exact ⟨fun a => r1 (hs.1 (l2 a)), fun a => l1 (hs.2 (r2 a))⟩
  | .cntConst op fs n, h => by
    intro ρ p q hpq σ hs
    cases op <;> simp only [Pos] at h <;> simp only [Sem, CntOp.sem] at hs ⊢ <;>
      obtain ⟨k, hk, hc⟩ := hs
    · obtain ⟨k', hle, hk'⟩ := negL_down x fs h ρ p q hpq σ
      obtain ⟨j, hj⟩ := semCount_total fs (ρ.set x q) σ
      obtain ⟨j', hle', hj'⟩ := hk' j hj
      have := semCount_unique fs _ σ k j' hk hj'
      exact ⟨j, hj, by omega⟩
    · obtain ⟨k', hle, hk'⟩ := negL_down x fs h ρ p q hpq σ
      obtain ⟨j, hj⟩ := semCount_total fs (ρ.set x q) σ
      obtain ⟨j', hle', hj'⟩ := hk' j hj
      have := semCount_unique fs _ σ k j' hk hj'
      exact ⟨j, hj, by omega⟩
    · obtain ⟨k', hle, hk'⟩ := posL_up x fs h ρ p q hpq σ k hk
      exact ⟨k', hk', by omega⟩
    · obtain ⟨k', hle, hk'⟩ := posL_up x fs h ρ p q hpq σ k hk
      exact ⟨k', hk', by omega⟩
    · exact ⟨k, (count_const (posL_up x fs h.1) (fun ρ p q hpq σ k hk => by
        obtain ⟨_, _, f⟩ := negL_down x fs h.2 ρ p q hpq σ; exact f k hk) ρ p q hpq σ k).mp hk, hc⟩
  | .cntVar op l r, h => by
    intro ρ p q hpq σ hs
    have dnl : NegL x l → CountDown x l := fun hn ρ p q hpq σ k hk => by
      obtain ⟨_, _, f⟩ := negL_down x l hn ρ p q hpq σ; exact f k hk
    have dnr : NegL x r → CountDown x r := fun hn ρ p q hpq σ k hk => by
      obtain ⟨_, _, f⟩ := negL_down x r hn ρ p q hpq σ; exact f k hk
    cases op <;> simp only [Pos] at h <;> simp only [Sem, CntOp.sem] at hs ⊢ <;>
      obtain ⟨k1, k2, hk1, hk2, hc⟩ := hs
    · -- atMost: l down, r up
      obtain ⟨j1, hj1⟩ := semCount_total l (ρ.set x q) σ
      obtain ⟨j1', hle1, hj1'⟩ := dnl h.1 ρ p q hpq σ j1 hj1
      have e1 := semCount_unique l _ σ k1 j1' hk1 hj1'
      obtain ⟨j2, hle2, hj2⟩ := posL_up x r h.2 ρ p q hpq σ k2 hk2
      exact ⟨j1, j2, hj1, hj2, by omega⟩
    · obtain ⟨j1, hj1⟩ := semCount_total l (ρ.set x q) σ
      obtain ⟨j1', hle1, hj1'⟩ := dnl h.1 ρ p q hpq σ j1 hj1
      have e1 := semCount_unique l _ σ k1 j1' hk1 hj1'
      obtain ⟨j2, hle2, hj2⟩ := posL_up x r h.2 ρ p q hpq σ k2 hk2
      exact ⟨j1, j2, hj1, hj2, by omega⟩
    · obtain ⟨j2, hj2⟩ := semCount_total r (ρ.set x q) σ
      obtain ⟨j2', hle2, hj2'⟩ := dnr h.2 ρ p q hpq σ j2 hj2
      have e2 := semCount_unique r _ σ k2 j2' hk2 hj2'
      obtain ⟨j1, hle1, hj1⟩ := posL_up x l h.1 ρ p q hpq σ k1 hk1
      exact ⟨j1, j2, hj1, hj2, by omega⟩
    · obtain ⟨j2, hj2⟩ := semCount_total r (ρ.set x q) σ
      obtain ⟨j2', hle2, hj2'⟩ := dnr h.2 ρ p q hpq σ j2 hj2
      have e2 := semCount_unique r _ σ k2 j2' hk2 hj2'
      obtain ⟨j1, hle1, hj1⟩ := posL_up x l h.1 ρ p q hpq σ k1 hk1
      exact ⟨j1, j2, hj1, hj2, by omega⟩
    · exact ⟨k1, k2, (count_const (posL_up x l h.1.1) (dnl h.1.2) ρ p q hpq σ k1).mp hk1,
        (count_const (posL_up x r h.2.1) (dnr h.2.2) ρ p q hpq σ k2).mp hk2, hc⟩
  | .subtree _, _ => by intro ρ p q _ σ h; simpa [Sem] using h
  | .true_, _ => by intro ρ p q _ σ h; simpa [Sem] using h
  | .false_, _ => by intro ρ p q _ σ h; simpa [Sem] using h
  | .ref _, _ => by intro ρ p q _ σ h; simpa [Sem] using h
theorem neg_anti (x : Nat) : ∀ t : Formula, Neg x t → AntiIn x t
  | .var v, h => by
    intro ρ p q hpq σ hs
    have hv : v ≠ x := h
    simp only [Sem, FEnv.set, hv, if_false] at hs ⊢; exact hs
  | .not f, h => by
    intro ρ p q hpq σ hs
    simp only [Sem] at hs ⊢
    exact fun h' => hs (pos_mono x f h ρ p q hpq σ h')
  | .quant qt vs f, h => by
    intro ρ p q hpq σ hs
    by_cases hx : x ∈ vs
    · cases qt <;> simp only [Sem, mono_quant_case ρ p q hx] at hs ⊢ <;> exact hs
    · have hf : Neg x f := h.resolve_left hx
      have ih := neg_anti x f hf (ρ.remove vs) p q hpq
      cases qt <;> simp only [Sem, FEnv.remove_set_of_not_mem ρ hx] at hs ⊢
      · obtain ⟨σ', ha, hs'⟩ := hs; exact ⟨σ', ha, ih σ' hs'⟩
      · exact fun σ' ha => ih σ' (hs σ' ha)
  | .fix v i f, h => by
    intro ρ p q hpq σ hs
    by_cases hv : v = x
    · subst hv
      cases i <;> simp only [Sem, FEnv.set_set_same] at hs ⊢ <;> exact hs
    · have hf : Neg x f := h.resolve_left hv
      have hvx : x ≠ v := fun e => hv e.symm
      have ih := fun r => neg_anti x f hf (ρ.set v r) p q hpq
      cases i <;> simp only [Sem, FEnv.set_set_comm ρ hvx] at hs ⊢
      · intro r hr
        exact hs r (fun σ' h' => hr σ' (ih r σ' h'))
      · obtain ⟨r, hr, hrσ⟩ := hs
        exact ⟨r, fun σ' h' => ih r σ' (hr σ' h'), hrσ⟩
  | .ite c t e, h => by
    intro ρ p q hpq σ hs
    simp only [Sem] at hs ⊢
    have hc1 := pos_mono x c h.1.1 ρ p q hpq σ
    have hc2 := neg_anti x c h.1.2 ρ p q hpq σ
    rcases hs with ⟨h1, h2⟩ | ⟨h1, h2⟩
    · exact Or.inl ⟨hc2 h1, neg_anti x t h.2.1 ρ p q hpq σ h2⟩
    · exact Or.inr ⟨fun h' => h1 (hc1 h'), neg_anti x e h.2.2 ρ p q hpq σ h2⟩
  | .bin op l r, h => by
    intro ρ p q hpq σ hs
    cases op <;> simp only [Neg] at h <;> simp only [Sem, BinOp.sem] at hs ⊢
    · exact ⟨neg_anti x l h.1 ρ p q hpq σ hs.1, neg_anti x r h.2 ρ p q hpq σ hs.2⟩
    · exact hs.elim (fun a => Or.inl (neg_anti x l h.1 ρ p q hpq σ a))
        (fun a => Or.inr (neg_anti x r h.2 ρ p q hpq σ a))
    · have l1 := pos_mono x l h.1.1 ρ p q hpq σ; have l2 := neg_anti x l h.1.2 ρ p q hpq σ
      have r1 := pos_mono x r h.2.1 ρ p q hpq σ; have r2 := neg_anti x r h.2.2 ρ p q hpq σ
      rcases hs with ⟨a, b⟩ | ⟨a, b⟩
      · exact Or.inl ⟨l2 a, fun c => b (r1 c)⟩
      · exact Or.inr ⟨fun c => a (l1 c), r2 b⟩
    · exact fun c => hs (c.elim (fun a => Or.inl (pos_mono x l h.1 ρ p q hpq σ a))
        (fun a => Or.inr (pos_mono x r h.2 ρ p q hpq σ a)))
    · exact fun c => hs ⟨pos_mono x l h.1 ρ p q hpq σ c.1, pos_mono x r h.2 ρ p q hpq σ c.2⟩
    · exact fun a => neg_anti x r h.2 ρ p q hpq σ (hs (pos_mono x l h.1 ρ p q hpq σ a))
    · exact fun a => neg_anti x l h.1 ρ p q hpq σ (hs (pos_mono x r h.2 ρ p q hpq σ a))
    · have l1 := pos_mono x l h.1.1 ρ p q hpq σ; have l2 := neg_anti x l h.1.2 ρ p q hpq σ
      have r1 := pos_mono x r h.2.1 ρ p q hpq σ; have r2 := neg_anti x r h.2.2 ρ p q hpq σ
      exact ⟨fun a => r2 (hs.1 (l1 a)), fun a => l2 (hs.2 (r1 a))⟩
  | .cntConst op fs n, h => by
    intro ρ p q hpq σ hs
    cases op <;> simp only [Neg] at h <;> simp only [Sem, CntOp.sem] at hs ⊢ <;>
      obtain ⟨k, hk, hc⟩ := hs
    · -- atMost with PosL: count at p ≤ count at q ≤ n
      obtain ⟨j, hj⟩ := semCount_total fs (ρ.set x p) σ
      obtain ⟨j', hle, hj'⟩ := posL_up x fs h ρ p q hpq σ j hj
      have := semCount_unique fs _ σ k j' hk hj'
      exact ⟨j, hj, by omega⟩
    · obtain ⟨j, hj⟩ := semCount_total fs (ρ.set x p) σ
      obtain ⟨j', hle, hj'⟩ := posL_up x fs h ρ p q hpq σ j hj
      have := semCount_unique fs _ σ k j' hk hj'
      exact ⟨j, hj, by omega⟩
    · obtain ⟨_, _, f⟩ := negL_down x fs h ρ p q hpq σ
      obtain ⟨k', hle, hk'⟩ := f k hk
      exact ⟨k', hk', by omega⟩
    · obtain ⟨_, _, f⟩ := negL_down x fs h ρ p q hpq σ
      obtain ⟨k', hle, hk'⟩ := f k hk
      exact ⟨k', hk', by omega⟩
    · exact ⟨k, (count_const (posL_up x fs h.1) (fun ρ p q hpq σ k hk => by
        obtain ⟨_, _, f⟩ := negL_down x fs h.2 ρ p q hpq σ; exact f k hk) ρ p q hpq σ k).mpr hk, hc⟩
  | .cntVar op l r, h => by
    intro ρ p q hpq σ hs
    have dnl : NegL x l → CountDown x l := fun hn ρ p q hpq σ k hk => by
      obtain ⟨_, _, f⟩ := negL_down x l hn ρ p q hpq σ; exact f k hk
    have dnr : NegL x r → CountDown x r := fun hn ρ p q hpq σ k hk => by
      obtain ⟨_, _, f⟩ := negL_down x r hn ρ p q hpq σ; exact f k hk
    cases op <;> simp only [Neg] at h <;> simp only [Sem, CntOp.sem] at hs ⊢ <;>
      obtain ⟨k1, k2, hk1, hk2, hc⟩ := hs
    · -- atMost at q ⇒ atMost at p: l up (PosL l), r down (NegL r)
      obtain ⟨j1, hj1⟩ := semCount_total l (ρ.set x p) σ
      obtain ⟨j1', hle1, hj1'⟩ := posL_up x l h.1 ρ p q hpq σ j1 hj1
      have e1 := semCount_unique l _ σ k1 j1' hk1 hj1'
      obtain ⟨j2, hle2, hj2⟩ := dnr h.2 ρ p q hpq σ k2 hk2
      exact ⟨j1, j2, hj1, hj2, by omega⟩
    · obtain ⟨j1, hj1⟩ := semCount_total l (ρ.set x p) σ
      obtain ⟨j1', hle1, hj1'⟩ := posL_up x l h.1 ρ p q hpq σ j1 hj1
      have e1 := semCount_unique l _ σ k1 j1' hk1 hj1'
      obtain ⟨j2, hle2, hj2⟩ := dnr h.2 ρ p q hpq σ k2 hk2
      exact ⟨j1, j2, hj1, hj2, by omega⟩
    · obtain ⟨j2, hj2⟩ := semCount_total r (ρ.set x p) σ
      obtain ⟨j2', hle2, hj2'⟩ := posL_up x r h.2 ρ p q hpq σ j2 hj2
      have e2 := semCount_unique r _ σ k2 j2' hk2 hj2'
      obtain ⟨j1, hle1, hj1⟩ := dnl h.1 ρ p q hpq σ k1 hk1
      exact ⟨j1, j2, hj1, hj2, by omega⟩
    · obtain ⟨j2, hj2⟩ := semCount_total r (ρ.set x p) σ
      obtain ⟨j2', hle2, hj2'⟩ := posL_up x r h.2 ρ p q hpq σ j2 hj2
      have e2 := semCount_unique r _ σ k2 j2' hk2 hj2'
      obtain ⟨j1, hle1, hj1⟩ := dnl h.1 ρ p q hpq σ k1 hk1
      exact ⟨j1, j2, hj1, hj2, by omega⟩
    · exact ⟨k1, k2, (count_const (posL_up x l h.1.1) (dnl h.1.2) ρ p q hpq σ k1).mpr hk1,
        (count_const (posL_up x r h.2.1) (dnr h.2.2) ρ p q hpq σ k2).mpr hk2, hc⟩
  | .subtree _, _ => by intro ρ p q _ σ h; simpa [Sem] using h
  | .true_, _ => by intro ρ p q _ σ h; simpa [Sem] using h
  | .false_, _ => by intro ρ p q _ σ h; simpa [Sem] using h
  | .ref _, _ => by intro ρ p q _ σ h; simpa [Sem] using h
theorem posL_up (x : Nat) : ∀ fs : List Formula, PosL x fs → CountUp x fs
  | [], _ => by intro ρ p q _ σ k h; exact ⟨k, Nat.le_refl _, by simpa [SemCount] using h⟩
  | f :: fs, h => countUp_cons (pos_mono x f h.1) (posL_up x fs h.2)
/-- stated with a dummy existential prefix so that the four theorems have the same shape -/
theorem negL_down (x : Nat) : ∀ fs : List Formula, NegL x fs →
    ∀ (ρ : FEnv) (p q : Pred), Pred.le p q → ∀ σ, ∃ _u : Unit, True ∧ ∀ k, SemCount fs (ρ.set x q) σ k →
      ∃ k', k ≤ k' ∧ SemCount fs (ρ.set x p) σ k'
  | [], _ => by
    intro ρ p q _ σ; exact ⟨(), trivial, fun k h => ⟨k, Nat.le_refl _, by simpa [SemCount] using h⟩⟩
  | f :: fs, h => by
    intro ρ p q hpq σ
    refine ⟨(), trivial, fun k hk => ?_⟩
    exact countDown_cons (neg_anti x f h.1)
      (fun ρ p q hpq σ k hk => by obtain ⟨_, _, g⟩ := negL_down x fs h.2 ρ p q hpq σ; exact g k hk)
      ρ p q hpq σ k hk
end

/-- a body in which the bound name occurs only positively is monotone (for every value of
the enclosing names): the hypothesis of the soundness theorem is met by such formulas -/
theorem monoFn_of_pos {x : Nat} {t : Formula} (h : Pos x t) (ρ : FEnv) : MonoFn (bodyFn t x ρ) :=
  fun p q hpq => pos_mono x t h ρ p q hpq

end Rsbdd
