/-
The truth-table recursion prints a partition: the rows are pairwise disjoint partial
assignments, every assignment whose value passes the filter is covered, and the result
column of a covering row is the diagram's value.
-/
import Rsbdd.Model.Cli
import Rsbdd.Proofs.Robdd

namespace Rsbdd
namespace Cli
open BDD

def cellOk : Cell → Bool → Bool
  | .any, _ => true
  | .t, x => x
  | .f, x => !x

/-- the partial assignment `cells` (over the columns `cols`) covers the total assignment σ -/
def Covers (cells : List Cell) (cols : List Nat) (σ : Asg) : Prop :=
  ∀ i, cellOk (cells.getD i .any) (σ (cols.getD i 0)) = true

theorem colOf_some {cols : List Nat} {s i : Nat} (h : colOf cols s = some i) :
    i < cols.length ∧ cols.getD i 0 = s := by
  induction cols generalizing i with
  | nil => simp [colOf] at h
  | cons c cs ih =>
    simp only [colOf] at h
    split at h
    · cases h; rename_i hc; simp [hc]
    · simp only [Option.map_eq_some_iff] at h
      obtain ⟨j, hj, rfl⟩ := h
      obtain ⟨h1, h2⟩ := ih hj
      refine ⟨by simp; omega, ?_⟩
      simpa [List.getD_cons_succ] using h2

theorem colOf_of_mem {cols : List Nat} {s : Nat} (h : s ∈ cols) : ∃ i, colOf cols s = some i := by
  induction cols with
  | nil => simp at h
  | cons c cs ih =>
    simp only [colOf]
    split
    · exact ⟨0, rfl⟩
    · rename_i hne
      simp at h
      rcases h with rfl | h
      · exact absurd rfl hne
      · obtain ⟨i, hi⟩ := ih h; exact ⟨i + 1, by simp [hi]⟩

theorem getD_set {vars : List Cell} {i j : Nat} {c : Cell} :
    (vars.set i c).getD j .any = if j = i ∧ i < vars.length then c else vars.getD j .any := by
  simp only [List.getD_eq_getElem?_getD, List.getElem?_set]
  by_cases hji : i = j
  · subst hji
    by_cases hl : i < vars.length
    · simp [hl]
    · simp [hl]
  · have : ¬ (j = i ∧ i < vars.length) := fun h => hji h.1.symm
    simp [hji, this]

/-- fixing the (so far unassigned) column of `s` to a value refines the covered set by `σ s` -/
theorem covers_set {vars : List Cell} {cols : List Nat} {σ : Asg} {i s : Nat} (x : Bool)
    (hi : i < vars.length) (hs : cols.getD i 0 = s) (hany : vars.getD i .any = .any) :
    Covers (vars.set i (if x then .t else .f)) cols σ ↔ (Covers vars cols σ ∧ σ s = x) := by
  constructor
  · intro h
    constructor
    · intro j
      by_cases hj : j = i
      · subst hj; rw [hany]; rfl
      · have := h j
        rw [getD_set] at this
        simpa [hj] using this
    · have := h i
      rw [getD_set, hs] at this
      simp [hi] at this
      cases x <;> simpa [cellOk] using this
  · rintro ⟨h, hx⟩ j
    rw [getD_set]
    by_cases hj : j = i
    · subst hj
      rw [hs, hx]
      cases x <;> simp [hi, cellOk]
    · simp [hj]; exact h j

structure TableSpec (cols : List Nat) (flt : Filter) (b : BDD) (vars : List Cell) (rs : List Row) : Prop where
  /-- every assignment compatible with `vars` whose value passes the filter is covered -/
  cover : ∀ σ, Covers vars cols σ → Filter.passes flt (eval b σ) = true →
    ∃ r ∈ rs, Covers r.cells cols σ
  /-- a covering row refines `vars`, shows the diagram's value, and passes the filter -/
  sound : ∀ r ∈ rs, ∀ σ, Covers r.cells cols σ →
    Covers vars cols σ ∧ r.result = eval b σ ∧ Filter.passes flt r.result = true
  /-- no two rows cover a common assignment -/
  disjoint : rs.Pairwise (fun r r' => ∀ σ, ¬ (Covers r.cells cols σ ∧ Covers r'.cells cols σ))

theorem tableRows_spec (cols : List Nat) (flt : Filter) :
    ∀ (b : BDD) (lo : Nat) (vars : List Cell), OrdFrom lo b → (∀ v ∈ support b, v ∈ cols) →
      vars.length = cols.length → (∀ j, lo ≤ cols.getD j 0 → vars.getD j .any = .any) →
      ∃ rs, tableRows cols flt b vars = some rs ∧ TableSpec cols flt b vars rs := by
  intro b
  induction b with
  | F =>
    intro lo vars _ _ _ _
    refine ⟨_, rfl, ?_⟩
    cases hp : Filter.passes flt false
    · simp only [Bool.false_eq_true, if_false]
      exact ⟨fun σ _ h => by simp [hp] at h, fun r hr => by simp at hr, List.Pairwise.nil⟩
    · simp only [if_true]
      refine ⟨fun σ hc _ => ⟨⟨vars, false⟩, by simp, hc⟩, fun r hr σ hc => ?_, List.pairwise_singleton _ _⟩
      simp at hr; subst hr; exact ⟨hc, rfl, hp⟩
  | T =>
    intro lo vars _ _ _ _
    refine ⟨_, rfl, ?_⟩
    cases hp : Filter.passes flt true
    · simp only [Bool.false_eq_true, if_false]
      exact ⟨fun σ _ h => by simp [hp] at h, fun r hr => by simp at hr, List.Pairwise.nil⟩
    · simp only [if_true]
      refine ⟨fun σ hc _ => ⟨⟨vars, true⟩, by simp, hc⟩, fun r hr σ hc => ?_, List.pairwise_singleton _ _⟩
      simp at hr; subst hr; exact ⟨hc, rfl, hp⟩
  | node l s r ihl ihr =>
    intro lo vars ho hsup hlen hany
    obtain ⟨hlo, hol, hor⟩ := ho
    obtain ⟨i, hi⟩ := colOf_of_mem (hsup s (by simp [support]))
    obtain ⟨hil, his⟩ := colOf_some hi
    have hiv : i < vars.length := by omega
    have hanyi : vars.getD i .any = .any := hany i (by rw [his]; exact hlo)
    have hany' : ∀ (c : Cell) j, s + 1 ≤ cols.getD j 0 → (vars.set i c).getD j .any = .any := by
      intro c j hj
      rw [getD_set]
      by_cases hji : j = i
      · subst hji; rw [his] at hj; omega
      · simp [hji]; exact hany j (by omega)
    obtain ⟨rsF, hF, sF⟩ := ihr (s + 1) (vars.set i .f) hor
      (fun v hv => hsup v (by simp [support, hv])) (by simp [hlen]) (hany' .f)
    obtain ⟨rsT, hT, sT⟩ := ihl (s + 1) (vars.set i .t) hol
      (fun v hv => hsup v (by simp [support, hv])) (by simp [hlen]) (hany' .t)
    refine ⟨rsF ++ rsT, by simp [tableRows, hi, hF, hT], ?_⟩
    have cF : ∀ σ : Asg, Covers (vars.set i .f) cols σ ↔ (Covers vars cols σ ∧ σ s = false) := fun σ => by
      have := covers_set (vars := vars) (cols := cols) (σ := σ) (i := i) (s := s) false hiv his hanyi
      simpa using this
    have cT : ∀ σ : Asg, Covers (vars.set i .t) cols σ ↔ (Covers vars cols σ ∧ σ s = true) := fun σ => by
      have := covers_set (vars := vars) (cols := cols) (σ := σ) (i := i) (s := s) true hiv his hanyi
      simpa using this
    refine ⟨?_, ?_, ?_⟩
    · intro σ hc hp
      rw [eval_node] at hp
      cases hσ : σ s
      · simp [hσ] at hp
        obtain ⟨r', hr', hcr⟩ := sF.cover σ ((cF σ).mpr ⟨hc, hσ⟩) hp
        exact ⟨r', by simp [hr'], hcr⟩
      · simp [hσ] at hp
        obtain ⟨r', hr', hcr⟩ := sT.cover σ ((cT σ).mpr ⟨hc, hσ⟩) hp
        exact ⟨r', by simp [hr'], hcr⟩
    · intro r' hr' σ hcr
      simp at hr'
      rcases hr' with hr' | hr'
      · obtain ⟨h1, h2, h3⟩ := sF.sound r' hr' σ hcr
        obtain ⟨h4, h5⟩ := (cF σ).mp h1
        exact ⟨h4, by rw [h2, eval_node, h5]; simp, h3⟩
      · obtain ⟨h1, h2, h3⟩ := sT.sound r' hr' σ hcr
        obtain ⟨h4, h5⟩ := (cT σ).mp h1
        exact ⟨h4, by rw [h2, eval_node, h5]; simp, h3⟩
    · rw [List.pairwise_append]
      refine ⟨sF.disjoint, sT.disjoint, ?_⟩
      intro a ha b hb σ ⟨hca, hcb⟩
      have h1 := ((cF σ).mp (sF.sound a ha σ hca).1).2
      have h2 := ((cT σ).mp (sT.sound b hb σ hcb).1).2
      rw [h1] at h2; exact absurd h2 (by simp)

end Cli
end Rsbdd
