/-
Termination of the evaluator on monotone fixed points.

Every iterate of a fixed-point loop is an ordered reduced diagram over the finitely many
variables of the formula; for a monotone body the iterates form a chain (ascending from
`false`, descending from `true`), each step that does not stop the loop changes the number of
satisfying assignments over those variables strictly, so the loop stops within 2^|S| rounds.
-/
import Rsbdd.Thm.C01

namespace Rsbdd
open BDD Formula

/-! ### assignments over a finite set of variables -/

theorem eval_congr_support : ∀ (b : BDD) (σ σ' : Asg), (∀ v ∈ support b, σ v = σ' v) → eval b σ = eval b σ'
  | F, _, _, _ => rfl
  | T, _, _, _ => rfl
  | node t v f, σ, σ', h => by
    have hv := h v (by simp [support])
    have ht := eval_congr_support t σ σ' (fun w hw => h w (by simp [support, hw]))
    have hf := eval_congr_support f σ σ' (fun w hw => h w (by simp [support, hw]))
    simp only [eval, hv, ht, hf]

/-- σ outside `S` forgotten -/
def restrict (S : List Nat) (σ : Asg) : Asg := fun v => if v ∈ S then σ v else false

/-- all assignments that are false outside `S` -/
def assignments : List Nat → List Asg
  | [] => [fun _ => false]
  | v :: vs => (assignments vs).flatMap (fun σ =>
      [fun w => if w = v then false else σ w, fun w => if w = v then true else σ w])

theorem restrict_mem (σ : Asg) : ∀ S : List Nat, restrict S σ ∈ assignments S
  | [] => by
    have : restrict [] σ = fun _ => false := by funext v; simp [restrict]
    simp [assignments, this]
  | v :: vs => by
    simp only [assignments, List.mem_flatMap]
    refine ⟨restrict vs σ, restrict_mem σ vs, ?_⟩
    cases hσ : σ v with
    | false =>
      have : restrict (v :: vs) σ = fun w => if w = v then false else restrict vs σ w := by
        funext w
        by_cases hw : w = v
        · subst hw; simp [restrict, hσ]
        · simp [restrict, hw]
      rw [this]; simp
    | true =>
      have : restrict (v :: vs) σ = fun w => if w = v then true else restrict vs σ w := by
        funext w
        by_cases hw : w = v
        · subst hw; simp [restrict, hσ]
        · simp [restrict, hw]
      rw [this]; simp

theorem length_flatMap_pair {α β : Type} (l : List α) (f g : α → β) :
    (l.flatMap (fun x => [f x, g x])).length = 2 * l.length := by
  induction l with
  | nil => rfl
  | cons x xs ih => simp only [List.flatMap_cons, List.length_append, ih, List.length_cons, List.length_nil]; omega

theorem assignments_length : ∀ S : List Nat, (assignments S).length = 2 ^ S.length
  | [] => rfl
  | v :: vs => by
    simp only [assignments, length_flatMap_pair, assignments_length vs, List.length_cons, Nat.pow_succ]
    omega

/-- the number of assignments over `S` under which `b` is true -/
def satCount (S : List Nat) (b : BDD) : Nat := ((assignments S).filter (fun σ => eval b σ)).length

theorem satCount_le (S : List Nat) (b : BDD) : satCount S b ≤ 2 ^ S.length := by
  unfold satCount
  rw [← assignments_length S]
  exact List.length_filter_le _ _

theorem filter_len_mono {α : Type} {p q : α → Bool} : ∀ (l : List α), (∀ x ∈ l, p x = true → q x = true) →
    (l.filter p).length ≤ (l.filter q).length
  | [], _ => by simp
  | x :: xs, h => by
    have ih := filter_len_mono xs (fun y hy => h y (by simp [hy]))
    simp only [List.filter_cons]
    cases hp : p x with
    | false =>
      simp only [Bool.false_eq_true, if_false]
      split
      · simp only [List.length_cons]; omega
      · exact ih
    | true =>
      have hq := h x (by simp) hp
      simp only [hq, if_true, List.length_cons]
      omega

theorem filter_len_strict {α : Type} {p q : α → Bool} : ∀ (l : List α), (∀ x ∈ l, p x = true → q x = true) →
    (∃ x ∈ l, p x = false ∧ q x = true) → (l.filter p).length < (l.filter q).length
  | [], _, h => by obtain ⟨x, hx, _⟩ := h; cases hx
  | x :: xs, h, ⟨y, hy, hpy, hqy⟩ => by
    have hmono := filter_len_mono xs (fun z hz => h z (by simp [hz]))
    simp only [List.filter_cons]
    rcases List.mem_cons.mp hy with rfl | hy'
    · simp only [hpy, hqy, Bool.false_eq_true, if_false, if_true, List.length_cons]
      omega
    · have ih := filter_len_strict xs (fun z hz => h z (by simp [hz])) ⟨y, hy', hpy, hqy⟩
      cases hp : p x with
      | false =>
        simp only [Bool.false_eq_true, if_false]
        split
        · simp only [List.length_cons]; omega
        · exact ih
      | true =>
        have hq := h x (by simp) hp
        simp only [hq, if_true, List.length_cons]
        omega

/-- a strictly larger function over `S` has strictly more satisfying assignments over `S` -/
theorem satCount_lt {S : List Nat} {a b : BDD} (ra : ROBDD a) (rb : ROBDD b)
    (hsa : ∀ z ∈ support a, z ∈ S) (hsb : ∀ z ∈ support b, z ∈ S)
    (hle : ∀ σ, eval a σ = true → eval b σ = true) (hne : a ≠ b) : satCount S a < satCount S b := by
  have hex : ∃ σ, eval a σ ≠ eval b σ := by
    apply Classical.byContradiction
    intro hno
    apply hne
    exact canonical_from ra.1 ra.2 rb.1 rb.2 (fun σ => Classical.byContradiction (fun h => hno ⟨σ, h⟩))
  obtain ⟨σ0, h0⟩ := hex
  have ha0 : eval a σ0 = false := by
    cases h : eval a σ0 with
    | false => rfl
    | true => exact absurd (by rw [h, hle σ0 h]) h0
  have hb0 : eval b σ0 = true := by
    cases h : eval b σ0 with
    | true => rfl
    | false => exact absurd (by rw [ha0, h]) h0
  have hra : eval a (restrict S σ0) = eval a σ0 :=
    eval_congr_support a _ _ (fun v hv => by simp [restrict, hsa v hv])
  have hrb : eval b (restrict S σ0) = eval b σ0 :=
    eval_congr_support b _ _ (fun v hv => by simp [restrict, hsb v hv])
  exact filter_len_strict _ (fun σ _ h => hle σ h) ⟨restrict S σ0, restrict_mem σ0 S, by rw [hra, ha0], by rw [hrb, hb0]⟩

/-! ### the loop stops when a measure decreases -/

theorem fpLoop_total {t : BDD → Option BDD} {Q : BDD → Prop} {m : BDD → Nat}
    (h : ∀ y, Q y → ∃ y', t y = some y' ∧ (y' = y ∨ (Q y' ∧ m y' < m y))) :
    ∀ (k : Nat) (a : BDD), Q a → m a < k → ∃ s, fpLoop t k a = some s := by
  intro k
  induction k with
  | zero => intro a _ hk; omega
  | succ k ih =>
    intro a qa hk
    obtain ⟨y', hy', hcase⟩ := h a qa
    simp only [fpLoop, hy']
    rcases hcase with rfl | ⟨qy, hm⟩
    · exact ⟨y', by simp⟩
    · by_cases he : y' = a
      · exact ⟨a, by simp [he]⟩
      · simp only [he, if_false]
        exact ih y' qy (by omega)

/-! ### all variables of a formula, binders ignored -/

mutual
/-- `z` occurs in `f` as a variable or is tested by a diagram leaf of `f` -/
def Vars (z : Nat) : Formula → Prop
  | .var v => v = z
  | .quant _ _ f => Vars z f
  | .ite a b c => Vars z a ∨ Vars z b ∨ Vars z c
  | .not f => Vars z f
  | .bin _ a b => Vars z a ∨ Vars z b
  | .cntConst _ fs _ => VarsL z fs
  | .cntVar _ l r => VarsL z l ∨ VarsL z r
  | .fix _ _ f => Vars z f
  | .subtree b => z ∈ support b
  | .true_ => False
  | .false_ => False
  | .ref _ => False
def VarsL (z : Nat) : List Formula → Prop
  | [] => False
  | f :: fs => Vars z f ∨ VarsL z fs
end

mutual
theorem leafV_vars (z : Nat) : ∀ f : Formula, LeafV z f → Vars z f
  | .var _, h => by simp [LeafV] at h
  | .true_, h => by simp [LeafV] at h
  | .false_, h => by simp [LeafV] at h
  | .ref _, h => by simp [LeafV] at h
  | .subtree _, h => by simpa [LeafV, Vars] using h
  | .not f, h => by simp only [LeafV, Vars] at h ⊢; exact leafV_vars z f h
  | .quant _ _ f, h => by simp only [LeafV, Vars] at h ⊢; exact leafV_vars z f h.2
  | .fix _ _ f, h => by simp only [LeafV, Vars] at h ⊢; exact leafV_vars z f h
  | .bin _ a b, h => by
    simp only [LeafV, Vars] at h ⊢
    exact h.imp (leafV_vars z a) (leafV_vars z b)
  | .ite a b c, h => by
    simp only [LeafV, Vars] at h ⊢
    exact h.imp (leafV_vars z a) (Or.imp (leafV_vars z b) (leafV_vars z c))
  | .cntConst _ fs _, h => by simp only [LeafV, Vars] at h ⊢; exact leafVL_varsL z fs h
  | .cntVar _ l r, h => by
    simp only [LeafV, Vars] at h ⊢
    exact h.imp (leafVL_varsL z l) (leafVL_varsL z r)
theorem leafVL_varsL (z : Nat) : ∀ fs : List Formula, LeafVL z fs → VarsL z fs
  | [], h => by simp [LeafVL] at h
  | f :: fs, h => by
    simp only [LeafVL, VarsL] at h ⊢
    exact h.imp (leafV_vars z f) (leafVL_varsL z fs)
end

mutual
theorem fv_vars (z : Nat) : ∀ f : Formula, FV z f → Vars z f
  | .var _, h => by simpa [FV, Vars] using h
  | .true_, h => by simp [FV] at h
  | .false_, h => by simp [FV] at h
  | .ref _, h => by simp [FV] at h
  | .subtree _, h => by simpa [FV, Vars] using h
  | .not f, h => by simp only [FV, Vars] at h ⊢; exact fv_vars z f h
  | .quant _ _ f, h => by simp only [FV, Vars] at h ⊢; exact fv_vars z f h.2
  | .fix _ _ f, h => by
    simp only [FV, Vars] at h ⊢
    rcases h with h | h
    · exact fv_vars z f h.2
    · exact leafV_vars z f h
  | .bin _ a b, h => by
    simp only [FV, Vars] at h ⊢
    exact h.imp (fv_vars z a) (fv_vars z b)
  | .ite a b c, h => by
    simp only [FV, Vars] at h ⊢
    exact h.imp (fv_vars z a) (Or.imp (fv_vars z b) (fv_vars z c))
  | .cntConst _ fs _, h => by simp only [FV, Vars] at h ⊢; exact fvl_varsL z fs h
  | .cntVar _ l r, h => by
    simp only [FV, Vars] at h ⊢
    exact h.imp (fvl_varsL z l) (fvl_varsL z r)
theorem fvl_varsL (z : Nat) : ∀ fs : List Formula, FVL z fs → VarsL z fs
  | [], h => by simp [FVL] at h
  | f :: fs, h => by
    simp only [FVL, VarsL] at h ⊢
    exact h.imp (fv_vars z f) (fvl_varsL z fs)
end

mutual
theorem vars_replaceVar (z x : Nat) (y : BDD) :
    ∀ t : Formula, Vars z (replaceVar x (.subtree y) t) → Vars z t ∨ z ∈ support y
  | .var v, h => by
    by_cases hv : v = x
    · simp only [replaceVar, hv, if_true, Vars] at h; exact Or.inr h
    · simp only [replaceVar, hv, if_false] at h; exact Or.inl h
  | .true_, h => by simp [replaceVar, Vars] at h
  | .false_, h => by simp [replaceVar, Vars] at h
  | .ref _, h => by simp [replaceVar, Vars] at h
  | .subtree _, h => by simp only [replaceVar] at h; exact Or.inl h
  | .not f, h => by simp only [replaceVar, Vars] at h ⊢; exact vars_replaceVar z x y f h
  | .quant q vs f, h => by
    by_cases hc : vs.contains x = true
    · simp only [replaceVar, hc, if_true] at h; exact Or.inl h
    · have hf : vs.contains x = false := by simpa using hc
      simp only [replaceVar, hf, Bool.false_eq_true, if_false, Vars] at h ⊢
      exact vars_replaceVar z x y f h
  | .fix v i f, h => by
    by_cases hv : v = x
    · simp only [replaceVar, hv, if_true] at h; exact Or.inl h
    · simp only [replaceVar, hv, if_false, Vars] at h ⊢
      exact vars_replaceVar z x y f h
  | .bin _ a b, h => by
    simp only [replaceVar, Vars] at h ⊢
    rcases h with h | h
    · exact (vars_replaceVar z x y a h).imp Or.inl id
    · exact (vars_replaceVar z x y b h).imp Or.inr id
  | .ite a b c, h => by
    simp only [replaceVar, Vars] at h ⊢
    rcases h with h | h | h
    · exact (vars_replaceVar z x y a h).imp Or.inl id
    · exact (vars_replaceVar z x y b h).imp (fun k => Or.inr (Or.inl k)) id
    · exact (vars_replaceVar z x y c h).imp (fun k => Or.inr (Or.inr k)) id
  | .cntConst _ fs _, h => by
    simp only [replaceVar, Vars] at h ⊢
    exact varsL_replaceVarL z x y fs h
  | .cntVar _ l r, h => by
    simp only [replaceVar, Vars] at h ⊢
    rcases h with h | h
    · exact (varsL_replaceVarL z x y l h).imp Or.inl id
    · exact (varsL_replaceVarL z x y r h).imp Or.inr id
theorem varsL_replaceVarL (z x : Nat) (y : BDD) :
    ∀ fs : List Formula, VarsL z (replaceVarL x (.subtree y) fs) → VarsL z fs ∨ z ∈ support y
  | [], h => by simp [replaceVarL, VarsL] at h
  | f :: fs, h => by
    simp only [replaceVarL, VarsL] at h ⊢
    rcases h with h | h
    · exact (vars_replaceVar z x y f h).imp Or.inl id
    · exact (varsL_replaceVarL z x y fs h).imp Or.inr id
end

mutual
theorem depth_replaceVar (x : Nat) (y : BDD) : ∀ t : Formula, depth (replaceVar x (.subtree y) t) = depth t
  | .var v => by by_cases hv : v = x <;> simp [replaceVar, hv, depth]
  | .true_ => rfl
  | .false_ => rfl
  | .ref _ => rfl
  | .subtree _ => rfl
  | .not f => by simp only [replaceVar, depth, depth_replaceVar x y f]
  | .quant q vs f => by
    by_cases hc : vs.contains x = true
    · simp only [replaceVar, hc, if_true]
    · have hf : vs.contains x = false := by simpa using hc
      simp only [replaceVar, hf, Bool.false_eq_true, if_false, depth, depth_replaceVar x y f]
  | .fix v i f => by
    by_cases hv : v = x
    · simp only [replaceVar, hv, if_true]
    · simp only [replaceVar, hv, if_false, depth, depth_replaceVar x y f]
  | .bin _ a b => by simp only [replaceVar, depth, depth_replaceVar x y a, depth_replaceVar x y b]
  | .ite a b c => by
    simp only [replaceVar, depth, depth_replaceVar x y a, depth_replaceVar x y b, depth_replaceVar x y c]
  | .cntConst _ fs _ => by simp only [replaceVar, depth, depthL_replaceVarL x y fs]
  | .cntVar _ l r => by simp only [replaceVar, depth, depthL_replaceVarL x y l, depthL_replaceVarL x y r]
theorem depthL_replaceVarL (x : Nat) (y : BDD) : ∀ fs : List Formula, depthL (replaceVarL x (.subtree y) fs) = depthL fs
  | [] => rfl
  | f :: fs => by simp only [replaceVarL, depthL, depth_replaceVar x y f, depthL_replaceVarL x y fs]
end

mutual
theorem ordLeaves_of_good : ∀ f : Formula, GoodF f → OrdLeaves f
  | .var _, _ => trivial
  | .true_, _ => trivial
  | .false_, _ => trivial
  | .ref _, _ => trivial
  | .subtree _, h => by simp only [GoodF] at h; exact h.1
  | .not f, h => by simp only [GoodF, OrdLeaves] at h ⊢; exact ordLeaves_of_good f h
  | .quant _ _ f, h => by simp only [GoodF, OrdLeaves] at h ⊢; exact ordLeaves_of_good f h
  | .fix _ _ f, h => by simp only [GoodF, OrdLeaves] at h ⊢; exact ordLeaves_of_good f h.1
  | .bin _ a b, h => by
    simp only [GoodF, OrdLeaves] at h ⊢; exact ⟨ordLeaves_of_good a h.1, ordLeaves_of_good b h.2⟩
  | .ite a b c, h => by
    simp only [GoodF, OrdLeaves] at h ⊢
    exact ⟨ordLeaves_of_good a h.1, ordLeaves_of_good b h.2.1, ordLeaves_of_good c h.2.2⟩
  | .cntConst _ fs _, h => by simp only [GoodF, OrdLeaves] at h ⊢; exact ordLeavesL_of_goodL fs h
  | .cntVar _ l r, h => by
    simp only [GoodF, OrdLeaves] at h ⊢; exact ⟨ordLeavesL_of_goodL l h.1, ordLeavesL_of_goodL r h.2⟩
theorem ordLeavesL_of_goodL : ∀ fs : List Formula, GoodFL fs → OrdLeavesL fs
  | [], _ => trivial
  | f :: fs, h => by
    simp only [GoodFL, OrdLeavesL] at h ⊢; exact ⟨ordLeaves_of_good f h.1, ordLeavesL_of_goodL fs h.2⟩
end


mutual
theorem depth_pos : ∀ f : Formula, 1 ≤ depth f
  | .var _ => by simp [depth]
  | .true_ => by simp [depth]
  | .false_ => by simp [depth]
  | .ref _ => by simp [depth]
  | .subtree _ => by simp [depth]
  | .not _ => by simp [depth]
  | .quant _ _ _ => by simp [depth]
  | .fix _ _ _ => by simp [depth]
  | .bin _ _ _ => by simp [depth]
  | .ite _ _ _ => by simp [depth]
  | .cntConst _ _ _ => by simp [depth]
  | .cntVar _ _ _ => by simp [depth]
theorem depthL_pos : ∀ fs : List Formula, 1 ≤ depthL fs
  | [] => by simp [depthL]
  | _ :: _ => by simp [depthL]
end

theorem support_free {iters fuel : Nat} {f : Formula} {b : BDD} (hg : GoodF f)
    (h : evalF iters fuel f = some b) : ∀ z ∈ support b, Vars z f :=
  fun z hz => fv_vars z f (((support_free_aux iters fuel).1 f b (ordLeaves_of_good f hg) h).2 z hz)

/-- one fixed-point loop: if every round returns (on iterates over `S`), the loop stops within
`2^|S| + 1` rounds -/
theorem fix_total (S : List Nat) (iters : Nat) (x : Nat) (init : Bool) (t : Formula)
    (hg : GoodF (.fix x init t)) (hS : ∀ z, Vars z t → z ∈ S)
    (hstep : ∀ y, ROBDD y → (∀ z ∈ support y, z ∈ S) →
      ∃ y', evalF iters (depth t) (replaceVar x (.subtree y) t) = some y') :
    ∃ b, fpLoop (fun y => evalF iters (depth t) (replaceVar x (.subtree y) t)) (2 ^ S.length + 1)
      (BDD.mkConst init) = some b := by
  simp only [GoodF] at hg
  obtain ⟨hgt, hmono⟩ := hg
  have hΦ := hmono FEnv.empty
  -- what one round does to an iterate over S
  have round : ∀ y, ROBDD y → (∀ z ∈ support y, z ∈ S) →
      ∃ y', evalF iters (depth t) (replaceVar x (.subtree y) t) = some y' ∧ ROBDD y' ∧
        (∀ z ∈ support y', z ∈ S) ∧ den y' = bodyFn t x FEnv.empty (den y) := by
    intro y ry sy
    obtain ⟨y', hy'⟩ := hstep y ry sy
    have hg' := goodF_replaceVar x ry t hgt
    have hd := (evalF_sound_aux iters (depth t)).1 _ y' hg' hy'
    refine ⟨y', hy', hd.1, ?_, step_den hd⟩
    intro z hz
    rcases vars_replaceVar z x y t (support_free hg' hy' z hz) with h | h
    · exact hS z h
    · exact sy z h
  cases init with
  | false =>
    apply fpLoop_total (Q := fun y => ROBDD y ∧ (∀ z ∈ support y, z ∈ S) ∧
        Pred.le (den y) (bodyFn t x FEnv.empty (den y)))
      (m := fun y => 2 ^ S.length - satCount S y)
    · rintro y ⟨ry, sy, cy⟩
      obtain ⟨y', hy', ry', sy', dy'⟩ := round y ry sy
      refine ⟨y', hy', ?_⟩
      by_cases he : y' = y
      · exact Or.inl he
      · right
        refine ⟨⟨ry', sy', ?_⟩, ?_⟩
        · rw [dy']; exact hΦ _ _ cy
        · have hlt : satCount S y < satCount S y' :=
            satCount_lt ry ry' sy sy' (fun σ h => by
              have := cy σ h; rw [← dy'] at this; exact this) (fun e => he e.symm)
          have hle' := satCount_le S y'
          exact Nat.sub_lt_sub_left (Nat.lt_of_lt_of_le hlt hle') hlt
    · refine ⟨⟨trivial, trivial⟩, by simp [BDD.mkConst, support], ?_⟩
      intro σ h; simp [den, BDD.mkConst] at h
    · exact Nat.lt_succ_of_le (Nat.sub_le _ _)
  | true =>
    apply fpLoop_total (Q := fun y => ROBDD y ∧ (∀ z ∈ support y, z ∈ S) ∧
        Pred.le (bodyFn t x FEnv.empty (den y)) (den y))
      (m := fun y => satCount S y)
    · rintro y ⟨ry, sy, cy⟩
      obtain ⟨y', hy', ry', sy', dy'⟩ := round y ry sy
      refine ⟨y', hy', ?_⟩
      by_cases he : y' = y
      · exact Or.inl he
      · right
        refine ⟨⟨ry', sy', ?_⟩, ?_⟩
        · rw [dy']; exact hΦ _ _ cy
        · exact satCount_lt ry' ry sy' sy (fun σ h => by
            have h' : den y' σ := h
            rw [dy'] at h'; exact cy σ h') he
    · refine ⟨⟨trivial, trivial⟩, by simp [BDD.mkConst, support], ?_⟩
      intro σ _; simp [den, BDD.mkConst]
    · exact Nat.lt_succ_of_le (satCount_le S (BDD.mkConst true))


/-- termination: with `2^|S| + 1` rounds per loop and fuel `depth f`, the evaluator returns on
every good formula (monotone fixed-point bodies, canonical diagram leaves) over the variables `S` -/
theorem evalF_total_aux (S : List Nat) : ∀ n : Nat,
    (∀ f, depth f ≤ n → GoodF f → (∀ z, Vars z f → z ∈ S) →
      ∃ b, evalF (2 ^ S.length + 1) (depth f) f = some b) ∧
    (∀ fs, depthL fs ≤ n → GoodFL fs → (∀ z, VarsL z fs → z ∈ S) →
      ∃ bs, evalFL (2 ^ S.length + 1) (depthL fs) fs = some bs) := by
  intro n
  induction n with
  | zero =>
    exact ⟨fun f h => by have := depth_pos f; omega, fun fs h => by have := depthL_pos fs; omega⟩
  | succ n ih =>
    obtain ⟨ihF, ihL⟩ := ih
    constructor
    · intro f hd hg hS
      cases f with
      | false_ => exact ⟨BDD.mkConst false, by simp [depth, evalF]⟩
      | true_ => exact ⟨BDD.mkConst true, by simp [depth, evalF]⟩
      | var v => exact ⟨BDD.var v, by simp [depth, evalF]⟩
      | ref _ => exact ⟨BDD.mkConst false, by simp [depth, evalF]⟩
      | subtree c => exact ⟨c, by simp [depth, evalF]⟩
      | not g =>
        simp only [depth] at hd
        obtain ⟨c, hc⟩ := ihF g (by omega) (by simpa [GoodF] using hg) (fun z hz => hS z (by simpa [Vars] using hz))
        exact ⟨BDD.not c, by simp [depth, evalF, hc]⟩
      | quant q vs g =>
        simp only [depth] at hd
        obtain ⟨c, hc⟩ := ihF g (by omega) (by simpa [GoodF] using hg) (fun z hz => hS z (by simpa [Vars] using hz))
        cases q
        · exact ⟨BDD.exists_ vs c, by simp [depth, evalF, hc]⟩
        · exact ⟨BDD.all vs c, by simp [depth, evalF, hc]⟩
      | cntConst op fs k =>
        simp only [depth] at hd
        obtain ⟨c, hc⟩ := ihL fs (by omega) (by simpa [GoodF] using hg) (fun z hz => hS z (by simpa [Vars] using hz))
        exact ⟨cntConstApply op c k, by simp [depth, evalF, hc]⟩
      | cntVar op l r =>
        simp only [depth] at hd
        simp only [GoodF] at hg
        obtain ⟨c, hc⟩ := ihL l (by omega) hg.1 (fun z hz => hS z (by simp [Vars, hz]))
        obtain ⟨d, hd'⟩ := ihL r (by omega) hg.2 (fun z hz => hS z (by simp [Vars, hz]))
        have h1 := C01.evalFL_fuel_mono _ (Nat.le_max_left (depthL l) (depthL r)) l c hc
        have h2 := C01.evalFL_fuel_mono _ (Nat.le_max_right (depthL l) (depthL r)) r d hd'
        exact ⟨_, by simp only [depth]; exact evalF_cntVar_some h1 h2⟩
      | ite c t e =>
        simp only [depth] at hd
        simp only [GoodF] at hg
        obtain ⟨bc, hc⟩ := ihF c (by omega) hg.1 (fun z hz => hS z (by simp [Vars, hz]))
        obtain ⟨bt, ht⟩ := ihF t (by omega) hg.2.1 (fun z hz => hS z (by simp [Vars, hz]))
        obtain ⟨be, he⟩ := ihF e (by omega) hg.2.2 (fun z hz => hS z (by simp [Vars, hz]))
        have h1 := C01.evalF_fuel_mono _ (fuel' := max (depth c) (max (depth t) (depth e))) (by omega) c bc hc
        have h2 := C01.evalF_fuel_mono _ (fuel' := max (depth c) (max (depth t) (depth e))) (by omega) t bt ht
        have h3 := C01.evalF_fuel_mono _ (fuel' := max (depth c) (max (depth t) (depth e))) (by omega) e be he
        exact ⟨_, by simp only [depth]; exact evalF_ite_some h1 h2 h3⟩
      | bin op l r =>
        simp only [depth] at hd
        simp only [GoodF] at hg
        obtain ⟨bl, hl⟩ := ihF l (by omega) hg.1 (fun z hz => hS z (by simp [Vars, hz]))
        obtain ⟨br, hr⟩ := ihF r (by omega) hg.2 (fun z hz => hS z (by simp [Vars, hz]))
        have h1 := C01.evalF_fuel_mono _ (Nat.le_max_left (depth l) (depth r)) l bl hl
        have h2 := C01.evalF_fuel_mono _ (Nat.le_max_right (depth l) (depth r)) r br hr
        exact ⟨_, by simp only [depth]; exact evalF_bin_some h1 h2⟩
      | fix x init t =>
        simp only [depth] at hd
        have hSt : ∀ z, Vars z t → z ∈ S := fun z hz => hS z (by simpa [Vars] using hz)
        have hgt : GoodF t := by simp only [GoodF] at hg; exact hg.1
        have := fix_total S (2 ^ S.length + 1) x init t hg hSt (by
          intro y ry sy
          have hdep := depth_replaceVar x y t
          have := ihF (replaceVar x (.subtree y) t) (by omega) (goodF_replaceVar x ry t hgt) (by
            intro z hz
            rcases vars_replaceVar z x y t hz with h | h
            · exact hSt z h
            · exact sy z h)
          rwa [hdep] at this)
        obtain ⟨b, hb⟩ := this
        exact ⟨b, by simp only [depth, evalF]; exact hb⟩
    · intro fs hd hg hS
      cases fs with
      | nil => exact ⟨[], by simp [depthL, evalFL]⟩
      | cons f fs =>
        simp only [depthL] at hd
        simp only [GoodFL] at hg
        obtain ⟨b, hb⟩ := ihF f (by omega) hg.1 (fun z hz => hS z (by simp [VarsL, hz]))
        obtain ⟨bs, hbs⟩ := ihL fs (by omega) hg.2 (fun z hz => hS z (by simp [VarsL, hz]))
        have h1 := C01.evalF_fuel_mono _ (Nat.le_max_left (depth f) (depthL fs)) f b hb
        have h2 := C01.evalFL_fuel_mono _ (Nat.le_max_right (depth f) (depthL fs)) fs bs hbs
        exact ⟨_, by simp only [depthL]; exact evalFL_cons_some h1 h2⟩


/-! ### the iteration budget is only a budget -/

theorem evalF_iters_mono_aux (i : Nat) : ∀ fuel : Nat,
    (∀ f b, evalF i fuel f = some b → evalF (i + 1) fuel f = some b) ∧
    (∀ fs bs, evalFL i fuel fs = some bs → evalFL (i + 1) fuel fs = some bs) := by
  intro fuel
  induction fuel with
  | zero => exact ⟨fun f b h => by simp [evalF] at h, fun fs bs h => by simp [evalFL] at h⟩
  | succ n ih =>
    obtain ⟨ihF, ihL⟩ := ih
    constructor
    · intro f b h
      cases f with
      | false_ => simpa [evalF] using h
      | true_ => simpa [evalF] using h
      | var v => simpa [evalF] using h
      | ref _ => simpa [evalF] using h
      | subtree _ => simpa [evalF] using h
      | not g =>
        simp only [evalF, Option.map_eq_some_iff] at h ⊢
        obtain ⟨c, hc, rfl⟩ := h; exact ⟨c, ihF g c hc, rfl⟩
      | quant q vs g =>
        cases q <;> simp only [evalF, Option.map_eq_some_iff] at h ⊢ <;>
          (obtain ⟨c, hc, rfl⟩ := h; exact ⟨c, ihF g c hc, rfl⟩)
      | cntConst op fs k =>
        simp only [evalF, Option.map_eq_some_iff] at h ⊢
        obtain ⟨c, hc, rfl⟩ := h; exact ⟨c, ihL fs c hc, rfl⟩
      | cntVar op l r =>
        simp only [evalF] at h
        split at h
        · rename_i bl br hl hr
          cases h
          exact evalF_cntVar_some (ihL l bl hl) (ihL r br hr)
        · simp at h
      | ite c t e =>
        simp only [evalF] at h
        split at h
        · rename_i bc bt be hc ht he
          cases h
          exact evalF_ite_some (ihF c bc hc) (ihF t bt ht) (ihF e be he)
        · simp at h
      | bin op l r =>
        simp only [evalF] at h
        split at h
        · rename_i bl br hl hr
          cases h
          exact evalF_bin_some (ihF l bl hl) (ihF r br hr)
        · simp at h
      | fix x init t =>
        simp only [evalF] at h ⊢
        have key : ∀ k a s,
            fpLoop (fun y => evalF i n (replaceVar x (.subtree y) t)) k a = some s →
            fpLoop (fun y => evalF (i + 1) n (replaceVar x (.subtree y) t)) (k + 1) a = some s := by
          intro k
          induction k with
          | zero => intro a s h; simp [fpLoop] at h
          | succ k ihk =>
            intro a s h
            rw [fpLoop] at h
            rw [fpLoop]
            split at h
            · simp at h
            · rename_i snew hs
              simp only [ihF _ snew hs]
              split at h
              · rename_i he; simp [he]; simpa using h
              · rename_i he; simp only [he, if_false]; exact ihk snew s h
        exact key i _ b h
    · intro fs bs h
      cases fs with
      | nil => simpa [evalFL] using h
      | cons f fs =>
        simp only [evalFL] at h
        split at h
        · rename_i b bs' hb hbs
          cases h
          exact evalFL_cons_some (ihF f b hb) (ihL fs bs' hbs)
        · simp at h

/-- a larger iteration budget never changes an answer -/
theorem evalF_iters_mono {i i' : Nat} (hle : i ≤ i') (fuel : Nat) (f : Formula) (b : BDD)
    (h : evalF i fuel f = some b) : evalF i' fuel f = some b := by
  induction hle with
  | refl => exact h
  | step _ ih => exact (evalF_iters_mono_aux _ fuel).1 f b ih

/-! ### every variable of a formula, as a list -/

mutual
def varsList : Formula → List Nat
  | .var v => [v]
  | .quant _ _ f => varsList f
  | .ite a b c => varsList a ++ varsList b ++ varsList c
  | .not f => varsList f
  | .bin _ a b => varsList a ++ varsList b
  | .cntConst _ fs _ => varsListL fs
  | .cntVar _ l r => varsListL l ++ varsListL r
  | .fix _ _ f => varsList f
  | .subtree b => support b
  | .true_ => []
  | .false_ => []
  | .ref _ => []
def varsListL : List Formula → List Nat
  | [] => []
  | f :: fs => varsList f ++ varsListL fs
end

mutual
theorem mem_varsList (z : Nat) : ∀ f : Formula, Vars z f → z ∈ varsList f
  | .var _, h => by simp only [Vars] at h; simp [varsList, h]
  | .true_, h => by simp [Vars] at h
  | .false_, h => by simp [Vars] at h
  | .ref _, h => by simp [Vars] at h
  | .subtree _, h => by simpa [Vars, varsList] using h
  | .not f, h => by simp only [Vars, varsList] at h ⊢; exact mem_varsList z f h
  | .quant _ _ f, h => by simp only [Vars, varsList] at h ⊢; exact mem_varsList z f h
  | .fix _ _ f, h => by simp only [Vars, varsList] at h ⊢; exact mem_varsList z f h
  | .bin _ a b, h => by
    simp only [Vars, varsList, List.mem_append] at h ⊢
    exact h.imp (mem_varsList z a) (mem_varsList z b)
  | .ite a b c, h => by
    simp only [Vars, varsList, List.mem_append] at h ⊢
    rcases h with h | h | h
    · exact Or.inl (Or.inl (mem_varsList z a h))
    · exact Or.inl (Or.inr (mem_varsList z b h))
    · exact Or.inr (mem_varsList z c h)
  | .cntConst _ fs _, h => by simp only [Vars, varsList] at h ⊢; exact mem_varsListL z fs h
  | .cntVar _ l r, h => by
    simp only [Vars, varsList, List.mem_append] at h ⊢
    exact h.imp (mem_varsListL z l) (mem_varsListL z r)
theorem mem_varsListL (z : Nat) : ∀ fs : List Formula, VarsL z fs → z ∈ varsListL fs
  | [], h => by simp [VarsL] at h
  | f :: fs, h => by
    simp only [VarsL, varsListL, List.mem_append] at h ⊢
    exact h.imp (mem_varsList z f) (mem_varsListL z fs)
end

/-- TERMINATION: on every formula whose fixed-point bodies are monotone (and whose diagram leaves
are canonical) the evaluator returns within `2^(number of variable occurrences) + 1` rounds per
loop and recursion depth `depth f`, and what it returns denotes the formula -/
theorem evalF_total (f : Formula) (hg : GoodF f) :
    ∃ b, evalF (2 ^ (varsList f).length + 1) (depth f) f = some b ∧
      ROBDD b ∧ ∀ σ, (eval b σ = true ↔ Sem f FEnv.empty σ) := by
  obtain ⟨b, hb⟩ := (evalF_total_aux (varsList f) (depth f)).1 f (Nat.le_refl _) hg (fun z hz => mem_varsList z f hz)
  exact ⟨b, hb, (evalF_sound_aux _ _).1 f b hg hb⟩

end Rsbdd
