import Rsbdd.Proofs.CliqueLex3
namespace Rsbdd
open Parser C11 Gen.Clique
open Gen.Sudoku (joinComma)
open Gen.Queens (comment)

theorem forallsp_eq : "forall ".toList = "forall".toList ++ [' '] := rfl
theorem hashopen_eq : " # (\n".toList = [' ', '#', ' ', '(', '\n'] := rfl
theorem impl_eq : ") => [".toList = [')', ' ', '=', '>', ' ', '['] := rfl
theorem geq_eq : "] >= [".toList = [']', ' ', '>', '=', ' ', '['] := rfl
theorem closenl_eq : "]\n".toList = [']', '\n'] := rfl
theorem indtrue_eq : "  true".toList = ' ' :: ' ' :: "true".toList := rfl
theorem trueamp_eq : "true &\n".toList = "true".toList ++ [' ', '&', '\n'] := rfl
theorem truenl_eq : "true\n".toList = "true".toList ++ ['\n'] := rfl

/-- the lexemes of the own constraints -/
def ownLex (nm : Nat → List Char) (comp : List (Nat × Nat)) : List Lexeme :=
  if comp.isEmpty then [Lexeme.ident "true", Lexeme.sym .and]
  else comp.flatMap (fun p => pairLex (nm p.1) (nm p.2) ++ [Lexeme.sym .and])

/-- the lexemes of the maximality part -/
def maxLex (nm cp : Nat → List Char) (comp : List (Nat × Nat)) (vs : List Nat) : List Lexeme :=
  Lexeme.ident "forall" :: namesLex (vs.map cp) ++ [Lexeme.sym .hash, Lexeme.sym .openParen] ++
    (if comp.isEmpty then [Lexeme.ident "true"] else copiesLex cp comp) ++
    [Lexeme.sym .closeParen, Lexeme.sym .implies, Lexeme.sym .openSquare] ++ namesLex (vs.map nm) ++
    [Lexeme.sym .closeSquare, Lexeme.sym .geq, Lexeme.sym .openSquare] ++ namesLex (vs.map cp) ++ [Lexeme.sym .closeSquare]

theorem lex_own (nm : Nat → List Char) (comp : List (Nat × Nat)) (rest : List Char)
    (h : ∀ p ∈ comp, WordOk (nm p.1) ∧ WordOk (nm p.2)) :
    lexAll (chs ((if comp.isEmpty then "true &\n".toList
      else comp.flatMap (fun p => '-' :: '(' :: nm p.1 ++ " & ".toList ++ nm p.2 ++ ") &\n".toList)) ++ rest)) =
      ownLex nm comp ++ lexAll (chs rest) := by
  unfold ownLex
  by_cases he : comp.isEmpty = true
  · simp only [he, if_true, trueamp_eq, List.append_assoc, List.cons_append, List.nil_append]
    rw [lex_word _ true_wordOk ' ' notWord_space]
    simp only [chs_cons]
    rw [lexAll_cons, step_space]; simp only [Option.toList_none, List.nil_append]
    rw [lexAll_cons, step_amp]; simp only [Option.toList_some, List.cons_append, List.nil_append]
    rw [lexAll_cons, step_nl]; simp only [Option.toList_none, List.nil_append]
    rfl
  · simp only [he, Bool.false_eq_true, if_false]
    exact lex_ownLines nm comp rest h

theorem lex_max (nm cp : Nat → List Char) (comp : List (Nat × Nat)) (vs : List Nat)
    (hn : ∀ v ∈ vs, WordOk (nm v)) (hc : ∀ v ∈ vs, WordOk (cp v))
    (hcomp : ∀ p ∈ comp, WordOk (cp p.1) ∧ WordOk (cp p.2)) :
    lexAll (chs ("forall ".toList ++ joinComma (vs.map cp) ++ " # (\n".toList ++
      (if comp.isEmpty then "  true".toList
       else joinAmp (comp.map (fun p => "  -(".toList ++ cp p.1 ++ " & ".toList ++ cp p.2 ++ [')']))) ++ ['\n'] ++
      ") => [".toList ++ joinComma (vs.map nm) ++ "] >= [".toList ++ joinComma (vs.map cp) ++ "]\n".toList)) =
      maxLex nm cp comp vs := by
  have hcs : ∀ w ∈ vs.map cp, WordOk w := by
    intro w hw; obtain ⟨v, hv, rfl⟩ := List.mem_map.mp hw; exact hc v hv
  have hns : ∀ w ∈ vs.map nm, WordOk w := by
    intro w hw; obtain ⟨v, hv, rfl⟩ := List.mem_map.mp hw; exact hn v hv
  simp only [forallsp_eq, hashopen_eq, impl_eq, geq_eq, closenl_eq, List.append_assoc, List.cons_append, List.nil_append]
  rw [lex_word _ forall_wordOk ' ' notWord_space]
  simp only [chs_cons]
  rw [lexAll_cons, step_space]; simp only [Option.toList_none, List.nil_append]
  have e1 := lex_names ' ' notWord_space (vs.map cp)
  rw [e1 _ hcs]
  simp only [chs_cons]
  rw [lexAll_cons, step_space]; simp only [Option.toList_none, List.nil_append]
  rw [lexAll_cons, step_hash]; simp only [Option.toList_some, List.cons_append, List.nil_append]
  rw [lexAll_cons, step_space]; simp only [Option.toList_none, List.nil_append]
  rw [lexAll_cons, step_openP]; simp only [Option.toList_some, List.cons_append, List.nil_append]
  rw [lexAll_cons, step_nl]; simp only [Option.toList_none, List.nil_append]
  -- the tail after the antecedent
  have tail : ∀ rest : List Char, rest = [] →
      lexAll (chs (')' :: ' ' :: '=' :: '>' :: ' ' :: '[' :: (joinComma (vs.map nm) ++
        (']' :: ' ' :: '>' :: '=' :: ' ' :: '[' :: (joinComma (vs.map cp) ++ (']' :: '\n' :: rest)))))) =
      [Lexeme.sym .closeParen, Lexeme.sym .implies, Lexeme.sym .openSquare] ++ namesLex (vs.map nm) ++
        [Lexeme.sym .closeSquare, Lexeme.sym .geq, Lexeme.sym .openSquare] ++ namesLex (vs.map cp) ++ [Lexeme.sym .closeSquare] := by
    intro rest hr
    subst hr
    simp only [chs_cons]
    rw [lexAll_cons, step_closeP]; simp only [Option.toList_some, List.cons_append, List.nil_append]
    rw [lexAll_cons, step_space]; simp only [Option.toList_none, List.nil_append]
    rw [lexAll_cons, step_implies]; simp only [Option.toList_some, List.cons_append, List.nil_append]
    rw [lexAll_cons, step_space]; simp only [Option.toList_none, List.nil_append]
    rw [lexAll_cons, step_open]; simp only [Option.toList_some, List.cons_append, List.nil_append]
    have e2 := lex_names ']' notWord_closeB (vs.map nm)
    rw [e2 _ hns]
    simp only [chs_cons]
    rw [lexAll_cons, step_close]; simp only [Option.toList_some, List.cons_append, List.nil_append]
    rw [lexAll_cons, step_space]; simp only [Option.toList_none, List.nil_append]
    rw [lexAll_cons, step_geq]; simp only [Option.toList_some, List.cons_append, List.nil_append]
    rw [lexAll_cons, step_space]; simp only [Option.toList_none, List.nil_append]
    rw [lexAll_cons, step_open]; simp only [Option.toList_some, List.cons_append, List.nil_append]
    have e3 := lex_names ']' notWord_closeB (vs.map cp)
    rw [e3 _ hcs]
    simp only [chs_cons, chs_nil]
    rw [lexAll_cons, step_close]; simp only [Option.toList_some, List.cons_append, List.nil_append]
    rw [lexAll_cons, step_nl]; simp [lexAll_nil]
  unfold maxLex
  by_cases he : comp.isEmpty = true
  · simp only [he, if_true, indtrue_eq, List.cons_append, List.append_assoc]
    simp only [chs_cons]
    rw [lexAll_cons, step_space]; simp only [Option.toList_none, List.nil_append]
    rw [lexAll_cons, step_space]; simp only [Option.toList_none, List.nil_append]
    rw [lex_word _ true_wordOk '\n' notWord_nl]
    rw [lex_nl, tail [] rfl]
    simp
  · simp only [he, Bool.false_eq_true, if_false]
    have hcp := lex_copies cp comp (')' :: ' ' :: '=' :: '>' :: ' ' :: '[' :: (joinComma (vs.map nm) ++
        (']' :: ' ' :: '>' :: '=' :: ' ' :: '[' :: (joinComma (vs.map cp) ++ [']', '\n'])))) hcomp
    simp only [List.append_assoc] at hcp
    rw [hcp, tail [] rfl]
    simp

end Rsbdd
