import Rsbdd.Proofs.DotRead4
import Rsbdd.Proofs.CliRead6
namespace Rsbdd.DotText
open Cli.Text (splitAcc allSome splitAcc_segs allSome_map allSome_append filterMap_some' filterMap_const_none)

structure GraphOk (g : TextGraph) : Prop where
  name : IdOk g.name
  nodes : ∀ n ∈ g.nodes, IdOk n.1
  edges : ∀ e ∈ g.edges, IdOk e.1 ∧ IdOk e.2.1

def headerBody (g : TextGraph) : List Char := ['d', 'i', 'g', 'r', 'a', 'p', 'h', ' '] ++ g.name ++ [' ', '{']

def bodies (g : TextGraph) : List (List Char) :=
  headerBody g :: (g.nodes.map (fun n => (nodeLine n).dropLast) ++ g.edges.map (fun e => (edgeLine e).dropLast) ++ [['}']])

theorem nodeLine_split (n : List Char × List Char) : nodeLine n = (nodeLine n).dropLast ++ ['\n'] := by
  have : nodeLine n = (indent ++ n.1 ++ (['[', 'l', 'a', 'b', 'e', 'l', '=', '"'] ++ escape n.2 ++ ['"', ']', ';'])) ++ ['\n'] := by
    simp [nodeLine, labelAttr]
  rw [this, List.dropLast_concat]

theorem edgeLine_split (e : List Char × List Char × List Char) : edgeLine e = (edgeLine e).dropLast ++ ['\n'] := by
  have : edgeLine e = (indent ++ e.1 ++ arrow ++ e.2.1 ++ (['[', 'l', 'a', 'b', 'e', 'l', '=', '"'] ++ escape e.2.2 ++ ['"', ']', ';'])) ++ ['\n'] := by
    simp [edgeLine, labelAttr]
  rw [this, List.dropLast_concat]

theorem render_eq (g : TextGraph) : render g = (bodies g).flatMap (· ++ ['\n']) := by
  unfold render bodies headerBody
  simp only [List.flatMap_cons, List.flatMap_append, List.flatMap_map, List.flatMap_nil, List.append_nil]
  have e1 : g.nodes.flatMap nodeLine = g.nodes.flatMap (fun n => (nodeLine n).dropLast ++ ['\n']) := by
    congr 1; funext n; exact nodeLine_split n
  have e2 : g.edges.flatMap edgeLine = g.edges.flatMap (fun e => (edgeLine e).dropLast ++ ['\n']) := by
    congr 1; funext e; exact edgeLine_split e
  rw [e1, e2]
  simp [List.append_assoc]

theorem nl_not_mem_id {s : List Char} (h : IdOk s) : '\n' ∉ s := fun hm => (idChar_not_special (h _ hm)).2.2 rfl

theorem nl_not_mem_bodies (g : TextGraph) (ok : GraphOk g) : ∀ l ∈ bodies g, '\n' ∉ l := by
  intro l hl
  simp only [bodies, List.mem_cons, List.mem_append, List.mem_map, List.not_mem_nil, or_false] at hl
  rcases hl with rfl | (⟨n, hn, rfl⟩ | ⟨e, he, rfl⟩) | rfl
  · intro h
    simp only [headerBody, List.mem_append, List.mem_cons, List.not_mem_nil, or_false] at h
    rcases h with (h | h) | h
    · revert h; decide
    · exact nl_not_mem_id ok.name h
    · revert h; decide
  · intro h
    have hd : (nodeLine n).dropLast = indent ++ n.1 ++ (['[', 'l', 'a', 'b', 'e', 'l', '=', '"'] ++ escape n.2 ++ ['"', ']', ';']) := by
      have : nodeLine n = (indent ++ n.1 ++ (['[', 'l', 'a', 'b', 'e', 'l', '=', '"'] ++ escape n.2 ++ ['"', ']', ';'])) ++ ['\n'] := by
        simp [nodeLine, labelAttr]
      rw [this, List.dropLast_concat]
    rw [hd] at h
    simp only [indent, List.mem_append, List.mem_cons, List.not_mem_nil, or_false] at h
    rcases h with (h | h) | (h | h) | h
    · revert h; decide
    · exact nl_not_mem_id (ok.nodes n hn) h
    · revert h; decide
    · exact nl_not_mem_escape _ h
    · revert h; decide
  · intro h
    have hd : (edgeLine e).dropLast = indent ++ e.1 ++ arrow ++ e.2.1 ++ (['[', 'l', 'a', 'b', 'e', 'l', '=', '"'] ++ escape e.2.2 ++ ['"', ']', ';']) := by
      have : edgeLine e = (indent ++ e.1 ++ arrow ++ e.2.1 ++ (['[', 'l', 'a', 'b', 'e', 'l', '=', '"'] ++ escape e.2.2 ++ ['"', ']', ';'])) ++ ['\n'] := by
        simp [edgeLine, labelAttr]
      rw [this, List.dropLast_concat]
    rw [hd] at h
    simp only [indent, arrow, List.mem_append, List.mem_cons, List.not_mem_nil, or_false] at h
    rcases h with (((h | h) | h) | h) | (h | h) | h
    · revert h; decide
    · exact nl_not_mem_id (ok.edges e he).1 h
    · revert h; decide
    · exact nl_not_mem_id (ok.edges e he).2 h
    · revert h; decide
    · exact nl_not_mem_escape _ h
    · revert h; decide
  · decide

end Rsbdd.DotText
