import Rsbdd.Proofs.Reimport3
namespace Rsbdd.C11
open Parser Cli BDD Formula

/-- a printed name, read again: every character with the class the regex crate gives it -/
def reCh (clsOf : Char → Cls) (n : String) : List Ch := n.toList.map (fun c => ⟨c, clsOf c⟩)

/-- what `-r` prints: one name per line -/
def exportText (clsOf : Char → Cls) (names : List String) : List Ch :=
  names.flatMap (fun n => reCh clsOf n ++ [⟨'\n', clsOf '\n'⟩])

theorem reCh_chars (clsOf : Char → Cls) (w : List Ch) (h : ∀ x ∈ w, x.cls = clsOf x.c) : reCh clsOf (chars w) = w := by
  unfold reCh chars
  rw [String.toList_ofList, List.map_map]
  induction w with
  | nil => rfl
  | cons x w ih =>
    simp only [List.map_cons, Function.comp]
    rw [ih (fun y hy => h y (by simp [hy]))]
    congr 1
    have := h x (by simp)
    cases x; simp at this ⊢; exact this.symm

theorem chars_reCh (clsOf : Char → Cls) (n : String) : chars (reCh clsOf n) = n := by
  unfold reCh chars
  rw [List.map_map]
  have : ((fun x : Ch => x.c) ∘ fun c => (⟨c, clsOf c⟩ : Ch)) = id := by funext c; rfl
  rw [this, List.map_id, String.ofList_toList]

theorem newline_sep (clsOf : Char → Cls) (hnl : clsOf '\n' = .other) : Sep ⟨'\n', clsOf '\n'⟩ := by
  refine ⟨?_, (by decide : '\n' ∉ symHeads), ?_, (by decide : '\n' ≠ '{'), (by decide : '\n' ≠ '"')⟩
  · simp [Ch.wordLike, hnl]
  · simp [hnl]

theorem flatMap_length_ge (sep : Ch) : ∀ (ws : List (List Ch)), (∀ w ∈ ws, w ≠ []) →
    2 * ws.length ≤ (ws.flatMap (fun w => w ++ [sep])).length
  | [], _ => by simp
  | w :: ws, h => by
    have := flatMap_length_ge sep ws (fun w' hw' => h w' (by simp [hw']))
    have hw : 1 ≤ w.length := by
      cases w with
      | nil => exact absurd rfl (h [] (by simp))
      | cons _ _ => simp
    simp only [List.flatMap_cons, List.length_append, List.length_cons, List.length_nil]
    omega

/-- the names in the variable list of a parsed text are name lexemes of that text -/
theorem vars_are_idents {cs : List Ch} {o1 : List (String × Nat)} {ts1 : List Token} {p1 : ParsedInfo}
    (clsOf : Char → Cls) (hbr : clsOf '{' = .other) (hcls : ∀ x ∈ cs, x.cls = clsOf x.c)
    (ho1 : OrderingOk o1) (ht1 : tokenize cs o1 = some ts1) (hp1 : newWithEnv ts1 = some p1) :
    ∀ n ∈ p1.vars.map (·.1), NotKeyword n ∧ IdentW (reCh clsOf n) ∧
      ∀ x, (reCh clsOf n).head? = some x → x.c ≠ '{' := by
  intro n hn
  obtain ⟨⟨n', id⟩, hmem, rfl⟩ := List.mem_map.mp hn
  have hvar : Token.var n' id ∈ ts1 := ((C09.vars_spec ho1 ht1 hp1).2.2 n' id).mpr hmem
  unfold tokenize at ht1
  simp only [Option.map_eq_some_iff] at ht1
  obtain ⟨ts0, htok, rfl⟩ := ht1
  have hvar0 : Token.var n' id ∈ ts0 := by
    rcases List.mem_append.mp hvar with h | h
    · exact h
    · simp at h
  obtain ⟨hid, hk⟩ := toTokens_var_origin _ _ _ n' id (scan_symsOk _ _) htok hvar0
  obtain ⟨w, hw, hI, hc⟩ := scan_ident (fun x => x.cls = clsOf x.c) _ cs n' hcls hid
  simp only
  rw [hw, reCh_chars clsOf w hc]
  rw [← hw]
  refine ⟨hk, hI, ?_⟩
  intro x hx hxc
  have hxw : x ∈ w := List.mem_of_mem_head? hx
  have h1 := hI.word x hxw
  have h2 := hc x hxw
  simp [Ch.wordLike, h2, hxc, hbr] at h1

end Rsbdd.C11
