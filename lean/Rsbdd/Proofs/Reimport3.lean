import Rsbdd.Proofs.Reimport2
namespace Rsbdd.C11
open Parser Cli

def NotKeyword (n : String) : Prop := (keywordTable.find? (fun p => p.1 == n)).map (·.2) = none

theorem symsOk_tail {l : Lexeme} {ls : List Lexeme} (h : SymsOk (l :: ls)) : SymsOk ls :=
  fun l' hl' t e => h l' (by simp [hl']) t e

theorem toTokens_var_origin : ∀ (ls : List Lexeme) (vt : VarTable) (ts : List Token) (n : String) (id : Nat),
    SymsOk ls → toTokens ls vt = some ts → Token.var n id ∈ ts → Lexeme.ident n ∈ ls ∧ NotKeyword n
  | [], vt, ts, n, id, _, h, hm => by simp [toTokens] at h; subst h; simp at hm
  | .sym t :: ls, vt, ts, n, id, hs, h, hm => by
    simp only [toTokens, Option.map_eq_some_iff] at h
    obtain ⟨ts', h', rfl⟩ := h
    have ht := hs (.sym t) (by simp) t rfl
    rcases List.mem_cons.mp hm with e | hm'
    · subst e; simp [Token.isVar] at ht
    · have := toTokens_var_origin ls vt ts' n id (symsOk_tail hs) h' hm'
      exact ⟨by simp [this.1], this.2⟩
  | .ref r :: ls, vt, ts, n, id, hs, h, hm => by
    simp only [toTokens, Option.map_eq_some_iff] at h
    obtain ⟨ts', h', rfl⟩ := h
    rcases List.mem_cons.mp hm with e | hm'
    · cases e
    · have := toTokens_var_origin ls vt ts' n id (symsOk_tail hs) h' hm'
      exact ⟨by simp [this.1], this.2⟩
  | .num ds :: ls, vt, ts, n, id, hs, h, hm => by
    simp only [toTokens] at h
    split at h
    · simp at h
    · simp only [Option.map_eq_some_iff] at h
      obtain ⟨ts', h', rfl⟩ := h
      rcases List.mem_cons.mp hm with e | hm'
      · cases e
      · have := toTokens_var_origin ls vt ts' n id (symsOk_tail hs) h' hm'
        exact ⟨by simp [this.1], this.2⟩
  | .ident name :: ls, vt, ts, n, id, hs, h, hm => by
    simp only [toTokens] at h
    split at h
    · rename_i t hk
      simp only [Option.map_eq_some_iff] at h
      obtain ⟨ts', h', rfl⟩ := h
      rcases List.mem_cons.mp hm with e | hm'
      · -- a keyword token is not a variable
        simp only [Option.map_eq_some_iff] at hk
        obtain ⟨p, hp, hpt⟩ := hk
        have := keywordTable_no_var p (List.mem_of_find?_eq_some hp)
        rw [hpt, ← e] at this; simp [Token.isVar] at this
      · have := toTokens_var_origin ls vt ts' n id (symsOk_tail hs) h' hm'
        exact ⟨by simp [this.1], this.2⟩
    · rename_i hk
      split at h
      · simp only [Option.map_eq_some_iff] at h
        obtain ⟨ts', h', rfl⟩ := h
        rcases List.mem_cons.mp hm with e | hm'
        · cases e; exact ⟨by simp, hk⟩
        · have := toTokens_var_origin ls vt ts' n id (symsOk_tail hs) h' hm'
          exact ⟨by simp [this.1], this.2⟩
      · simp only [Option.map_eq_some_iff] at h
        obtain ⟨ts', h', rfl⟩ := h
        rcases List.mem_cons.mp hm with e | hm'
        · cases e; exact ⟨by simp, hk⟩
        · have := toTokens_var_origin ls _ ts' n id (symsOk_tail hs) h' hm'
          exact ⟨by simp [this.1], this.2⟩

/-- distinct non-keyword names that the table does not know are numbered from the counter on -/
theorem toTokens_idents : ∀ (ns : List String) (vt : VarTable),
    ns.Nodup → (∀ n ∈ ns, NotKeyword n ∧ vt.lookup n = none) →
    toTokens (ns.map Lexeme.ident) vt = some ((ns.zipIdx vt.counter).map (fun p => Token.var p.1 p.2))
  | [], vt, _, _ => by simp [toTokens]
  | n :: ns, vt, hnd, h => by
    obtain ⟨hk, hl⟩ := h n (by simp)
    have hnd' := List.nodup_cons.mp hnd
    simp only [List.map_cons, toTokens]
    unfold NotKeyword at hk
    rw [hk]
    simp only [hl]
    rw [toTokens_idents ns _ hnd'.2]
    · simp [List.zipIdx_cons]
    · intro n' hn'
      refine ⟨(h n' (by simp [hn'])).1, ?_⟩
      have hne : n ≠ n' := fun e => hnd'.1 (e ▸ hn')
      have := (h n' (by simp [hn'])).2
      simp only [VarTable.lookup, Option.map_eq_none_iff] at this ⊢
      simp [hne, this]

theorem extractVars_aux : ∀ (ns : List String) (k : Nat) (acc : List (String × Nat)) (tl : List Token),
    (∀ p ∈ acc, p.2 < k) →
    ((ns.zipIdx k).map (fun p => Token.var p.1 p.2) ++ tl).foldl extractStep acc =
    tl.foldl extractStep (acc ++ ns.zipIdx k)
  | [], k, acc, tl, _ => by simp
  | n :: ns, k, acc, tl, h => by
    simp only [List.zipIdx_cons, List.map_cons, List.cons_append, List.foldl_cons]
    have hany : acc.any (fun p => p.2 == k) = false := by
      rw [List.any_eq_false]
      intro p hp; have := h p hp; simp; omega
    simp only [extractStep, hany, Bool.false_eq_true, if_false]
    rw [extractVars_aux ns (k + 1) (acc ++ [(n, k)]) tl]
    · simp
    · intro p hp
      rcases List.mem_append.mp hp with hp | hp
      · have := h p hp; omega
      · simp at hp; subst hp; simp

end Rsbdd.C11
