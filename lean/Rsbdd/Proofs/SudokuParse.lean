import Rsbdd.Proofs.SudokuNames
namespace Rsbdd
open Parser C11 Gen.Sudoku Grammar Formula
open Gen.Queens (natStr comment)

def itemsToks (vid : Nat → Nat → Nat) : List (Nat × Nat) → List Token
  | [] => []
  | [p] => [Token.var (varStr p.1 p.2) (vid p.1 p.2)]
  | p :: q :: r => Token.var (varStr p.1 p.2) (vid p.1 p.2) :: Token.comma :: itemsToks vid (q :: r)

def SLine.toks (vid : Nat → Nat → Nat) : SLine → List Token
  | .hint c d => [Token.var (varStr c d) (vid c d), Token.and]
  | .list cells => Token.openSquare :: itemsToks vid cells ++ [Token.closeSquare, Token.eq, Token.countable 1, Token.and]

def SLine.formula (vid : Nat → Nat → Nat) : SLine → Formula
  | .hint c d => .var (vid c d)
  | .list cells => exactlyOne vid cells

def SLine.cells : SLine → List (Nat × Nat)
  | .hint c d => [(c, d)]
  | .list cells => cells

theorem tokOf_name (vt : VarTable) (c d i : Nat) (h : vt.lookup (varStr c d) = some i) :
    tokOf vt (Lexeme.ident (varStr c d)) = Token.var (varStr c d) i := by
  have hnk := varStr_notKeyword c d
  unfold NotKeyword at hnk
  simp only [tokOf, hnk, h, Option.getD_some]

theorem tok_items (vt : VarTable) (vid : Nat → Nat → Nat) : ∀ (cells : List (Nat × Nat)),
    (∀ p ∈ cells, vt.lookup (varStr p.1 p.2) = some (vid p.1 p.2)) →
    (itemsLex cells).map (tokOf vt) = itemsToks vid cells
  | [], _ => rfl
  | [p], h => by simp [itemsLex, itemsToks, tokOf_name vt p.1 p.2 _ (h p (by simp))]
  | p :: q :: r, h => by
    have ih := tok_items vt vid (q :: r) (fun x hx => h x (by simp [hx]))
    simp only [itemsLex, itemsToks, List.map_cons, tokOf_name vt p.1 p.2 _ (h p (by simp)), ih]
    simp [tokOf]

theorem tok_sline (vt : VarTable) (vid : Nat → Nat → Nat) (l : SLine)
    (h : ∀ p ∈ l.cells, vt.lookup (varStr p.1 p.2) = some (vid p.1 p.2)) :
    (l.lex).map (tokOf vt) = l.toks vid := by
  have h1 : parseNumber [mkCh '1'] = some 1 := by decide
  cases l with
  | hint c d =>
    simp only [SLine.lex, SLine.toks, List.map_cons, List.map_nil, tokOf_name vt c d _ (h (c, d) (by simp [SLine.cells]))]
    simp [tokOf]
  | list cells =>
    simp only [SLine.lex, SLine.toks, List.map_cons, List.map_append, List.map_nil, tok_items vt vid cells h]
    simp [tokOf, h1]

theorem items_sudoku (vid : Nat → Nat → Nat) : ∀ (cells : List (Nat × Nat)),
    Items (itemsToks vid cells) (cells.map (fun p => Formula.var (vid p.1 p.2)))
  | [] => Items.nil
  | [p] => Items.one (Sub.closed Closed.var)
  | p :: q :: r => by
    have := Items.cons (ts := [Token.var (varStr p.1 p.2) (vid p.1 p.2)]) (Sub.closed Closed.var) (items_sudoku vid (q :: r))
    simpa [itemsToks] using this

theorem sub_slines (vid : Nat → Nat → Nat) : ∀ (ls : List SLine),
    Sub (ls.flatMap (SLine.toks vid) ++ [Token.true_]) (ls.foldr (fun l acc => .bin .and (l.formula vid) acc) .true_)
  | [] => Sub.closed Closed.true_
  | l :: ls => by
    have ih := sub_slines vid ls
    cases l with
    | hint c d =>
      have := Sub.bin (Closed.var (n := varStr c d) (id := vid c d)) (o := Token.and) (op := BinOp.and) rfl ih
      simpa [SLine.toks, SLine.formula] using this
    | list cells =>
      have hfl : FList (Token.openSquare :: itemsToks vid cells ++ [Token.closeSquare]) (cells.map (fun p => Formula.var (vid p.1 p.2))) :=
        FList.mk (items_sudoku vid cells)
      have hcl : Closed ((Token.openSquare :: itemsToks vid cells ++ [Token.closeSquare]) ++ [Token.eq, Token.countable 1])
          (Formula.cntConst .exactly (cells.map (fun p => Formula.var (vid p.1 p.2))) 1) := Closed.cntConst hfl rfl
      have := Sub.bin hcl (o := Token.and) (op := BinOp.and) rfl ih
      simpa [SLine.toks, SLine.formula, exactlyOne, List.append_assoc] using this

end Rsbdd
